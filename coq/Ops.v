(* Ops.v — the C++ semantics of the integer operators RLBox defines on tainted values, for the
   LP64 application ABI (integer promotion, usual arithmetic conversions, result type and value,
   None where the plain expression has undefined behaviour), and the operator macros of
   rlbox.hpp (BinaryOpValAndPtr numeric branch, BinaryOp, BooleanBinaryOp, UnaryOp, CompareOp,
   CompoundAssignmentOp, PreIncDecOps, PostIncDecOps, BinaryOpWrappedRhs) on top of it. *)
From RLBoxV Require Export Conv.
Local Open Scope Z_scope.

Inductive bop := OAdd | OSub | OMul | ODiv | ORem | OXor | OAnd | OOr | OShl | OShr
               | OEq | ONe | OLt | OLe | OGt | OGe | OLAnd | OLOr.
Inductive uop := UNeg | UNot.

(* integer promotion *)
Definition promote (k : ikind) : ikind :=
  match k with
  | IBool | IChar | ISChar | IUChar | IShort | IUShort | IChar16 | IWChar => IInt
  | IChar32 => IUInt
  | _ => k
  end.

(* conversion rank among the promoted types *)
Definition rank (k : ikind) : Z :=
  match k with IInt | IUInt => 1 | ILong | IULong => 2 | ILLong | IULLong => 3 | _ => 0 end.

(* usual arithmetic conversions on two promoted types *)
Definition uac (a b : ikind) : ikind :=
  if ikind_eqb a b then a
  else if Bool.eqb (signed a) (signed b) then (if rank a <? rank b then b else a)
  else let u := if signed a then b else a in
       let s := if signed a then a else b in
       if rank s <=? rank u then u
       else if size u <? size s then s
       else make_unsigned s.

Definition common (ka kb : ikind) : ikind := uac (promote ka) (promote kb).

Definition b2z (b : bool) : Z := if b then 1 else 0.

(* result of an arithmetic operation in type c given the mathematical result r:
   unsigned: reduced modulo 2^n; signed: undefined when not representable *)
Definition arith_res (c : ikind) (r : Z) : option (ikind * Z) :=
  if signed c then (if in_range c r then Some (c, r) else None) else Some (c, wrap c r).

(* the plain C++ expression  (ka)va op (kb)vb : result type and value, None = undefined behaviour *)
Definition cop (o : bop) (ka : ikind) (va : Z) (kb : ikind) (vb : Z) : option (ikind * Z) :=
  let c := common ka kb in
  let x := wrap c va in
  let y := wrap c vb in
  match o with
  | OAdd => arith_res c (x + y)
  | OSub => arith_res c (x - y)
  | OMul => arith_res c (x * y)
  | ODiv => if y =? 0 then None else arith_res c (Z.quot x y)
  | ORem => if y =? 0 then None
            else if signed c && (x =? lo c) && (y =? -1) then None
            else Some (c, Z.rem x y)
  | OXor => Some (c, wrap c (Z.lxor x y))
  | OAnd => Some (c, wrap c (Z.land x y))
  | OOr => Some (c, wrap c (Z.lor x y))
  | OShl =>
    let l := promote ka in
    let n := wrap (promote kb) vb in
    let xl := wrap l va in
    if (n <? 0) || (bits l <=? n) then None
    else if signed l then
      (if (xl <? 0) || negb (in_range l (xl * 2 ^ n)) then None else Some (l, xl * 2 ^ n))
    else Some (l, wrap l (xl * 2 ^ n))
  | OShr =>
    let l := promote ka in
    let n := wrap (promote kb) vb in
    let xl := wrap l va in
    if (n <? 0) || (bits l <=? n) then None else Some (l, xl / 2 ^ n)
  | OEq => Some (IBool, b2z (x =? y))
  | ONe => Some (IBool, b2z (negb (x =? y)))
  | OLt => Some (IBool, b2z (x <? y))
  | OLe => Some (IBool, b2z (x <=? y))
  | OGt => Some (IBool, b2z (y <? x))
  | OGe => Some (IBool, b2z (y <=? x))
  | OLAnd => Some (IBool, b2z (negb (va =? 0) && negb (vb =? 0)))
  | OLOr => Some (IBool, b2z (negb (va =? 0) || negb (vb =? 0)))
  end.

Definition cuop (o : uop) (k : ikind) (v : Z) : option (ikind * Z) :=
  let p := promote k in
  match o with
  | UNeg => arith_res p (- v)
  | UNot => Some (p, wrap p (Z.lnot v))
  end.

(* ---------- the wrappers ---------- *)
(* where an operand lives: plain value, tainted (application memory, application type),
   tainted_volatile (sandbox memory, sandbox-equivalent type) *)
Inductive wk := WPlain | WT | WV.

(* reading an operand: a tainted_volatile is converted from its sandbox type (get_raw_value) *)
Definition unwrap (a : abi) (w : wk) (k : ikind) (v : Z) : option (res Z) :=
  match w with
  | WV => to_app a k v          (* v is the stored (sandbox-type) value *)
  | _ => Some (Ok v)
  end.

(* lhs op rhs through the macros: unwrap both, apply the plain operator, wrap in decltype *)
Definition wbin (a : abi) (o : bop) (wa : wk) (ka : ikind) (va : Z) (wb : wk) (kb : ikind) (vb : Z)
  : option (res (option (ikind * Z))) :=
  match unwrap a wa ka va, unwrap a wb kb vb with
  | Some ra, Some rb => Some (x <- ra ;; y <- rb ;; Ok (cop o ka x kb y))
  | _, _ => None
  end.

(* assigning a value r of type c to an object of type k:
   plain / tainted: static_cast (modulo 2^n; bool: != 0);
   tainted_volatile: checked conversion to the sandbox-equivalent type, abort when it does not fit *)
Definition assign (a : abi) (w : wk) (k c : ikind) (r : Z) : option (res Z) :=
  match w with
  | WV => match sbx_equiv a k with Some sk => Some (conv sk c r) | None => None end
  | _ => Some (Ok (wrap k r))
  end.

Definition rsome {A} (x : res A) : res (option A) :=
  match x with Ok v => Ok (Some v) | Abort => Abort | Diverge => Diverge | Fault => Fault end.

(* lhs op= rhs  (CompoundAssignmentOp: this = this op rhs): new stored value of lhs *)
Definition wcompound (a : abi) (o : bop) (wa : wk) (ka : ikind) (va : Z) (wb : wk) (kb : ikind) (vb : Z)
  : option (res (option Z)) :=
  match wbin a o wa ka va wb kb vb with
  | Some (Ok (Some (c, r))) =>
    match assign a wa ka c r with Some x => Some (rsome x) | None => None end
  | Some (Ok None) => Some (Ok None)
  | Some Abort => Some Abort | Some Diverge => Some Diverge | Some Fault => Some Fault
  | None => None
  end.

(* what the plain compound assignment stores: (k)(a op b) *)
Definition ccompound (o : bop) (ka : ikind) (va : Z) (kb : ikind) (vb : Z) : option Z :=
  match cop o ka va kb vb with Some (c, r) => Some (wrap ka r) | None => None end.

(* ++x / --x / x++ / x-- : (value of the expression, new stored value); [post_calls_inc] models the
   defect fixed in PostIncDecOps (both post forms called operator++) *)
Definition cincdec (dec post : bool) (k : ikind) (v : Z) : option (Z * Z) :=
  match cop (if dec then OSub else OAdd) k v IInt 1 with
  | Some (c, r) => let n := wrap k r in Some (if post then v else n, n)
  | None => None
  end.
Definition wincdec (a : abi) (post_calls_inc : bool) (dec post : bool) (w : wk) (k : ikind) (v : Z)
  : option (res (option (Z * Z))) :=
  let dec' := if post && post_calls_inc then false else dec in
  match unwrap a w k v with
  | Some (Ok x) =>
    match cop (if dec' then OSub else OAdd) k x IInt 1 with
    | Some (c, r) =>
      match assign a w k c r with
      | Some (Ok n) => Some (Ok (Some (if post then x else (match w with WV => n | _ => n end), n)))
      | Some Abort => Some Abort | Some _ => Some Fault | None => None
      end
    | None => Some (Ok None)
    end
  | Some Abort => Some Abort | Some _ => Some Fault | None => None
  end.
Definition code_postdec_ok : bool := true.

(* Properties_C19.v — C19: transition notifications bracket every boundary crossing and
   stay balanced.  For EVERY call tree (any depth, any width), every placement of
   unrepresentable argument/result values (abort in argument conversion or result
   conversion, either direction), throwing callback bodies, catching callback bodies,
   every slot table, every thread record.  Statements only. *)
From RLBoxV Require Import Calls Calls_proofs ScopeExit ScopeExit_proofs.

(* well nested: invoke = in ... out, callback = out ... in, closing notification carries the
   same kind, identity and transition state as the opening one; nothing left open *)
Theorem C19_balanced : forall slot_of cb_void g_void cin cout late is_invoke t n,
  nest [] (fst (fst (fst (run slot_of cb_void g_void cin cout late is_invoke t n)))) = Some [].
Proof.
  intros. pose proof (run_good slot_of cb_void g_void cin cout late n is_invoke t) as G.
  destruct (run _ _ _ _ _ _ _ _ _) as [[[evs ab] t'] recs]. cbn in *. apply neutral_nest, G.
Qed.
Print Assumptions C19_balanced.

(* exactly one timing record per crossing, pushed to the vector of the sandbox crossed, in the
   order the crossings end, also when the crossing ends by an abort *)
Theorem C19_one_timing_per_crossing : forall slot_of cb_void g_void cin cout late is_invoke t n,
  let '(evs, ab, t', recs) := run slot_of cb_void g_void cin cout late is_invoke t n in
  recs = closes evs /\ length recs = crossings evs.
Proof.
  intros. pose proof (run_good slot_of cb_void g_void cin cout late n is_invoke t) as G.
  destruct (run _ _ _ _ _ _ _ _ _) as [[[evs ab] t'] recs]. cbn in *. split; apply G.
Qed.
Print Assumptions C19_one_timing_per_crossing.

(* non-vacuity: a tree with an argument abort, a caught abort, a void guest function, a throwing body *)
Theorem C19_example : 
  let slot := fun (s k : nat) => Some (10 * s + k)%nat in
  let t := Node 0 0 5 7 false false
             [Node 1 0 1 2 false true [Node 1 0 (2^40) 0 false false []; Node 1 1 3 4 false false []];
              Node 2 0 1 2 true false []] in
  let cin := fun v : Z => if (v <? 2^31)%Z then Ok v else Abort in
  let '(evs, ab, c, recs) := run slot (fun _ => false) (fun f => Nat.eqb f 1) cin (fun v => Ok v) false true {| cur := 99; lastcb := 0 |} t in
  nest [] evs = Some [] /\ ab = true /\ cur c = 99%nat /\ length recs = 5%nat /\ recs = closes evs.
Proof. exact tree_example. Qed.

(* scope_exit (the guard both crossings use for their closing notification and timing record): under EVERY
   history of move constructions, releases and destructions the exit function never runs twice, and once
   every object of the family is destroyed it has run exactly once unless the guard was released while armed *)
Theorem C19_scope_exit_once : forall ops,
  fired (sx_run ops) <= 1 /\
  (all_destroyed (objs (sx_run ops)) = true ->
   (fired (sx_run ops) = 1 /\ cancelled (sx_run ops) = 0) \/ (fired (sx_run ops) = 0 /\ cancelled (sx_run ops) = 1)).
Proof. intros ops. split; [apply sx_never_twice|apply sx_exactly_once]. Qed.
Print Assumptions C19_scope_exit_once.

(* the per-sandbox transition state reaches the hooks BY REFERENCE: whatever a hook does to the state it is handed
   ([f], any function), the k-th notification of a sandbox observes that sandbox's initial state with [f] applied k
   times - for every event sequence, in particular every run of every call tree *)
Theorem C19_state_by_reference : forall (f : nat -> nat) (init : nat -> nat) evs,
  thread_states f init evs = expected_states f init [] evs.
Proof. intros. apply thread_states_expected. intros s. reflexivity. Qed.
Print Assumptions C19_state_by_reference.

(* Properties_C02.v — C02: application pointers and foreign-sandbox data cannot enter a sandbox
   unchecked.  Compile-time half: composition theorem for EVERY rule table (instantiated per run
   in coq/Gen_Rules_C02.v over the table regenerated from the compiler's verdicts); run-time half:
   the two checked entry points, for every region and every address.  Statements only. *)
From RLBoxV Require Import Typing Typing_proofs Ptr Ptr_proofs.
Local Open Scope Z_scope.

(* if every row satisfies the sink obligation (a sink with a forbidden operand — raw pointer, array of
   raw pointers, raw function pointer, wrapper of another sandbox type, non-conforming callback
   signature, mismatching function-pointer type — does not compile, unless it is a checked entry
   point), then no node of any typable expression puts a forbidden operand into a sink *)
Theorem C02_composition : forall is_sink forbidden checked_entry tbl,
  forallb (sink_ok is_sink forbidden checked_entry) tbl = true ->
  forall e w, ty tbl e = Some w -> sinks_clean is_sink forbidden checked_entry tbl e = true.
Proof. exact composition_sinks. Qed.
Print Assumptions C02_composition.

(* the checked entry points: accepted exactly for addresses inside THAT sandbox's region (null is
   outside every region), and then the stored pointer designates exactly that address (for a
   tainted_volatile target: its representation, which translates back to the address) *)
Theorem C02_runtime_tainted : forall s a,
  (assign_raw_pointer s a = Ok a <-> inr s a = true) /\ (inr s a = false -> assign_raw_pointer s a = Abort).
Proof.
  intros s a. unfold assign_raw_pointer. destruct (inr s a); cbn; repeat split; try congruence; intros; reflexivity.
Qed.
Theorem C02_runtime_volatile : forall s a, region_ok s ->
  (inr s a = true -> assign_raw_pointer_vol s a = Ok (sandbox_ptr s a) /\ (a <> rbase s -> unsandbox s (sandbox_ptr s a) = a)) /\
  (inr s a = false -> assign_raw_pointer_vol s a = Abort).
Proof.
  intros s a Hs. unfold assign_raw_pointer_vol. split; intros H; rewrite H; cbn; [|reflexivity].
  split; [reflexivity|]. intros Hne. apply roundtrip_addr; assumption.
Qed.
Theorem C02_null_is_refused : forall s, region_ok s -> assign_raw_pointer s 0 = Abort /\ assign_raw_pointer_vol s 0 = Abort.
Proof.
  intros s (Hb & _ & _). unfold assign_raw_pointer, assign_raw_pointer_vol, inr.
  destruct (Z.leb_spec (rbase s) 0); [lia|]. cbn. split; reflexivity.
Qed.
Print Assumptions C02_runtime_volatile.

(* Ptr.v — model of everything RLBox does with addresses: the live-region world a
   conforming isolating back end presents (Backend contract), pointer
   representation conversion (rlbox_sandbox.hpp get_[un]sandboxed_pointer[_no_ctx]),
   tainted pointer arithmetic and indexing (rlbox.hpp BinaryOpValAndPtr,
   operator[]), the range check (rlbox_range.hpp), array indexing, and the
   checked raw-pointer entry points.  Definitions only; all arithmetic on
   uintptr_t/size_t is written mod 2^64 exactly as the code computes it. *)
From RLBoxV Require Export Machine.
Local Open Scope Z_scope.

(* ---------- the world: live sandbox regions of one back-end type ---------- *)
Record region := { rbase : Z; rsize : Z }.

Definition inr (r : region) (a : Z) : bool :=
  (rbase r <=? a) && (a <? rbase r + rsize r).

(* the first live region containing [a] (RLBox: find_sandbox_from_example;
   back end: impl_is_in_same_sandbox against its own registry) *)
Fixpoint region_of (l : list region) (a : Z) : option region :=
  match l with
  | [] => None
  | r :: tl => if inr r a then Some r else region_of tl a
  end.

Definition obase (o : option region) : Z := match o with Some r => rbase r | None => 0 end.

(* impl_is_in_same_sandbox: both in the same live region, or both in none *)
Definition same_sbx (l : list region) (a b : Z) : bool :=
  obase (region_of l a) =? obase (region_of l b).

(* the contract RLBox relies on and never checks itself *)
Definition region_ok (r : region) : Prop :=
  0 < rbase r /\ 0 < rsize r /\ rbase r + rsize r <= M64.

Definition disjoint (r1 r2 : region) : Prop :=
  rbase r1 + rsize r1 <= rbase r2 \/ rbase r2 + rsize r2 <= rbase r1.

Fixpoint world_ok (l : list region) : Prop :=
  match l with
  | [] => True
  | r :: tl => region_ok r /\ Forall (disjoint r) tl /\ world_ok tl
  end.

(* the invariant of C03 *)
Definition ptr_inv (s : region) (a : Z) : Prop := a = 0 \/ inr s a = true.

(* ---------- representation conversion (C04) ---------- *)
(* data pointers: rep = address - base, truncated to the representation type
   whose range is exactly the region size (verif16: 2^16, verif32: 2^32) *)
Definition impl_unsandbox (s : region) (r : Z) : Z := rbase s + r.
Definition impl_sandbox (s : region) (a : Z) : Z := (a - rbase s) mod rsize s.

(* rlbox_sandbox::get_unsandboxed_pointer / get_sandboxed_pointer (with context) *)
Definition unsandbox (s : region) (r : Z) : Z := if r =? 0 then 0 else impl_unsandbox s r.
Definition sandbox_ptr (s : region) (a : Z) : Z := if a =? 0 then 0 else impl_sandbox s a.

(* ..._no_ctx: the sandbox is found from an example address through the list of
   live sandboxes; no live sandbox contains the example -> the back end aborts *)
Definition unsandbox_noctx (l : list region) (r ex : Z) : res Z :=
  if r =? 0 then Ok 0 else
  match region_of l ex with Some s => Ok (impl_unsandbox s r) | None => Abort end.
Definition sandbox_ptr_noctx (l : list region) (a ex : Z) : res Z :=
  if a =? 0 then Ok 0 else
  match region_of l ex with Some s => Ok (impl_sandbox s a) | None => Abort end.

(* a pointer cell in sandbox memory at address [cell]: the cell's own address is
   the example (tainted_volatile::get_raw_value / operator=) *)
Definition load_ptr_cell (l : list region) (cell rep : Z) : res Z := unsandbox_noctx l rep cell.
Definition store_ptr_cell (l : list region) (cell a : Z) : res Z := sandbox_ptr_noctx l a cell.

(* ---------- pointer arithmetic (C05) ---------- *)
(* p op n, n of any integer type; the code computes
     uintptr_t(p) op (size_t(n) * sizeof(tainted_volatile<pointee>))   mod 2^64 *)
Definition arith_target (sub : bool) (p n stride : Z) : Z :=
  let prod := w64 (w64 n * stride) in
  if sub then w64 (p - prod) else w64 (p + prod).

Definition ptr_arith (l : list region) (sub : bool) (p n stride : Z) : res Z :=
  _ <- check (negb (p =? 0)) ;;
  let t := arith_target sub p n stride in
  _ <- check (same_sbx l p t) ;;
  Ok t.

(* operator[] on a pointer, and &p[n]: null check added by the fix: commit
   (see known_findings.json "fixed"); [checked_null] = what the code does now *)
Definition ptr_index_gen (checked_null : bool) (l : list region) (p n stride : Z) : res Z :=
  _ <- check (negb checked_null || negb (p =? 0)) ;;
  let t := arith_target false p n stride in
  _ <- check (same_sbx l p t) ;;
  Ok t.

(* what C05 demands: the exact address, when it is inside p's sandbox *)
Definition arith_exact (sub : bool) (p n stride : Z) : Z :=
  if sub then p - n * stride else p + n * stride.

Definition ptr_arith_spec (l : list region) (sub : bool) (p n stride : Z) : res Z :=
  if p =? 0 then Abort else
  let e := arith_exact sub p n stride in
  if (0 <=? e) && (e <? M64) && same_sbx l p e then Ok e else Abort.

(* D3: the product or the sum wraps and lands back inside *)
Definition arith_wraps (sub : bool) (p n stride : Z) : bool :=
  let e := arith_exact sub p n stride in negb ((0 <=? e) && (e <? M64)).

(* field / element address formed through a pointer (operator->, operator*,
   then & of a field or element): plain addition, no check at all *)
(* (native pointer arithmetic: mod 2^64; the wrap only matters once a pointer has already left every sandbox - D5) *)
Definition field_addr (p off : Z) : Z := w64 (p + off).

(* ---------- array indexing (C17) ---------- *)
(* raw_rhs >= 0 && make_unsigned(raw_rhs) < extent ; element address in the
   layout of the memory the array lives in *)
Definition unsigned_of (k : ikind) : ikind :=
  match k with
  | IChar | ISChar | IUChar => IUChar
  | IShort | IUShort | IChar16 => IUShort
  | IInt | IUInt | IChar32 | IWChar => IUInt
  | ILong | IULong => IULong
  | ILLong | IULLong => IULLong
  | IBool => IBool
  end.

Definition arr_index (k : ikind) (n len start elsize : Z) : res Z :=
  _ <- check ((0 <=? n) && (wrap (unsigned_of k) n <? len)) ;;
  Ok (start + n * elsize).

Definition arr_index_spec (n len start elsize : Z) : res Z :=
  if (0 <=? n) && (n <? len) then Ok (start + n * elsize) else Abort.

(* ---------- the range check (C10) ---------- *)
(* [g]: the no-wrap guard added by the fix: commit (size == 0 || end >= start) *)
Definition check_range (g : bool) (l : list region) (p size : Z) : res unit :=
  _ <- check (negb (p =? 0)) ;;
  let e := w64 (p + w64 size - 1) in
  _ <- check (negb g || (w64 size =? 0) || (p <=? e)) ;;
  check (same_sbx l p e).

(* what C10 demands of a checked range [p, p+size): non-null, no wrap, and
   wholly inside one live region or wholly outside every live region *)
Definition range_inside (r : region) (p size : Z) : bool :=
  (rbase r <=? p) && (p + size <=? rbase r + rsize r).
Definition range_outside (r : region) (p size : Z) : bool :=
  (p + size <=? rbase r) || (rbase r + rsize r <=? p).
Definition range_good (l : list region) (p size : Z) : bool :=
  negb (p =? 0) && (0 <? size) && (p + size <=? M64) &&
  (existsb (fun r => range_inside r p size) l || forallb (fun r => range_outside r p size) l).

(* ---------- checked raw-pointer entry points (C02 run-time half) ---------- *)
Definition assign_raw_pointer (s : region) (a : Z) : res Z :=
  _ <- check (inr s a) ;; Ok a.
Definition assign_raw_pointer_vol (s : region) (a : Z) : res Z :=
  _ <- check (inr s a) ;; Ok (sandbox_ptr s a).

(* ---------- malloc_in_sandbox (C03, C10) ---------- *)
(* [created]: lifecycle word is CREATED; [ret] the back end's return value
   (arbitrary); T = application element type of size [elsz] *)
Definition malloc_in_sandbox (l : list region) (s : region) (created : bool) (count elsz ret : Z) : res Z :=
  if negb created then Ok 0 else
  _ <- check (negb (count =? 0)) ;;
  let p := unsandbox s ret in
  if p =? 0 then Ok 0 else
  _ <- check (inr s p) ;;
  _ <- check (same_sbx l p (w64 (p + (count - 1) * elsz))) ;;
  Ok p.

(* get_app_pointer: token -> pseudo pointer, must be inside the sandbox *)
Definition app_pointer_addr (s : region) (idx : Z) : res Z :=
  let a := impl_unsandbox s idx in _ <- check (inr s a) ;; Ok a.

(* ---------- chains of pointer-producing operations (C03) ---------- *)
Inductive pop :=
| OpArith (sub : bool) (n stride : Z)     (* p+n p-n p+=n p-=n ++p p++ --p p-- *)
| OpIndex (n stride : Z)                  (* &p[n] *)
| OpField (off : Z)                       (* &(p->f)  &(( *p)[i])  : unchecked addition *)
| OpElem (i len elsz : Z)                 (* &(( *p)[i]) through a pointer to a fixed array: index check, then addition *)
| OpCast                                  (* sandbox_*_cast, to_opaque/from_opaque, & *p *)
| OpLoadPtr (rep : Z)                     (* q = *pp, the cell holds the adversarial bits rep *)
| OpFromGuest (rep : Z)                   (* call result / callback argument *)
| OpMalloc (count elsz ret : Z)           (* back end returns the arbitrary value ret *)
| OpAssignRaw (a : Z)                     (* assign_raw_pointer / UNSAFE_accept_pointer *)
| OpAppPtr (idx : Z)                      (* get_app_pointer(...).to_tainted() *)
| OpNull.

Definition step_pop (idxchk : bool) (l : list region) (s : region) (p : Z) (o : pop) : res Z :=
  match o with
  | OpArith sub n stride => ptr_arith l sub p n stride
  | OpIndex n stride => ptr_index_gen idxchk l p n stride
  | OpField off => Ok (field_addr p off)
  | OpElem i len elsz => r <- arr_index IULong i len p elsz ;; Ok (w64 r)
  | OpCast => Ok p
  | OpLoadPtr rep => if p =? 0 then Fault else load_ptr_cell l p rep
  | OpFromGuest rep => Ok (unsandbox s rep)
  | OpMalloc count elsz ret => malloc_in_sandbox l s true count elsz ret
  | OpAssignRaw a => assign_raw_pointer s a
  | OpAppPtr idx => app_pointer_addr s idx
  | OpNull => Ok 0
  end.

Fixpoint run_chain (idxchk : bool) (l : list region) (s : region) (p : Z) (ops : list pop) : res Z :=
  match ops with
  | [] => Ok p
  | o :: tl => q <- step_pop idxchk l s p o ;; run_chain idxchk l s q tl
  end.

(* D5: a field/element address formed through null or past the end *)
Definition field_safe (s : region) (p off : Z) : bool := negb (p =? 0) && inr s (p + off).

Fixpoint fields_safe (idxchk : bool) (l : list region) (s : region) (p : Z) (ops : list pop) : bool :=
  match ops with
  | [] => true
  | o :: tl =>
    (match o with
     | OpField off => field_safe s p off
     | OpElem i len elsz => field_safe s p (i * elsz)
     | _ => true end) &&
    match step_pop idxchk l s p o with Ok q => fields_safe idxchk l s q tl | _ => true end
  end.

(* reps an adversarial guest can produce: everything the representation type holds *)
Definition rep_ok (s : region) (o : pop) : bool :=
  match o with
  | OpLoadPtr rep | OpFromGuest rep => (0 <=? rep) && (rep <? rsize s)
  | OpMalloc _ _ ret => (0 <=? ret) && (ret <? rsize s)
  | _ => true
  end.

(* ---------- the operator forms of C05 as the macros define them ---------- *)
Inductive aform := FAdd | FSub | FAddEq | FSubEq | FPreInc | FPostInc | FPreDec | FPostDec | FIndex.

(* result: (value of the expression, value of the operand object afterwards).
   [postdec_ok]: PostIncDecOps(-) calls operator--() (after the fix: commit);
   false = the code before it, where both post forms call operator++(). *)
Definition arith_form (postdec_ok idxchk : bool) (l : list region) (f : aform) (p n stride : Z) : res (Z * Z) :=
  match f with
  | FAdd => q <- ptr_arith l false p n stride ;; Ok (q, p)
  | FSub => q <- ptr_arith l true p n stride ;; Ok (q, p)
  | FAddEq => q <- ptr_arith l false p n stride ;; Ok (q, q)
  | FSubEq => q <- ptr_arith l true p n stride ;; Ok (q, q)
  | FPreInc => q <- ptr_arith l false p 1 stride ;; Ok (q, q)
  | FPreDec => q <- ptr_arith l true p 1 stride ;; Ok (q, q)
  | FPostInc => q <- ptr_arith l false p 1 stride ;; Ok (p, q)
  | FPostDec => q <- ptr_arith l (if postdec_ok then true else false) p 1 stride ;; Ok (p, q)
  | FIndex => q <- ptr_index_gen idxchk l p n stride ;; Ok (q, p)
  end.

Definition arith_form_spec (l : list region) (f : aform) (p n stride : Z) : res (Z * Z) :=
  match f with
  | FAdd => q <- ptr_arith_spec l false p n stride ;; Ok (q, p)
  | FSub => q <- ptr_arith_spec l true p n stride ;; Ok (q, p)
  | FAddEq => q <- ptr_arith_spec l false p n stride ;; Ok (q, q)
  | FSubEq => q <- ptr_arith_spec l true p n stride ;; Ok (q, q)
  | FPreInc => q <- ptr_arith_spec l false p 1 stride ;; Ok (q, q)
  | FPreDec => q <- ptr_arith_spec l true p 1 stride ;; Ok (q, q)
  | FPostInc => q <- ptr_arith_spec l false p 1 stride ;; Ok (p, q)
  | FPostDec => q <- ptr_arith_spec l true p 1 stride ;; Ok (p, q)
  | FIndex => q <- ptr_arith_spec l false p n stride ;; Ok (q, p)
  end.

Definition form_n (f : aform) (n : Z) : Z :=
  match f with FPreInc | FPostInc | FPreDec | FPostDec => 1 | _ => n end.
Definition form_sub (f : aform) : bool :=
  match f with FSub | FSubEq | FPreDec | FPostDec => true | _ => false end.

(* ---------- what /repo's headers do today ----------
   These three constants select, in every model above that takes such a flag,
   the behaviour of the current tree.  They were [false] while the defects D1
   (post-decrement), D4 (operator[] on null) and D6 (range arithmetic wraps)
   were present and are flipped by the corresponding fix: commits. *)
Definition code_postdec_fixed : bool := true.
Definition code_index_nullcheck : bool := true.
Definition code_range_guarded : bool := true.

(* fixed defect D16 (kept as a regression witness): before the fix: commit  n + p  (number first) was computed by the
   INTEGER branch of operator+: native addition to the raw pointer - no null check, no containment check, the
   APPLICATION element size.  After it, n + p is p + n. *)
Definition radd_before_fix (p n appsz : Z) : res Z := Ok (w64 (p + n * appsz)).

(* ---------- operands held in sandbox memory (tainted_volatile): the i-th read of the cell returns [f i]
   (the sandbox may rewrite the cell between two reads) ---------- *)
Definition fetches := nat -> Z.

(* operator[] on a fixed-size array with the index in a tainted_volatile: detail::unwrap_value(rhs) is evaluated once *)
Definition arr_index_cell (k : ikind) (f : fetches) (len start elsize : Z) : res Z :=
  arr_index k (f 0%nat) len start elsize.
(* the variant that checks the first read and addresses with a second one *)
Definition arr_index_cell_refetch (k : ikind) (f : fetches) (len start elsize : Z) : res Z :=
  _ <- check ((0 <=? f 0%nat) && (wrap (unsigned_of k) (f 0%nat) <? len)) ;;
  Ok (start + f 1%nat * elsize).

(* p + *cell, p - *cell, p[*cell]: the operand is unwrapped once *)
Definition ptr_arith_cell (l : list region) (sub : bool) (p : Z) (f : fetches) (stride : Z) : res Z :=
  ptr_arith l sub p (f 0%nat) stride.
(* the variant that checks the address computed from the first read and returns the one computed from a second read *)
Definition ptr_arith_cell_refetch (l : list region) (sub : bool) (p : Z) (f : fetches) (stride : Z) : res Z :=
  _ <- check (negb (p =? 0)) ;;
  _ <- check (same_sbx l p (arith_target sub p (f 0%nat) stride)) ;;
  Ok (arith_target sub p (f 1%nat) stride).

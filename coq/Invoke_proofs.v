(* Invoke_proofs.v — the conversions invoke performs equal what C11 demands, for every
   signature (any number of parameters, nested structs) and every well-typed value *)
From RLBoxV Require Import Invoke Conv_proofs World World_proofs.
Local Open Scope Z_scope.

Fixpoint pkind_ind' (P : pkind -> Prop)
  (Hi : forall k, P (KInt k)) (Hb : P KBits) (Hp : P KPtr) (Hf : P KFn)
  (Hs : forall fs, Forall P fs -> P (KStruct fs)) (p : pkind) : P p :=
  match p with
  | KInt k => Hi k | KBits => Hb | KPtr => Hp | KFn => Hf
  | KStruct fs => Hs fs ((fix go (l : list pkind) : Forall P l :=
                           match l with
                           | [] => Forall_nil P
                           | x :: tl => Forall_cons x (pkind_ind' P Hi Hb Hp Hf Hs x) (go tl)
                           end) fs)
  end.

Section Agree.
Variable a : abi.
Variable s : region.
Hypothesis Ha : abi_ok a = true.

Lemma cv_sv dir p : forall v, wt a dir p v -> cv a s dir p v = sv a s dir p v.
Proof.
  induction p as [k| | | |fs IH] using pkind_ind'; intros v Hw; destruct v as [x|x|vs]; cbn [cv sv]; try reflexivity.
  - cbn [wt] in Hw. destruct dir.
    + unfold to_sbx. destruct (sbx_equiv a k) as [sk|] eqn:He; [|reflexivity].
      rewrite (conv_correct sk k x Hw (proj1 (sbx_equiv_no_n2 a k sk Ha He))).
      unfold conv_spec. destruct (in_range sk x); reflexivity.
    + unfold to_app. destruct (sbx_equiv a k) as [sk|] eqn:He; [|reflexivity].
      rewrite (conv_correct k sk x Hw (proj2 (sbx_equiv_no_n2 a k sk Ha He))).
      unfold conv_spec. destruct (in_range k x); reflexivity.
  - unfold sandbox_ptr, unsandbox, impl_sandbox, impl_unsandbox. destruct (x =? 0); destruct dir; reflexivity.
  - cbn [wt] in Hw.
    match goal with |- match ?A with _ => _ end = match ?B with _ => _ end => assert (E : A = B) end; [|rewrite E; reflexivity].
    revert vs Hw. induction IH as [|f ft Hf Hft IHl]; intros vs Hw; destruct vs as [|x xt]; try reflexivity.
    destruct Hw as [Hx Hxt]. rewrite (IHl xt Hxt). rewrite (Hf x Hx). reflexivity.
Qed.

Lemma cv_sv_list dir ps : forall vs, wt_list a dir ps vs -> cv_list a s dir ps vs = sv_list a s dir ps vs.
Proof.
  induction ps as [|f ft IH]; intros vs Hw; destruct vs as [|x xt]; try reflexivity.
  cbn [cv_list sv_list]. destruct Hw as [Hx Hxt]. rewrite (IH xt Hxt), (cv_sv dir f x Hx). reflexivity.
Qed.

Lemma invoke_correct sig args retk gret :
  wt_list a true sig args ->
  match retk with Some rk => wt a false rk gret | None => True end ->
  invoke a s sig args retk gret = invoke_spec a s sig args retk gret.
Proof.
  intros Hw Hr. unfold invoke, invoke_spec. rewrite (cv_sv_list true sig args Hw).
  destruct (sv_list a s true sig args) as [l|]; [|reflexivity].
  destruct (seq_all l) as [[gs| | |]|]; try reflexivity.
  destruct retk as [rk|]; [|reflexivity]. rewrite (cv_sv false rk gret Hr). reflexivity.
Qed.
End Agree.

(* the guest function is called at most once, and only when every argument is representable:
   by the shape of [inv_out]; the number of calls as a function *)
Definition calls (o : inv_out) : nat := match o with IAbortBefore => 0%nat | ICalled _ _ => 1%nat end.

(* ---------- per-instance symbol caches (World.v) ---------- *)
Lemma lookup_other_instance w i j name : i <> j ->
  get_sb (fst (lookup_op w i name)) j = get_sb w j /\ get_sb (fst (ilookup_op w i name)) j = get_sb w j.
Proof.
  intros Hij. unfold lookup_op, ilookup_op.
  destruct (memZ name (cache (get_sb w i))), (memZ name (icache (get_sb w i))); cbn [fst];
    rewrite ?get_put; repeat split; try reflexivity;
    destruct (Nat.eqb_spec j i); try congruence; try reflexivity.
Qed.

(* the two lookups never feed each other's cache (after the fix: commit for D11) *)
Lemma lookup_kinds_independent w i name :
  icache (get_sb (fst (lookup_op w i name)) i) = icache (get_sb w i) /\
  cache (get_sb (fst (ilookup_op w i name)) i) = cache (get_sb w i).
Proof.
  unfold lookup_op, ilookup_op.
  destruct (memZ name (cache (get_sb w i))), (memZ name (icache (get_sb w i))); cbn [fst];
    rewrite ?get_put; repeat split; try reflexivity;
    destruct (Nat.eqb_spec i i); try congruence; destruct (Nat.ltb i (length (sbs w))); reflexivity.
Qed.

(* ---------- C08: by-value structs round-trip field by field ---------- *)
From RLBoxV Require Import Ptr_proofs.

(* pointers in a value are null or point into the region (not at its first byte, which is the
   guest's null) *)
Fixpoint pwf (s : region) (p : pkind) (v : aval) {struct p} : Prop :=
  match p, v with
  | KPtr, VPtr x => x = 0 \/ (inr s x = true /\ x <> rbase s)
  | KStruct fs, VStruct vs =>
    (fix go (fs : list pkind) (vs : list aval) {struct fs} : Prop :=
       match fs, vs with
       | f :: ft, x :: xt => pwf s f x /\ go ft xt
       | _, _ => True
       end) fs vs
  | _, _ => True
  end.

Lemma seq_all_ok l gs : seq_all l = Some (Ok gs) -> Forall2 (fun o g => o = Some (Ok g)) l gs.
Proof.
  revert gs. induction l as [|o tl IH]; intros gs H; cbn [seq_all] in H.
  - inversion H. constructor.
  - destruct o as [r|]; [|discriminate]. destruct (seq_all tl) as [rs|]; [|discriminate].
    destruct r as [x| | |]; cbn [bind] in H; try discriminate.
    destruct rs as [xs| | |]; cbn [bind] in H; try discriminate.
    inversion H; subst. constructor; [reflexivity|apply IH; reflexivity].
Qed.

Lemma seq_all_intro l gs : Forall2 (fun o g => o = Some (Ok g)) l gs -> seq_all l = Some (Ok gs).
Proof. induction 1 as [|o g tl gt Ho _ IH]; cbn [seq_all]; [reflexivity|]. rewrite Ho, IH. reflexivity. Qed.

Section RoundTrip.
Variable a : abi.
Variable s : region.
Hypothesis Ha : abi_ok a = true.
Hypothesis Hs : region_ok s.

(* the specification's conversion to the sandbox, when it succeeds, yields a well-typed guest
   value whose conversion back is the original *)
Lemma sv_roundtrip p : forall v g,
  wt a true p v -> pwf s p v -> sv a s true p v = Some (Ok g) ->
  wt a false p g /\ sv a s false p g = Some (Ok v).
Proof.
  induction p as [k| | | |fs IH] using pkind_ind'; intros v g Hw Hp H; destruct v as [x|x|vs]; cbn [sv] in H; try discriminate.
  - destruct (sbx_equiv a k) as [sk|] eqn:He; [|discriminate].
    destruct (in_range sk x) eqn:Hr; [|discriminate]. inversion H; subst g.
    cbn [wt sv]. rewrite He. split; [exact Hr|]. cbn [wt] in Hw. rewrite Hw. reflexivity.
  - inversion H; subst g. split; [exact I|reflexivity].
  - inversion H; subst g. cbn [wt sv]. split; [exact I|]. cbn [pwf] in Hp. f_equal. f_equal. f_equal.
    destruct (Z.eqb_spec x 0) as [->|Hn]; [reflexivity|].
    destruct Hp as [Hp|[Hin Hne]]; [contradiction|].
    pose proof (roundtrip_addr s x Hs Hin Hne) as RT.
    unfold unsandbox, sandbox_ptr, impl_unsandbox, impl_sandbox in RT.
    destruct (Z.eqb_spec x 0); [contradiction|]. exact RT.
  - inversion H; subst g. split; [exact I|reflexivity].
  - (* struct *)
    match type of H with match ?G with _ => _ end = _ => destruct G as [l|] eqn:EG; [|discriminate] end.
    destruct (seq_all l) as [[gs| | |]|] eqn:ES; cbn [res_map] in H; try discriminate.
    inversion H; subst g. apply seq_all_ok in ES.
    cbn [wt pwf] in Hw, Hp.
    assert (K : (fix go (fs0 : list pkind) (vs0 : list aval) {struct fs0} : Prop :=
                   match fs0, vs0 with f :: ft, x :: xt => wt a false f x /\ go ft xt | _, _ => True end) fs gs /\
                (fix go (fs0 : list pkind) (vs0 : list aval) {struct fs0} : option (list (option (res aval))) :=
                   match fs0, vs0 with
                   | [], [] => Some []
                   | f :: ft, x :: xt => match go ft xt with Some l0 => Some (sv a s false f x :: l0) | None => None end
                   | _, _ => None end) fs gs = Some (map (fun v => Some (Ok v)) vs)).
    { clear H. revert vs l gs Hw Hp EG ES. induction IH as [|f ft Hf _ IHl]; intros vs l gs Hw Hp EG ES.
      - destruct vs; [|discriminate]. inversion EG; subst l. inversion ES; subst. split; [exact I|reflexivity].
      - destruct vs as [|x xt]; [discriminate|].
        match type of EG with match ?G with _ => _ end = _ => destruct G as [l'|] eqn:EG'; [|discriminate] end.
        inversion EG; subst l. inversion ES as [|o g0 tl gt Ho Ht]; subst.
        destruct Hw as [Hwx Hwt]. destruct Hp as [Hpx Hpt].
        destruct (Hf x g0 Hwx Hpx Ho) as [W1 S1].
        destruct (IHl xt l' gt Hwt Hpt EG' Ht) as [W2 S2].
        split; [split; assumption|]. rewrite S2, S1. reflexivity. }
    destruct K as [K1 K2]. cbn [wt sv]. split; [exact K1|]. rewrite K2.
    rewrite (seq_all_intro (map (fun v => Some (Ok v)) vs) vs); [reflexivity|].
    clear. induction vs; constructor; [reflexivity|assumption].
Qed.

(* field-wise: each field of the image is the conversion of the corresponding field of the source *)
Lemma cv_struct_fieldwise dir fs vs gs :
  cv a s dir (KStruct fs) (VStruct vs) = Some (Ok (VStruct gs)) ->
  exists l, Forall2 (fun o g => o = Some (Ok g)) l gs /\ cv_list a s dir fs vs = Some l.
Proof.
  cbn [cv]. intros H.
  match type of H with match ?G with _ => _ end = _ => destruct G as [l|] eqn:EG; [|discriminate] end.
  destruct (seq_all l) as [[gs'| | |]|] eqn:ES; cbn [res_map] in H; try discriminate.
  inversion H; subst gs'. exists l. split; [apply seq_all_ok; exact ES|].
  clear H ES. revert vs l EG. induction fs as [|f ft IH]; intros vs l EG; destruct vs as [|x xt]; cbn [cv_list]; try discriminate; exact EG.
Qed.
End RoundTrip.

Theorem struct_roundtrip a s p v g :
  abi_ok a = true -> region_ok s -> wt a true p v -> pwf s p v ->
  cv a s true p v = Some (Ok g) -> cv a s false p g = Some (Ok v).
Proof.
  intros Ha Hs Hw Hp H. rewrite (cv_sv a s Ha true p v Hw) in H.
  destruct (sv_roundtrip a s Hs p v g Hw Hp H) as [W S].
  rewrite (cv_sv a s Ha false p g W). exact S.
Qed.

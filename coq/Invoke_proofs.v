(* Invoke_proofs.v — the conversions invoke performs equal what C11 demands, for every
   signature (any number of parameters, nested structs) and every well-typed value *)
From RLBoxV Require Import Invoke Conv_proofs World World_proofs.
Local Open Scope Z_scope.

Fixpoint pkind_ind' (P : pkind -> Prop)
  (Hi : forall k, P (KInt k)) (Hb : P KBits) (Hp : P KPtr) (Hf : P KFn)
  (Hs : forall fs, Forall P fs -> P (KStruct fs)) (p : pkind) : P p :=
  match p with
  | KInt k => Hi k | KBits => Hb | KPtr => Hp | KFn => Hf
  | KStruct fs => Hs fs ((fix go (l : list pkind) : Forall P l :=
                           match l with
                           | [] => Forall_nil P
                           | x :: tl => Forall_cons x (pkind_ind' P Hi Hb Hp Hf Hs x) (go tl)
                           end) fs)
  end.

Section Agree.
Variable a : abi.
Variable s : region.
Hypothesis Ha : abi_ok a = true.

Lemma cv_sv dir p : forall v, wt a dir p v -> cv a s dir p v = sv a s dir p v.
Proof.
  induction p as [k| | | |fs IH] using pkind_ind'; intros v Hw; destruct v as [x|x|vs]; cbn [cv sv]; try reflexivity.
  - cbn [wt] in Hw. destruct dir.
    + unfold to_sbx. destruct (sbx_equiv a k) as [sk|] eqn:He; [|reflexivity].
      rewrite (conv_correct sk k x Hw (proj1 (sbx_equiv_no_n2 a k sk Ha He))).
      unfold conv_spec. destruct (in_range sk x); reflexivity.
    + unfold to_app. destruct (sbx_equiv a k) as [sk|] eqn:He; [|reflexivity].
      rewrite (conv_correct k sk x Hw (proj2 (sbx_equiv_no_n2 a k sk Ha He))).
      unfold conv_spec. destruct (in_range k x); reflexivity.
  - unfold sandbox_ptr, unsandbox, impl_sandbox, impl_unsandbox. destruct (x =? 0); destruct dir; reflexivity.
  - cbn [wt] in Hw.
    match goal with |- match ?A with _ => _ end = match ?B with _ => _ end => assert (E : A = B) end; [|rewrite E; reflexivity].
    revert vs Hw. induction IH as [|f ft Hf Hft IHl]; intros vs Hw; destruct vs as [|x xt]; try reflexivity.
    destruct Hw as [Hx Hxt]. rewrite (IHl xt Hxt). rewrite (Hf x Hx). reflexivity.
Qed.

Lemma cv_sv_list dir ps : forall vs, wt_list a dir ps vs -> cv_list a s dir ps vs = sv_list a s dir ps vs.
Proof.
  induction ps as [|f ft IH]; intros vs Hw; destruct vs as [|x xt]; try reflexivity.
  cbn [cv_list sv_list]. destruct Hw as [Hx Hxt]. rewrite (IH xt Hxt), (cv_sv dir f x Hx). reflexivity.
Qed.

Lemma invoke_correct sig args retk gret :
  wt_list a true sig args ->
  match retk with Some rk => wt a false rk gret | None => True end ->
  invoke a s sig args retk gret = invoke_spec a s sig args retk gret.
Proof.
  intros Hw Hr. unfold invoke, invoke_spec. rewrite (cv_sv_list true sig args Hw).
  destruct (sv_list a s true sig args) as [l|]; [|reflexivity].
  destruct (seq_all l) as [[gs| | |]|]; try reflexivity.
  destruct retk as [rk|]; [|reflexivity]. rewrite (cv_sv false rk gret Hr). reflexivity.
Qed.
End Agree.

(* the guest function is called at most once, and only when every argument is representable:
   by the shape of [inv_out]; the number of calls as a function *)
Definition calls (o : inv_out) : nat := match o with IAbortBefore => 0%nat | ICalled _ _ => 1%nat end.

(* ---------- per-instance symbol caches (World.v) ---------- *)
Lemma lookup_other_instance w i j name : i <> j ->
  get_sb (fst (lookup_op w i name)) j = get_sb w j /\ get_sb (fst (ilookup_op w i name)) j = get_sb w j.
Proof.
  intros Hij. unfold lookup_op, ilookup_op.
  destruct (memZ name (cache (get_sb w i))), (memZ name (icache (get_sb w i))); cbn [fst];
    rewrite ?get_put; repeat split; try reflexivity;
    destruct (Nat.eqb_spec j i); try congruence; try reflexivity.
Qed.

(* the two lookups never feed each other's cache (after the fix: commit for D11) *)
Lemma lookup_kinds_independent w i name :
  icache (get_sb (fst (lookup_op w i name)) i) = icache (get_sb w i) /\
  cache (get_sb (fst (ilookup_op w i name)) i) = cache (get_sb w i).
Proof.
  unfold lookup_op, ilookup_op.
  destruct (memZ name (cache (get_sb w i))), (memZ name (icache (get_sb w i))); cbn [fst];
    rewrite ?get_put; repeat split; try reflexivity;
    destruct (Nat.eqb_spec i i); try congruence; destruct (Nat.ltb i (length (sbs w))); reflexivity.
Qed.

(* Properties_C07.v — C07: sandbox-memory accesses use exactly the bytes and encoding of the
   sandbox ABI.  Every ABI with abi_ok, every integer kind, every address, every value, every
   memory content.  Statements only. *)
From RLBoxV Require Import Mem Mem_proofs Conv_proofs.
Local Open Scope Z_scope.

(* a store through a tainted reference changes exactly the size(sandbox type) bytes at the
   address — to the little-endian two's complement image of the value in the sandbox type —
   and no other byte, or it aborts (exactly when the sandbox type cannot hold the value) *)
Theorem C07_store_frame_and_bytes : forall a k addr v m m',
  abi_ok a = true -> in_range k v = true ->
  store_int a k addr v m = Some (Ok m') ->
  exists sk, sbx_equiv a k = Some sk /\ in_range sk v = true /\
    (forall y, y < addr \/ addr + size sk <= y -> m' y = m y) /\
    read m' addr (nbytes sk) = encode sk v.
Proof. exact store_int_spec. Qed.
Print Assumptions C07_store_frame_and_bytes.

Theorem C07_store_aborts_iff : forall a k addr v m sk,
  abi_ok a = true -> in_range k v = true -> sbx_equiv a k = Some sk ->
  (store_int a k addr v m = Some Abort <-> in_range sk v = false).
Proof. exact store_int_aborts_iff. Qed.

(* a load depends on exactly the bytes the sandbox type occupies, and returns the value those
   bytes denote in the sandbox type (or aborts when the application type cannot hold it) *)
Theorem C07_load_local : forall a k addr m1 m2 sk,
  sbx_equiv a k = Some sk ->
  (forall y, addr <= y < addr + size sk -> m1 y = m2 y) -> load_int a k addr m1 = load_int a k addr m2.
Proof. exact load_int_local. Qed.
Theorem C07_load_decodes : forall a k addr m sk,
  abi_ok a = true -> sbx_equiv a k = Some sk -> sk <> IBool ->
  load_int a k addr m = Some (conv_spec k (decode sk (read m addr (nbytes sk)))).
Proof. exact load_int_decodes. Qed.
Print Assumptions C07_load_decodes.

Theorem C07_roundtrip : forall a k addr v m m',
  abi_ok a = true -> in_range k v = true -> store_int a k addr v m = Some (Ok m') ->
  load_int a k addr m' = Some (Ok v).
Proof. exact load_after_store. Qed.
Theorem C07_decode_encode : forall k v, in_range k v = true -> decode k (encode k v) = v.
Proof. exact decode_encode. Qed.

(* pointer cells: exactly w bytes holding the representation; bit-pattern cells likewise *)
Theorem C07_pointer_cell : forall w s addr p m, 0 <= w ->
  (forall y, y < addr \/ addr + w <= y -> store_ptr w s addr p m y = m y) /\
  read (store_ptr w s addr p m) addr (Z.to_nat w) = bytes_le (Z.to_nat w) (sandbox_ptr s p).
Proof. exact store_ptr_spec. Qed.
Theorem C07_pointer_cell_roundtrip : forall w s addr p m,
  0 <= w -> 0 <= sandbox_ptr s p < 256 ^ w ->
  load_ptr w s addr (store_ptr w s addr p m) = unsandbox s (sandbox_ptr s p).
Proof. exact load_store_ptr. Qed.
Theorem C07_bits_cell : forall w addr v m, 0 <= w ->
  (forall y, y < addr \/ addr + w <= y -> store_bits w addr v m y = m y) /\
  (0 <= v < 256 ^ w -> load_bits w addr (store_bits w addr v m) = v).
Proof. exact store_bits_spec. Qed.

(* copy_and_verify on a pointer and copy_and_verify_range read through the tainted reference
   (after the fix: commit for D8): same decoding as every other load; the bytes a range copy
   touches are exactly the bytes that were range-checked *)
Theorem C07_cv_paths_decode_guest_bytes : forall a k addr m,
  load_cv_ptr true a k addr m = load_int a k addr m.
Proof. exact load_cv_ptr_fixed. Qed.
Theorem C07_range_footprint_is_checked : forall a k n sk,
  sbx_equiv a k = Some sk -> 0 < n -> range_footprint true a k n = range_checked true a k n.
Proof. exact range_fixed_footprint_is_checked. Qed.

(* fixed defect D8, kept as regression witnesses: with the application-width read a 32-bit
   guest long cell 0x11223344 was returned as 0x5566778811223344, and under a wider guest ABI
   the copy touched bytes beyond the checked range *)
Theorem C07_cv_ptr_before_fix_refuted :
  let m := write (fun _ => 0) 64 [0x44; 0x33; 0x22; 0x11; 0x88; 0x77; 0x66; 0x55] in
  load_cv_ptr false abi_lp32 ILong 64 m = Some (Ok 0x5566778811223344) /\
  load_int abi_lp32 ILong 64 m = Some (Ok 0x11223344).
Proof. exact cv_ptr_unfixed_refuted. Qed.
Theorem C07_range_before_fix_overreads :
  range_footprint false abi_wide IInt 4 = Some 28 /\ range_checked false abi_wide IInt 4 = Some 16 /\
  range_footprint true abi_wide IInt 4 = Some 32 /\ range_checked true abi_wide IInt 4 = Some 32.
Proof. exact range_unfixed_overreads. Qed.

(* the flag the correspondence check runs the model with *)
Theorem C07_code_reads_guest_width : code_cv_reads_guest_width = true.
Proof. reflexivity. Qed.

(* AppPtr.v — model of rlbox_app_pointer.hpp (app_pointer_map<T>) for a token type
   of any width W = 2^w, and of the owning objects (rlbox_policy_types.hpp
   app_pointer: move, overwrite, unregister, destruction).  Definitions only. *)
From RLBoxV Require Export Machine.
Local Open Scope Z_scope.

Record amap := { entries : list (Z * Z);   (* token -> registered pointer; std::map *)
                 counter : Z }.            (* T_PointerTypeUnsigned counter *)

Definition amap_init : amap := {| entries := [(0, 0)]; counter := 1 |}.

Definition mem_key (es : list (Z * Z)) (i : Z) : bool := existsb (fun e => fst e =? i) es.

Fixpoint find_key (es : list (Z * Z)) (i : Z) : option Z :=
  match es with
  | [] => None
  | (k, v) :: tl => if k =? i then Some v else find_key tl i
  end.

Fixpoint remove_key (es : list (Z * Z)) (i : Z) : list (Z * Z) :=
  match es with
  | [] => []
  | (k, v) :: tl => if k =? i then tl else (k, v) :: remove_key tl i
  end.

(* the first index >= from that is not a key, looking at no more than [fuel] indices *)
Fixpoint first_free (es : list (Z * Z)) (from : Z) (fuel : nat) : option Z :=
  match fuel with
  | O => None
  | S f => if mem_key es from then first_free es (from + 1) f else Some from
  end.

(* for (i = from; i <= to; i++) if (find(i) == end) return i;
   A scan over more than |entries|+1 consecutive indices is cut there: by the
   pigeonhole principle it cannot come back empty (AppPtr_proofs.scan_exact). *)
Definition scan (es : list (Z * Z)) (from to : Z) : option Z :=
  let n := to - from + 1 in
  if n <=? 0 then None else
  match first_free es from (Z.to_nat (Z.min n (Z.of_nat (length es) + 1))) with
  | Some i => if i <=? to then Some i else None
  | None => None
  end.

(* get_unused_index(max_ptr_val) for a token type with W values *)
Definition get_unused_index (W max : Z) (m : amap) : res (Z * amap) :=
  let c := counter m in
  let es := entries m in
  if max <? W - 1 then
    match scan es c max with
    | Some i => Ok (i, {| entries := es; counter := i + 1 |})
    | None =>
      match scan es 1 (c - 1) with
      | Some i => Ok (i, {| entries := es; counter := i + 1 |})
      | None => Abort
      end
    end
  else
    (* max is the type's maximum: "i <= max_val" is always true and i++ wraps:
       a cyclic scan of all W values starting at the cursor; if every value is
       taken the loop never ends *)
    match scan es c (W - 1) with
    | Some i => Ok (i, {| entries := es; counter := (i + 1) mod W |})
    | None =>
      match scan es 0 (c - 1) with
      | Some i => Ok (i, {| entries := es; counter := (i + 1) mod W |})
      | None => Diverge
      end
    end.

Definition get_app_pointer_idx (W max ptr : Z) (m : amap) : res (Z * amap) :=
  r <- get_unused_index W max m ;;
  let '(i, m') := r in
  Ok (i, {| entries := (i, ptr) :: remove_key (entries m') i; counter := counter m' |}).

Definition remove_app_ptr (idx : Z) (m : amap) : res amap :=
  if mem_key (entries m) idx then Ok {| entries := remove_key (entries m) idx; counter := counter m |}
  else Abort.

Definition lookup_index (idx : Z) (m : amap) : res Z :=
  match find_key (entries m) idx with Some v => Ok v | None => Abort end.

(* ---------- histories on the table ---------- *)
Inductive aop := ARegister (ptr : Z) | ARelease (idx : Z).

Definition astep (W max : Z) (m : amap) (o : aop) : res amap :=
  match o with
  | ARegister ptr => r <- get_app_pointer_idx W max ptr m ;; Ok (snd r)
  | ARelease idx => remove_app_ptr idx m
  end.

Fixpoint arun (W max : Z) (m : amap) (ops : list aop) : res amap :=
  match ops with
  | [] => Ok m
  | o :: tl => m' <- astep W max m o ;; arun W max m' tl
  end.

(* ---------- the owner layer: app_pointer objects in numbered slots ---------- *)
(* an owner holds Some token or is inert (None) *)
Record aworld := { amapw : amap; owners : list (option Z) }.

Definition set_nth {A} (l : list A) (k : nat) (a : A) : list A :=
  firstn k l ++ a :: skipn (S k) l.

Definition owner_at (w : aworld) (k : nat) : option Z := nth k (owners w) None.

Definition unregister_owner (w : aworld) (k : nat) : res aworld :=
  match owner_at w k with
  | None => Ok w
  | Some i => m <- remove_app_ptr i (amapw w) ;; Ok {| amapw := m; owners := set_nth (owners w) k None |}
  end.

Inductive oop :=
| OGet (k : nat) (ptr : Z)        (* slot k = sandbox.get_app_pointer(ptr)   (move-assignment of a temporary) *)
| OMove (k j : nat)               (* slot k = std::move(slot j) *)
| ODestroy (k : nat).             (* slot k.unregister() / destructor *)

(* [release_on_overwrite]: operator=(&&) calls unregister() first (after the fix: commit) *)
Definition ostep (rel : bool) (W max : Z) (w : aworld) (o : oop) : res aworld :=
  match o with
  | OGet k ptr =>
    r <- get_app_pointer_idx W max ptr (amapw w) ;;
    let '(i, m) := r in
    let w1 := {| amapw := m; owners := owners w |} in
    w2 <- (if rel then unregister_owner w1 k else Ok w1) ;;
    Ok {| amapw := amapw w2; owners := set_nth (owners w2) k (Some i) |}
  | OMove k j =>
    if Nat.eqb k j then Ok w else
    w2 <- (if rel then unregister_owner w k else Ok w) ;;
    let tok := owner_at w2 j in
    Ok {| amapw := amapw w2; owners := set_nth (set_nth (owners w2) k tok) j None |}
  | ODestroy k => unregister_owner w k
  end.

Fixpoint orun (rel : bool) (W max : Z) (w : aworld) (ops : list oop) : res aworld :=
  match ops with
  | [] => Ok w
  | o :: tl => w' <- ostep rel W max w o ;; orun rel W max w' tl
  end.

Definition code_overwrite_releases : bool := true.

(* tokens held by owners *)
Fixpoint held (os : list (option Z)) : list Z :=
  match os with [] => [] | Some i :: tl => i :: held tl | None :: tl => held tl end.
Definition live_tokens (m : amap) : list Z :=
  filter (fun k => negb (k =? 0)) (map fst (entries m)).

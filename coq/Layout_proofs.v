(* Layout_proofs.v — the struct layout algorithm: aligned, ordered, non-overlapping, inside
   the struct, size a multiple of the alignment; a function of the sandbox ABI only *)
From RLBoxV Require Import Layout.
Local Open Scope Z_scope.
Ltac Zify.zify_post_hook ::= Z.div_mod_to_equations.

Lemma round_up_spec x a : 0 < a -> x <= round_up x a < x + a /\ round_up x a mod a = 0.
Proof.
  intros Ha. unfold round_up. split; [|apply Z.mod_mul; lia].
  set (q := (x + a - 1) / a). assert (H : x + a - 1 = a * q + (x + a - 1) mod a) by (apply Z.div_mod; lia).
  pose proof (Z.mod_pos_bound (x + a - 1) a Ha). nia.
Qed.

Definition sa_ok (sa : list (Z * Z)) : Prop := Forall (fun p => 0 <= fst p /\ 0 < snd p) sa.

(* every member: aligned, not before [off]; consecutive members do not overlap; all end
   before layout_end *)
Fixpoint placed (sa : list (Z * Z)) (offs : list Z) (lo hi : Z) : Prop :=
  match sa, offs with
  | [], [] => lo <= hi
  | (s, al) :: tl, o :: ot => lo <= o /\ o mod al = 0 /\ o < lo + al /\ placed tl ot (o + s) hi
  | _, _ => False
  end.

Lemma layout_placed sa : sa_ok sa -> forall off, placed sa (layout_offs sa off) off (layout_end sa off).
Proof.
  induction 1 as [|[s al] tl [Hs Hal] _ IH]; intros off; cbn [layout_offs layout_end placed]; [lia|].
  cbn [fst snd] in *. destruct (round_up_spec off al Hal) as [[H1 H2] H3].
  repeat split; try assumption. apply IH.
Qed.

Lemma placed_le sa : sa_ok sa -> forall offs lo hi, placed sa offs lo hi -> lo <= hi.
Proof.
  intros H; induction H as [|[s al] tl Hx _ IH]; intros offs lo hi; destruct offs as [|o ot]; cbn [placed]; try lia.
  cbn [fst snd] in Hx. intros (A & _ & _ & Rest). specialize (IH _ _ _ Rest). lia.
Qed.

Lemma max_align_pos sa : sa_ok sa -> 0 < max_align sa.
Proof. intros H; induction H as [|[s al] tl Hx _ IH]; cbn [max_align]; [lia|]. cbn [fst snd] in Hx. lia. Qed.

Lemma max_align_ge sa : forall p, In p sa -> snd p <= max_align sa.
Proof.
  induction sa as [|[s al] tl IH]; intros p Hin; [destruct Hin|].
  destruct Hin as [<-|Hin]; cbn [max_align snd]; [lia|]. specialize (IH p Hin). lia.
Qed.

Lemma struct_size_spec sa : sa_ok sa ->
  let sz := round_up (layout_end sa 0) (max_align sa) in
  layout_end sa 0 <= sz /\ sz mod max_align sa = 0 /\ sz < layout_end sa 0 + max_align sa.
Proof.
  intros H. cbn zeta. destruct (round_up_spec (layout_end sa 0) (max_align sa) (max_align_pos sa H)) as [[A B] C].
  repeat split; assumption.
Qed.

(* sizes are non-negative, alignments positive, for every type built from non-negative array extents *)
Fixpoint cty_ok (t : cty) : Prop :=
  match t with
  | TArr n e => 0 <= n /\ cty_ok e
  | TStruct fs => (fix go (l : list cty) : Prop := match l with [] => True | f :: tl => cty_ok f /\ go tl end) fs
  | _ => True
  end.

Fixpoint cty_ind' (P : cty -> Prop)
  (Hi : forall k, P (TInt k)) (He : P TEnum) (Hf : P TFloat) (Hd : P TDouble) (Hp : P TPtr)
  (Ha : forall n e, P e -> P (TArr n e)) (Hs : forall fs, Forall P fs -> P (TStruct fs)) (t : cty) : P t :=
  match t with
  | TInt k => Hi k | TEnum => He | TFloat => Hf | TDouble => Hd | TPtr => Hp
  | TArr n e => Ha n e (cty_ind' P Hi He Hf Hd Hp Ha Hs e)
  | TStruct fs => Hs fs ((fix go (l : list cty) : Forall P l :=
                            match l with
                            | [] => Forall_nil P
                            | x :: tl => Forall_cons x (cty_ind' P Hi He Hf Hd Hp Ha Hs x) (go tl)
                            end) fs)
  end.

Lemma ksize_pos a k : 0 < ksize a k.
Proof. unfold ksize. destruct (sbx_equiv (l_int a) k); apply size_pos. Qed.

Lemma size_align_ok a : 0 < l_ptr a -> forall t, cty_ok t -> 0 <= sizeof a t /\ 0 < alignof a t.
Proof.
  intros Hp. induction t as [k| | | | |n e IH|fs IH] using cty_ind'; intros Hok; cbn [sizeof alignof]; try lia.
  - pose proof (ksize_pos a k). lia.
  - destruct Hok as [Hn He]. specialize (IH He). nia.
  - assert (OK : sa_ok (map (fun f => (sizeof a f, alignof a f)) fs)).
    { cbn [cty_ok] in Hok. induction IH as [|f ft Hf _ IHl]; [constructor|].
      destruct Hok as [Hf1 Hft]. constructor; [cbn [fst snd]; apply Hf; exact Hf1|apply IHl; exact Hft]. }
    assert (E : max_align (map (fun f => (0, alignof a f)) fs) = max_align (map (fun f => (sizeof a f, alignof a f)) fs)).
    { clear. induction fs as [|f ft IHf]; cbn [map max_align]; [reflexivity|rewrite IHf; reflexivity]. }
    rewrite E. split; [|apply max_align_pos; exact OK].
    destruct (struct_size_spec _ OK) as [A _]. cbn zeta in A.
    pose proof (placed_le _ OK _ _ _ (layout_placed _ OK 0)).
    lia.
Qed.

Lemma struct_fields_ok a fs : 0 < l_ptr a -> cty_ok (TStruct fs) -> sa_ok (size_align a fs).
Proof.
  intros Hp Hok. unfold size_align. cbn [cty_ok] in Hok.
  induction fs as [|f ft IH]; [constructor|]. destruct Hok as [Hf Hft].
  constructor; [cbn [fst snd]; apply (size_align_ok a Hp f Hf)|apply IH; exact Hft].
Qed.

Lemma alignof_struct a fs : alignof a (TStruct fs) = max_align (size_align a fs).
Proof. cbn [alignof]. unfold size_align. induction fs as [|f ft IH]; cbn [map max_align]; [reflexivity|rewrite IH; reflexivity]. Qed.

Theorem struct_layout a fs :
  0 < l_ptr a -> cty_ok (TStruct fs) ->
  placed (size_align a fs) (offsets a fs) 0 (layout_end (size_align a fs) 0) /\
  layout_end (size_align a fs) 0 <= sizeof a (TStruct fs) /\
  sizeof a (TStruct fs) mod alignof a (TStruct fs) = 0 /\
  (forall f, In f fs -> alignof a f <= alignof a (TStruct fs)).
Proof.
  intros Hp Hok. pose proof (struct_fields_ok a fs Hp Hok) as OK.
  split; [apply layout_placed; exact OK|].
  rewrite alignof_struct. destruct (struct_size_spec _ OK) as (A & B & _). cbn zeta in *.
  change (sizeof a (TStruct fs)) with (round_up (layout_end (size_align a fs) 0) (max_align (size_align a fs))).
  repeat split; try assumption.
  intros f Hin. apply (max_align_ge (size_align a fs) (sizeof a f, alignof a f)).
  unfold size_align. apply in_map_iff. exists f. split; [reflexivity|exact Hin].
Qed.

(* the image layout is a function of the sandbox ABI only: the application ABI does not occur *)
Example layout_lp32_vs_host :
  let fs := [TInt ILong; TInt IChar; TPtr; TInt IUShort; TDouble; TArr 3 TPtr; TStruct [TInt IChar; TInt ILLong]] in
  offsets labi_lp32 fs = [0; 4; 8; 12; 16; 24; 40] /\ sizeof labi_lp32 (TStruct fs) = 56 /\
  offsets labi_host fs = [0; 8; 16; 24; 32; 40; 64] /\ sizeof labi_host (TStruct fs) = 80.
Proof. vm_compute. repeat split. Qed.

(* Properties_C16.v — C16: operators on tainted numbers compute exactly what the plain
   operators compute.  All 18 binary/comparison/logical operators, both unary operators, all
   integer kind pairs, all operand values for which the plain expression is defined, all
   operand-wrapper combinations.  Statements only. *)
From RLBoxV Require Import Ops Ops_proofs Conv_proofs FloatCmp FloatCmp_proofs.
Local Open Scope Z_scope.

(* with tainted / plain operands on either side the wrapped operator yields exactly the type
   and value of the plain C++ expression, and is undefined exactly where that is *)
Theorem C16_value_and_type : forall a o wa ka va wb kb vb,
  wa <> WV -> wb <> WV -> wbin a o wa ka va wb kb vb = Some (Ok (cop o ka va kb vb)).
Proof. exact wbin_plain_tainted. Qed.
Print Assumptions C16_value_and_type.

(* a tainted_volatile operand holding the sandbox image of v reads as v *)
Theorem C16_volatile_operand : forall a k sk v,
  abi_ok a = true -> sbx_equiv a k = Some sk -> in_range sk v = true -> in_range k v = true ->
  unwrap a WV k v = Some (Ok v).
Proof. exact unwrap_volatile. Qed.

(* the operator semantics is well typed: every defined result lies in the range of its result
   type, which is bool for comparisons/logical operators, the promoted left operand for shifts and
   the usual-arithmetic-conversion type otherwise *)
Theorem C16_semantics_welltyped : forall o ka va kb vb c r,
  cop o ka va kb vb = Some (c, r) -> in_range c r = true.
Proof. exact cop_welltyped. Qed.
Theorem C16_result_type : forall o ka va kb vb c r,
  cop o ka va kb vb = Some (c, r) ->
  c = match o with
      | OEq | ONe | OLt | OLe | OGt | OGe | OLAnd | OLOr => IBool
      | OShl | OShr => promote ka
      | _ => common ka kb
      end.
Proof. exact cop_result_type. Qed.
Print Assumptions C16_semantics_welltyped.

(* compound assignment: a tainted target ends up holding what the plain form stores; a target in
   sandbox memory ends up holding the exact plain result when its sandbox type can hold it and
   the operation aborts otherwise — never a silently different value *)
Theorem C16_compound_tainted : forall a o ka va wb kb vb,
  wb <> WV -> wcompound a o WT ka va wb kb vb = Some (Ok (ccompound o ka va kb vb)).
Proof. exact wcompound_tainted. Qed.
Theorem C16_compound_volatile : forall a o ka va wb kb vb sk c r,
  abi_ok a = true -> wb <> WV -> sbx_equiv a ka = Some sk -> sk <> IBool ->
  in_range sk va = true -> in_range ka va = true ->
  cop o ka va kb vb = Some (c, r) ->
  wcompound a o WV ka va wb kb vb = Some (if in_range sk r then Ok (Some r) else Abort).
Proof. exact wcompound_volatile. Qed.

(* pre/post increment and decrement return and store the same values as on plain integers *)
Theorem C16_incdec : forall a dec post k v,
  wincdec a false dec post WT k v = Some (Ok (cincdec dec post k v)).
Proof. exact wincdec_tainted. Qed.
Theorem C16_code_postdec_ok : code_postdec_ok = true.
Proof. reflexivity. Qed.

(* fixed defect D1 (regression witness): x-- returned 10 and stored 11 *)
Theorem C16_postdec_before_fix_refuted :
  wincdec abi_host true true true WT IInt 10 = Some (Ok (Some (10, 11))) /\
  cincdec true true IInt 10 = Some (10, 9) /\
  wincdec abi_host false true true WT IInt 10 = Some (Ok (Some (10, 9))).
Proof. exact postdec_before_fix_refuted. Qed.

(* floating-point operands (float, double, as their IEEE bit patterns; exact values; NaN unordered):
   comparisons with any operand wrappers are the C++ comparisons of the values; the mirrored form used when the
   plain operand is on the left is always right, while DERIVING <= / >= by negating the mirrored strict comparison
   is right exactly for ordered operands and wrong for a NaN *)
Theorem C16_float_compare : forall op wa a wb b, wfcompare op wa a wb b = fcompare op a b.
Proof. reflexivity. Qed.
Theorem C16_float_mirror : forall a b,
  fcompare FLt a b = fcompare FGt b a /\ fcompare FLe a b = fcompare FGe b a /\
  fcompare FGt a b = fcompare FLt b a /\ fcompare FGe a b = fcompare FLe b a /\
  fcompare FEq a b = fcompare FEq b a /\ fcompare FNe a b = fcompare FNe b a.
Proof. exact fcompare_mirror. Qed.
Theorem C16_float_le_ge_ne : forall a b,
  fcompare FLe a b = fcompare FLt a b || fcompare FEq a b /\
  fcompare FGe a b = fcompare FGt a b || fcompare FEq a b /\
  fcompare FNe a b = negb (fcompare FEq a b).
Proof. intros. split; [apply fcompare_le_split | split; [apply fcompare_ge_split | apply fcompare_ne]]. Qed.
Theorem C16_float_negating_only_when_ordered : forall op a b,
  fcmp3 a b <> None -> wfcompare_negating op a b = fcompare op a b.
Proof. exact negating_ok_iff_ordered. Qed.
Theorem C16_float_negating_refuted : exists a b,
  wfcompare_negating FLe a b <> fcompare FLe a b /\ wfcompare_negating FGe a b <> fcompare FGe a b.
Proof. exact negating_refuted. Qed.
Print Assumptions C16_float_mirror.
Print Assumptions C16_float_negating_only_when_ordered.

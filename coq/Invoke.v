(* Invoke.v — model of rlbox_sandbox::INTERNAL_invoke_with_func_ptr as far as values
   are concerned: every argument is turned into its sandbox representation by
   invoke_process_param (tainted / tainted_opaque / tainted_volatile / plain primitive /
   nullptr / callback / by-value struct), the guest function is called once with
   exactly those, and its result is converted back (convert_type TO_APPLICATION).
   Signatures are lists of any length; structs nest. *)
From RLBoxV Require Export Conv Ptr.
Local Open Scope Z_scope.

Inductive pkind :=
| KInt (k : ikind)            (* integer of application kind k *)
| KBits                       (* enum / float / double: same representation on both sides *)
| KPtr                        (* data pointer *)
| KFn                         (* function pointer: callback entry point or sandbox function address *)
| KStruct (fs : list pkind).  (* registered struct passed by value *)

Inductive aval :=
| VInt (v : Z)                (* integer value; bit pattern for KBits; back-end representation for KFn *)
| VPtr (a : Z)                (* application side: absolute address (0 = null); guest side: representation *)
| VStruct (vs : list aval).

Definition res_map {A B} (f : A -> B) (r : res A) : res B :=
  match r with Ok a => Ok (f a) | Abort => Abort | Diverge => Diverge | Fault => Fault end.

(* all-or-abort over a list of conversions that may not type-check (None) *)
Fixpoint seq_all (l : list (option (res aval))) : option (res (list aval)) :=
  match l with
  | [] => Some (Ok [])
  | None :: _ => None
  | Some r :: tl =>
    match seq_all tl with
    | None => None
    | Some rs => Some (x <- r ;; xs <- rs ;; Ok (x :: xs))
    end
  end.

Section Dir.
Variable a : abi.
Variable s : region.
(* [dir] = true: application -> sandbox (arguments of an invocation, results of a callback);
   false: sandbox -> application *)
Variable dir : bool.

Fixpoint cv (p : pkind) (v : aval) {struct p} : option (res aval) :=
  match p, v with
  | KInt k, VInt x =>
    match (if dir then to_sbx a k x else to_app a k x) with
    | Some r => Some (res_map VInt r) | None => None end
  | KBits, VInt x => Some (Ok (VInt x))
  | KFn, VInt x => Some (Ok (VInt x))
  | KPtr, VPtr x => Some (Ok (VPtr (if dir then sandbox_ptr s x else unsandbox s x)))
  | KStruct fs, VStruct vs =>
    match (fix go (fs : list pkind) (vs : list aval) {struct fs} : option (list (option (res aval))) :=
             match fs, vs with
             | [], [] => Some []
             | f :: ft, x :: xt => match go ft xt with Some l => Some (cv f x :: l) | None => None end
             | _, _ => None
             end) fs vs with
    | Some l => match seq_all l with Some r => Some (res_map VStruct r) | None => None end
    | None => None
    end
  | _, _ => None
  end.

Fixpoint cv_list (ps : list pkind) (vs : list aval) : option (list (option (res aval))) :=
  match ps, vs with
  | [], [] => Some []
  | f :: ft, x :: xt => match cv_list ft xt with Some l => Some (cv f x :: l) | None => None end
  | _, _ => None
  end.
End Dir.

(* outcome of one invocation *)
Inductive inv_out :=
| IAbortBefore                                   (* an argument is not representable: the guest function is not called *)
| ICalled (gs : list aval) (r : res (option aval)).   (* called once with gs; result converted back, or abort *)

Definition invoke (a : abi) (s : region) (sig : list pkind) (args : list aval)
                  (retk : option pkind) (gret : aval) : option inv_out :=
  match cv_list a s true sig args with
  | None => None
  | Some l =>
    match seq_all l with
    | None => None
    | Some (Ok gs) =>
      match retk with
      | None => Some (ICalled gs (Ok None))
      | Some rk => match cv a s false rk gret with
                   | Some r => Some (ICalled gs (res_map Some r))
                   | None => None
                   end
      end
    | Some _ => Some IAbortBefore
    end
  end.

(* ---------- what C11 demands ---------- *)
(* the value the other side must see, or Abort when it is not representable there *)
Section Spec.
Variable a : abi.
Variable s : region.
Variable dir : bool.

Fixpoint sv (p : pkind) (v : aval) {struct p} : option (res aval) :=
  match p, v with
  | KInt k, VInt x =>
    match sbx_equiv a k with
    | Some sk => Some (if in_range (if dir then sk else k) x then Ok (VInt x) else Abort)
    | None => None
    end
  | KBits, VInt x => Some (Ok (VInt x))
  | KFn, VInt x => Some (Ok (VInt x))
  | KPtr, VPtr x =>
    Some (Ok (VPtr (if x =? 0 then 0 else if dir then (x - rbase s) mod rsize s else rbase s + x)))
  | KStruct fs, VStruct vs =>
    match (fix go (fs : list pkind) (vs : list aval) {struct fs} : option (list (option (res aval))) :=
             match fs, vs with
             | [], [] => Some []
             | f :: ft, x :: xt => match go ft xt with Some l => Some (sv f x :: l) | None => None end
             | _, _ => None
             end) fs vs with
    | Some l => match seq_all l with Some r => Some (res_map VStruct r) | None => None end
    | None => None
    end
  | _, _ => None
  end.

Fixpoint sv_list (ps : list pkind) (vs : list aval) : option (list (option (res aval))) :=
  match ps, vs with
  | [], [] => Some []
  | f :: ft, x :: xt => match sv_list ft xt with Some l => Some (sv f x :: l) | None => None end
  | _, _ => None
  end.
End Spec.

Definition invoke_spec (a : abi) (s : region) (sig : list pkind) (args : list aval)
                       (retk : option pkind) (gret : aval) : option inv_out :=
  match sv_list a s true sig args with
  | None => None
  | Some l =>
    match seq_all l with
    | None => None
    | Some (Ok gs) =>
      match retk with
      | None => Some (ICalled gs (Ok None))
      | Some rk => match sv a s false rk gret with
                   | Some r => Some (ICalled gs (res_map Some r))
                   | None => None
                   end
      end
    | Some _ => Some IAbortBefore
    end
  end.

(* well-typed values: integers in the range of their kind on the side they come from *)
Fixpoint wt (a : abi) (dir : bool) (p : pkind) (v : aval) {struct p} : Prop :=
  match p, v with
  | KInt k, VInt x =>
    if dir then in_range k x = true
    else match sbx_equiv a k with Some sk => in_range sk x = true | None => True end
  | KStruct fs, VStruct vs =>
    (fix go (fs : list pkind) (vs : list aval) {struct fs} : Prop :=
       match fs, vs with
       | f :: ft, x :: xt => wt a dir f x /\ go ft xt
       | _, _ => True
       end) fs vs
  | _, _ => True
  end.
Fixpoint wt_list (a : abi) (dir : bool) (ps : list pkind) (vs : list aval) : Prop :=
  match ps, vs with
  | f :: ft, x :: xt => wt a dir f x /\ wt_list a dir ft xt
  | _, _ => True
  end.

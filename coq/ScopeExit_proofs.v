From RLBoxV Require Import ScopeExit.

Definition is_armed (o : option bool) : bool := match o with Some true => true | _ => false end.

Lemma armed_set l : forall j v a, nth j l None = Some a ->
  armed_count (set_obj l j v) + (if a then 1 else 0) = armed_count l + (if is_armed v then 1 else 0).
Proof.
  unfold armed_count. induction l as [|x tl IH]; intros j v a H; destruct j as [|j]; cbn in H; try discriminate.
  - subst x. cbn [set_obj filter]. destruct a; destruct (is_armed v) eqn:E; unfold is_armed in E; destruct v as [[|]|]; try discriminate; cbn; lia.
  - specialize (IH j v a H). cbn [set_obj filter]. destruct x as [[|]|]; cbn [length]; lia.
Qed.

Lemma armed_app l x : armed_count (l ++ [x]) = armed_count l + (if is_armed x then 1 else 0).
Proof. unfold armed_count. rewrite filter_app, app_length. cbn. destruct x as [[|]|]; cbn; lia. Qed.

(* the duty is conserved: at every moment exactly one of {some live object is armed, the exit
   function has run, the guard was released while armed} holds, counted with multiplicity *)
Definition sx_inv (s : sx) : Prop := armed_count (objs s) + fired s + cancelled s = 1.

Lemma sx_step_inv s o : sx_inv s -> sx_inv (sx_step s o).
Proof.
  unfold sx_inv. intros H. destruct o as [j|j|j]; cbn [sx_step]; destruct (nth j (objs s) None) as [a|] eqn:E; try exact H; cbn [objs fired cancelled].
  - rewrite armed_app. pose proof (armed_set (objs s) j (Some false) a E) as A. cbn [is_armed] in A. destruct a; cbn [is_armed]; lia.
  - pose proof (armed_set (objs s) j (Some false) a E) as A. cbn [is_armed] in A. destruct a; lia.
  - pose proof (armed_set (objs s) j None a E) as A. cbn [is_armed] in A. destruct a; lia.
Qed.

Theorem sx_run_inv ops : sx_inv (sx_run ops).
Proof.
  unfold sx_run. assert (G : forall s, sx_inv s -> sx_inv (fold_left sx_step ops s)).
  { induction ops as [|o tl IH]; intros s H; [exact H|]. cbn [fold_left]. apply IH. apply sx_step_inv. exact H. }
  apply G. reflexivity.
Qed.

Lemma all_destroyed_unarmed l : all_destroyed l = true -> armed_count l = 0.
Proof.
  unfold all_destroyed, armed_count. induction l as [|x tl IH]; [reflexivity|]. cbn [forallb filter].
  destruct x as [[|]|]; try discriminate. intros H. apply IH. exact H.
Qed.

(* once every object of the family has been destroyed: the exit function ran exactly once, or the
   guard was released while armed and it never ran; in particular never twice *)
Theorem sx_exactly_once ops :
  all_destroyed (objs (sx_run ops)) = true ->
  (fired (sx_run ops) = 1 /\ cancelled (sx_run ops) = 0) \/ (fired (sx_run ops) = 0 /\ cancelled (sx_run ops) = 1).
Proof.
  intros H. pose proof (sx_run_inv ops) as I. unfold sx_inv in I. rewrite (all_destroyed_unarmed _ H) in I. lia.
Qed.
Theorem sx_never_twice ops : fired (sx_run ops) <= 1.
Proof. pose proof (sx_run_inv ops) as I. unfold sx_inv in I. lia. Qed.

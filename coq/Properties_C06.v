(* Properties_C06.v — C06: integers crossing the ABI boundary keep their value
   or the operation aborts.  Statements only; proofs are in Conv_proofs.v. *)
From RLBoxV Require Import Conv Conv_proofs.
Local Open Scope Z_scope.

(* every ordered pair of integer types, every source value: exact value or abort *)
Theorem C06_scalar : forall to from v,
  in_range from v = true -> n2_pair to from = false ->
  conv to from v = (if in_range to v then Ok v else Abort).
Proof. exact conv_correct. Qed.
Print Assumptions C06_scalar.

(* arrays, element by element, memcpy fast path included *)
Theorem C06_array : forall to from vs,
  forallb (in_range from) vs = true -> n2_pair to from = false ->
  conv_array to from vs = conv_spec_list to vs.
Proof. exact conv_array_correct. Qed.
Print Assumptions C06_array.

(* every crossing path of every sandbox ABI: app -> sandbox *)
Theorem C06_path_to_sandbox : forall a k v r,
  abi_ok a = true -> in_range k v = true -> to_sbx a k v = Some r ->
  exists s, sbx_equiv a k = Some s /\ r = (if in_range s v then Ok v else Abort).
Proof. exact to_sbx_correct. Qed.
Print Assumptions C06_path_to_sandbox.

(* sandbox -> app *)
Theorem C06_path_to_application : forall a k s v r,
  abi_ok a = true -> sbx_equiv a k = Some s -> in_range s v = true -> to_app a k v = Some r ->
  r = (if in_range k v then Ok v else Abort).
Proof. exact to_app_correct. Qed.
Print Assumptions C06_path_to_application.

Theorem C06_roundtrip : forall a k s v,
  abi_ok a = true -> sbx_equiv a k = Some s -> in_range k v = true ->
  (x <- conv s k v ;; conv k s x) = (if in_range s v then Ok v else Abort).
Proof. exact roundtrip. Qed.
Print Assumptions C06_roundtrip.

(* N2 (noted, outside the ABI map): without the exclusion the statement is false *)
Theorem C06_scalar_full_refuted : ~ conv_correct_full.
Proof. exact conv_correct_full_refuted. Qed.
Print Assumptions C06_scalar_full_refuted.

Theorem C06_nonvacuous :
  in_range ILong (2^40) = true /\ n2_pair IInt ILong = false /\ conv IInt ILong (2^40) = Abort
  /\ conv IUInt ILong 4294967295 = Ok 4294967295 /\ abi_ok abi_lp32 = true.
Proof. exact conv_hyps_satisfiable. Qed.

(* the source of the conversion is a location in SANDBOX memory (a load, a call result or a callback argument read in place):
   the value that is range-checked is the value that is converted, whatever the sandbox writes there afterwards
   (fix: commit for D21); reading the location once per check and again for the cast is refuted: the application gets a
   value no read ever returned in range *)
Theorem C06_source_in_sandbox_memory : forall to from f,
  in_range from (f 0%nat) = true -> n2_pair to from = false ->
  conv_cell to from f = (if in_range to (f 0%nat) then Ok (f 0%nat) else Abort).
Proof. exact conv_cell_correct. Qed.
Print Assumptions C06_source_in_sandbox_memory.
Theorem C06_source_reread_before_fix_refuted :
  let f := fun i : nat => match i with O => -32768 | _ => -32769 end in
  (forall i, in_range IInt (f i) = true) /\
  conv_cell_reread IShort f = Ok 32767 /\
  conv_cell IShort IInt f = Ok (-32768) /\ conv IShort IInt (-32769) = Abort.
Proof. exact conv_cell_reread_refuted. Qed.


(* Properties_C12.v — C12: a callback call runs exactly the registered function, with the
   executing sandbox and faithfully converted arguments/results.  For EVERY slot table
   (hence after every register/unregister history), every call tree of any depth over any
   number of sandboxes, every value.  Statements only. *)
From RLBoxV Require Import Calls Calls_proofs World Conv Conv_proofs Ptr Ptr_proofs.
Local Open Scope Z_scope.

(* refinement: the run that goes through the back end's thread record {sandbox, last slot}
   (trampoline stores the slot, interceptor fetches (sandbox, key) on entry, invoke saves and
   restores the sandbox) produces exactly the events of the specification in which entry point
   k called by sandbox s runs slot_of s k once, on (cout arg), and returns (cin ret) — and the
   thread's current sandbox after any completed or aborted subtree is what it was before *)
Theorem C12_dispatch : forall slot_of cb_void g_void cin cout n is_invoke t,
  let '(evs, ab, t', recs) := run slot_of cb_void g_void cin cout false is_invoke t n in
  (evs, ab) = spec slot_of cb_void g_void cin cout is_invoke (cur t) n /\ cur t' = cur t.
Proof. intros. exact (run_refines_spec slot_of cb_void g_void cin cout n is_invoke t). Qed.
Print Assumptions C12_dispatch.

(* every application function that runs is the one registered at some entry point of the
   sandbox it is handed *)
Theorem C12_runs_only_registered : forall slot_of cb_void g_void cin cout n is_invoke c fn sb,
  In (fn, sb) (rans (fst (spec slot_of cb_void g_void cin cout is_invoke c n))) ->
  exists slot, slot_of sb slot = Some fn.
Proof. intros. exact (spec_ran_registered slot_of cb_void g_void cin cout n is_invoke c (fn, sb) H). Qed.
Print Assumptions C12_runs_only_registered.

(* ... in particular after every history of the registry model *)
Theorem C12_after_any_history : forall ops nsb nslots nown w xs cb_void g_void cin cout n is_invoke t,
  wrun code_move_assign_releases (world_init nsb nslots nown) ops = Ok (w, xs) ->
  let '(evs, ab, t', recs) := run (world_slot_of w) cb_void g_void cin cout false is_invoke t n in
  (evs, ab) = spec (world_slot_of w) cb_void g_void cin cout is_invoke (cur t) n /\ cur t' = cur t.
Proof. intros. exact (run_refines_spec (world_slot_of w) cb_void g_void cin cout n is_invoke t). Qed.

(* the early fetch of the key is necessary (a late fetch dispatches wrongly after a nested callback) *)
Theorem C12_early_key_fetch_needed :
  let slot := fun (s k : nat) => match k with 0%nat => Some 10%nat | 1%nat => Some 11%nat | _ => None end in
  let t := Node 0 0 5 0 false false
             [Node 0 0 1 2 false false [Node 0 0 5 0 false false [Node 1 0 1 2 false false []]]] in
  let idc := fun v : Z => Ok v in
  rans (fst (fst (fst (run slot (fun _ => false) (fun _ => false) idc idc true true {| cur := 9; lastcb := 0 |} t))))
    <> rans (fst (spec slot (fun _ => false) (fun _ => false) idc idc true 9%nat t)) /\
  rans (fst (fst (fst (run slot (fun _ => false) (fun _ => false) idc idc false true {| cur := 9; lastcb := 0 |} t))))
    = rans (fst (spec slot (fun _ => false) (fun _ => false) idc idc true 9%nat t)).
Proof. exact late_key_breaks_dispatch. Qed.

(* the conversions [cin] / [cout] the dispatch theorems are parametric in, for the kinds a callback's parameter or result can
   have: an integer the guest passes (any value of the guest's type) reaches the function unchanged or the call aborts; a
   result is delivered to the guest unchanged or the call aborts; a data pointer the guest passes is null exactly when the
   function sees null, otherwise designates base + representation inside the sandbox, and converts back to the same bits *)
Theorem C12_integer_parameter : forall a k s v, abi_ok a = true -> sbx_equiv a k = Some s -> in_range s v = true ->
  to_app a k v = Some (if in_range k v then Ok v else Abort).
Proof. exact cb_int_param. Qed.
Theorem C12_integer_result : forall a k v, abi_ok a = true -> in_range k v = true ->
  (exists s, sbx_equiv a k = Some s /\ to_sbx a k v = Some (if in_range s v then Ok v else Abort)) \/ sbx_equiv a k = None.
Proof. exact cb_int_result. Qed.
Theorem C12_pointer_parameter : forall s rep, region_ok s -> 0 <= rep < rsize s ->
  (unsandbox s rep = 0 <-> rep = 0) /\ ptr_inv s (unsandbox s rep) /\ sandbox_ptr s (unsandbox s rep) = rep.
Proof. exact cb_ptr_param. Qed.
Print Assumptions C12_pointer_parameter.

(* Typing.v — the typing discipline of the wrapper API as a finite RULE TABLE judged by the C++
   compiler (regenerated from /repo's headers on every run into Gen_Rules_C01.v / Gen_Rules_C02.v),
   expressions over it, and the per-entry obligations of C01 (taint is not lost implicitly) and
   C02 (raw application pointers / foreign-sandbox data do not enter a sink). *)
From Coq Require Export List Bool Arith PeanoNat.
Export ListNotations.

Inductive kind := Plain | KT | KTV | KOpaque | KCb | KAppPtr | KBoolHint | KIntHint.
Definition kind_eqb (a b : kind) : bool :=
  match a, b with
  | Plain, Plain | KT, KT | KTV, KTV | KOpaque, KOpaque | KCb, KCb | KAppPtr, KAppPtr
  | KBoolHint, KBoolHint | KIntHint, KIntHint => true
  | _, _ => false
  end.

(* a (possibly wrapped) type: wrapper kind and an identifier of the underlying C++ type;
   type id 0 is void (no value) *)
Record wt := { wk : kind; wty : nat }.
Definition wt_eqb (a b : wt) : bool := kind_eqb (wk a) (wk b) && Nat.eqb (wty a) (wty b).
Definition wrapped (w : wt) : bool := negb (kind_eqb (wk w) Plain).
Definition is_void (w : wt) : bool := Nat.eqb (wty w) 0.

(* one row of the table: program form, operand types, the compiler's verdict
   (None: the program does not compile; Some w: it compiles and the expression has type w) *)
Record entry := { form : nat; args : list wt; verdict : option wt }.

Fixpoint wts_eqb (a b : list wt) : bool :=
  match a, b with
  | [], [] => true
  | x :: xs, y :: ys => wt_eqb x y && wts_eqb xs ys
  | _, _ => false
  end.

Definition lookup (tbl : list entry) (f : nat) (ts : list wt) : option entry :=
  find (fun en => Nat.eqb (form en) f && wts_eqb (args en) ts) tbl.

(* expressions built from the table's forms: sandbox-originated leaves, application leaves, operators *)
Inductive expr := Src (w : wt) | App (w : wt) | Op (f : nat) (es : list expr).

Fixpoint seq_opt {A} (l : list (option A)) : option (list A) :=
  match l with
  | [] => Some []
  | Some x :: tl => match seq_opt tl with Some xs => Some (x :: xs) | None => None end
  | None :: _ => None
  end.

Fixpoint ty (tbl : list entry) (e : expr) {struct e} : option wt :=
  match e with
  | Src w => Some w
  | App w => Some w
  | Op f es =>
    match seq_opt (map (ty tbl) es) with
    | Some ts => match lookup tbl f ts with Some en => verdict en | None => None end
    | None => None
    end
  end.

(* ---------- C01 ---------- *)
Section C01.
(* forms that are the explicitly named unwrapping calls, or the null test of a tainted pointer,
   and forms recorded as known findings (accepted although they unwrap: INTERNAL_unverified_safe) *)
Variable declass : nat -> list wt -> bool.

Definition rule_ok (en : entry) : bool :=
  declass (form en) (args en) || negb (existsb wrapped (args en)) ||
  match verdict en with None => true | Some w => wrapped w || is_void w end.

(* a sandbox-originated leaf that is not underneath a declassifying node (declassifying nodes
   cut the search; whether a node declassifies is decided with its operand types) *)
Fixpoint exposed_in (tbl : list entry) (e : expr) {struct e} : bool :=
  match e with
  | Src _ => true
  | App _ => false
  | Op f es =>
    match seq_opt (map (ty tbl) es) with
    | Some ts => if declass f ts then false else existsb (exposed_in tbl) es
    | None => existsb (exposed_in tbl) es
    end
  end.

Definition no_void_args (en : entry) : bool := forallb (fun a => negb (is_void a)) (args en).
Definition table_ok (tbl : list entry) : bool := forallb (fun en => rule_ok en && no_void_args en) tbl.

(* leaves carry the kinds they claim: Src leaves are wrapped, App leaves are plain *)
Fixpoint wf (e : expr) : bool :=
  match e with
  | Src w => wrapped w
  | App w => negb (wrapped w)
  | Op _ es => forallb wf es
  end.
End C01.

(* ---------- C02 ---------- *)
Section C02.
(* forms that place an operand into sandbox-visible state (store into tainted / tainted_volatile,
   argument of a sandbox call, callback registration / return), operands that must not get there
   unchecked (raw pointers, arrays of raw pointers, raw function pointers, wrappers of another sandbox
   type, non-conforming callback signatures: encoded as operand types by the generator), and the two
   checked entry points *)
Variable is_sink : nat -> bool.
Variable forbidden : wt -> bool.
Variable checked_entry : nat -> bool.

Definition sink_ok (en : entry) : bool :=
  negb (is_sink (form en) && existsb forbidden (args en)) || checked_entry (form en) ||
  match verdict en with None => true | Some _ => false end.

(* no node of the expression puts a forbidden operand into a sink, except the checked entry points *)
Fixpoint sinks_clean (tbl : list entry) (e : expr) {struct e} : bool :=
  match e with
  | Src _ | App _ => true
  | Op f es =>
    forallb (sinks_clean tbl) es &&
    match seq_opt (map (ty tbl) es) with
    | Some ts => negb (is_sink f && existsb forbidden ts) || checked_entry f
    | None => true
    end
  end.
End C02.

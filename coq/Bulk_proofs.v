(* Bulk_proofs.v — soundness and completeness of the range check and of the
   bulk routines built on it *)
From RLBoxV Require Import Ptr Ptr_proofs Bulk.
Local Open Scope Z_scope.

Lemma region_of_none_intro l a : (forall r, In r l -> inr r a = false) -> region_of l a = None.
Proof.
  induction l as [|x tl IH]; cbn [region_of]; intros H; [reflexivity|].
  rewrite (H x (or_introl eq_refl)). apply IH. intros r Hr; apply H; right; assumption.
Qed.

Lemma check_range_unfold g l p size :
  check_range g l p size = Ok tt <->
  p <> 0 /\ (g = false \/ w64 size = 0 \/ p <= w64 (p + w64 size - 1)) /\
  same_sbx l p (w64 (p + w64 size - 1)) = true.
Proof.
  unfold check_range. destruct (Z.eqb_spec p 0) as [->|Hne]; cbn [negb check bind].
  - split; [discriminate|intros [H _]; congruence].
  - destruct g; cbn [negb orb].
    + destruct (Z.eqb_spec (w64 size) 0) as [E|E]; cbn [orb check bind].
      * destruct (same_sbx l p _); cbn [check]; split; try discriminate; try tauto.
        intros (_ & _ & H); discriminate.
      * destruct (Z.leb_spec p (w64 (p + w64 size - 1))) as [Hle|Hgt]; cbn [check bind].
        -- destruct (same_sbx l p _); cbn [check]; split; try discriminate; try tauto.
           intros (_ & _ & H); discriminate.
        -- split; [discriminate|]. intros (_ & [Hx|[Hx|Hx]] & _); try discriminate; lia.
    + destruct (same_sbx l p _); cbn [check]; split; try discriminate; try tauto.
      intros (_ & _ & H); discriminate.
Qed.

(* sandbox-side range: accepted -> wholly inside that region (no wrap possible) *)
Lemma check_range_inside g l s p size :
  world_ok l -> In s l -> inr s p = true ->
  0 < size -> size <= rsize s -> rsize s <= 2^63 ->
  check_range g l p size = Ok tt -> range_inside s p size = true.
Proof.
  intros Hw Hin Hp Hs0 Hs1 Hr63 Hc.
  apply check_range_unfold in Hc as (Hne & _ & Hsame).
  destruct (world_ok_in l s Hw Hin) as (Hb & Hrs & Hend).
  apply inr_iff in Hp as Hp'.
  rewrite (w64_small size) in Hsame by (unfold M64 in *; lia).
  apply (same_sbx_in l s p _ Hw Hin Hp) in Hsame. apply inr_iff in Hsame.
  unfold range_inside. apply andb_true_intro; rewrite Z.leb_le, Z.leb_le.
  split; [lia|].
  unfold w64 in Hsame.
  destruct (Z.ltb_spec (p + size - 1) M64) as [Hlt|Hge].
  - rewrite Z.mod_small in Hsame by lia. lia.
  - exfalso.
    assert (E : (p + size - 1) mod M64 = p + size - 1 - M64).
    { symmetry. apply (Z.mod_unique _ _ 1); unfold M64 in *; lia. }
    rewrite E in Hsame. unfold M64 in *. lia.
Qed.

(* any range whose address arithmetic does not wrap *)
Lemma check_range_sound g l p size :
  world_ok l -> (forall r, In r l -> size <= rsize r) ->
  0 < size -> 0 <= p -> p + size <= M64 ->
  check_range g l p size = Ok tt -> range_good l p size = true.
Proof.
  intros Hw Hsz Hs0 Hp0 Hnw Hc.
  apply check_range_unfold in Hc as (Hne & _ & Hsame).
  rewrite (w64_small size) in Hsame by lia.
  rewrite (w64_small (p + size - 1)) in Hsame by lia.
  unfold range_good.
  destruct (Z.eqb_spec p 0); [congruence|]. cbn [negb andb].
  destruct (Z.ltb_spec 0 size); [|lia]. destruct (Z.leb_spec (p + size) M64); [|lia]. cbn [andb].
  destruct (region_of l p) as [s|] eqn:E.
  - destruct (region_of_some l p s E) as [Hin Hp].
    apply (same_sbx_in l s p _ Hw Hin Hp) in Hsame.
    apply orb_true_intro; left. apply existsb_exists. exists s; split; [assumption|].
    apply inr_iff in Hp. apply inr_iff in Hsame.
    unfold range_inside. apply andb_true_intro; rewrite !Z.leb_le; lia.
  - apply (same_sbx_out l p _ Hw E) in Hsame.
    apply orb_true_intro; right. apply forallb_forall. intros r Hr.
    pose proof (region_of_none l p E r Hr) as N1.
    pose proof (region_of_none l _ Hsame r Hr) as N2.
    apply inr_false_iff in N1. apply inr_false_iff in N2.
    specialize (Hsz r Hr). destruct (world_ok_in l r Hw Hr) as (Hb & Hrs & _).
    unfold range_outside. apply orb_true_intro.
    destruct (Z.leb_spec (p + size) (rbase r)); [left; reflexivity|].
    right. apply Z.leb_le. lia.
Qed.

Lemma check_range_complete g l p size :
  world_ok l -> 0 <= p -> range_good l p size = true -> check_range g l p size = Ok tt.
Proof.
  intros Hw Hp0 Hg. unfold range_good in Hg.
  apply andb_prop in Hg as [Hg Hio]. apply andb_prop in Hg as [Hg Hnw].
  apply andb_prop in Hg as [Hne Hs0].
  apply Z.ltb_lt in Hs0. apply Z.leb_le in Hnw.
  apply check_range_unfold.
  destruct (Z.eqb_spec p 0) as [|Hp]; [discriminate|]. split; [assumption|].
  rewrite (w64_small size) by lia. rewrite (w64_small (p + size - 1)) by lia.
  split; [right; right; lia|].
  apply orb_prop in Hio as [Hin|Hout].
  - apply existsb_exists in Hin as (s & Hs & Hi).
    unfold range_inside in Hi. apply andb_prop in Hi as [H1 H2].
    apply Z.leb_le in H1. apply Z.leb_le in H2.
    destruct (world_ok_in l s Hw Hs) as (Hb & Hrs & Hend).
    apply (same_sbx_in l s p _ Hw Hs); apply inr_iff; lia.
  - rewrite forallb_forall in Hout.
    assert (N1 : region_of l p = None).
    { apply region_of_none_intro. intros r Hr. specialize (Hout r Hr).
      destruct (world_ok_in l r Hw Hr) as (Hb & Hrs & _).
      apply inr_false_iff. unfold range_outside in Hout.
      apply orb_prop in Hout as [H|H]; apply Z.leb_le in H; lia. }
    apply (same_sbx_out l p _ Hw N1).
    apply region_of_none_intro. intros r Hr. specialize (Hout r Hr).
    destruct (world_ok_in l r Hw Hr) as (Hb & Hrs & Hend).
    apply inr_false_iff. unfold range_outside in Hout.
    apply orb_prop in Hout as [H|H]; apply Z.leb_le in H; lia.
Qed.

(* ---------- the routines ---------- *)
(* all live sandboxes are instances of one back-end type: same total memory *)
Definition uniform (l : list region) (total : Z) : Prop :=
  forall r, In r l -> rsize r = total.

Lemma rl_memset_safe g l s total dest n fp :
  world_ok l -> uniform l total -> total <= 2^63 -> In s l -> inr s dest = true ->
  0 < w64 n -> rl_memset g l total dest n = Ok fp ->
  fp = [WR dest (w64 n)] /\ range_inside s dest (w64 n) = true.
Proof.
  intros Hw Hu Ht Hin Hd Hn0. unfold rl_memset.
  destruct (Z.leb_spec (w64 n) total) as [Hle|]; cbn [check bind]; [|discriminate].
  destruct (check_range g l dest (w64 n)) as [[]| | |] eqn:E; cbn [bind]; try discriminate.
  intros H; inversion H; subst. split; [reflexivity|].
  apply (check_range_inside g l s dest (w64 n) Hw Hin Hd Hn0); rewrite ?(Hu s Hin); try lia; assumption.
Qed.

Lemma rl_memset_complete g l s total dest n :
  world_ok l -> uniform l total -> In s l ->
  0 < w64 n -> range_inside s dest (w64 n) = true ->
  rl_memset g l total dest n = Ok [WR dest (w64 n)].
Proof.
  intros Hw Hu Hin Hn0 Hi. unfold rl_memset.
  destruct (world_ok_in l s Hw Hin) as (Hb & Hrs & Hend).
  unfold range_inside in Hi. apply andb_prop in Hi as [H1 H2].
  apply Z.leb_le in H1. apply Z.leb_le in H2.
  rewrite <- (Hu s Hin).
  destruct (Z.leb_spec (w64 n) (rsize s)); [|lia]. cbn [check bind].
  rewrite (check_range_complete g l dest (w64 n) Hw ltac:(lia)); [reflexivity|].
  unfold range_good. destruct (Z.eqb_spec dest 0); [lia|].
  destruct (Z.ltb_spec 0 (w64 n)); [|lia]. destruct (Z.leb_spec (dest + w64 n) M64); [|lia].
  cbn [negb andb]. apply orb_true_intro; left. apply existsb_exists. exists s. split; [assumption|].
  unfold range_inside. apply andb_true_intro; rewrite !Z.leb_le; lia.
Qed.

Lemma rl_memcpy_safe g l s total dest src n fp :
  world_ok l -> uniform l total -> total <= 2^63 -> In s l -> inr s dest = true ->
  0 < w64 n -> 0 <= src -> src + w64 n <= M64 ->
  rl_memcpy g l total dest src n = Ok fp ->
  fp = [WR dest (w64 n); RD src (w64 n)] /\ range_inside s dest (w64 n) = true /\
  range_good l src (w64 n) = true.
Proof.
  intros Hw Hu Ht Hin Hd Hn0 Hs0 Hsnw. unfold rl_memcpy.
  destruct (Z.leb_spec (w64 n) total) as [Hle|]; cbn [check bind]; [|discriminate].
  destruct (check_range g l dest (w64 n)) as [[]| | |] eqn:E; cbn [bind]; try discriminate.
  destruct (check_range g l src (w64 n)) as [[]| | |] eqn:E2; cbn [bind]; try discriminate.
  intros H; inversion H; subst. split; [reflexivity|]. split.
  - apply (check_range_inside g l s dest (w64 n) Hw Hin Hd Hn0); rewrite ?(Hu s Hin); try lia; assumption.
  - apply (check_range_sound g l src (w64 n) Hw); try assumption.
    intros r Hr. rewrite (Hu r Hr). assumption.
Qed.

Lemma rl_memcmp_safe g l s total dest src n fp :
  world_ok l -> uniform l total -> total <= 2^63 -> In s l -> inr s dest = true ->
  0 < w64 n -> 0 <= src -> src + w64 n <= M64 ->
  rl_memcmp g l total dest src n = Ok fp ->
  fp = [RD dest (w64 n); RD src (w64 n)] /\ range_inside s dest (w64 n) = true /\
  range_good l src (w64 n) = true.
Proof.
  intros Hw Hu Ht Hin Hd Hn0 Hs0 Hsnw. unfold rl_memcmp.
  destruct (Z.leb_spec (w64 n) total) as [Hle|]; cbn [check bind]; [|discriminate].
  destruct (check_range g l dest (w64 n)) as [[]| | |] eqn:E; cbn [bind]; try discriminate.
  destruct (check_range g l src (w64 n)) as [[]| | |] eqn:E2; cbn [bind]; try discriminate.
  intros H; inversion H; subst. split; [reflexivity|]. split.
  - apply (check_range_inside g l s dest (w64 n) Hw Hin Hd Hn0); rewrite ?(Hu s Hin); try lia; assumption.
  - apply (check_range_sound g l src (w64 n) Hw); try assumption.
    intros r Hr. rewrite (Hu r Hr). assumption.
Qed.

(* too large, null: never proceed *)
Lemma rl_too_large g l total dest src n :
  total < w64 n -> rl_memset g l total dest n = Abort /\ rl_memcpy g l total dest src n = Abort /\
  rl_memcmp g l total dest src n = Abort.
Proof.
  intros H. unfold rl_memset, rl_memcpy, rl_memcmp.
  destruct (Z.leb_spec (w64 n) total); [lia|]. repeat split.
Qed.
Lemma rl_null g l total src n :
  rl_memset g l total 0 n = Abort /\ rl_memcpy g l total 0 src n = Abort /\ rl_memcmp g l total 0 src n = Abort.
Proof.
  unfold rl_memset, rl_memcpy, rl_memcmp.
  destruct (w64 n <=? total); cbn [check bind]; repeat split.
Qed.

(* sandbox-side range with the no-wrap guard: no bound on size needed *)
Lemma check_range_inside_guarded l s p size :
  world_ok l -> In s l -> inr s p = true -> 0 < size < M64 ->
  check_range true l p size = Ok tt -> range_inside s p size = true.
Proof.
  intros Hw Hin Hp Hs Hc.
  apply check_range_unfold in Hc as (Hne & Hg & Hsame).
  destruct (world_ok_in l s Hw Hin) as (Hb & Hrs & Hend).
  apply inr_iff in Hp as Hp'.
  rewrite (w64_small size) in * by lia.
  destruct Hg as [Hg|[Hg|Hg]]; [discriminate|lia|].
  apply (same_sbx_in l s p _ Hw Hin Hp) in Hsame. apply inr_iff in Hsame.
  unfold range_inside. apply andb_true_intro; rewrite Z.leb_le, Z.leb_le. split; [lia|].
  unfold w64 in *.
  destruct (Z.ltb_spec (p + size - 1) M64) as [Hlt|Hge].
  - rewrite Z.mod_small in Hsame by lia. lia.
  - exfalso.
    assert (E : (p + size - 1) mod M64 = p + size - 1 - M64).
    { symmetry. apply (Z.mod_unique _ _ 1); unfold M64 in *; lia. }
    rewrite E in Hg. lia.
Qed.

(* counted pointers (current code): every accepted count really fits — all counts, all sizes *)
Lemma verify_range_counted l s start count elsz a :
  world_ok l -> In s l -> inr s start = true ->
  0 <= count -> 0 < elsz ->
  verify_range true l start count elsz = Ok (Some a) ->
  a = start /\ 0 < count /\ range_inside s start (count * elsz) = true.
Proof.
  intros Hw Hin Hst Hc He. unfold verify_range.
  destruct (Z.eqb_spec count 0); cbn [negb check bind]; [discriminate|].
  destruct (world_ok_in l s Hw Hin) as (Hb & Hrs & Hend). apply inr_iff in Hst as Hst'.
  destruct (Z.eqb_spec start 0); [lia|]. cbn [orb].
  destruct (Z.ltb_spec (count * elsz) M64) as [Hlt|]; cbn [check bind]; [|discriminate].
  rewrite (w64_small (count * elsz)) by nia.
  destruct (check_range true l start (count * elsz)) as [[]| | |] eqn:E; cbn [bind]; try discriminate.
  intros H; inversion H; subst. split; [reflexivity|]. split; [lia|].
  apply (check_range_inside_guarded l s a (count * elsz) Hw Hin Hst); [nia|assumption].
Qed.

Lemma verify_range_complete l s start count elsz :
  world_ok l -> In s l -> 0 < count -> 0 < elsz ->
  range_inside s start (count * elsz) = true ->
  verify_range true l start count elsz = Ok (Some start).
Proof.
  intros Hw Hin Hc He Hi. unfold verify_range.
  destruct (world_ok_in l s Hw Hin) as (Hb & Hrs & Hend).
  unfold range_inside in Hi. apply andb_prop in Hi as [H1 H2].
  apply Z.leb_le in H1. apply Z.leb_le in H2.
  destruct (Z.eqb_spec count 0); [lia|]. cbn [negb check bind orb].
  destruct (Z.eqb_spec start 0); [lia|].
  destruct (Z.ltb_spec (count * elsz) M64); [|nia]. cbn [check bind].
  rewrite (w64_small (count * elsz)) by nia.
  rewrite (check_range_complete true l start (count * elsz) Hw ltac:(lia)); [reflexivity|].
  unfold range_good. destruct (Z.eqb_spec start 0); [lia|].
  destruct (Z.ltb_spec 0 (count * elsz)); [|nia]. destruct (Z.leb_spec (start + count * elsz) M64); [|lia].
  cbn [negb andb]. apply orb_true_intro; left. apply existsb_exists. exists s. split; [assumption|].
  unfold range_inside. apply andb_true_intro; rewrite !Z.leb_le; lia.
Qed.

Lemma verify_range_zero_null g l start elsz :
  verify_range g l start 0 elsz = Abort /\ (forall count, count <> 0 -> verify_range g l 0 count elsz = Ok None).
Proof.
  split; [reflexivity|]. intros count Hc. unfold verify_range.
  destruct (Z.eqb_spec count 0); [lia|]. reflexivity.
Qed.

Lemma usp_counted l s p count elsz a :
  world_ok l -> In s l -> inr s p = true -> 0 < count -> 0 < elsz ->
  usp_because true l p count elsz = Ok a -> a = p /\ range_inside s p (count * elsz) = true.
Proof.
  intros Hw Hin Hp Hc He. unfold usp_because.
  destruct (world_ok_in l s Hw Hin) as (Hb & Hrs & Hend). apply inr_iff in Hp as Hp'.
  destruct (Z.eqb_spec p 0); [lia|]. cbn [negb orb].
  destruct (Z.ltb_spec (count * elsz) M64) as [Hlt|]; cbn [check bind]; [|discriminate].
  rewrite (Z.mul_comm elsz count). rewrite (w64_small (count * elsz)) by nia.
  destruct (check_range true l p (count * elsz)) as [[]| | |] eqn:E; cbn [bind]; try discriminate.
  intros H; inversion H; subst. split; [reflexivity|].
  apply (check_range_inside_guarded l s a (count * elsz) Hw Hin Hp); [nia|assumption].
Qed.

(* ---------- the defects repaired by the fix: commits, kept as regression witnesses ---------- *)
Definition verify_range_counted_full (g : bool) : Prop :=
  forall l s start count elsz a, world_ok l -> In s l -> inr s start = true ->
  0 < count -> 0 < elsz ->
  verify_range g l start count elsz = Ok (Some a) -> counted_good l start count elsz = true.

(* D6: without the guards the product wraps and the check passes *)
Lemma verify_range_unguarded_refuted : ~ verify_range_counted_full false.
Proof.
  intros H.
  specialize (H [demo_region] demo_region (2^44 + 64) (2^62 + 1) 4 (2^44 + 64) demo_world_ok
               (or_introl eq_refl) eq_refl eq_refl eq_refl eq_refl).
  vm_compute in H. discriminate.
Qed.

Lemma verify_range_guarded_full : verify_range_counted_full true.
Proof.
  intros l s start count elsz a Hw Hin Hst Hc He H.
  destruct (verify_range_counted l s start count elsz a Hw Hin Hst ltac:(lia) He H) as (-> & _ & Hi).
  destruct (world_ok_in l s Hw Hin) as (Hb & Hrs & Hend). apply inr_iff in Hst as Hst'.
  unfold range_inside in Hi. apply andb_prop in Hi as [H1 H2].
  apply Z.leb_le in H1. apply Z.leb_le in H2.
  unfold counted_good, range_good. destruct (Z.eqb_spec start 0); [lia|].
  destruct (Z.ltb_spec 0 (count * elsz)); [|nia]. destruct (Z.leb_spec (start + count * elsz) M64); [|lia].
  cbn [negb andb]. apply orb_true_intro; left. apply existsb_exists. exists s. split; [assumption|].
  unfold range_inside. apply andb_true_intro; rewrite !Z.leb_le; lia.
Qed.

(* D7 before the fix *)
Lemma usp_because_unfixed_wrong_size :
  (* 4000 chars that fit are refused *)
  usp_because false [{| rbase := 2^44; rsize := 4096 |}] (2^44 + 16) 4000 1 = Abort /\
  (* 100 elements of 40 bytes that do not fit are accepted *)
  usp_because false [demo_region] (2^44 + 2^32 - 1000) 100 40 = Ok (2^44 + 2^32 - 1000).
Proof. split; vm_compute; reflexivity. Qed.

(* ---------- copy_memory_or_deny_access / copy_memory_or_grant_access (copy paths) ---------- *)
Lemma w64_idem x : w64 (w64 x) = w64 x.
Proof. unfold w64, M64. apply Z.mod_mod. lia. Qed.

Lemma check_oa b : check b = Ok tt \/ check b = Abort.
Proof. destruct b; [left|right]; reflexivity. Qed.

Lemma check_range_oa g l p size : check_range g l p size = Ok tt \/ check_range g l p size = Abort.
Proof.
  unfold check_range.
  destruct (negb (p =? 0)); cbn [check bind]; [|right; reflexivity].
  destruct (negb g || (w64 size =? 0) || (p <=? w64 (p + w64 size - 1)))%bool; cbn [check bind]; [|right; reflexivity].
  apply check_oa.
Qed.

Lemma verify_range_oa g l start count elsz :
  (exists r, verify_range g l start count elsz = Ok r) \/ verify_range g l start count elsz = Abort.
Proof.
  unfold verify_range. destruct (negb (count =? 0)); cbn [check bind]; [|right; reflexivity].
  destruct (start =? 0); [left; eexists; reflexivity|].
  destruct (negb g || (count * elsz <? M64))%bool; cbn [check bind]; [|right; reflexivity].
  destruct (check_range_oa g l start (w64 (count * elsz))) as [-> | ->]; cbn [bind]; [left; eexists; reflexivity|right; reflexivity].
Qed.

Lemma verify_range_some_nonnull g l start count elsz : start <> 0 ->
  verify_range g l start count elsz <> Ok None.
Proof.
  intros Hs. unfold verify_range. destruct (negb (count =? 0)); cbn [check bind]; [|discriminate].
  destruct (Z.eqb_spec start 0); [contradiction|].
  destruct (negb g || (count * elsz <? M64))%bool; cbn [check bind]; [|discriminate].
  destruct (check_range g l start (w64 (count * elsz))) as [[]| | |]; cbn [bind]; discriminate.
Qed.

(* a source buffer in sandbox s: the copy reads exactly num*elsz bytes, all inside s; a request whose
   extent leaves s (or wraps) is refused before anything is read *)
Lemma copy_or_deny_safe l s src num elsz fp :
  world_ok l -> In s l -> inr s src = true -> 0 <= num -> 0 < elsz ->
  copy_or_deny true l src num elsz = Ok fp ->
  fp = [RD src (num * elsz)] /\ 0 < num /\ range_inside s src (num * elsz) = true.
Proof.
  intros Hw Hin Hs Hn He. unfold copy_or_deny.
  destruct (world_ok_in l s Hw Hin) as (Hb & Hrs & Hend). apply inr_iff in Hs as Hs'.
  destruct (verify_range true l src num elsz) as [[a|]| | |] eqn:E; cbn [bind]; try discriminate.
  - destruct (verify_range_counted l s src num elsz a Hw Hin Hs Hn He E) as (-> & Hp & Hr).
    intros H; inversion H; subst. split; [|split; assumption]. f_equal. f_equal.
    apply w64_small.
    unfold range_inside in Hr. apply andb_prop in Hr as [H1 H2]. apply Z.leb_le in H1. apply Z.leb_le in H2.
    unfold M64 in *. nia.
  - exfalso. apply (verify_range_some_nonnull true l src num elsz); [lia|exact E].
Qed.

Lemma copy_or_deny_refuses l s src num elsz :
  world_ok l -> In s l -> inr s src = true -> 0 < num -> 0 < elsz ->
  range_inside s src (num * elsz) = false -> copy_or_deny true l src num elsz = Abort.
Proof.
  intros Hw Hin Hs Hn He Hout. unfold copy_or_deny.
  destruct (world_ok_in l s Hw Hin) as (Hb & Hrs & Hend). apply inr_iff in Hs as Hs'.
  destruct (verify_range_oa true l src num elsz) as [[r E]|E]; rewrite E; cbn [bind]; [|reflexivity].
  destruct r as [a|].
  - destruct (verify_range_counted l s src num elsz a Hw Hin Hs ltac:(lia) He E) as (_ & _ & Hr). congruence.
  - exfalso. apply (verify_range_some_nonnull true l src num elsz); [lia|exact E].
Qed.

(* copy_memory_or_grant_access (copy path): whatever address the back end's allocator returns, the bytes
   written lie inside sandbox s and the bytes read form a good application-side range *)
Lemma copy_or_grant_safe g l s total src num elsz ret fp :
  world_ok l -> uniform l total -> total <= 2^63 -> In s l ->
  0 < num -> 0 < elsz -> 0 < w64 (num * elsz) -> 0 <= src -> src + w64 (num * elsz) <= M64 ->
  copy_or_grant g l s total src num elsz ret = Ok fp -> fp <> [] ->
  exists p, fp = [WR p (w64 (num * elsz)); RD src (w64 (num * elsz))] /\ inr s p = true /\
            range_inside s p (w64 (num * elsz)) = true /\ range_good l src (w64 (num * elsz)) = true.
Proof.
  intros Hw Hu Ht Hin Hn He Hsz Hs0 Hsw. unfold copy_or_grant.
  destruct (num <=? 4294967295); cbn [check bind]; [|discriminate].
  destruct (malloc_in_sandbox l s true num elsz ret) as [p| | |] eqn:Em; cbn [bind]; try discriminate.
  destruct (Z.eqb_spec p 0) as [->|Hp]; [intros H Hne; inversion H; subst; congruence|].
  intros H _.
  assert (Hinp : inr s p = true).
  { unfold malloc_in_sandbox in Em. cbn [negb] in Em. destruct (negb (num =? 0)); cbn [check bind] in Em; [|discriminate].
    destruct (unsandbox s ret =? 0) eqn:Ez; [inversion Em; subst; lia|].
    destruct (inr s (unsandbox s ret)) eqn:Ei; cbn [check bind] in Em; [|discriminate].
    destruct (same_sbx l (unsandbox s ret) _); cbn [check bind] in Em; [|discriminate]. inversion Em; subst. exact Ei. }
  destruct (rl_memcpy_safe g l s total p src (w64 (num * elsz)) fp Hw Hu Ht Hin Hinp) as (F & R1 & R2);
    rewrite ?w64_idem; try assumption.
  exists p. rewrite w64_idem in F, R1, R2. repeat split; assumption.
Qed.

(* a buffer handed to the back end's grant / deny primitive was range-checked first *)
Lemma grant_or_copy_checked g l s total src num elsz succ mret fp :
  grant_or_copy g l s total src num elsz succ mret = Ok (true, fp) ->
  check_range g l src (w64 (num * elsz)) = Ok tt /\ succ = true /\ fp = [].
Proof.
  unfold grant_or_copy. destruct (check_range g l src (w64 (num * elsz))) as [[]| | |] eqn:C; cbn [bind]; try discriminate.
  destruct succ.
  - intros H. inversion H. auto.
  - destruct (copy_or_grant g l s total src num elsz mret); cbn [bind]; intros H; inversion H.
Qed.
Lemma deny_or_copy_checked g l src num elsz succ fp :
  deny_or_copy g l src num elsz succ = Ok (true, fp) ->
  check_range g l src (w64 (num * elsz)) = Ok tt /\ succ = true /\ fp = [].
Proof.
  unfold deny_or_copy. destruct (check_range g l src (w64 (num * elsz))) as [[]| | |] eqn:C; cbn [bind]; try discriminate.
  destruct succ.
  - intros H. inversion H. auto.
  - destruct (copy_or_deny g l src num elsz); cbn [bind]; intros H; inversion H.
Qed.

Lemma granted_range_good g l s total src num elsz succ mret fp :
  world_ok l -> (forall r, In r l -> w64 (num * elsz) <= rsize r) ->
  0 < w64 (num * elsz) -> 0 <= src -> src + w64 (num * elsz) <= M64 ->
  grant_or_copy g l s total src num elsz succ mret = Ok (true, fp) ->
  range_good l src (w64 (num * elsz)) = true.
Proof.
  intros W U P S E H. apply grant_or_copy_checked in H as (C & _ & _).
  exact (check_range_sound g l src (w64 (num * elsz)) W U P S E C).
Qed.
Lemma denied_range_good g l src num elsz succ fp :
  world_ok l -> (forall r, In r l -> w64 (num * elsz) <= rsize r) ->
  0 < w64 (num * elsz) -> 0 <= src -> src + w64 (num * elsz) <= M64 ->
  deny_or_copy g l src num elsz succ = Ok (true, fp) ->
  range_good l src (w64 (num * elsz)) = true.
Proof.
  intros W U P S E H. apply deny_or_copy_checked in H as (C & _ & _).
  exact (check_range_sound g l src (w64 (num * elsz)) W U P S E C).
Qed.

(* AppPtr2_proofs.v — the owner layer over several sandboxes is, seen from each sandbox, the
   single-sandbox owner layer: every step of the many-sandbox world that does not abort projects
   onto ONE step of sandbox s's own world (an owner of another sandbox is an inert slot there).
   All theorems about the single-sandbox layer (AppPtr_owner_proofs.v: live owners hold exactly the
   live tokens, no token has two owners, tokens resolve) therefore hold per sandbox in the
   many-sandbox world, for every history. *)
From RLBoxV Require Import AppPtr AppPtr_proofs AppPtr_owner_proofs AppPtr2.
Local Open Scope Z_scope.

Lemma map_set_nth {A B} (f : A -> B) (l : list A) k a : map f (set_nth l k a) = set_nth (map f l) k (f a).
Proof. unfold set_nth. rewrite map_app. cbn [map]. rewrite firstn_map, skipn_map. reflexivity. Qed.

Lemma set_nth_same {A} (l : list A) k d : (k < length l)%nat -> set_nth l k (nth k l d) = l.
Proof.
  intros H. apply nth_ext with (d := d) (d' := d).
  - apply set_nth_length. exact H.
  - intros j _. rewrite set_nth_nth by exact H. destruct (Nat.eqb_spec j k) as [->|]; reflexivity.
Qed.

Lemma proj_owner_nth s os k : nth k (map (proj_owner s) os) None = proj_owner s (nth k os None).
Proof. change None with (proj_owner s None) at 1. apply map_nth. Qed.

Definition oop2_ok (n : nat) (o : oop2) : Prop :=
  match o with OGet2 k _ _ => (k < n)%nat | OMove2 k j => (k < n)%nat /\ (j < n)%nat | ODestroy2 k => (k < n)%nat end.

Section Proj.
Variables (W max : Z) (s : nat).

Lemma map_at_set_same w m : (s < length (maps2 w))%nat ->
  nth s (set_nth (maps2 w) s m) amap_init = m.
Proof. intros H. rewrite set_nth_nth by exact H. rewrite Nat.eqb_refl. reflexivity. Qed.

Lemma map_at_set_other w s' m : (s' < length (maps2 w))%nat -> s' <> s ->
  nth s (set_nth (maps2 w) s' m) amap_init = nth s (maps2 w) amap_init.
Proof. intros H Hne. rewrite set_nth_nth by exact H. destruct (Nat.eqb_spec s s'); [congruence|reflexivity]. Qed.

(* owners of sandboxes that do not exist are not part of a well-formed world *)
Definition wf2 (w : aworld2) : Prop :=
  forall k s' i, owner2_at w k = Some (s', i) -> (s' < length (maps2 w))%nat.

Lemma unregister_proj w k w2 :
  (s < length (maps2 w))%nat -> wf2 w -> (k < length (owners2 w))%nat ->
  unregister_owner2 w k = Ok w2 ->
  unregister_owner (proj s w) k = Ok (proj s w2) /\ owner2_at w2 k = None /\
  length (maps2 w2) = length (maps2 w) /\ length (owners2 w2) = length (owners2 w) /\
  (forall j, j <> k -> owner2_at w2 j = owner2_at w j).
Proof.
  intros Hs Hwf Hk H. unfold unregister_owner2 in H. unfold unregister_owner, owner_at.
  change (owners (proj s w)) with (map (proj_owner s) (owners2 w)). change (amapw (proj s w)) with (map_at w s).
  rewrite proj_owner_nth. fold (owner2_at w k). destruct (owner2_at w k) as [[s' i]|] eqn:Eo.
  - pose proof (Hwf k s' i Eo) as Hs'.
    destruct (remove_app_ptr i (map_at w s')) as [m| | |] eqn:Er; cbn [bind] in H; try discriminate.
    injection H as <-. cbn [proj_owner maps2 owners2].
    assert (Hrest : owner2_at {| maps2 := set_nth (maps2 w) s' m; owners2 := set_nth (owners2 w) k None |} k = None /\
            length (set_nth (maps2 w) s' m) = length (maps2 w) /\ length (set_nth (owners2 w) k None) = length (owners2 w) /\
            (forall j, j <> k -> owner2_at {| maps2 := set_nth (maps2 w) s' m; owners2 := set_nth (owners2 w) k None |} j = owner2_at w j)).
    { unfold owner2_at. cbn [owners2]. repeat split.
      - rewrite set_nth_nth by exact Hk. rewrite Nat.eqb_refl. reflexivity.
      - apply set_nth_length. exact Hs'.
      - apply set_nth_length. exact Hk.
      - intros j Hj. rewrite set_nth_nth by exact Hk. destruct (Nat.eqb_spec j k); [congruence|reflexivity]. }
    split; [|exact Hrest].
    destruct (Nat.eqb_spec s' s) as [->|Hne].
    + rewrite Er. cbn [bind]. f_equal. unfold proj, map_at. cbn [maps2 owners2 owners].
      rewrite map_at_set_same by exact Hs. rewrite map_set_nth. reflexivity.
    + f_equal. unfold proj, map_at. cbn [maps2 owners2].
      rewrite (map_at_set_other w s' m Hs' Hne). f_equal.
      rewrite map_set_nth. cbn [proj_owner].
      assert (Hn : nth k (map (proj_owner s) (owners2 w)) None = None).
      { rewrite proj_owner_nth. fold (owner2_at w k). rewrite Eo. cbn [proj_owner]. destruct (Nat.eqb_spec s' s); [congruence|reflexivity]. }
      rewrite <- Hn at 1. symmetry. apply set_nth_same. rewrite map_length. exact Hk.
  - injection H as <-. cbn [proj_owner]. repeat split; try reflexivity. exact Eo.
Qed.


Definition oop2_sbx_ok (n : nat) (o : oop2) : Prop :=
  match o with OGet2 _ s0 _ => (s0 < n)%nat | _ => True end.

Theorem ostep2_proj w o w' :
  (s < length (maps2 w))%nat -> wf2 w ->
  oop2_ok (length (owners2 w)) o -> oop2_sbx_ok (length (maps2 w)) o ->
  ostep2 W max w o = Ok w' ->
  ostep true W max (proj s w) (proj_op s o) = Ok (proj s w').
Proof.
  intros Hs Hwf Hok Hsok H. destruct o as [k s0 ptr|k j|k]; cbn [ostep2 proj_op oop2_ok oop2_sbx_ok] in *.
  - (* get_app_pointer into slot k, for sandbox s0 *)
    destruct (get_app_pointer_idx W max ptr (map_at w s0)) as [[i m]| | |] eqn:Eg; cbn [bind] in H; try discriminate.
    set (w1 := {| maps2 := set_nth (maps2 w) s0 m; owners2 := owners2 w |}) in *.
    assert (Hl1 : length (maps2 w1) = length (maps2 w)) by (apply set_nth_length; exact Hsok).
    assert (Hs1 : (s < length (maps2 w1))%nat) by (rewrite Hl1; exact Hs).
    assert (Hwf1 : wf2 w1) by (intros a b c Ha; rewrite Hl1; exact (Hwf a b c Ha)).
    destruct (unregister_owner2 w1 k) as [w2| | |] eqn:Eu; cbn [bind] in H; try discriminate.
    injection H as <-.
    destruct (unregister_proj w1 k w2 Hs1 Hwf1 Hok Eu) as (Hp & Hnone & _ & Hlo & _).
    destruct (Nat.eqb_spec s0 s) as [->|Hne]; cbn [ostep].
    + change (amapw (proj s w)) with (map_at w s). rewrite Eg. cbn [bind].
      replace {| amapw := m; owners := owners (proj s w) |} with (proj s w1).
      2:{ unfold proj, map_at, w1. cbn [maps2 owners2]. rewrite map_at_set_same by exact Hs. reflexivity. }
      rewrite Hp. cbn [bind]. f_equal. unfold proj, map_at. cbn [maps2 owners2 amapw owners].
      rewrite map_set_nth. cbn [proj_owner]. rewrite Nat.eqb_refl. reflexivity.
    + replace (proj s w) with (proj s w1).
      2:{ unfold proj, map_at, w1. cbn [maps2 owners2]. rewrite (map_at_set_other w s0 m Hsok Hne). reflexivity. }
      rewrite Hp. f_equal. unfold proj, map_at. cbn [maps2 owners2]. f_equal.
      rewrite map_set_nth. cbn [proj_owner]. destruct (Nat.eqb_spec s0 s); [congruence|].
      assert (Hn : nth k (map (proj_owner s) (owners2 w2)) None = None).
      { rewrite proj_owner_nth. fold (owner2_at w2 k). rewrite Hnone. reflexivity. }
      rewrite <- Hn at 1. symmetry. apply set_nth_same. rewrite map_length, Hlo. exact Hok.
  - (* move-assignment slot k = std::move(slot j) *)
    cbn [ostep]. destruct (Nat.eqb k j); [injection H as <-; reflexivity|].
    destruct (unregister_owner2 w k) as [w2| | |] eqn:Eu; cbn [bind] in H; try discriminate.
    injection H as <-.
    destruct (unregister_proj w k w2 Hs Hwf (proj1 Hok) Eu) as (Hp & _).
    rewrite Hp. cbn [bind]. f_equal. unfold proj, map_at, owner_at. cbn [maps2 owners2 amapw owners].
    rewrite !map_set_nth. cbn [proj_owner]. rewrite proj_owner_nth. reflexivity.
  - (* destruction / unregister *)
    cbn [ostep]. exact (proj1 (unregister_proj w k w' Hs Hwf Hok H)).
Qed.


(* well-formedness and the sizes of the world are kept by every step that does not abort *)
Lemma ostep2_wf w o w' :
  (s < length (maps2 w))%nat -> wf2 w ->
  oop2_ok (length (owners2 w)) o -> oop2_sbx_ok (length (maps2 w)) o ->
  ostep2 W max w o = Ok w' ->
  wf2 w' /\ length (maps2 w') = length (maps2 w) /\ length (owners2 w') = length (owners2 w).
Proof.
  intros Hs Hwf Hok Hsok H. destruct o as [k s0 ptr|k j|k]; cbn [ostep2 oop2_ok oop2_sbx_ok] in *.
  - destruct (get_app_pointer_idx W max ptr (map_at w s0)) as [[i m]| | |] eqn:Eg; cbn [bind] in H; try discriminate.
    set (w1 := {| maps2 := set_nth (maps2 w) s0 m; owners2 := owners2 w |}) in *.
    assert (Hl1 : length (maps2 w1) = length (maps2 w)) by (apply set_nth_length; exact Hsok).
    assert (Hs1 : (s < length (maps2 w1))%nat) by (rewrite Hl1; exact Hs).
    assert (Hwf1 : wf2 w1) by (intros a b c Ha; rewrite Hl1; exact (Hwf a b c Ha)).
    destruct (unregister_owner2 w1 k) as [w2| | |] eqn:Eu; cbn [bind] in H; try discriminate.
    injection H as <-.
    destruct (unregister_proj w1 k w2 Hs1 Hwf1 Hok Eu) as (_ & _ & Hlm & Hlo & Hoth).
    cbn [maps2 owners2]. assert (Hk2 : (k < length (owners2 w2))%nat) by (rewrite Hlo; exact Hok).
    repeat split.
    + intros a b c Ha. unfold owner2_at in Ha. cbn [owners2 maps2] in *. rewrite set_nth_nth in Ha by exact Hk2.
      rewrite Hlm, Hl1. destruct (Nat.eqb_spec a k) as [->|Hak].
      * injection Ha as <- <-. exact Hsok.
      * fold (owner2_at w2 a) in Ha. rewrite (Hoth a Hak) in Ha. exact (Hwf a b c Ha).
    + rewrite Hlm. exact Hl1.
    + rewrite set_nth_length by exact Hk2. exact Hlo.
  - destruct (Nat.eqb_spec k j) as [->|Hkj]; [injection H as <-; repeat split; assumption|].
    destruct (unregister_owner2 w k) as [w2| | |] eqn:Eu; cbn [bind] in H; try discriminate.
    injection H as <-. destruct Hok as [Hk Hj].
    destruct (unregister_proj w k w2 Hs Hwf Hk Eu) as (_ & _ & Hlm & Hlo & Hoth).
    cbn [maps2 owners2].
    assert (Hk2 : (k < length (owners2 w2))%nat) by (rewrite Hlo; exact Hk).
    assert (Hj2 : (j < length (set_nth (owners2 w2) k (owner2_at w2 j)))%nat) by (rewrite set_nth_length by exact Hk2; rewrite Hlo; exact Hj).
    repeat split.
    + intros a b c Ha. unfold owner2_at in Ha. cbn [owners2 maps2] in *. rewrite set_nth_nth in Ha by exact Hj2.
      rewrite Hlm. destruct (Nat.eqb_spec a j) as [->|Haj]; [discriminate|].
      rewrite set_nth_nth in Ha by exact Hk2. destruct (Nat.eqb_spec a k) as [->|Hak].
      * fold (owner2_at w2 j) in Ha. rewrite (Hoth j (not_eq_sym Hkj)) in Ha. exact (Hwf j b c Ha).
      * fold (owner2_at w2 a) in Ha. rewrite (Hoth a Hak) in Ha. exact (Hwf a b c Ha).
    + exact Hlm.
    + rewrite set_nth_length by exact Hj2. rewrite set_nth_length by exact Hk2. exact Hlo.
  - destruct (unregister_proj w k w' Hs Hwf Hok H) as (_ & _ & Hlm & Hlo & Hoth).
    repeat split; try assumption.
    intros a b c Ha. rewrite Hlm. destruct (Nat.eqb_spec a k) as [->|Hak].
    + destruct (unregister_proj w k w' Hs Hwf Hok H) as (_ & Hn & _). rewrite Hn in Ha. discriminate.
    + rewrite (Hoth a Hak) in Ha. exact (Hwf a b c Ha).
Qed.

(* every history of the many-sandbox world that does not abort is, seen from sandbox s, a history
   of the single-sandbox owner layer *)
Theorem orun2_proj ops : forall w w',
  (s < length (maps2 w))%nat -> wf2 w ->
  Forall (oop2_ok (length (owners2 w))) ops -> Forall (oop2_sbx_ok (length (maps2 w))) ops ->
  orun2 W max w ops = Ok w' ->
  orun true W max (proj s w) (map (proj_op s) ops) = Ok (proj s w').
Proof.
  induction ops as [|o ops IH]; intros w w' Hs Hwf Hok Hsok H; cbn [orun2 orun map] in *.
  - injection H as <-. reflexivity.
  - destruct (ostep2 W max w o) as [w1| | |] eqn:E1; cbn [bind] in H; try discriminate.
    inversion Hok as [|? ? Ho Hoks]; subst. inversion Hsok as [|? ? Hso Hsoks]; subst.
    rewrite (ostep2_proj w o w1 Hs Hwf Ho Hso E1). cbn [bind].
    destruct (ostep2_wf w o w1 Hs Hwf Ho Hso E1) as (Hwf1 & Hlm & Hlo).
    apply IH; try assumption; rewrite ?Hlm, ?Hlo; assumption.
Qed.

End Proj.

(* non-vacuity: two sandboxes, owners holding EQUAL tokens, one overwritten by the other *)
Example orun2_example :
  let w0 := {| maps2 := [amap_init; amap_init]; owners2 := [None; None; None] |} in
  match orun2 (2 ^ 16) (2 ^ 16 - 1) w0 [OGet2 0 0 4096; OGet2 1 1 8192; OMove2 0 1] with
  | Ok w => owners2 w = [Some (1%nat, 1); None; None] /\ lookup_index 1 (map_at w 0) = Abort /\ lookup_index 1 (map_at w 1) = Ok 8192
  | _ => False
  end.
Proof. vm_compute. repeat split. Qed.

(* ---------- the single-sandbox theorem, per sandbox, for every history of the many-sandbox world ---------- *)
Lemma proj_op_ok s n o : oop2_ok n o -> oop_ok n (proj_op s o).
Proof. destruct o as [k s0 ptr|k j|k]; cbn [proj_op oop2_ok]; [destruct (Nat.eqb s0 s)|..]; cbn [oop_ok]; intros H; exact H. Qed.

Theorem owners2_hold_live_tokens W max ns n ops w s :
  1 <= max -> max < W - 1 -> (s < ns)%nat ->
  Forall (oop2_ok n) ops -> Forall (oop2_sbx_ok ns) ops ->
  orun2 W max {| maps2 := repeat amap_init ns; owners2 := repeat None n |} ops = Ok w ->
  ainv max (amapw (proj s w)) /\
  NoDup (held (owners (proj s w))) /\
  (forall i, In i (held (owners (proj s w))) <-> In i (live_tokens (amapw (proj s w)))) /\
  (forall k, match owner_at (proj s w) k, fold_left gstep (map (proj_op s) ops) ghost_init k with
             | Some i, Some p => 1 <= i <= max /\ lookup_index i (amapw (proj s w)) = Ok p
             | None, None => True
             | _, _ => False
             end).
Proof.
  intros Hmax HW Hs Hok Hsok E.
  apply (owners_hold_live_tokens W max n (map (proj_op s) ops) (proj s w) Hmax HW).
  - rewrite Forall_map. eapply Forall_impl; [|exact Hok]. intros o Ho. apply proj_op_ok. exact Ho.
  - set (w0 := {| maps2 := repeat amap_init ns; owners2 := repeat None n |}) in *.
    assert (Hp : proj s w0 = {| amapw := amap_init; owners := repeat None n |}).
    { unfold proj, map_at, w0. cbn [maps2 owners2]. rewrite nth_repeat. f_equal. clear. induction n as [|n' IH]; cbn [repeat map proj_owner]; [reflexivity|rewrite IH; reflexivity]. }
    rewrite <- Hp. apply orun2_proj; unfold w0; cbn [maps2 owners2]; rewrite ?repeat_length; try assumption.
    intros k s' i Hk. unfold owner2_at in Hk. cbn [owners2] in Hk. rewrite nth_repeat in Hk. discriminate.
Qed.

(* Bulk.v — model of the bulk memory routines (rlbox_stdlib.hpp memset / memcpy /
   memcmp, rlbox.hpp verify_range_helper and its users, unverified_safe_pointer_because,
   copy_memory_or_grant/deny_access on a back end without grant/deny support).
   Every routine returns the list of memory footprints it touches, or aborts. *)
From RLBoxV Require Export Ptr.
Local Open Scope Z_scope.

Inductive acc := RD (a n : Z) | WR (a n : Z).   (* n bytes starting at a *)

(* num of any integer type, converted to size_t for the comparison with
   get_total_memory() and for the range check *)
Definition rl_memset (g : bool) (l : list region) (total dest n : Z) : res (list acc) :=
  let n' := w64 n in
  _ <- check (n' <=? total) ;;
  _ <- check_range g l dest n' ;;
  Ok [WR dest n'].

Definition rl_memcpy (g : bool) (l : list region) (total dest src n : Z) : res (list acc) :=
  let n' := w64 n in
  _ <- check (n' <=? total) ;;
  _ <- check_range g l dest n' ;;
  _ <- check_range g l src n' ;;
  Ok [WR dest n'; RD src n'].

Definition rl_memcmp (g : bool) (l : list region) (total dest src n : Z) : res (list acc) :=
  let n' := w64 n in
  _ <- check (n' <=? total) ;;
  _ <- check_range g l dest n' ;;
  _ <- check_range g l src n' ;;
  Ok [RD dest n'; RD src n'].

(* verify_range_helper(count): count is a size_t; elsz = sizeof of the
   APPLICATION element type (valid_array_el_t); None = null start passed through.
   [guarded]: overflow guards added by the fix: commit (count*elsz must not
   wrap) — false models the code before it. *)
Definition verify_range (guarded : bool) (l : list region) (start count elsz : Z) : res (option Z) :=
  _ <- check (negb (count =? 0)) ;;
  if start =? 0 then Ok None else
  _ <- check (negb guarded || (count * elsz <? M64)) ;;
  _ <- check_range guarded l start (w64 (count * elsz)) ;;
  Ok (Some start).

(* what C10 demands of a pointer handed back with a count *)
Definition counted_good (l : list region) (start count elsz : Z) : bool :=
  range_good l start (count * elsz).

(* unverified_safe_pointer_because(count): null passes through unchecked.
   Before the fix: commit (g = false) the size was sizeof(T) with T the POINTER
   type (8) instead of the element (D7) and the product was unguarded. *)
Definition usp_because (g : bool) (l : list region) (p count elsz : Z) : res Z :=
  if p =? 0 then Ok 0 else
  let es := if g then elsz else 8 in
  _ <- check (negb g || (count * es <? M64)) ;;
  _ <- check_range g l p (w64 (es * count)) ;; Ok p.

(* copy_memory_or_deny_access without deny support: app malloc(num*elsz), then
   verify_range(num) on the source, then memcpy from it (null source: the copy
   reads from address 0) *)
Definition copy_or_deny (guarded : bool) (l : list region) (src num elsz : Z) : res (list acc) :=
  r <- verify_range guarded l src num elsz ;;
  match r with
  | Some a => Ok [RD a (w64 (num * elsz))]
  | None => if w64 (num * elsz) =? 0 then Ok [] else Fault
  end.

(* copy_memory_or_grant_access without grant support: num <= UINT32_MAX,
   malloc_in_sandbox<T>(num) (back end returns [ret]), then rlbox::memcpy *)
Definition copy_or_grant (g : bool) (l : list region) (s : region) (total src num elsz ret : Z) : res (list acc) :=
  _ <- check (num <=? 4294967295) ;;
  p <- malloc_in_sandbox l s true num elsz ret ;;
  if p =? 0 then Ok [] else
  rl_memcpy g l total p src (w64 (num * elsz)).

(* footprints are good: non-empty ones satisfy range_good *)
Definition acc_good (l : list region) (a : acc) : bool :=
  match a with RD p n | WR p n => range_good l p n end.

(* ---------- back ends that CAN grant / deny access (using can_grant_deny_access = void) ----------
   copy_memory_or_grant_access / copy_memory_or_deny_access first check that the buffer does not straddle a sandbox
   boundary, then ask the back end ([succ]: its answer); only when it declines do they fall through to the copy path.
   Result: (transferred without copying?, footprints of the copy path) *)
Definition grant_or_copy (g : bool) (l : list region) (s : region) (total src num elsz : Z) (succ : bool) (mret : Z) : res (bool * list acc) :=
  _ <- check_range g l src (w64 (num * elsz)) ;;
  if succ then Ok (true, [])
  else r <- copy_or_grant g l s total src num elsz mret ;; Ok (false, r).
Definition deny_or_copy (g : bool) (l : list region) (src num elsz : Z) (succ : bool) : res (bool * list acc) :=
  _ <- check_range g l src (w64 (num * elsz)) ;;
  if succ then Ok (true, [])
  else r <- copy_or_deny g l src num elsz ;; Ok (false, r).

(* FloatCmp.v — IEEE-754 binary32 / binary64 values as bit patterns, their exact values, and the C++
   comparison and truth semantics on them (the part of floating point C16 needs with a semantics of its own:
   ==, !=, <, <=, >, >=, &&, ||, !; the arithmetic results +,-,*,/ are taken from the compiler's plain
   expression by the harness - an oracle, named in the trusted base). *)
From RLBoxV Require Export Machine.
Local Open Scope Z_scope.

Inductive ffmt := F32 | F64.
Definition f_ebits (f : ffmt) : Z := match f with F32 => 8 | F64 => 11 end.
Definition f_mbits (f : ffmt) : Z := match f with F32 => 23 | F64 => 52 end.
Definition f_bias (f : ffmt) : Z := match f with F32 => 127 | F64 => 1023 end.

(* a value: not-a-number, an infinity, or the finite number m * 2^e (m signed; both zeros have m = 0) *)
Inductive fval := FNaN | FInf (neg : bool) | FFin (m e : Z).

Definition fdecode (f : ffmt) (bits : Z) : fval :=
  let mb := f_mbits f in let eb := f_ebits f in
  let frac := bits mod 2 ^ mb in
  let ex := (bits / 2 ^ mb) mod 2 ^ eb in
  let neg := (bits / 2 ^ (mb + eb)) mod 2 =? 1 in
  if ex =? 2 ^ eb - 1 then (if frac =? 0 then FInf neg else FNaN)
  else
    let m := if ex =? 0 then frac else frac + 2 ^ mb in
    let e := (if ex =? 0 then 1 else ex) - f_bias f - mb in
    FFin (if neg then - m else m) e.

(* an integer operand converted to floating point (the harness keeps |v| < 2^24: exact in both formats) *)
Definition fof_int (v : Z) : fval := FFin v 0.

(* sign of (a - b) for comparable values: -1, 0, 1; None when unordered *)
Definition fcmp3 (a b : fval) : option Z :=
  match a, b with
  | FNaN, _ | _, FNaN => None
  | FInf na, FInf nb => Some (if Bool.eqb na nb then 0 else if na then -1 else 1)
  | FInf na, FFin _ _ => Some (if na then -1 else 1)
  | FFin _ _, FInf nb => Some (if nb then 1 else -1)
  | FFin m1 e1, FFin m2 e2 =>
    let e := Z.min e1 e2 in
    let x := m1 * 2 ^ (e1 - e) in let y := m2 * 2 ^ (e2 - e) in
    Some (if x <? y then -1 else if x =? y then 0 else 1)
  end.

Inductive fcop := FEq | FNe | FLt | FLe | FGt | FGe.
(* C++ [a op b] on floating operands: every ordered comparison with a NaN is false, != is true *)
Definition fcompare (op : fcop) (a b : fval) : bool :=
  match fcmp3 a b with
  | None => match op with FNe => true | _ => false end
  | Some s =>
    match op with
    | FEq => s =? 0 | FNe => negb (s =? 0) | FLt => s <? 0 | FLe => s <=? 0 | FGt => 0 <? s | FGe => 0 <=? s
    end
  end.

(* contextual conversion to bool: everything but the two zeros is true (a NaN is true) *)
Definition ftruth (a : fval) : bool := match a with FFin m _ => negb (m =? 0) | _ => true end.

(* operand wrappers are transparent for a floating value: tainted<float/double> holds the value; a
   tainted_volatile<float/double> holds it in sandbox memory in the same format (convert_type between identical
   floating types is an assignment) *)
Inductive fwrapk := FWPlain | FWT | FWV.
Definition funwrap (w : fwrapk) (a : fval) : fval := a.
Definition wfcompare (op : fcop) (wa : fwrapk) (a : fval) (wb : fwrapk) (b : fval) : bool :=
  fcompare op (funwrap wa a) (funwrap wb b).
(* what the plain-on-the-left forms would compute if they were derived by NEGATING the mirrored comparison
   (l <= r as !(r < l)): the refuted alternative *)
Definition wfcompare_negating (op : fcop) (a b : fval) : bool :=
  match op with
  | FLe => negb (fcompare FLt b a) | FGe => negb (fcompare FGt b a)
  | FLt => fcompare FGt b a | FGt => fcompare FLt b a | FEq => fcompare FEq b a | FNe => fcompare FNe b a
  end.

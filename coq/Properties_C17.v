(* Properties_C17.v — C17: indexing a tainted fixed-size array is bounds-checked
   for every index type. *)
From RLBoxV Require Import Ptr Ptr_proofs.
Local Open Scope Z_scope.

(* every index kind (bool does not compile), every value of that kind, every length *)
Theorem C17_iff : forall k n len start elsize,
  k <> IBool -> in_range k n = true ->
  arr_index k n len start elsize =
  (if (0 <=? n) && (n <? len) then Ok (start + n * elsize) else Abort).
Proof. exact arr_index_correct. Qed.
Print Assumptions C17_iff.

(* an accepted index designates exactly element n of that layout, inside the array *)
Theorem C17_designates : forall n len start elsize a,
  0 < elsize -> arr_index_spec n len start elsize = Ok a ->
  start <= a /\ a + elsize <= start + len * elsize /\ a = start + n * elsize /\ 0 <= n < len.
Proof. exact arr_index_designates. Qed.
Print Assumptions C17_designates.

Theorem C17_nonvacuous :
  arr_index IULLong (2^32 + 3) 4 1000 4 = Abort /\ arr_index ISChar (-1) 4 1000 4 = Abort /\
  arr_index IUChar 3 4 1000 8 = Ok 1024.
Proof. vm_compute. repeat split. Qed.

(* the index is an integer held in SANDBOX memory (table[hdr->idx]): whatever the sandbox writes to the cell after the one
   read the operator makes, the element designated is inside the array; later reads are irrelevant; a variant that
   bounds-checks the first read and addresses with a second one is refuted *)
Theorem C17_index_in_sandbox_memory : forall k f len start elsize a,
  k <> IBool -> in_range k (f 0%nat) = true -> 0 < elsize ->
  arr_index_cell k f len start elsize = Ok a ->
  start <= a /\ a + elsize <= start + len * elsize /\ a = start + f 0%nat * elsize.
Proof. exact arr_index_cell_inside. Qed.
Print Assumptions C17_index_in_sandbox_memory.
Theorem C17_later_reads_irrelevant : forall k f g len start elsize,
  f 0%nat = g 0%nat -> arr_index_cell k f len start elsize = arr_index_cell k g len start elsize.
Proof. exact arr_index_cell_later_reads_irrelevant. Qed.
Theorem C17_index_refetch_refuted :
  exists f a, arr_index_cell_refetch IInt f 4 1000 4 = Ok a /\ in_range IInt (f 0%nat) = true /\ ~ (1000 <= a /\ a + 4 <= 1000 + 4 * 4).
Proof. exact arr_index_cell_refetch_escapes. Qed.

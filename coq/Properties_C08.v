(* Properties_C08.v — C08: struct marshalling follows the sandbox ABI layout and round-trips
   every field.  Every field list (any length, nested structs and arrays to any depth), every
   sandbox layout ABI with a positive pointer width, every well-typed value.  Statements only. *)
From RLBoxV Require Import Layout Layout_proofs Invoke Invoke_proofs Conv_proofs Ptr Ptr_proofs.
Local Open Scope Z_scope.

(* layout: every field at a multiple of its alignment, not before the end of the previous field
   (and less than one alignment unit after it: no gratuitous padding), all fields inside the
   struct, struct size a multiple of its alignment, which is the largest field alignment *)
Theorem C08_layout : forall a fs,
  0 < l_ptr a -> cty_ok (TStruct fs) ->
  placed (size_align a fs) (offsets a fs) 0 (layout_end (size_align a fs) 0) /\
  layout_end (size_align a fs) 0 <= sizeof a (TStruct fs) /\
  sizeof a (TStruct fs) mod alignof a (TStruct fs) = 0 /\
  (forall f, In f fs -> alignof a f <= alignof a (TStruct fs)).
Proof. exact struct_layout. Qed.
Print Assumptions C08_layout.

(* ... and it is computed from the sandbox ABI alone: the same field list has a different image
   under the host ABI *)
Theorem C08_layout_independent_of_application :
  let fs := [TInt ILong; TInt IChar; TPtr; TInt IUShort; TDouble; TArr 3 TPtr; TStruct [TInt IChar; TInt ILLong]] in
  offsets labi_lp32 fs = [0; 4; 8; 12; 16; 24; 40] /\ sizeof labi_lp32 (TStruct fs) = 56 /\
  offsets labi_host fs = [0; 8; 16; 24; 32; 40; 64] /\ sizeof labi_host (TStruct fs) = 80.
Proof. exact layout_lp32_vs_host. Qed.

(* copying a struct into the sandbox representation and back preserves every field, for every
   struct shape: integers per the ABI rules, pointers translated, nested structs recursively *)
Theorem C08_roundtrip : forall a s p v g,
  abi_ok a = true -> region_ok s -> wt a true p v -> pwf s p v ->
  cv a s true p v = Some (Ok g) -> cv a s false p g = Some (Ok v).
Proof. exact struct_roundtrip. Qed.
Print Assumptions C08_roundtrip.

(* the conversion is exactly what C11/C06/C04 demand of each leaf (in particular it aborts iff some
   integer field is not representable in the sandbox ABI) *)
Theorem C08_matches_spec : forall a s dir p v,
  abi_ok a = true -> wt a dir p v -> cv a s dir p v = sv a s dir p v.
Proof. intros a s dir p v Ha Hw. exact (cv_sv a s Ha dir p v Hw). Qed.

(* field-wise: field i of the image is the conversion of field i of the source, of nothing else,
   no field skipped or duplicated (the lists have equal length, position by position) *)
Theorem C08_fieldwise : forall a s dir fs vs gs,
  cv a s dir (KStruct fs) (VStruct vs) = Some (Ok (VStruct gs)) ->
  exists l, Forall2 (fun o g => o = Some (Ok g)) l gs /\ cv_list a s dir fs vs = Some l.
Proof. exact cv_struct_fieldwise. Qed.

Theorem C08_example :
  let s := {| rbase := 2^44; rsize := 2^32 |} in
  let p := KStruct [KInt ILong; KInt IUShort; KPtr; KStruct [KInt IChar; KInt ILLong]; KBits] in
  cv abi_lp32 s true p (VStruct [VInt (-7); VInt 65535; VPtr (2^44 + 4096); VStruct [VInt (-128); VInt (2^62)]; VInt 99])
    = Some (Ok (VStruct [VInt (-7); VInt 65535; VPtr 4096; VStruct [VInt (-128); VInt (2^62)]; VInt 99])) /\
  cv abi_lp32 s true p (VStruct [VInt (2^31); VInt 0; VPtr 0; VStruct [VInt 0; VInt 0]; VInt 0]) = Some Abort.
Proof. vm_compute. split; reflexivity. Qed.

(* Properties_C05.v — C05: tainted pointer arithmetic stays in the sandbox and
   uses the sandbox stride.  Statements only; proofs in Ptr_proofs.v. *)
From RLBoxV Require Import Ptr Ptr_proofs Layout.
Local Open Scope Z_scope.

(* what the current headers do: the models instantiated with the code flags *)
Definition code_arith := arith_form code_postdec_fixed code_index_nullcheck.

(* never outside p's sandbox: every form, every n, every stride, every world —
   unconditionally, even when the product wraps *)
Theorem C05_never_outside : forall l s f p n stride r o,
  world_ok l -> In s l -> inr s p = true ->
  code_arith l f p n stride = Ok (r, o) -> inr s r = true /\ inr s o = true.
Proof. intros l s f p n stride r o. exact (arith_form_never_outside _ _ l s f p n stride r o). Qed.
Print Assumptions C05_never_outside.

(* exact: whenever the exact address computation does not leave [0,2^64), the
   operation returns exactly p +/- n*stride when that is inside p's sandbox
   and aborts otherwise; result value and updated operand as for plain pointers *)
Theorem C05_exact : forall l s f p n stride,
  world_ok l -> In s l -> inr s p = true ->
  arith_wraps (form_sub f) p (form_n f n) stride = false ->
  code_arith l f p n stride = arith_form_spec l f p n stride.
Proof. exact arith_form_exact. Qed.
Print Assumptions C05_exact.

Theorem C05_null : forall l sub n stride, ptr_arith l sub 0 n stride = Abort.
Proof. exact ptr_arith_null. Qed.

(* known finding D3, kept visible: without the no-wrap premise exactness is false *)
Theorem C05_exact_full_refuted : ~ ptr_arith_exact_full.
Proof. exact ptr_arith_exact_full_refuted. Qed.
Print Assumptions C05_exact_full_refuted.

(* fixed defect D1/D2 (regression witness): with both post forms calling operator++ *)
Theorem C05_postdec_before_fix_refuted :
  exists l s p stride, world_ok l /\ In s l /\ inr s p = true /\
    arith_form false true l FPostDec p 0 stride <> arith_form_spec l FPostDec p 0 stride.
Proof. exact postdec_unfixed_refuted. Qed.

(* fixed defect D4 (regression witness): operator[] without the null check *)
Theorem C05_index_null_before_fix_refuted :
  exists l s q, world_ok l /\ In s l /\ run_chain false l s 0 [OpIndex 3 4] = Ok q /\ ~ ptr_inv s q.
Proof. exact chain_unchecked_index_refuted. Qed.

(* non-vacuity *)
Theorem C05_nonvacuous :
  world_ok [demo_region] /\ inr demo_region (2^44 + 64) = true /\
  code_arith [demo_region] FAdd (2^44 + 64) 3 4 = Ok (2^44 + 76, 2^44 + 64) /\
  code_arith [demo_region] FSub (2^44 + 64) 100 4 = Abort /\
  sizeof labi_lp32 (TInt ILong) = 4 /\ sizeof labi_host (TInt ILong) = 8.
Proof. split; [exact demo_world_ok|]. vm_compute. repeat split. Qed.

(* fixed defect D16 (regression witness): number + pointer used to be native arithmetic on the raw pointer *)
Theorem C05_number_plus_pointer_before_fix_refuted :
  let r := {| rbase := 2^44; rsize := 65536 |} in
  radd_before_fix (2^44 + 65528) 3 8 = Ok (2^44 + 65552) /\
  ptr_arith_spec [r] false (2^44 + 65528) 3 4 = Abort /\
  ptr_arith [r] false (2^44 + 65528) 3 4 = Abort /\
  radd_before_fix 0 5 8 = Ok 40 /\ ptr_arith [r] false 0 5 4 = Abort.
Proof. exact radd_before_fix_refuted. Qed.

(* the number is an integer held in SANDBOX memory: one read decides both the containment check and the address; a variant
   that checks the address computed from the first read and returns the one computed from a second read is refuted *)
Theorem C05_operand_in_sandbox_memory : forall l s sub p f stride t,
  world_ok l -> In s l -> inr s p = true -> ptr_arith_cell l sub p f stride = Ok t -> inr s t = true.
Proof. exact ptr_arith_cell_never_outside. Qed.
Print Assumptions C05_operand_in_sandbox_memory.
Theorem C05_operand_refetch_refuted :
  exists f t, world_ok [demo_region] /\ inr demo_region (2^44 + 64) = true /\
    ptr_arith_cell_refetch [demo_region] false (2^44 + 64) f 4 = Ok t /\ inr demo_region t = false.
Proof. exact ptr_arith_cell_refetch_escapes. Qed.

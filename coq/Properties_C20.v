(* Properties_C20.v — C20: opaque wrappers and sandbox casts preserve bits, designation and
   taint.  The Coq content is small — the casts ARE "load (C07), C++ cast, wrap" and the opaque
   conversions ARE reinterpretations of the same storage; what they rest on (decode/encode,
   checked loads, the C++ conversion wrap) is proved in C06/C07.  The byte images, the accepted
   source/target pairs and the designated addresses are decided by the correspondence run.
   Statements only. *)
From RLBoxV Require Import Casts Casts_proofs Conv_proofs Ptr.
Local Open Scope Z_scope.

(* to_opaque then from_opaque denotes the same value for every kind and value *)
Theorem C20_opaque_roundtrip : forall k v, in_range k v = true ->
  decode k (from_opaque_img (to_opaque_img (image k v))) = v.
Proof. exact opaque_roundtrip_value. Qed.
Print Assumptions C20_opaque_roundtrip.

(* sandbox_static_cast yields exactly static_cast<to> of the underlying value: always in the range
   of the target, and the value itself whenever the target can hold it *)
Theorem C20_static_cast_tainted : forall a to from v,
  sandbox_static_cast a false to from v = Some (Ok (wrap to v)) /\
  in_range to (wrap to v) = true /\ (in_range to v = true -> wrap to v = v).
Proof. exact static_cast_tainted. Qed.
Theorem C20_static_cast_volatile : forall a to from sk v,
  abi_ok a = true -> sbx_equiv a from = Some sk -> in_range sk v = true -> in_range from v = true ->
  sandbox_static_cast a true to from v = Some (Ok (wrap to v)).
Proof. exact static_cast_volatile. Qed.

(* pointer casts never change the designated address; null stays null *)
Theorem C20_cast_address : forall vol s x,
  sandbox_ptr_cast vol s x = (if vol then unsandbox s x else x) /\ sandbox_ptr_cast false s 0 = 0 /\ sandbox_ptr_cast true s 0 = 0.
Proof. exact ptr_cast_address. Qed.

(* ---- casts of CELLS of sandbox memory, stated over the memory itself (every memory, every bit
   pattern in the cell, every source/target pair the ABI supports) ---- *)
(* the cast holds exactly static_cast<to> of the value the cell's bytes denote in the sandbox
   type, or aborts exactly when the operand's application type cannot hold that value *)
Theorem C20_static_cast_cell : forall a to from sk addr m,
  abi_ok a = true -> sbx_equiv a from = Some sk -> sk <> IBool ->
  let v := decode sk (read m addr (nbytes sk)) in
  sandbox_static_cast_mem a to from addr m = Some (if in_range from v then Ok (wrap to v) else Abort).
Proof. exact static_cast_mem_spec. Qed.
Print Assumptions C20_static_cast_cell.
(* it reads the bytes of the cell and nothing else *)
Theorem C20_static_cast_cell_local : forall a to from sk addr m1 m2,
  sbx_equiv a from = Some sk -> (forall y, addr <= y < addr + size sk -> m1 y = m2 y) ->
  sandbox_static_cast_mem a to from addr m1 = sandbox_static_cast_mem a to from addr m2.
Proof. exact static_cast_mem_local. Qed.
Print Assumptions C20_static_cast_cell_local.
(* the value-level cast the correspondence run compares with the headers is the memory-level one *)
Theorem C20_static_cast_cell_refines : forall a to from sk addr m,
  sbx_equiv a from = Some sk ->
  sandbox_static_cast_mem a to from addr m = sandbox_static_cast a true to from (decode sk (read m addr (nbytes sk))).
Proof. exact static_cast_mem_refines. Qed.
Theorem C20_static_cast_after_store : forall a to from addr v m m',
  abi_ok a = true -> in_range from v = true -> store_int a from addr v m = Some (Ok m') ->
  sandbox_static_cast_mem a to from addr m' = Some (Ok (wrap to v)).
Proof. exact static_cast_mem_after_store. Qed.
Print Assumptions C20_static_cast_after_store.

(* pointer casts of a pointer cell designate what a plain load of the cell designates (one
   translation path), which is null or inside the sandbox: the result is still a checked pointer *)
Theorem C20_ptr_cast_cell : forall w s addr m,
  sandbox_ptr_cast_mem w s addr m = load_ptr w s addr m /\ (region_ok s -> 0 <= load_bits w addr m < rsize s -> ptr_inv s (sandbox_ptr_cast_mem w s addr m)).
Proof. intros w s addr m. split; [exact (ptr_cast_mem_is_load w s addr m)|exact (ptr_cast_mem_inv w s addr m)]. Qed.
Print Assumptions C20_ptr_cast_cell.
Theorem C20_ptr_cast_cell_roundtrip : forall w s addr p m,
  0 <= w -> 0 <= sandbox_ptr s p < 256 ^ w ->
  sandbox_ptr_cast_mem w s addr (store_ptr w s addr p m) = unsandbox s (sandbox_ptr s p).
Proof. exact ptr_cast_mem_roundtrip. Qed.
Print Assumptions C20_ptr_cast_cell_roundtrip.

(* opaque: every byte image (any type) survives the round trip; an opaque argument or callback
   result crosses the boundary exactly as the tainted value it came from *)
Theorem C20_opaque_roundtrip_image : forall img : list Z, from_opaque_img (to_opaque_img img) = img.
Proof. exact opaque_roundtrip_image. Qed.
Theorem C20_opaque_crosses_as_tainted : forall a k v, in_range k v = true ->
  opaque_to_sbx a k (to_opaque_img (image k v)) = to_sbx a k v.
Proof. exact opaque_crosses_as_tainted. Qed.
Print Assumptions C20_opaque_crosses_as_tainted.

(* Properties_C20.v — C20: opaque wrappers and sandbox casts preserve bits, designation and
   taint.  The Coq content is small — the casts ARE "load (C07), C++ cast, wrap" and the opaque
   conversions ARE reinterpretations of the same storage; what they rest on (decode/encode,
   checked loads, the C++ conversion wrap) is proved in C06/C07.  The byte images, the accepted
   source/target pairs and the designated addresses are decided by the correspondence run.
   Statements only. *)
From RLBoxV Require Import Casts Casts_proofs Conv_proofs.
Local Open Scope Z_scope.

(* to_opaque then from_opaque denotes the same value for every kind and value *)
Theorem C20_opaque_roundtrip : forall k v, in_range k v = true ->
  decode k (from_opaque_img (to_opaque_img (image k v))) = v.
Proof. exact opaque_roundtrip_value. Qed.
Print Assumptions C20_opaque_roundtrip.

(* sandbox_static_cast yields exactly static_cast<to> of the underlying value: always in the range
   of the target, and the value itself whenever the target can hold it *)
Theorem C20_static_cast_tainted : forall a to from v,
  sandbox_static_cast a false to from v = Some (Ok (wrap to v)) /\
  in_range to (wrap to v) = true /\ (in_range to v = true -> wrap to v = v).
Proof. exact static_cast_tainted. Qed.
Theorem C20_static_cast_volatile : forall a to from sk v,
  abi_ok a = true -> sbx_equiv a from = Some sk -> in_range sk v = true -> in_range from v = true ->
  sandbox_static_cast a true to from v = Some (Ok (wrap to v)).
Proof. exact static_cast_volatile. Qed.

(* pointer casts never change the designated address; null stays null *)
Theorem C20_cast_address : forall vol s x,
  sandbox_ptr_cast vol s x = (if vol then unsandbox s x else x) /\ sandbox_ptr_cast false s 0 = 0 /\ sandbox_ptr_cast true s 0 = 0.
Proof. exact ptr_cast_address. Qed.

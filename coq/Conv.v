(* Conv.v — model of rlbox_conversion.hpp: convert_type_fundamental (integer
   cascade), convert_type_fundamental_or_array, and the ABI type map
   (convert_base_types_t) with the crossing paths built from them.
   Definitions only. *)
From RLBoxV Require Export Machine.
Local Open Scope Z_scope.

(* ---------- convert_type_fundamental<T_To,T_From>, integral branch ----------
   Branch ids are reported so that the correspondence check can count which
   branches a run reached.  Every comparison is written with the operand
   conversions C++ applies (both operands have the same signedness in each
   branch, so the usual arithmetic conversions are value preserving; the two
   explicit static_cast<T_From>(to_max) are kept as wrap). *)
Inductive cbranch := BSameWiden | BUU | BSS | BUSnarrow | BUSwide | BSUnarrow | BSUwide.

Definition conv_branch (to from : ikind) : cbranch :=
  if Bool.eqb (signed to) (signed from) && (size from <=? size to) then BSameWiden
  else if negb (signed to) && negb (signed from) then BUU
  else if signed to && signed from then BSS
  else if negb (signed to) && signed from then
         (if size to <? size from then BUSnarrow else BUSwide)
  else (if size to <=? size from then BSUnarrow else BSUwide).

Definition conv (to from : ikind) (v : Z) : res Z :=
  match conv_branch to from with
  | BSameWiden => Ok (wrap to v)
  | BUU => _ <- check (v <=? hi to) ;; Ok (wrap to v)
  | BSS => _ <- check (lo to <=? v) ;; _ <- check (v <=? hi to) ;; Ok (wrap to v)
  | BUSnarrow => _ <- check (0 <=? v) ;; _ <- check (v <=? wrap from (hi to)) ;; Ok (wrap to v)
  | BUSwide => _ <- check (0 <=? v) ;; Ok (wrap to v)
  | BSUnarrow => _ <- check (v <=? wrap from (hi to)) ;; Ok (wrap to v)
  | BSUwide => Ok (wrap to v)
  end.

(* What C06 demands of one integer crossing. *)
Definition conv_spec (to : ikind) (v : Z) : res Z :=
  if in_range to v then Ok v else Abort.

(* ---------- arrays: convert_type_fundamental_or_array ---------- *)
(* memcpy fast path: same width and same signedness -> bytes copied.  A value
   stored in [from] and re-read as [to] is its two's complement image, i.e.
   wrap to (for bool the byte is read back as stored; see Conv_proofs N2). *)
Definition memcpy_path (to from : ikind) : bool :=
  (size to =? size from) && Bool.eqb (signed to) (signed from).

Fixpoint conv_list (to from : ikind) (vs : list Z) : res (list Z) :=
  match vs with
  | [] => Ok []
  | v :: tl => x <- conv to from v ;; xs <- conv_list to from tl ;; Ok (x :: xs)
  end.

Definition reinterpret (to from : ikind) (v : Z) : Z :=
  match to with IBool => v | _ => wrap to v end.

Definition conv_array (to from : ikind) (vs : list Z) : res (list Z) :=
  if memcpy_path to from then Ok (map (reinterpret to from) vs)
  else conv_list to from vs.

Fixpoint conv_spec_list (to : ikind) (vs : list Z) : res (list Z) :=
  match vs with
  | [] => Ok []
  | v :: tl => x <- conv_spec to v ;; xs <- conv_spec_list to tl ;; Ok (x :: xs)
  end.

(* ---------- the ABI type map: convert_base_types_t ---------- *)
(* A sandbox ABI picks, for short/int/long/long long, one of the host's signed
   integer kinds (T_ShortType ... T_LongLongType). *)
Record abi := { a_short : ikind; a_int : ikind; a_long : ikind; a_llong : ikind }.

Definition make_unsigned (k : ikind) : ikind :=
  match k with
  | IChar | ISChar | IUChar => IUChar
  | IShort | IUShort => IUShort
  | IInt | IUInt => IUInt
  | ILong | IULong => IULong
  | ILLong | IULLong => IULLong
  | IWChar => IUInt | IChar16 => IUShort | IChar32 => IUInt
  | IBool => IBool
  end.

(* std::make_signed_t *)
Definition make_signed (k : ikind) : ikind :=
  match k with
  | IChar | ISChar | IUChar => ISChar
  | IShort | IUShort | IChar16 => IShort
  | IInt | IUInt | IChar32 | IWChar => IInt
  | ILong | IULong => ILong
  | ILLong | IULLong => ILLong
  | IBool => IBool
  end.

(* None: no specialisation matches (wchar_t) -> the program does not compile. *)
Definition sbx_equiv (a : abi) (k : ikind) : option ikind :=
  match k with
  | IShort => Some (a_short a)
  | IInt => Some (a_int a)
  | ILong => Some (a_long a)
  | ILLong => Some (a_llong a)
  | IBool | IChar | ISChar => Some k
  | IWChar => None
  (* unsigned kinds other than bool/char: make_unsigned (map (make_signed k)) *)
  | IUChar => Some (make_unsigned ISChar)
  | IUShort | IChar16 => Some (make_unsigned (a_short a))
  | IUInt | IChar32 => Some (make_unsigned (a_int a))
  | IULong => Some (make_unsigned (a_long a))
  | IULLong => Some (make_unsigned (a_llong a))
  end.

Definition signed_kind (k : ikind) : bool :=
  match k with IShort | IInt | ILong | ILLong | ISChar => true | _ => false end.

Definition abi_ok (a : abi) : bool :=
  signed_kind (a_short a) && signed_kind (a_int a) && signed_kind (a_long a) && signed_kind (a_llong a).

Definition abi_host : abi := {| a_short := IShort; a_int := IInt; a_long := ILong; a_llong := ILLong |}.
(* rlbox_verif_sandbox / rlbox_test_sandbox: int16,int32,int32,int64 *)
Definition abi_lp32 : abi := {| a_short := IShort; a_int := IInt; a_long := IInt; a_llong := ILong |}.
(* verifwide: short=int32, int=long=long long=int64 *)
Definition abi_wide : abi := {| a_short := IInt; a_int := ILong; a_long := ILong; a_llong := ILong |}.

(* The crossing paths: store / call argument / callback result go app->sbx,
   load / call result / callback argument go sbx->app; each is one
   convert_type_fundamental between k and its sandbox equivalent. *)
Definition to_sbx (a : abi) (k : ikind) (v : Z) : option (res Z) :=
  match sbx_equiv a k with Some s => Some (conv s k v) | None => None end.
Definition to_app (a : abi) (k : ikind) (v : Z) : option (res Z) :=
  match sbx_equiv a k with Some s => Some (conv k s v) | None => None end.

(* the source of a conversion is a location in sandbox memory: the i-th read of it returns [f i] *)
Definition conv_cell (to from : ikind) (f : nat -> Z) : res Z := conv to from (f 0%nat).
(* before the fix: commit for D21, signed narrowing: lower bound checked on one read, upper bound on a second, the cast on a third *)
Definition conv_cell_reread (to : ikind) (f : nat -> Z) : res Z :=
  _ <- check (lo to <=? f 0%nat) ;; _ <- check (f 1%nat <=? hi to) ;; Ok (wrap to (f 2%nat)).

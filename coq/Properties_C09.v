(* Properties_C09.v — C09: verified copies are application-memory snapshots; no check/use
   window.  For EVERY adversary schedule (any rewriting of sandbox memory at every interleave
   point between RLBox's reads), every memory content, every routine of the family.
   PARTIAL in one respect, stated in DESIGN.md: the adversary moves at the granularity of
   RLBox-level reads (the RLBOX_VERIF_INTERLEAVE sites), not inside a single load or strlen.
   Statements only. *)
From RLBoxV Require Import Verify Verify_proofs.
Local Open Scope Z_scope.

(* snapshot: the value handed to the verifier (and whatever the application then uses) is
   determined by the adversary's moves BEFORE the hand-over; anything written to sandbox memory
   at or after the hand-over cannot change it.  Holds for every program of the read-trace
   language, hence for every routine below. *)
Theorem C09_snapshot : forall (A : Type) (p : prog A) sc sc' m t v m' t',
  vrun sc p m t = Ok (v, m', t') ->
  (forall i, (t <= i < t')%nat -> sc i = sc' i) ->
  vrun sc' p m t = Ok (v, m', t').
Proof. intros A p. exact (run_snapshot p). Qed.
Print Assumptions C09_snapshot.

(* copy_and_verify_string (unique_ptr<char[]> verifier): whatever the adversary does — lengthen,
   shorten, remove the terminator, at any point — the delivered buffer has exactly the
   range-checked length n+1, lies within the checked range, its last byte is NUL, and therefore
   its C-string length is at most n *)
Theorem C09_string : forall sc w off m t buf m' t',
  vrun sc (cv_string_unique w off) m t = Ok (buf, m', t') ->
  exists n, length buf = S n /\ (off + S n <= w)%nat /\
            nth n buf 1 = 0 /\ exists k, cstrlen buf = Some k /\ (k <= n)%nat.
Proof. exact string_unique_terminated. Qed.
Print Assumptions C09_string.

(* std::string verifier: the string carries its own length, which is the measured one and lies
   in the checked range *)
Theorem C09_string_std : forall sc w off m t s m' t',
  vrun sc (cv_string_std w off) m t = Ok (s, m', t') ->
  exists len, length s = len /\ (off + S len <= w)%nat.
Proof. exact string_std_length. Qed.

(* ranges and copy_memory_or_deny_access: exactly the requested number of elements/bytes, all
   from inside the range that was checked, whatever the adversary does *)
Theorem C09_range : forall sc w elsz off count m t es m' t',
  vrun sc (cv_range w elsz off count) m t = Ok (es, m', t') ->
  length es = count /\ Forall (fun e => length e = elsz) es /\ (off + count * elsz <= w)%nat /\ count <> 0%nat.
Proof. exact range_shape. Qed.
Theorem C09_copy_memory : forall sc w off num m t bs m' t',
  vrun sc (cmda w off num) m t = Ok (bs, m', t') -> length bs = num /\ (off + num <= w)%nat.
Proof. exact cmda_shape. Qed.

(* the theorems are not vacuous: a variant that sizes the buffer from a second strlen is refuted
   by an adversary that removes the terminator between the two scans *)
Theorem C09_double_fetch_refuted :
  let m0 := [72; 105; 0; 65; 66; 67; 0; 0] in
  let sc := fun i : nat => match i with 4%nat => [(2%nat, 33)] | _ => [] end in
  match vrun sc (cv_string_double_fetch 8 0) m0 0 with
  | Ok (buf, _, _) => length buf = 7%nat /\ cstrlen buf = Some 6%nat
  | _ => False
  end /\
  match vrun sc (cv_string_unique 8 0) m0 0 with
  | Ok (buf, _, _) => length buf = 3%nat /\ cstrlen buf = Some 2%nat
  | _ => False
  end.
Proof. exact double_fetch_refuted. Qed.

(* copy_and_verify_buffer_address on a pointer that itself lies in sandbox memory: the address the verifier receives is
   the one that was range-checked (null, or the whole buffer inside sandbox memory), for every adversary schedule - the
   interleave point inside the range check included; handing over a second fetch is refuted *)
Theorem C09_buffer_address : forall sc total size cell m t v m' t',
  vrun sc (cv_buffer_address total size cell) m t = Ok (v, m', t') -> v = 0 \/ v + size <= total.
Proof. exact buffer_address_checked. Qed.
Theorem C09_buffer_address_refetch_refuted :
  let m0 := [16; 0; 0; 0] in
  let sc := fun i : nat => match i with 1%nat => [(0%nat, 250)] | _ => [] end in
  match vrun sc (cv_buffer_address_refetch 256 64 0) m0 0 with
  | Ok (v, _, _) => v = 250 /\ ~ (v = 0 \/ v + 64 <= 256)
  | _ => False
  end.
Proof. exact buffer_address_refetch_refuted. Qed.
Print Assumptions C09_buffer_address.

(* copy_and_verify_string / copy_and_verify_range on a pointer that itself lies in SANDBOX memory (a tainted_volatile<T*>):
   the pointer is fetched ONCE (fix: commit for D18), then the routine for a pointer held in application memory runs on
   that copy: the same guarantees, for every adversary schedule that also rewrites the pointer cell *)
Theorem C09_string_cell : forall sc woff w cell m t buf m' t',
  vrun sc (cv_string_unique_cell woff w cell) m t = Ok (Some buf, m', t') ->
  exists off n, length buf = S n /\ (off + S n <= w)%nat /\
            nth n buf 1 = 0 /\ exists k, cstrlen buf = Some k /\ (k <= n)%nat.
Proof. exact string_unique_cell_terminated. Qed.
Print Assumptions C09_string_cell.
Theorem C09_string_std_cell : forall sc woff w cell m t s m' t',
  vrun sc (cv_string_std_cell woff w cell) m t = Ok (s, m', t') ->
  s = [] \/ exists off len, length s = len /\ (off + S len <= w)%nat.
Proof. exact string_std_cell_length. Qed.
Theorem C09_range_cell : forall sc woff w elsz cell count m t es m' t',
  vrun sc (cv_range_cell woff w elsz cell count) m t = Ok (Some es, m', t') ->
  exists off, length es = count /\ Forall (fun e => length e = elsz) es /\ (off + count * elsz <= w)%nat /\ count <> 0%nat.
Proof. exact range_cell_shape. Qed.
(* fixed defect D18 (regression witness): with the cell fetched again for the range check and per element, a sandbox that
   nulls the cell after the string was measured makes the library write the terminator through a null buffer *)
Theorem C09_string_cell_before_fix_refuted :
  let woff := fun r : Z => if (248 <=? r) && (r <? 256) then Some (Z.to_nat (r - 248)) else None in
  let m0 := [252; 0; 0; 0; 65; 66; 0; 88] in
  let sc := fun i : nat => match i with 2%nat => [(0%nat, 0)] | _ => [] end in
  vrun sc (cv_string_unique_cell_refetch woff 256 8 0) m0 0 = Fault /\
  (exists r, vrun sc (cv_string_unique_cell woff 8 0) m0 0 = Ok r /\ fst (fst r) = Some [65; 66; 0]).
Proof. exact string_unique_cell_refetch_refuted. Qed.

(* ScopeExit.v — rlbox::detail::scope_exit (rlbox_helpers.hpp): a guard made by make_scope_exit
   runs its exit function when destroyed, unless released; move construction transfers the duty and
   disarms the source.  Objects are numbered in creation order. *)
From RLBoxV Require Export Machine.
From Coq Require Export Arith PeanoNat.

(* per object: Some armed (live) / None (destroyed) *)
Record sx := { objs : list (option bool); fired : nat; cancelled : nat }.

Inductive sxop :=
| SxMove (j : nat)       (* a new object move-constructed from live object j *)
| SxRelease (j : nat)    (* j.release() *)
| SxDestroy (j : nat).   (* ~scope_exit of j *)

Fixpoint set_obj (l : list (option bool)) (j : nat) (v : option bool) : list (option bool) :=
  match l, j with
  | [], _ => []
  | _ :: tl, O => v :: tl
  | x :: tl, S j' => x :: set_obj tl j' v
  end.

Definition sx_init : sx := {| objs := [Some true]; fired := 0; cancelled := 0 |}.   (* make_scope_exit(f) *)

(* operations on destroyed / non-existent objects are not C++ programs: skipped *)
Definition sx_step (s : sx) (o : sxop) : sx :=
  match o with
  | SxMove j =>
    match nth j (objs s) None with
    | Some a => {| objs := set_obj (objs s) j (Some false) ++ [Some a]; fired := fired s; cancelled := cancelled s |}
    | None => s
    end
  | SxRelease j =>
    match nth j (objs s) None with
    | Some a => {| objs := set_obj (objs s) j (Some false); fired := fired s; cancelled := cancelled s + (if a then 1 else 0) |}
    | None => s
    end
  | SxDestroy j =>
    match nth j (objs s) None with
    | Some a => {| objs := set_obj (objs s) j None; fired := fired s + (if a then 1 else 0); cancelled := cancelled s |}
    | None => s
    end
  end.

Definition sx_run (ops : list sxop) : sx := fold_left sx_step ops sx_init.

Definition armed_count (l : list (option bool)) : nat :=
  length (filter (fun o => match o with Some true => true | _ => false end) l).
Definition all_destroyed (l : list (option bool)) : bool :=
  forallb (fun o => match o with None => true | Some _ => false end) l.

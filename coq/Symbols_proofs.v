From RLBoxV Require Import Symbols.
From Coq Require Import Lia.
Local Open Scope Z_scope.

Lemma sset_nth_length {A} (l : list A) k a : length (sset_nth l k a) = length l.
Proof. revert k; induction l as [|x l IH]; intros [|k]; cbn; auto. Qed.

Lemma nth_sset_nth_same {A} (l : list A) k a d : (k < length l)%nat -> nth k (sset_nth l k a) d = a.
Proof. revert k; induction l as [|x l IH]; intros [|k] H; cbn in *; try lia; auto. apply IH; lia. Qed.

Lemma nth_sset_nth_other {A} (l : list A) k j a d : j <> k -> nth j (sset_nth l k a) d = nth j l d.
Proof. revert k j; induction l as [|x l IH]; intros [|k] [|j] H; cbn; auto; try congruence. Qed.

Lemma assoc_in n l a : assoc n l = Some a -> In (n, a) l.
Proof.
  induction l as [|[k b] l IH]; cbn; [discriminate|].
  destruct (k =? n) eqn:E; intros H.
  - apply Z.eqb_eq in E. inversion H. subst. now left.
  - right. auto.
Qed.

Lemma assoc_none_iff n l : assoc n l = None <-> forall a, ~ In (n, a) l.
Proof.
  induction l as [|[k b] l IH]; cbn.
  - split; auto.
  - destruct (k =? n) eqn:E.
    + apply Z.eqb_eq in E. subst. split; [discriminate|]. intros H. exfalso. apply (H b). now left.
    + apply Z.eqb_neq in E. rewrite IH. split.
      * intros H a [Q|Q]; [inversion Q; congruence | exact (H a Q)].
      * intros H a Q. apply (H a). now right.
Qed.

Section WithLib.
Variable lib : nat -> Z -> Z.

(* invariant of the code's arrangement (one pair of caches per instance): every cached entry of instance i
   is the library address of that name for instance i *)
Definition sinv (w : symw) : Prop :=
  forall i k n a, (i < length w)%nat -> In (n, a) (cache_of k (nth i w symc_init)) -> a = lib i n.

Lemma sinv_init n : sinv (symw_init n).
Proof.
  intros i k m a Hi H. unfold symw_init in H. rewrite nth_repeat in H. destruct k; cbn in H; contradiction.
Qed.

Lemma cache_of_with k k' c l : cache_of k (with_cache k' c l) = if skind_eqb k k' then l else cache_of k c.
Proof. destruct k, k'; reflexivity. Qed.

Lemma sstep_inv w o : sinv w -> (match o with SLook _ i _ => (i < length w)%nat end) ->
  sinv (fst (sstep lib false w o)) /\ length (fst (sstep lib false w o)) = length w /\
  snd (snd (sstep lib false w o)) = match o with SLook _ i n => lib i n end.
Proof.
  intros I Hi. destruct o as [k i name]. cbn [sstep slot_of].
  destruct (assoc name (cache_of k (nth i w symc_init))) as [a|] eqn:E; cbn [fst snd].
  - repeat split; auto. apply assoc_in in E. exact (I i k name a Hi E).
  - repeat split; [|apply sset_nth_length].
    intros j k' m b Hj Hin. rewrite sset_nth_length in Hj.
    destruct (Nat.eq_dec j i) as [->|Ne].
    + rewrite nth_sset_nth_same in Hin by exact Hi. rewrite cache_of_with in Hin.
      destruct (skind_eqb k' k) eqn:Ek.
      * destruct Hin as [Q|Q]; [inversion Q; reflexivity|].
        assert (k' = k) by (destruct k', k; try discriminate; reflexivity). subst. exact (I i k m b Hi Q).
      * exact (I i k' m b Hi Hin).
    + rewrite nth_sset_nth_other in Hin by exact Ne. exact (I j k' m b Hj Hin).
Qed.

Definition op_in_range (n : nat) (o : sop) : bool := match o with SLook _ i _ => Nat.ltb i n end.

(* every address returned in any history is the named function's address in the asked instance's library *)
Theorem srun_addresses : forall ops w, sinv w -> forallb (op_in_range (length w)) ops = true ->
  map snd (snd (srun lib false w ops)) = sspec lib ops.
Proof.
  induction ops as [|o ops IH]; intros w I R; cbn [srun sspec map]; [reflexivity|].
  cbn [forallb] in R. apply andb_prop in R as [R1 R2].
  assert (Hi : match o with SLook _ i _ => (i < length w)%nat end).
  { destruct o as [k i n]. cbn in R1. apply Nat.ltb_lt in R1. exact R1. }
  destruct (sstep_inv w o I Hi) as (I' & L & A).
  destruct (sstep lib false w o) as [w1 x] eqn:S. cbn [fst snd] in *.
  specialize (IH w1 I'). rewrite L in IH. specialize (IH R2).
  destruct (srun lib false w1 ops) as [w2 xs]. cbn [snd map] in *. rewrite IH. f_equal.
  rewrite A. destruct o; reflexivity.
Qed.

(* the back end is asked exactly at the first lookup of a (kind, instance, name) *)
Definition cached_keys (w : symw) (seen : list sop) : Prop :=
  forall k i n, (i < length w)%nat ->
    (assoc n (cache_of k (nth i w symc_init)) <> None <-> existsb (same_key (SLook k i n)) seen = true).

Lemma same_key_refl o : same_key o o = true.
Proof. destruct o as [k i n]. cbn. rewrite Nat.eqb_refl, Z.eqb_refl. destruct k; reflexivity. Qed.

Lemma same_key_true o p : same_key o p = true -> o = p.
Proof.
  destruct o as [k i n], p as [k' i' n']. cbn. intros H.
  apply andb_prop in H as [H H3]. apply andb_prop in H as [H1 H2].
  apply Nat.eqb_eq in H2. apply Z.eqb_eq in H3. destruct k, k'; try discriminate; subst; reflexivity.
Qed.

Lemma assoc_cons_ne n m a l : m <> n -> assoc n ((m, a) :: l) = assoc n l.
Proof. intros H. cbn. destruct (m =? n) eqn:E; [apply Z.eqb_eq in E; congruence | reflexivity]. Qed.

Lemma sstep_asked w seen o : cached_keys w seen -> (match o with SLook _ i _ => (i < length w)%nat end) ->
  fst (snd (sstep lib false w o)) = negb (existsb (same_key o) seen) /\
  cached_keys (fst (sstep lib false w o)) (o :: seen) /\ length (fst (sstep lib false w o)) = length w.
Proof.
  intros C Hi. destruct o as [k i name]. cbn [sstep slot_of].
  pose proof (C k i name Hi) as Ck.
  destruct (assoc name (cache_of k (nth i w symc_init))) as [a|] eqn:E; cbn [fst snd].
  - assert (X : existsb (same_key (SLook k i name)) seen = true) by (apply Ck; discriminate).
    rewrite X. split; [reflexivity|]. split; [|reflexivity].
    intros k' j m Hj. cbn [existsb]. rewrite (C k' j m Hj).
    destruct (same_key (SLook k' j m) (SLook k i name)) eqn:S; cbn [orb]; [|tauto].
    apply same_key_true in S. inversion S; subst. rewrite X. tauto.
  - assert (X : existsb (same_key (SLook k i name)) seen = false).
    { destruct (existsb _ seen) eqn:Y; [|reflexivity]. exfalso. exact (proj2 Ck eq_refl eq_refl). }
    rewrite X. split; [reflexivity|]. split; [|apply sset_nth_length].
    intros k' j m Hj. rewrite sset_nth_length in Hj. cbn [existsb].
    destruct (Nat.eq_dec j i) as [->|Ne].
    + rewrite nth_sset_nth_same by exact Hi. rewrite cache_of_with.
      destruct (skind_eqb k' k) eqn:Ek.
      * assert (k' = k) by (destruct k', k; try discriminate; reflexivity). subst k'.
        destruct (Z.eq_dec name m) as [->|Nm].
        -- rewrite same_key_refl. cbn. rewrite Z.eqb_refl. split; [reflexivity | discriminate].
        -- rewrite assoc_cons_ne by exact Nm. rewrite (C k i m Hi).
           replace (same_key (SLook k i m) (SLook k i name)) with false; [cbn; tauto|].
           symmetry. cbn. rewrite Nat.eqb_refl. destruct (m =? name) eqn:Q; [apply Z.eqb_eq in Q; congruence|].
           destruct k; reflexivity.
      * rewrite (C k' i m Hi).
        replace (same_key (SLook k' i m) (SLook k i name)) with false; [cbn; tauto|].
        symmetry. cbn. rewrite Ek. reflexivity.
    + rewrite nth_sset_nth_other by exact Ne. rewrite (C k' j m Hj).
      replace (same_key (SLook k' j m) (SLook k i name)) with false; [cbn; tauto|].
      symmetry. cbn. destruct (Nat.eqb j i) eqn:Q; [apply Nat.eqb_eq in Q; congruence|].
      rewrite andb_false_r. reflexivity.
Qed.

Theorem srun_asked : forall ops w seen, cached_keys w seen -> forallb (op_in_range (length w)) ops = true ->
  map fst (snd (srun lib false w ops)) = first_times seen ops.
Proof.
  induction ops as [|o ops IH]; intros w seen C R; cbn [srun first_times map]; [reflexivity|].
  cbn [forallb] in R. apply andb_prop in R as [R1 R2].
  assert (Hi : match o with SLook _ i _ => (i < length w)%nat end).
  { destruct o as [k i n]. cbn in R1. apply Nat.ltb_lt in R1. exact R1. }
  destruct (sstep_asked w seen o C Hi) as (A & C' & L).
  destruct (sstep lib false w o) as [w1 x] eqn:S. cbn [fst snd] in *.
  specialize (IH w1 (o :: seen) C'). rewrite L in IH. specialize (IH R2).
  destruct (srun lib false w1 ops) as [w2 xs]. cbn [snd map] in *. rewrite IH, A. reflexivity.
Qed.

Lemma cached_keys_init n : cached_keys (symw_init n) [].
Proof.
  intros k i m Hi. unfold symw_init. rewrite nth_repeat. destruct k; cbn; split; intros H; congruence.
Qed.
End WithLib.

(* the alternative with one process-wide cache hands instance 1 the address resolved for instance 0 *)
Lemma shared_cache_refuted :
  let lib := fun (i : nat) (n : Z) => 4096 + 256 * Z.of_nat i + n in
  map snd (snd (srun lib true (symw_init 2) [SLook SInt 0 5; SLook SInt 1 5])) <> sspec lib [SLook SInt 0 5; SLook SInt 1 5].
Proof. vm_compute. discriminate. Qed.

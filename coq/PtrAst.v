(* PtrAst.v — a small deep-embedded language for the POINTER branches of the instantiated
   tainted_base_impl<tainted, T*, S>::operator+<K>, operator-<K> and operator[]<K> as clang's AST shows them
   (if-constexpr resolved, every implicit conversion an explicit cast node, every arithmetic node carrying its
   C++ result type), its interpreter over Machine.v / Ptr.v, and the fixed tactic that proves one generated
   program equal to Ptr.v's ptr_arith / ptr_index_gen for ALL pointers, operands, strides and region lists.
   The programs are regenerated from /repo's headers on every run (Gen_PtrPrograms.v, harness/m3_ptr.py). *)
From RLBoxV Require Export Ptr Conv_proofs.
Local Open Scope Z_scope.

Inductive pbop := BAdd | BSub | BMul.
Inductive pcmp := KEq | KNe | KLt | KLe | KGt | KGe.
Inductive pexpr :=
| PPtr                                   (* impl().get_raw_value(): the address held, as an integer *)
| PRhs                                   (* detail::unwrap_value(rhs): the operand's value *)
| PNull                                  (* nullptr *)
| PLit (v : Z)
| PStride                                (* sizeof( *impl()): size of the pointee's tainted_volatile = guest-ABI size *)
| PAppSize                               (* sizeof of the application pointee type *)
| PExtent                                (* std::extent_v of the array type: its declared length *)
| PElem (i : pexpr)                      (* &data[i] of the array the wrapper holds: start + i * element size of the memory it lives in *)
| PCast (k : ikind) (e : pexpr)          (* IntegralCast / static_cast to k *)
| PBin (op : pbop) (k : ikind) (a b : pexpr).   (* a op b computed in the C++ type k the AST gives the node *)
Inductive pcond :=
| CCmp (op : pcmp) (a b : pexpr)
| CNot (c : pcond)
| CAnd (c d : pcond)
| COr (c d : pcond)
| CSame (a b : pexpr).                   (* rlbox_sandbox<S>::is_in_same_sandbox(a, b) *)
Inductive pstmt :=
| PCheck (c : pcond)                     (* detail::dynamic_check(c, msg) *)
| PRet (e : pexpr).                      (* the address the returned wrapper designates *)

Section Eval.
Variable l : list region.
Variables stride appsz len p n : Z.

Fixpoint peval (e : pexpr) : Z :=
  match e with
  | PPtr => p
  | PRhs => n
  | PNull => 0
  | PLit v => v
  | PStride => stride
  | PAppSize => appsz
  | PExtent => len
  | PElem i => p + peval i * stride
  | PCast k e' => wrap k (peval e')
  | PBin op k a b =>
    let x := peval a in let y := peval b in
    wrap k (match op with BAdd => x + y | BSub => x - y | BMul => x * y end)
  end.

Definition pcompare (op : pcmp) (a b : Z) : bool :=
  match op with
  | KEq => a =? b | KNe => negb (a =? b) | KLt => a <? b | KLe => a <=? b | KGt => b <? a | KGe => b <=? a
  end.

Fixpoint pceval (c : pcond) : bool :=
  match c with
  | CCmp op a b => pcompare op (peval a) (peval b)
  | CNot c' => negb (pceval c')
  | CAnd c' d => pceval c' && pceval d
  | COr c' d => pceval c' || pceval d
  | CSame a b => same_sbx l (peval a) (peval b)
  end.

(* statements in order; the first failing check aborts; the return yields the address; a body
   without return is malformed (Fault: the generated lemmas exclude it) *)
Fixpoint prun (prog : list pstmt) : res Z :=
  match prog with
  | [] => Fault
  | PCheck c :: tl => if pceval c then prun tl else Abort
  | PRet e :: _ => Ok (peval e)
  end.
End Eval.

Lemma wrap_ulong x : wrap IULong x = w64 x.
Proof. reflexivity. Qed.
Lemma wrap_ullong x : wrap IULLong x = w64 x.
Proof. reflexivity. Qed.
Lemma w64_of_range k x : in_range k x = true -> size k = 8 -> signed k = false -> w64 x = x.
Proof.
  intros H S U. apply w64_small. unfold in_range in H. apply andb_prop in H as [A B].
  apply Z.leb_le in A. apply Z.leb_le in B. unfold lo, hi, bits in *. rewrite U, S in *.
  destruct k; try discriminate; cbn in *; unfold M64; lia.
Qed.
Lemma w64_w64 x : w64 (w64 x) = w64 x.
Proof. unfold w64. apply Z.mod_mod. unfold M64. lia. Qed.
(* a signed 64-bit operand converted to size_t: the same residue *)
Lemma w64_wrap_long x : w64 (wrap ILong x) = w64 x.
Proof.
  unfold w64, wrap, M64. cbn [signed bits size]. change (8 * 8) with 64. change (64 - 1) with 63.
  rewrite <- Zminus_mod_idemp_l. rewrite Z.mod_mod by lia.
  rewrite Zminus_mod_idemp_l. f_equal. lia.
Qed.
Lemma w64_wrap_llong x : w64 (wrap ILLong x) = w64 x.
Proof. exact (w64_wrap_long x). Qed.

(* hypotheses of every generated lemma: the address held fits a pointer, the operand is a value of its type,
   sizeof yields a size_t *)
Ltac ptr_ast_tac :=
  let l := fresh "l" in let stride := fresh "stride" in let appsz := fresh "appsz" in
  let p := fresh "p" in let n := fresh "n" in
  let Hp := fresh "Hp" in let Hn := fresh "Hn" in let Hs := fresh "Hs" in
  intros l stride appsz p n Hp Hn Hs;
  cbv [prun pceval peval pcompare ptr_arith ptr_index_gen arith_target bind check code_index_nullcheck negb orb];
  repeat match goal with
         | |- context [wrap IULong ?x] => change (wrap IULong x) with (w64 x)
         | |- context [wrap IULLong ?x] => change (wrap IULLong x) with (w64 x)
         end;
  try (rewrite (wrap_id _ n Hn));
  repeat rewrite w64_w64;
  try rewrite (w64_small stride Hs);
  try (rewrite (w64_of_range _ n Hn eq_refl eq_refl));
  try (rewrite (w64_of_range _ p Hp eq_refl eq_refl));
  destruct (p =? 0); cbv beta iota; try reflexivity;
  match goal with
  | |- context [same_sbx ?l ?a ?b] => destruct (same_sbx l a b); reflexivity
  end.

(* ---------- check-only bodies (void functions): detail::check_range_doesnt_cross_app_sbx_boundary ---------- *)
Section Checks.
Variable l : list region.
Variables stride appsz len p n : Z.
Fixpoint pchecks (prog : list pstmt) : res unit :=
  match prog with
  | [] => Ok tt
  | PCheck c :: tl => if pceval l stride appsz len p n c then pchecks tl else Abort
  | PRet _ :: _ => Fault
  end.
End Checks.

Lemma w64_minus_l a b : w64 (w64 a - b) = w64 (a - b).
Proof. unfold w64. apply Zminus_mod_idemp_l. Qed.
Lemma w64_plus_l a b : w64 (w64 a + b) = w64 (a + b).
Proof. unfold w64. apply Zplus_mod_idemp_l. Qed.
Lemma w64_plus_r a b : w64 (a + w64 b) = w64 (a + b).
Proof. unfold w64. apply Zplus_mod_idemp_r. Qed.

(* the generated lemma: forall regions, start addresses and sizes (both size_t values),
   pchecks prog = Ptr.check_range code_range_guarded.  Arithmetic is normalised to one w64 per expression, then every
   comparison that occurs is split and the residue closed by lia (so equivalent spellings of the conditions prove too) *)
Ltac range_ast_tac :=
  let l := fresh "l" in let p := fresh "p" in let n := fresh "n" in
  let Hp := fresh "Hp" in let Hn := fresh "Hn" in
  intros l p n Hp Hn;
  cbv [pchecks pceval peval pcompare check_range bind check code_range_guarded];
  repeat match goal with
         | |- context [wrap ?k ?c] =>
           lazymatch c with
           | context [p] => fail
           | context [n] => fail
           | _ => let r := eval vm_compute in (wrap k c) in change (wrap k c) with r
           end
         end;
  repeat match goal with
         | |- context [wrap IULong ?x] => change (wrap IULong x) with (w64 x)
         | |- context [wrap IULLong ?x] => change (wrap IULLong x) with (w64 x)
         end;
  rewrite ?(w64_of_range _ n Hn eq_refl eq_refl);
  rewrite ?w64_minus_l, ?w64_plus_l, ?w64_plus_r, ?w64_w64;
  rewrite ?(w64_of_range _ n Hn eq_refl eq_refl);
  match goal with
  | |- context [w64 ?e] =>
    let E := fresh "e" in set (E := w64 e) in *;
    repeat match goal with
           | |- context [same_sbx l ?a ?b] => let S := fresh "S" in destruct (same_sbx l a b) eqn:S
           end;
    repeat match goal with
           | |- context [?a =? ?b] => destruct (Z.eqb_spec a b)
           | |- context [?a <=? ?b] => destruct (Z.leb_spec a b)
           | |- context [?a <? ?b] => destruct (Z.ltb_spec a b)
           end;
    cbn; try reflexivity; try (exfalso; lia)
  end.

(* ---------- the fixed-size-array branch of operator[] (C17) ----------
   generated lemma: forall index values n of the index type K, array lengths (a size_t), starts and element sizes,
   prun prog = Ptr.arr_index K n len start elsize *)
Lemma wrap_id' k x : lo k <= x <= hi k -> wrap k x = x.
Proof. intros H. apply wrap_id. apply in_range_intro. exact H. Qed.
Lemma wrap_bounds k x : lo k <= wrap k x <= hi k.
Proof. apply in_range_bounds. apply wrap_in_range. Qed.

Ltac arr_bounds H := apply in_range_bounds in H; cbv [lo hi signed bits size] in H; cbn in H.
Ltac arr_ast_tac :=
  let l := fresh "l" in let stride := fresh "stride" in let len := fresh "len" in
  let p := fresh "p" in let n := fresh "n" in
  let Hn := fresh "Hn" in let Hl := fresh "Hl" in
  intros l stride len p n Hn Hl; arr_bounds Hn; change M64 with 18446744073709551616 in Hl;
  cbv [prun pceval peval pcompare arr_index bind check unsigned_of];
  (* closed casts (literals) *)
  repeat match goal with
         | |- context [wrap ?k ?c] =>
           lazymatch c with
           | context [n] => fail
           | context [len] => fail
           | _ => let r := eval vm_compute in (wrap k c) in change (wrap k c) with r
           end
         end;
  (* a cast of the array length (a size_t) to another 64-bit unsigned type *)
  repeat match goal with
         | |- context [wrap ?k len] => rewrite (wrap_id' k len) by (cbv [lo hi signed bits size]; cbn; lia)
         end;
  (* casts of the index that are the identity on its range *)
  repeat match goal with
         | |- context [wrap ?k n] => rewrite (wrap_id' k n) by (cbv [lo hi signed bits size]; cbn; lia)
         end;
  (* a cast of an already converted index: name the inner value with its bounds, drop the outer cast when it fits *)
  repeat match goal with
         | |- context [wrap ?k (wrap ?k2 n)] =>
           let u := fresh "u" in let Hu := fresh "Hu" in
           pose proof (wrap_bounds k2 n) as Hu; cbv [lo hi signed bits size] in Hu;
           set (u := wrap k2 n) in *; cbn in Hu;
           rewrite (wrap_id' k u) by (cbv [lo hi signed bits size]; cbn; lia)
         end;
  destruct (Z.leb_spec 0 n); cbn [andb negb orb];
  (* where the index is not negative the remaining casts of it are the identity *)
  repeat match goal with
         | |- context [wrap ?k n] => rewrite (wrap_id' k n) by (cbv [lo hi signed bits size]; cbn; lia)
         end;
  (* comparisons the sign of the index decides (the checks may be split, negated, or written the other way round) *)
  repeat match goal with
         | |- context [?a <? ?b] => first [rewrite (proj2 (Z.ltb_lt a b)) by lia | rewrite (proj2 (Z.ltb_ge a b)) by lia]
         | |- context [?a <=? ?b] => first [rewrite (proj2 (Z.leb_le a b)) by lia | rewrite (proj2 (Z.leb_gt a b)) by lia]
         end;
  cbn [andb negb orb];
  try reflexivity;
  repeat match goal with
         | |- context [?a <? ?b] => destruct (Z.ltb_spec a b)
         | |- context [?a <=? ?b] => destruct (Z.leb_spec a b)
         end;
  cbn [andb negb orb]; first [reflexivity | exfalso; lia].

(* ThreadRec.v — the back end's per-thread record (rlbox_noop_sandbox / rlbox_dylib_sandbox: thread_data.sandbox, the
   "currently executing sandbox" that impl_invoke_with_func_ptr saves, sets and restores and that the callback trampolines
   read to find the callback table) under arbitrary interleavings of threads that each use their own sandboxes.
   [shared] = false: the code (thread_local record, library-provided or embedder-provided); true: one process-wide record
   (the refuted alternative). *)
From Coq Require Export List Arith PeanoNat Bool.
Export ListNotations.

Definition sid := nat.
Definition tid := nat.

Inductive ract :=
| REnter (s : sid)     (* impl_invoke_with_func_ptr: old := record; record := s; (old kept on the thread's stack) *)
| RLeave               (* its scope-exit: record := old *)
| RDispatch.           (* a callback trampoline reads the record: which sandbox's table is consulted *)

(* what one thread carries: its record cell (used when the record is per thread), the saved values, the rest of its
   program, the sandboxes its dispatches consulted *)
Record tstate := { cellv : option sid; saved : list (option sid); todo : list ract; seen : list (option sid) }.
Definition config := tid -> tstate.

Definition upd (c : config) (t : tid) (x : tstate) : config := fun u => if Nat.eqb u t then x else c u.

(* the cell a thread's accesses go to *)
Definition cell_owner (shared : bool) (t : tid) : tid := if shared then 0 else t.

Definition step (shared : bool) (c : config) (t : tid) : config :=
  let me := c t in
  let o := cell_owner shared t in
  let cur := cellv (c o) in
  let set_cell (c' : config) (v : option sid) : config :=
    upd c' o {| cellv := v; saved := saved (c' o); todo := todo (c' o); seen := seen (c' o) |} in
  match todo me with
  | [] => c
  | REnter s :: tl =>
    set_cell (upd c t {| cellv := cellv me; saved := cur :: saved me; todo := tl; seen := seen me |}) (Some s)
  | RLeave :: tl =>
    match saved me with
    | old :: st => set_cell (upd c t {| cellv := cellv me; saved := st; todo := tl; seen := seen me |}) old
    | [] => upd c t {| cellv := cellv me; saved := []; todo := tl; seen := seen me |}
    end
  | RDispatch :: tl => upd c t {| cellv := cellv me; saved := saved me; todo := tl; seen := seen me ++ [cur] |}
  end.

Fixpoint run (shared : bool) (c : config) (sched : list tid) : config :=
  match sched with [] => c | t :: tl => run shared (step shared c t) tl end.

(* one thread alone: the same steps on its own state *)
Definition solo_step (me : tstate) : tstate :=
  match todo me with
  | [] => me
  | REnter s :: tl => {| cellv := Some s; saved := cellv me :: saved me; todo := tl; seen := seen me |}
  | RLeave :: tl =>
    match saved me with
    | old :: st => {| cellv := old; saved := st; todo := tl; seen := seen me |}
    | [] => {| cellv := cellv me; saved := []; todo := tl; seen := seen me |}
    end
  | RDispatch :: tl => {| cellv := cellv me; saved := saved me; todo := tl; seen := seen me ++ [cellv me] |}
  end.
Fixpoint iter_solo (n : nat) (me : tstate) : tstate := match n with O => me | S k => iter_solo k (solo_step me) end.
Fixpoint count_tid (t : tid) (l : list tid) : nat :=
  match l with [] => 0 | u :: tl => (if Nat.eqb u t then 1 else 0) + count_tid t tl end.

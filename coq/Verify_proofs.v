(* Verify_proofs.v — for EVERY adversary schedule and every memory content: the value handed
   to the verifier depends only on what happened before the hand-over; strings are
   terminated inside their own buffer and exactly as long as the range that was checked *)
From RLBoxV Require Import Verify.
Local Open Scope Z_scope.

(* ---------- generic facts about run ---------- *)
Lemma run_mono {A} (sc : sched) (p : prog A) : forall m t v m' t',
  vrun sc p m t = Ok (v, m', t') -> (t <= t')%nat.
Proof.
  induction p as [a|k IH|off k IH|b k IH|]; intros m t v m' t' H; cbn [vrun] in H.
  - inversion H; lia.
  - apply IH in H. lia.
  - destruct (nth_error m off); [|discriminate]. eapply IH; eauto.
  - destruct b; [|discriminate]. eapply IH; eauto.
  - discriminate.
Qed.

(* snapshot: the outcome is a function of the adversary's moves at the interleave points that
   occur before the hand-over; moves at any later point (during or after the verifier) are irrelevant *)
Theorem run_snapshot {A} (p : prog A) : forall sc sc' m t v m' t',
  vrun sc p m t = Ok (v, m', t') ->
  (forall i, (t <= i < t')%nat -> sc i = sc' i) ->
  vrun sc' p m t = Ok (v, m', t').
Proof.
  induction p as [a|k IH|off k IH|b k IH|]; intros sc sc' m t v m' t' H Hs; cbn [vrun] in *.
  - exact H.
  - pose proof (run_mono sc k _ _ _ _ _ H) as Hm.
    rewrite <- (Hs t) by lia. eapply IH; [exact H|]. intros i Hi. apply Hs. lia.
  - destruct (nth_error m off); [|discriminate]. eapply IH; eauto.
  - destruct b; [|discriminate]. eapply IH; eauto.
  - discriminate.
Qed.

(* ---------- the building blocks ---------- *)
Lemma rd_bytes_inv {A} sc n : forall off acc (k : list Z -> prog A) m t r,
  vrun sc (rd_bytes off n acc k) m t = Ok r ->
  exists bs, length bs = n /\ vrun sc (k (rev acc ++ bs)) m t = Ok r.
Proof.
  induction n as [|n IH]; intros off acc k m t r H; cbn [rd_bytes vrun] in H.
  - exists []. rewrite app_nil_r. split; [reflexivity|exact H].
  - destruct (nth_error m off) as [b|]; [|discriminate].
    destruct (IH _ _ _ _ _ _ H) as (bs & L & R). exists (b :: bs). split; [cbn; lia|].
    cbn [rev] in R. rewrite <- app_assoc in R. exact R.
Qed.

Lemma strlen_inv {A} sc fuel : forall off len (k : nat -> prog A) m t r,
  vrun sc (strlen_prog fuel off len k) m t = Ok r -> exists len', vrun sc (k len') m t = Ok r.
Proof.
  induction fuel as [|f IH]; intros off len k m t r H; cbn [strlen_prog vrun] in H; [discriminate|].
  destruct (nth_error m off) as [b|]; [|discriminate].
  destruct (b =? 0); [exists len; exact H|]. eapply IH; exact H.
Qed.

Lemma range_loop_inv {A} sc elsz n : forall off acc (k : list (list Z) -> prog A) m t r,
  vrun sc (range_loop elsz off n acc k) m t = Ok r ->
  exists es m1 t1, length es = n /\ Forall (fun e => length e = elsz) es /\
                   vrun sc (k (rev acc ++ es)) m1 t1 = Ok r.
Proof.
  induction n as [|n IH]; intros off acc k m t r H; cbn [range_loop vrun] in H.
  - exists [], m, t. rewrite app_nil_r. repeat split; [constructor|exact H].
  - apply rd_bytes_inv in H as (e & Le & H). cbn [rev app] in H.
    destruct (IH _ _ _ _ _ _ H) as (es & m1 & t1 & L & F & R).
    exists (e :: es), m1, t1. split; [cbn; lia|]. split; [constructor; assumption|].
    cbn [rev] in R. rewrite <- app_assoc in R. exact R.
Qed.

Lemma concat_unit_length (es : list (list Z)) : Forall (fun e => length e = 1%nat) es -> length (concat es) = length es.
Proof. induction 1 as [|e tl He _ IH]; cbn; [reflexivity|]. rewrite app_length, He, IH. reflexivity. Qed.

Lemma set_last0_length l : length (set_last0 l) = length l.
Proof. induction l as [|x [|y tl] IH]; cbn in *; try reflexivity. rewrite IH. reflexivity. Qed.

Lemma set_last0_last l : l <> [] -> nth (length l - 1) (set_last0 l) 1 = 0.
Proof.
  induction l as [|x [|y tl] IH]; intros Hn; [congruence|reflexivity|].
  cbn [set_last0 length]. specialize (IH ltac:(discriminate)).
  cbn [length] in IH. replace (S (S (length tl)) - 1)%nat with (S (S (length tl) - 1)) by lia. exact IH.
Qed.

Lemma set_last0_cstrlen l : l <> [] -> exists k, cstrlen (set_last0 l) = Some k /\ (k < length l)%nat.
Proof.
  induction l as [|x [|y tl] IH]; intros Hn; [congruence| |].
  - exists 0%nat. split; [reflexivity|cbn; lia].
  - destruct (IH ltac:(discriminate)) as (k & Hk & Lk).
    change (set_last0 (x :: y :: tl)) with (x :: set_last0 (y :: tl)).
    cbn [cstrlen]. destruct (x =? 0).
    + exists 0%nat. split; [reflexivity|cbn; lia].
    + rewrite Hk. exists (S k). split; [reflexivity|cbn [length] in *; lia].
Qed.

(* ---------- C09: strings ---------- *)
Theorem string_unique_terminated sc w off m t buf m' t' :
  vrun sc (cv_string_unique w off) m t = Ok (buf, m', t') ->
  exists n, length buf = S n /\ (off + S n <= w)%nat /\
            nth n buf 1 = 0 /\ exists k, cstrlen buf = Some k /\ (k <= n)%nat.
Proof.
  unfold cv_string_unique. cbn [vrun]. intros H.
  apply strlen_inv in H as (len & H). cbn [vrun] in H.
  destruct (Nat.leb_spec (off + S len) w) as [Hw|]; [|discriminate].
  apply range_loop_inv in H as (es & m1 & t1 & L & F & H). cbn [rev app vrun] in H.
  inversion H; subst. exists len.
  pose proof (concat_unit_length es F) as Lc. rewrite L in Lc.
  assert (Hne : concat es <> []) by (intros E; rewrite E in Lc; discriminate).
  rewrite set_last0_length, Lc. split; [reflexivity|]. split; [exact Hw|]. split.
  - pose proof (set_last0_last (concat es) Hne) as X. rewrite Lc in X.
    replace (S len - 1)%nat with len in X by lia. exact X.
  - destruct (set_last0_cstrlen (concat es) Hne) as (k & Hk & Lk). exists k. split; [exact Hk|lia].
Qed.

Theorem string_std_length sc w off m t s m' t' :
  vrun sc (cv_string_std w off) m t = Ok (s, m', t') ->
  exists len, length s = len /\ (off + S len <= w)%nat.
Proof.
  unfold cv_string_std. cbn [vrun]. intros H.
  apply strlen_inv in H as (len & H). cbn [vrun] in H.
  destruct (Nat.leb_spec (off + S len) w) as [Hw|]; [|discriminate].
  cbn [vrun] in H. apply rd_bytes_inv in H as (bs & L & H). cbn [rev app vrun] in H. inversion H; subst.
  exists (length s). split; [reflexivity|exact Hw].
Qed.

(* ranges: exactly count elements of elsz bytes, all inside the checked range *)
Theorem range_shape sc w elsz off count m t es m' t' :
  vrun sc (cv_range w elsz off count) m t = Ok (es, m', t') ->
  length es = count /\ Forall (fun e => length e = elsz) es /\ (off + count * elsz <= w)%nat /\ count <> 0%nat.
Proof.
  unfold cv_range. cbn [vrun]. destruct (Nat.eqb_spec count 0); [discriminate|]. cbn [negb vrun].
  destruct (Nat.leb_spec (off + count * elsz) w) as [Hw|]; [|discriminate]. intros H.
  apply range_loop_inv in H as (es' & m1 & t1 & L & F & H). cbn [rev app vrun] in H. inversion H; subst.
  repeat split; assumption.
Qed.

Theorem cmda_shape sc w off num m t bs m' t' :
  vrun sc (cmda w off num) m t = Ok (bs, m', t') -> length bs = num /\ (off + num <= w)%nat.
Proof.
  unfold cmda. cbn [vrun]. destruct (Nat.eqb_spec num 0); [discriminate|]. cbn [negb vrun].
  destruct (Nat.leb_spec (off + num) w) as [Hw|]; [|discriminate]. cbn [vrun]. intros H.
  apply rd_bytes_inv in H as (bs' & L & H). cbn [rev app vrun] in H. inversion H; subst. split; [first [assumption|reflexivity]|assumption].
Qed.

(* the double-fetch variant is NOT safe: an adversary that removes the terminator between the two
   scans obtains an unterminated buffer longer than the checked range *)
Example double_fetch_refuted :
  let m0 := [72; 105; 0; 65; 66; 67; 0; 0] in                    (* "Hi\0ABC\0\0" *)
  let sc := fun i : nat => match i with 4%nat => [(2%nat, 33)] | _ => [] end in   (* after the range check: "Hi!ABC" *)
  match vrun sc (cv_string_double_fetch 8 0) m0 0 with
  | Ok (buf, _, _) => length buf = 7%nat /\ cstrlen buf = Some 6%nat
  | _ => False
  end /\
  match vrun sc (cv_string_unique 8 0) m0 0 with
  | Ok (buf, _, _) => length buf = 3%nat /\ cstrlen buf = Some 2%nat
  | _ => False
  end.
Proof. vm_compute. repeat split. Qed.

(* the address handed to the verifier by copy_and_verify_buffer_address was range-checked: it is null, or the whole
   buffer [v, v + size) lies in sandbox memory - whatever the adversary does at the interleave points (including the
   one inside the range check) *)
Lemma buffer_address_checked sc total size cell m t v m' t' :
  vrun sc (cv_buffer_address total size cell) m t = Ok (v, m', t') ->
  v = 0 \/ v + size <= total.
Proof.
  unfold cv_buffer_address. intros H. cbn [vrun] in H.
  destruct (negb (size =? 0)); [|discriminate]. cbn [vrun] in H.
  apply rd_bytes_inv in H as (bs & L & H). cbn [rev app] in H.
  destruct (le4 bs =? 0) eqn:E.
  - cbn [vrun] in H. inversion H. left. reflexivity.
  - cbn [vrun] in H. destruct (le4 bs + size <=? total) eqn:C; [|discriminate].
    cbn [vrun] in H. inversion H; subst. right. apply Z.leb_le. exact C.
Qed.

(* a variant that hands over a second fetch is refuted: the cell is rewritten at the interleave point inside the check *)
Lemma buffer_address_refetch_refuted :
  let m0 := [16; 0; 0; 0] in
  let sc := fun i : nat => match i with 1%nat => [(0%nat, 250)] | _ => [] end in
  match vrun sc (cv_buffer_address_refetch 256 64 0) m0 0 with
  | Ok (v, _, _) => v = 250 /\ ~ (v = 0 \/ v + 64 <= 256)
  | _ => False
  end.
Proof. vm_compute. split; [reflexivity|]. intros [H|H]; [discriminate | apply H; reflexivity]. Qed.

Lemma usp_cell_checked sc total size cell m t v m' t' :
  vrun sc (usp_cell total size cell) m t = Ok (v, m', t') -> v = 0 \/ v + size <= total.
Proof.
  unfold usp_cell. intros H.
  apply rd_bytes_inv in H as (bs & L & H). cbn [rev app] in H.
  destruct (le4 bs =? 0) eqn:E.
  - cbn [vrun] in H. inversion H. left. reflexivity.
  - cbn [vrun] in H. destruct (le4 bs + size <=? total) eqn:C; [|discriminate].
    cbn [vrun] in H. inversion H; subst. right. apply Z.leb_le. exact C.
Qed.

(* ---------- routines on a pointer cell of sandbox memory ---------- *)
Lemma vrun_pmap {A B} (f : A -> B) sc (p : prog A) : forall m t,
  vrun sc (pmap f p) m t = match vrun sc p m t with Ok (a, m', t') => Ok (f a, m', t') | Abort => Abort | Diverge => Diverge | Fault => Fault end.
Proof.
  induction p as [a|k IH|off k IH|b k IH|]; intros m t; cbn [pmap vrun].
  - reflexivity.
  - apply IH.
  - destruct (nth_error m off); [apply IH|reflexivity].
  - destruct b; [apply IH|reflexivity].
  - reflexivity.
Qed.

Lemma with_cell_inv {A} sc woff cell (knull : prog A) k m t r :
  vrun sc (with_cell woff cell knull k) m t = Ok r ->
  vrun sc knull m t = Ok r \/ exists o, vrun sc (k o) m t = Ok r.
Proof.
  unfold with_cell. intros H. apply rd_bytes_inv in H. destruct H as (bs & _ & H).
  cbn [rev app] in H.
  destruct (le4 bs =? 0); [left; exact H|].
  destruct (woff (le4 bs)) as [o|]; [right; exists o; exact H|discriminate].
Qed.

Lemma string_unique_cell_terminated sc woff w cell m t buf m' t' :
  vrun sc (cv_string_unique_cell woff w cell) m t = Ok (Some buf, m', t') ->
  exists off n, length buf = S n /\ (off + S n <= w)%nat /\
            nth n buf 1 = 0 /\ exists k, cstrlen buf = Some k /\ (k <= n)%nat.
Proof.
  intros H. apply with_cell_inv in H. destruct H as [H|(o & H)].
  - cbn [vrun] in H. discriminate.
  - rewrite vrun_pmap in H.
    destruct (vrun sc (cv_string_unique w o) m t) as [[[b mm] tt]| | |] eqn:E; try discriminate.
    inversion H; subst. exists o. exact (string_unique_terminated sc w o m t buf m' t' E).
Qed.

Lemma string_std_cell_length sc woff w cell m t s m' t' :
  vrun sc (cv_string_std_cell woff w cell) m t = Ok (s, m', t') ->
  s = [] \/ exists off len, length s = len /\ (off + S len <= w)%nat.
Proof.
  intros H. apply with_cell_inv in H. destruct H as [H|(o & H)].
  - cbn [vrun] in H. inversion H. left. reflexivity.
  - right. exists o. exact (string_std_length sc w o m t s m' t' H).
Qed.

Lemma range_cell_shape sc woff w elsz cell count m t es m' t' :
  vrun sc (cv_range_cell woff w elsz cell count) m t = Ok (Some es, m', t') ->
  exists off, length es = count /\ Forall (fun e => length e = elsz) es /\ (off + count * elsz <= w)%nat /\ count <> 0%nat.
Proof.
  intros H. apply with_cell_inv in H. destruct H as [H|(o & H)].
  - cbn [vrun] in H. destruct (negb (Nat.eqb count 0)); cbn [vrun] in H; discriminate.
  - rewrite vrun_pmap in H.
    destruct (vrun sc (cv_range w elsz o count) m t) as [[[b mm] tt]| | |] eqn:E; try discriminate.
    inversion H; subst. exists o. exact (range_shape sc w elsz o count m t es m' t' E).
Qed.

(* D18 before the fix: the sandbox nulls the cell after the string was measured *)
Lemma string_unique_cell_refetch_refuted :
  let woff := fun r : Z => if (248 <=? r) && (r <? 256) then Some (Z.to_nat (r - 248)) else None in
  let m0 := [252; 0; 0; 0; 65; 66; 0; 88] in
  let sc := fun i : nat => match i with 2%nat => [(0%nat, 0)] | _ => [] end in
  vrun sc (cv_string_unique_cell_refetch woff 256 8 0) m0 0 = Fault /\
  (exists r, vrun sc (cv_string_unique_cell woff 8 0) m0 0 = Ok r /\ fst (fst r) = Some [65; 66; 0]).
Proof. split; [vm_compute; reflexivity|]. eexists. split; vm_compute; reflexivity. Qed.

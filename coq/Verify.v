(* Verify.v — model of the copy_and_verify family and copy_memory_or_deny_access against an
   ADVERSARIAL sandbox memory: programs in a small read-trace language whose only effects are
   reads of sandbox memory, dynamic checks, and interleave points (the RLBOX_VERIF_INTERLEAVE
   sites of the guarded hook) at which the adversary rewrites memory arbitrarily. *)
From RLBoxV Require Export Machine.
Local Open Scope Z_scope.

(* a window of sandbox memory as a list of bytes; offsets are positions in the window *)
Definition smem := list Z.
(* the adversary: at interleave point number i, overwrite the listed (offset, byte) cells *)
Definition sched := nat -> list (nat * Z).

Fixpoint set_nth (l : smem) (i : nat) (b : Z) : smem :=
  match l, i with
  | [], _ => []
  | _ :: tl, O => b :: tl
  | x :: tl, S i' => x :: set_nth tl i' b
  end.
Fixpoint apply_muts (mu : list (nat * Z)) (m : smem) : smem :=
  match mu with [] => m | (i, b) :: tl => apply_muts tl (set_nth m i b) end.

Inductive prog (A : Type) : Type :=
| Ret (a : A)                        (* hand the value over *)
| Tick (k : prog A)                  (* interleave point: the adversary moves *)
| Rd (off : nat) (k : Z -> prog A)   (* read one byte of sandbox memory; outside the window: fault *)
| Chk (b : bool) (k : prog A)        (* dynamic_check *)
| Flt.                               (* ran out of the window / fuel *)
Arguments Ret {A} a. Arguments Tick {A} k. Arguments Rd {A} off k. Arguments Chk {A} b k. Arguments Flt {A}.

(* result: value, memory and interleave-point counter afterwards *)
Fixpoint vrun {A} (sc : sched) (p : prog A) (m : smem) (t : nat) : res (A * smem * nat) :=
  match p with
  | Ret a => Ok (a, m, t)
  | Tick k => vrun sc k (apply_muts (sc t) m) (S t)
  | Rd off k => match nth_error m off with Some b => vrun sc (k b) m t | None => Fault end
  | Chk b k => if b then vrun sc k m t else Abort
  | Flt => Fault
  end.

(* ---------- building blocks ---------- *)
(* read n consecutive bytes starting at off (no interleave point in between: one RLBox-level read) *)
Fixpoint rd_bytes {A} (off : nat) (n : nat) (acc : list Z) (k : list Z -> prog A) : prog A :=
  match n with
  | O => k (rev acc)
  | S n' => Rd off (fun b => rd_bytes (S off) n' (b :: acc) k)
  end.

(* std::strlen(start): scan to the first NUL; [fuel] bounds the scan by the window *)
Fixpoint strlen_prog {A} (fuel : nat) (off : nat) (len : nat) (k : nat -> prog A) : prog A :=
  match fuel with
  | O => Flt
  | S f => Rd off (fun b => if b =? 0 then k len else strlen_prog f (S off) (S len) k)
  end.

(* the element loop of copy_and_verify_range_helper: an interleave point before each element *)
Fixpoint range_loop {A} (elsz : nat) (off : nat) (n : nat) (acc : list (list Z)) (k : list (list Z) -> prog A) : prog A :=
  match n with
  | O => k (rev acc)
  | S n' => Tick (rd_bytes off elsz [] (fun e => range_loop elsz (off + elsz) n' (e :: acc) k))
  end.

Fixpoint set_last0 (l : list Z) : list Z :=
  match l with [] => [] | [_] => [0] | x :: tl => x :: set_last0 tl end.

(* ---------- the routines (window size w = what the range check allows) ---------- *)
(* copy_and_verify on a value of el bytes at off:  cv.val.read ; read ; cv.val.verifier *)
Definition cv_value (elsz off : nat) : prog (list Z) :=
  Tick (rd_bytes off elsz [] (fun e => Tick (Ret e))).

(* copy_and_verify on a tainted pointer (held in application memory) to an el-byte object:
   cv.ptr.fetch ; cv.ptr.read ; read ; cv.ptr.verifier *)
Definition cv_ptr (elsz off : nat) : prog (list Z) :=
  Tick (Tick (rd_bytes off elsz [] (fun e => Tick (Ret e)))).

(* copy_and_verify_range(count): range.fetch ; range check ; per element (range.el ; read) ; range.verifier *)
Definition cv_range (w elsz off count : nat) : prog (list (list Z)) :=
  Chk (negb (Nat.eqb count 0))
    (Tick (Chk (Nat.leb (off + count * elsz) w)
      (range_loop elsz off count [] (fun es => Tick (Ret es))))).

(* copy_and_verify_string, unique_ptr<char[]> verifier:
   str.fetch ; str.strlen ; strlen ; str.measured ; range.fetch ; range check (len+1) ;
   per byte (range.el ; read) ; forced terminator ; str.verifier *)
Definition cv_string_unique (w off : nat) : prog (list Z) :=
  Tick (Tick (strlen_prog (w - off) off 0 (fun len =>
    Tick (Tick (Chk (Nat.leb (off + S len) w)
      (range_loop 1 off (S len) [] (fun es => Tick (Ret (set_last0 (concat es))))))))))
  .

(* std::string verifier: str.fetch ; str.strlen ; strlen ; str.measured ; range.fetch ; range check ;
   str.copy ; one bulk read of len bytes ; str.verifier.  The std::string carries its own length. *)
Definition cv_string_std (w off : nat) : prog (list Z) :=
  Tick (Tick (strlen_prog (w - off) off 0 (fun len =>
    Tick (Tick (Chk (Nat.leb (off + S len) w)
      (Tick (rd_bytes off len [] (fun bs => Tick (Ret bs))))))))).

(* copy_memory_or_deny_access (copy path): cmda.fetch ; range.fetch ; range check ; cmda.copy ;
   one bulk read ; cmda.done *)
Definition cmda (w off num : nat) : prog (list Z) :=
  Tick (Chk (negb (Nat.eqb num 0)) (Tick (Chk (Nat.leb (off + num) w)
    (Tick (rd_bytes off num [] (fun bs => Tick (Ret bs))))))).

(* C string length of a byte list (None: no terminator inside) *)
Fixpoint cstrlen (l : list Z) : option nat :=
  match l with
  | [] => None
  | b :: tl => if b =? 0 then Some O else match cstrlen tl with Some n => Some (S n) | None => None end
  end.

(* a variant that sizes the buffer from a SECOND strlen (used to show that the theorem below is not
   vacuous: it is false of this program) *)
Definition cv_string_double_fetch (w off : nat) : prog (list Z) :=
  Tick (Tick (strlen_prog (w - off) off 0 (fun len =>
    Tick (Tick (Chk (Nat.leb (off + S len) w)
      (Tick (strlen_prog (w - off) off 0 (fun len2 =>
         range_loop 1 off (S len2) [] (fun es => Tick (Ret (concat es)))))))))))
  .

(* ---------- address verifiers on a pointer CELL that lies in sandbox memory (a tainted_volatile<T*>) ----------
   the cell holds the 4-byte little-endian guest representation at window offset [cell]; [total] is the size of sandbox
   memory, a representation r designates [r, r + size) of it *)
Definition le4 (bs : list Z) : Z := fold_right (fun b acc => b + 256 * acc) 0 bs.
(* copy_and_verify_buffer_address(size):  count check ; range.fetch ; ONE fetch of the cell ; null passes through ;
   range check of [r, r+size) - the back end is consulted: an interleave point - ; the verifier gets that same r *)
Definition cv_buffer_address (total size : Z) (cell : nat) : prog Z :=
  Chk (negb (size =? 0))
    (Tick (rd_bytes cell 4 [] (fun bs =>
       let r := le4 bs in
       if r =? 0 then Ret 0 else Chk (r + size <=? total) (Tick (Ret r))))).
(* copy_and_verify_address: one fetch, nothing else *)
Definition cv_address (cell : nat) : prog Z := rd_bytes cell 4 [] (fun bs => Ret (le4 bs)).
(* the refuted variant: range-checks one fetch and hands over a second one *)
Definition cv_buffer_address_refetch (total size : Z) (cell : nat) : prog Z :=
  Chk (negb (size =? 0))
    (Tick (rd_bytes cell 4 [] (fun bs =>
       let r := le4 bs in
       if r =? 0 then cv_address cell else Chk (r + size <=? total) (Tick (cv_address cell))))).

(* copy_and_verify on a pointer CELL that lies in sandbox memory, to an el-byte object: cv.ptr.fetch ; ONE fetch of the cell ;
   null: the verifier gets nullptr ; cv.ptr.read ; read of the object the FETCHED value designates ; cv.ptr.verifier.
   [woff r]: window offset designated by representation r (None: outside the window) *)
Definition cv_ptr_cell (woff : Z -> option nat) (elsz cell : nat) : prog (option (list Z)) :=
  Tick (rd_bytes cell 4 [] (fun bs =>
    let r := le4 bs in
    if r =? 0 then Ret None else
    match woff r with
    | None => Flt
    | Some off => Tick (rd_bytes off elsz [] (fun e => Tick (Ret (Some e))))
    end)).

(* unverified_safe_pointer_because(count) on a pointer cell that lies in sandbox memory (char elements: size = count):
   ONE fetch ; null passes through ; range check (back end consulted: an interleave point) ; that same value is returned *)
Definition usp_cell (total size : Z) (cell : nat) : prog Z :=
  rd_bytes cell 4 [] (fun bs =>
    let r := le4 bs in
    if r =? 0 then Ret 0 else Chk (r + size <=? total) (Tick (Ret r))).

(* ---------- string / range routines on a pointer CELL of sandbox memory (tainted_volatile<T*>) ---------- *)
Fixpoint pmap {A B} (f : A -> B) (p : prog A) : prog B :=
  match p with
  | Ret a => Ret (f a)
  | Tick k => Tick (pmap f k)
  | Rd off k => Rd off (fun b => pmap f (k b))
  | Chk b k => Chk b (pmap f k)
  | Flt => Flt
  end.

(* ONE fetch of the cell; null -> [knull]; a representation outside the window is not observable (fault) *)
Definition with_cell {A} (woff : Z -> option nat) (cell : nat) (knull : prog A) (k : nat -> prog A) : prog A :=
  rd_bytes cell 4 [] (fun bs =>
    let r := le4 bs in
    if r =? 0 then knull else match woff r with None => Flt | Some o => k o end).

(* after the fix: commit: the pointer is copied out of sandbox memory once, then the routine for a pointer held in
   application memory runs on that copy *)
Definition cv_string_std_cell (woff : Z -> option nat) (w cell : nat) : prog (list Z) :=
  with_cell woff cell (Tick (Ret [])) (fun o => cv_string_std w o).
Definition cv_string_unique_cell (woff : Z -> option nat) (w cell : nat) : prog (option (list Z)) :=
  with_cell woff cell (Tick (Ret None)) (fun o => pmap Some (cv_string_unique w o)).
Definition cv_range_cell (woff : Z -> option nat) (w elsz cell count : nat) : prog (option (list (list Z))) :=
  with_cell woff cell (Chk (negb (Nat.eqb count 0)) (Tick (Tick (Ret None)))) (fun o => pmap Some (cv_range w elsz o count)).

(* before the fix (D18): the unique_ptr flavour fetched the cell again for the range check and once more per element;
   a null at the second fetch made the helper return a null buffer through which the terminator was then written *)
Fixpoint cell_loop {A} (woff : Z -> option nat) (total : Z) (cell : nat) (i n : nat) (acc : list Z) (k : list Z -> prog A) : prog A :=
  match n with
  | O => k (rev acc)
  | S n' => Tick (rd_bytes cell 4 [] (fun bs =>
      let r := le4 bs in
      Chk (negb (r =? 0)) (Chk (r + Z.of_nat i <? total)
        (match woff (r + Z.of_nat i) with
         | None => Flt
         | Some o => Rd o (fun b => cell_loop woff total cell (S i) n' (b :: acc) k)
         end))))
  end.
Definition cv_string_unique_cell_refetch (woff : Z -> option nat) (total : Z) (w cell : nat) : prog (option (list Z)) :=
  let after_len (len : nat) : prog (option (list Z)) :=
    Tick (Tick (rd_bytes cell 4 [] (fun bs2 =>
      let r2 := le4 bs2 in
      if r2 =? 0 then Flt      (* the terminator is written through the null buffer the helper returned *)
      else Chk (r2 + Z.of_nat (S len) <=? total)
             (cell_loop woff total cell 0 (S len) [] (fun bs => Tick (Ret (Some (set_last0 bs)))))))) in
  Tick (with_cell woff cell (Ret None) (fun o1 => Tick (strlen_prog (w - o1) o1 0 after_len))).

(* copy_and_verify on a pointer-to-STRUCT cell of sandbox memory: cv.struct.read ; ONE fetch of the cell (a read
   notification: the adversary moves right before it, and would before any further fetch) ; the struct image the fetched
   value designates is read ; cv.struct.verifier.  A null cell is dereferenced (the code has no null test here): fault *)
Definition cv_struct_ptr_cell (woff : Z -> option nat) (elsz cell : nat) : prog (list Z) :=
  Tick (Tick (rd_bytes cell 4 [] (fun bs =>
    let r := le4 bs in
    if r =? 0 then Flt else
    match woff r with
    | None => Flt
    | Some o => rd_bytes o elsz [] (fun e => Tick (Ret e))
    end))).

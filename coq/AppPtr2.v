(* AppPtr2.v — the owner layer of app_pointer over SEVERAL sandboxes: every sandbox has a token
   table of its own (tokens are unique per sandbox only: each table starts issuing at 1), an owner
   remembers the sandbox it belongs to, and a move-assignment may overwrite an owner of one sandbox
   by an owner of another one that holds the same numeric token (rlbox_policy_types.hpp,
   app_pointer::operator=(app_pointer&&): the self-assignment guard is object identity).
   Definitions only. *)
From RLBoxV Require Export AppPtr.
Local Open Scope Z_scope.

Record aworld2 := { maps2 : list amap; owners2 : list (option (nat * Z)) }.

Definition map_at (w : aworld2) (s : nat) : amap := nth s (maps2 w) amap_init.
Definition owner2_at (w : aworld2) (k : nat) : option (nat * Z) := nth k (owners2 w) None.

Definition unregister_owner2 (w : aworld2) (k : nat) : res aworld2 :=
  match owner2_at w k with
  | None => Ok w
  | Some (s, i) =>
    m <- remove_app_ptr i (map_at w s) ;;
    Ok {| maps2 := set_nth (maps2 w) s m; owners2 := set_nth (owners2 w) k None |}
  end.

Inductive oop2 :=
| OGet2 (k s : nat) (ptr : Z)     (* slot k = sandbox_s.get_app_pointer(ptr) *)
| OMove2 (k j : nat)              (* slot k = std::move(slot j), whatever sandboxes they belong to *)
| ODestroy2 (k : nat).

Definition ostep2 (W max : Z) (w : aworld2) (o : oop2) : res aworld2 :=
  match o with
  | OGet2 k s ptr =>
    r <- get_app_pointer_idx W max ptr (map_at w s) ;;
    let '(i, m) := r in
    let w1 := {| maps2 := set_nth (maps2 w) s m; owners2 := owners2 w |} in
    w2 <- unregister_owner2 w1 k ;;
    Ok {| maps2 := maps2 w2; owners2 := set_nth (owners2 w2) k (Some (s, i)) |}
  | OMove2 k j =>
    if Nat.eqb k j then Ok w else
    w2 <- unregister_owner2 w k ;;
    let tok := owner2_at w2 j in
    Ok {| maps2 := maps2 w2; owners2 := set_nth (set_nth (owners2 w2) k tok) j None |}
  | ODestroy2 k => unregister_owner2 w k
  end.

Fixpoint orun2 (W max : Z) (w : aworld2) (ops : list oop2) : res aworld2 :=
  match ops with
  | [] => Ok w
  | o :: tl => w' <- ostep2 W max w o ;; orun2 W max w' tl
  end.

(* what sandbox s sees of the world: its own table, and the owners that belong to it *)
Definition proj_owner (s : nat) (o : option (nat * Z)) : option Z :=
  match o with Some (s', i) => if Nat.eqb s' s then Some i else None | None => None end.
Definition proj (s : nat) (w : aworld2) : aworld :=
  {| amapw := map_at w s; owners := map (proj_owner s) (owners2 w) |}.
Definition proj_op (s : nat) (o : oop2) : oop :=
  match o with
  | OGet2 k s' ptr => if Nat.eqb s' s then OGet k ptr else ODestroy k
  | OMove2 k j => OMove k j
  | ODestroy2 k => ODestroy k
  end.

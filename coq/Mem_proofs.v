(* Mem_proofs.v — encode/decode round trip, frame and footprint of stores, loads depend on
   exactly the bytes of the sandbox type *)
From RLBoxV Require Import Mem Conv_proofs.
Local Open Scope Z_scope.

Lemma length_bytes_le n x : length (bytes_le n x) = n.
Proof. revert x; induction n as [|n IH]; intros x; cbn; [reflexivity|rewrite IH; reflexivity]. Qed.

Lemma le_val_bytes_le n : forall x, le_val (bytes_le n x) = x mod 256 ^ Z.of_nat n.
Proof.
  induction n as [|n IH]; intros x.
  - cbn. rewrite Z.mod_1_r. reflexivity.
  - cbn [bytes_le le_val]. rewrite IH. rewrite Nat2Z.inj_succ, Z.pow_succ_r by lia.
    rewrite Z.rem_mul_r by lia. reflexivity.
Qed.

Lemma write_other bs : forall m a x, x < a \/ a + Z.of_nat (length bs) <= x -> write m a bs x = m x.
Proof.
  induction bs as [|b tl IH]; intros m a x H; cbn [write]; [reflexivity|].
  rewrite IH by (cbn [length] in H; lia).
  destruct (Z.eqb_spec x a); [cbn [length] in H; lia|reflexivity].
Qed.

Lemma read_write_same bs : forall m a, read (write m a bs) a (length bs) = bs.
Proof.
  induction bs as [|b tl IH]; intros m a; cbn [write read length]; [reflexivity|].
  rewrite IH. f_equal. rewrite write_other by lia. rewrite Z.eqb_refl. reflexivity.
Qed.

Lemma read_ext n : forall m1 m2 a, (forall y, a <= y < a + Z.of_nat n -> m1 y = m2 y) -> read m1 a n = read m2 a n.
Proof.
  induction n as [|n IH]; intros m1 m2 a H; cbn [read]; [reflexivity|].
  rewrite (H a) by lia. f_equal. apply IH. intros y Hy. apply H. lia.
Qed.

Lemma pow256_bits k : 256 ^ Z.of_nat (nbytes k) = 2 ^ bits k.
Proof. destruct k; reflexivity. Qed.

Lemma nbytes_size k : Z.of_nat (nbytes k) = size k.
Proof. destruct k; reflexivity. Qed.

Lemma decode_encode k v : in_range k v = true -> decode k (encode k v) = v.
Proof.
  intros H. apply in_range_bounds in H. unfold decode, encode.
  rewrite le_val_bytes_le, pow256_bits, Z.mod_mod by (destruct k; vm_compute; congruence).
  destruct k; cbv [lo hi signed bits size wrap] in *; cbn in *;
    try (rewrite Z.mod_small by lia; reflexivity);
    try (rewrite Z.mod_mod by lia; rewrite Z.mod_small by lia; reflexivity);
    (rewrite Zplus_mod_idemp_l; rewrite Z.mod_small by lia; lia).
Qed.

Lemma length_encode k v : length (encode k v) = nbytes k.
Proof. unfold encode. apply length_bytes_le. Qed.

(* ---------- stores ---------- *)
Lemma store_int_spec a k addr v m m' :
  abi_ok a = true -> in_range k v = true ->
  store_int a k addr v m = Some (Ok m') ->
  exists sk, sbx_equiv a k = Some sk /\ in_range sk v = true /\
    (forall y, y < addr \/ addr + size sk <= y -> m' y = m y) /\
    read m' addr (nbytes sk) = encode sk v.
Proof.
  intros Ha Hr H. unfold store_int in H. destruct (sbx_equiv a k) as [sk|] eqn:He; [|discriminate].
  exists sk. split; [reflexivity|].
  rewrite (conv_correct sk k v Hr (proj1 (sbx_equiv_no_n2 a k sk Ha He))) in H.
  unfold conv_spec in H. destruct (in_range sk v) eqn:Hs; cbn [bind] in H; [|discriminate].
  inversion H; subst m'. split; [reflexivity|]. split.
  - intros y Hy. apply write_other. rewrite length_encode, nbytes_size. exact Hy.
  - rewrite <- (length_encode sk v). apply read_write_same.
Qed.

Lemma store_int_aborts_iff a k addr v m sk :
  abi_ok a = true -> in_range k v = true -> sbx_equiv a k = Some sk ->
  (store_int a k addr v m = Some Abort <-> in_range sk v = false).
Proof.
  intros Ha Hr He. unfold store_int. rewrite He.
  rewrite (conv_correct sk k v Hr (proj1 (sbx_equiv_no_n2 a k sk Ha He))).
  unfold conv_spec. destruct (in_range sk v); cbn [bind]; split; congruence.
Qed.

(* ---------- loads ---------- *)
Lemma load_int_local a k addr m1 m2 sk :
  sbx_equiv a k = Some sk ->
  (forall y, addr <= y < addr + size sk -> m1 y = m2 y) -> load_int a k addr m1 = load_int a k addr m2.
Proof.
  intros He H. unfold load_int. rewrite He. rewrite (read_ext (nbytes sk) m1 m2 addr); [reflexivity|].
  intros y Hy. apply H. rewrite nbytes_size in Hy. exact Hy.
Qed.

Lemma load_after_store a k addr v m m' :
  abi_ok a = true -> in_range k v = true -> store_int a k addr v m = Some (Ok m') ->
  load_int a k addr m' = Some (Ok v).
Proof.
  intros Ha Hr H. destruct (store_int_spec a k addr v m m' Ha Hr H) as (sk & He & Hs & _ & Hb).
  unfold load_int. rewrite He, Hb, (decode_encode sk v Hs).
  rewrite (conv_correct k sk v Hs (proj2 (sbx_equiv_no_n2 a k sk Ha He))).
  unfold conv_spec. rewrite Hr. reflexivity.
Qed.

(* a load returns the value the bytes denote in the sandbox type, or aborts when the
   application type cannot hold it *)
Lemma load_int_decodes a k addr m sk :
  abi_ok a = true -> sbx_equiv a k = Some sk -> sk <> IBool ->
  load_int a k addr m = Some (conv_spec k (decode sk (read m addr (nbytes sk)))).
Proof.
  intros Ha He Hb. unfold load_int. rewrite He. f_equal.
  apply conv_correct; [|exact (proj2 (sbx_equiv_no_n2 a k sk Ha He))].
  unfold decode. destruct sk; try congruence; apply wrap_in_range.
Qed.

(* ---------- pointer and bit-pattern cells ---------- *)
Lemma store_ptr_spec w s addr p m :
  0 <= w ->
  (forall y, y < addr \/ addr + w <= y -> store_ptr w s addr p m y = m y) /\
  read (store_ptr w s addr p m) addr (Z.to_nat w) = bytes_le (Z.to_nat w) (sandbox_ptr s p).
Proof.
  intros Hw. unfold store_ptr. split.
  - intros y Hy. apply write_other. rewrite length_bytes_le, Z2Nat.id by lia. exact Hy.
  - rewrite <- (length_bytes_le (Z.to_nat w) (sandbox_ptr s p)) at 2. apply read_write_same.
Qed.

Lemma load_store_ptr w s addr p m :
  0 <= w -> 0 <= sandbox_ptr s p < 256 ^ w ->
  load_ptr w s addr (store_ptr w s addr p m) = unsandbox s (sandbox_ptr s p).
Proof.
  intros Hw Hr. unfold load_ptr. rewrite (proj2 (store_ptr_spec w s addr p m Hw)).
  rewrite le_val_bytes_le, Z2Nat.id by lia. rewrite Z.mod_small by lia. reflexivity.
Qed.

Lemma store_bits_spec w addr v m :
  0 <= w ->
  (forall y, y < addr \/ addr + w <= y -> store_bits w addr v m y = m y) /\
  (0 <= v < 256 ^ w -> load_bits w addr (store_bits w addr v m) = v).
Proof.
  intros Hw. unfold store_bits, load_bits. split.
  - intros y Hy. apply write_other. rewrite length_bytes_le, Z2Nat.id by lia. exact Hy.
  - intros Hv. rewrite <- (length_bytes_le (Z.to_nat w) v) at 2. rewrite read_write_same.
    rewrite le_val_bytes_le, Z2Nat.id by lia. apply Z.mod_small. exact Hv.
Qed.

(* ---------- D8: copy_and_verify on a pointer / copy_and_verify_range before the fix ---------- *)
(* the unfixed read uses the application width: under the LP32-like ABI a long cell holding
   0x11223344 followed by 0x55667788 is read as 0x5566778811223344 *)
Lemma cv_ptr_unfixed_refuted :
  let m := write (fun _ => 0) 64 [0x44; 0x33; 0x22; 0x11; 0x88; 0x77; 0x66; 0x55] in
  load_cv_ptr false abi_lp32 ILong 64 m = Some (Ok 0x5566778811223344) /\
  load_int abi_lp32 ILong 64 m = Some (Ok 0x11223344).
Proof. vm_compute. split; reflexivity. Qed.

(* under a wider guest ABI the unfixed range copy touches bytes beyond the checked range *)
Lemma range_unfixed_overreads :
  range_footprint false abi_wide IInt 4 = Some 28 /\ range_checked false abi_wide IInt 4 = Some 16 /\
  range_footprint true abi_wide IInt 4 = Some 32 /\ range_checked true abi_wide IInt 4 = Some 32.
Proof. vm_compute. repeat split. Qed.

Lemma range_fixed_footprint_is_checked a k n sk :
  sbx_equiv a k = Some sk -> 0 < n -> range_footprint true a k n = range_checked true a k n.
Proof.
  intros He Hn. unfold range_footprint, range_checked. rewrite He.
  destruct (Z.eqb_spec n 0); [lia|]. f_equal. lia.
Qed.

Lemma load_cv_ptr_fixed a k addr m : load_cv_ptr true a k addr m = load_int a k addr m.
Proof. reflexivity. Qed.

(* Properties_C13.v — C13: callback registrations have exactly one owner and end
   when that owner does.  PARTIAL: the registry/lifecycle part is proved for all
   histories (C13_registry_all_histories); the owner/key/slot agreement is stated
   here on computed histories only and otherwise decided by the exhaustive
   correspondence of histories (see DESIGN.md); the unbounded induction over owner
   histories is not proved. *)
From RLBoxV Require Import World World_proofs.
Local Open Scope Z_scope.

Theorem C13_registry_all_histories : forall ops nsb nslots nown w xs,
  wrun code_move_assign_releases (world_init nsb nslots nown) ops = Ok (w, xs) ->
  NoDup (slist w) /\ (forall i, In i (slist w) <-> st (get_sb w i) = Created).
Proof.
  intros ops nsb nslots nown w xs H.
  destruct (wrun_rinv _ ops _ w xs (rinv_init nsb nslots nown) H) as (A & B & _). split; assumption.
Qed.
Print Assumptions C13_registry_all_histories.

(* registering a function that is already registered aborts; registration outside the window aborts;
   a full back-end table refuses *)
Theorem C13_register_refusals : forall w i k,
  (memZ k (ckeys (get_sb w i)) = true -> register_cb w i k = Abort) /\
  (is_created w i = false -> register_cb w i k = Abort) /\
  (first_none (slots (get_sb w i)) = None -> register_cb w i k = Abort).
Proof.
  intros w i k. unfold register_cb, is_created. repeat split.
  - intros H. destruct (status_eqb _ _); cbn [check bind]; [|reflexivity]. rewrite H. reflexivity.
  - intros H. rewrite H. reflexivity.
  - intros H. destruct (status_eqb _ _); cbn [check bind]; [|reflexivity].
    destruct (negb _); cbn [check bind]; [|reflexivity]. rewrite H. reflexivity.
Qed.
Print Assumptions C13_register_refusals.

(* owner after destroy_sandbox is harmless *)
Theorem C13_owner_after_destroy : forall w i k, is_created w i = false -> unregister_cb false w i k = Ok w.
Proof. intros w i k H. unfold unregister_cb, is_created in *. rewrite H. reflexivity. Qed.

Theorem C13_move_assign_partial :
  exists w xs, wrun true (world_init 1 4 2) [WCreate 0 true; WRegister 0 0 77; WRegister 1 0 78; WMoveAssign 0 1; WRegister 1 0 77] = Ok (w, xs) /\
    reachable w 0%nat = [77; 78] /\ owned_keys (owns w) 0 = [78; 77].
Proof. exact move_assign_releases_after_fix. Qed.

(* fixed defect D9 (regression witness) *)
Theorem C13_move_assign_before_fix_refuted :
  exists w xs, wrun false (world_init 1 4 2) [WCreate 0 true; WRegister 0 0 77; WRegister 1 0 78; WMoveAssign 0 1] = Ok (w, xs) /\
    reachable w 0%nat = [77; 78] /\ owned_keys (owns w) 0 = [78].
Proof. exact move_assign_leaked_before_fix. Qed.

Theorem C13_code_move_assign_releases : code_move_assign_releases = true.
Proof. reflexivity. Qed.

(* Properties_C13.v — C13: callback registrations have exactly one owner and end
   when that owner does.  The owner/key/slot agreement is proved for EVERY history over any
   number of sandboxes, owners and functions that does not destroy a sandbox
   (C13_owners_agree_all_histories); histories that destroy and re-create a sandbox meet known
   finding D12 (kept as a refuted statement under C14) and are decided by the correspondence of
   histories; the registry/lifecycle part holds for all histories. *)
From RLBoxV Require Import World World_proofs World_owner_proofs.
Local Open Scope Z_scope.

Theorem C13_registry_all_histories : forall ops nsb nslots nown w xs,
  wrun code_move_assign_releases (world_init nsb nslots nown) ops = Ok (w, xs) ->
  NoDup (slist w) /\ (forall i, In i (slist w) <-> st (get_sb w i) = Created).
Proof.
  intros ops nsb nslots nown w xs H.
  destruct (wrun_rinv _ ops _ w xs (rinv_init nsb nslots nown) H) as (A & B & _). split; assumption.
Qed.
Print Assumptions C13_registry_all_histories.

(* the full agreement: after any history of register / unregister / owner destruction / move construction /
   move assignment (onto empty or live owners) / create / lookups over any number of sandboxes and owners,
   for every sandbox i and function k:
   reachable from guest code (back-end slot table)  <->  in callback_keys  <->  held by a live owner;
   no registration has two owners; no function occupies two entry points *)
Theorem C13_owners_agree_all_histories : forall ops nsb nslots nown w xs,
  forallb no_destroy ops = true ->
  wrun code_move_assign_releases (world_init nsb nslots nown) ops = Ok (w, xs) ->
  forall i k,
    (In k (reachable w i) <-> In k (ckeys (get_sb w i))) /\
    (In k (ckeys (get_sb w i)) <-> exists j, cb_owner_at w j = Some (i, k)) /\
    (forall j j', cb_owner_at w j = Some (i, k) -> cb_owner_at w j' = Some (i, k) -> j = j') /\
    NoDup (reachable w i).
Proof. exact owners_agree. Qed.
Print Assumptions C13_owners_agree_all_histories.

(* … and for every history with RECOVERABLE aborts (aborts delivered as exceptions): a refused
   operation leaves no trace and the agreement holds after whatever follows it (D24 was a
   violation of exactly this in the code: the key of a refused registration stayed behind) *)
Theorem C13_owners_agree_recoverable_aborts : forall ops nsb nslots nown,
  forallb no_destroy ops = true ->
  let w := wrun_rec code_move_assign_releases (world_init nsb nslots nown) ops in
  forall i k,
    (In k (reachable w i) <-> In k (ckeys (get_sb w i))) /\
    (In k (ckeys (get_sb w i)) <-> exists j, cb_owner_at w j = Some (i, k)) /\
    (forall j j', cb_owner_at w j = Some (i, k) -> cb_owner_at w j' = Some (i, k) -> j = j') /\
    NoDup (reachable w i).
Proof. exact owners_agree_recoverable. Qed.
Print Assumptions C13_owners_agree_recoverable_aborts.

(* registering a function that is already registered aborts; registration outside the window aborts;
   a full back-end table refuses *)
Theorem C13_register_refusals : forall w i k,
  (memZ k (ckeys (get_sb w i)) = true -> register_cb w i k = Abort) /\
  (is_created w i = false -> register_cb w i k = Abort) /\
  (first_none (slots (get_sb w i)) = None -> register_cb w i k = Abort).
Proof.
  intros w i k. unfold register_cb, is_created. repeat split.
  - intros H. destruct (status_eqb _ _); cbn [check bind]; [|reflexivity]. rewrite H. reflexivity.
  - intros H. rewrite H. reflexivity.
  - intros H. destruct (status_eqb _ _); cbn [check bind]; [|reflexivity].
    destruct (negb _); cbn [check bind]; [|reflexivity]. rewrite H. reflexivity.
Qed.
Print Assumptions C13_register_refusals.

(* owner after destroy_sandbox is harmless *)
Theorem C13_owner_after_destroy : forall w i k, is_created w i = false -> unregister_cb false w i k = Ok w.
Proof. intros w i k H. unfold unregister_cb, is_created in *. rewrite H. reflexivity. Qed.

Theorem C13_move_assign_after_fix :
  exists w xs, wrun true (world_init 1 4 2) [WCreate 0 true; WRegister 0 0 77; WRegister 1 0 78; WMoveAssign 0 1; WRegister 1 0 77] = Ok (w, xs) /\
    reachable w 0%nat = [77; 78] /\ owned_keys (owns w) 0 = [78; 77].
Proof. exact move_assign_releases_after_fix. Qed.

(* fixed defect D9 (regression witness) *)
Theorem C13_move_assign_before_fix_refuted :
  exists w xs, wrun false (world_init 1 4 2) [WCreate 0 true; WRegister 0 0 77; WRegister 1 0 78; WMoveAssign 0 1] = Ok (w, xs) /\
    reachable w 0%nat = [77; 78] /\ owned_keys (owns w) 0 = [78].
Proof. exact move_assign_leaked_before_fix. Qed.

Theorem C13_code_move_assign_releases : code_move_assign_releases = true.
Proof. reflexivity. Qed.

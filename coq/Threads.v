(* Threads.v — several threads, each using its own sandbox instances, over the state that RLBox
   shares between instances of one back-end type: the atomic status word of each instance (touched
   only by its user) and the process-wide sandbox_list under its reader/writer lock.  Actions are
   at the granularity of the code's synchronisation: one compare-exchange / store of a status word,
   or one lock-protected section on the list (push_back, find+erase, the scan of
   find_sandbox_from_example).  Everything else an instance does is private to it.  A schedule is
   an arbitrary list of thread identifiers. *)
From RLBoxV Require Export World Ptr.
Local Open Scope Z_scope.

Definition sid := nat.
Definition tid := nat.

Record gstate := { gst : sid -> status; glist : list sid }.

Inductive act :=
| ACas (i : sid) (a b : status)    (* sandbox_created.compare_exchange_strong(a, b) *)
| ASet (i : sid) (s : status)      (* sandbox_created.store(s) *)
| APush (i : sid)                  (* unique lock; sandbox_list.push_back(this) *)
| AErase (i : sid)                 (* unique lock; find; dynamic_check(found); erase *)
| AFind (i : sid) (ex : Z).        (* shared lock; scan the list for the instance whose memory contains ex *)
Definition target (a : act) : sid :=
  match a with ACas i _ _ | ASet i _ | APush i | AErase i | AFind i _ => i end.

Inductive obs := OOk | OFail | OFound (r : option sid).

Section Regions.
(* the back end's memory regions; the allocator gives distinct instances disjoint regions *)
Variable reg : sid -> region.

Fixpoint scan (l : list sid) (ex : Z) : option sid :=
  match l with
  | [] => None
  | j :: tl => if inr (reg j) ex then Some j else scan tl ex
  end.

Definition upd (f : sid -> status) (i : sid) (s : status) : sid -> status :=
  fun j => if Nat.eqb j i then s else f j.

Definition gstep (g : gstate) (a : act) : gstate * obs :=
  match a with
  | ACas i x y => if status_eqb (gst g i) x then ({| gst := upd (gst g) i y; glist := glist g |}, OOk) else (g, OFail)
  | ASet i s => ({| gst := upd (gst g) i s; glist := glist g |}, OOk)
  | APush i => ({| gst := gst g; glist := glist g ++ [i] |}, OOk)
  | AErase i => if existsb (Nat.eqb i) (glist g)
                then ({| gst := gst g; glist := remove_first Nat.eqb i (glist g) |}, OOk) else (g, OFail)
  | AFind i ex => (g, OFound (scan (glist g) ex))
  end.

(* a thread's program: the next action may depend on everything observed so far *)
Inductive prog := Done | Act (a : act) (k : obs -> prog).

Record config := { cg : gstate; cprog : tid -> prog; ctrace : tid -> list obs }.

Definition set_fn {A} (f : tid -> A) (t : tid) (x : A) : tid -> A := fun u => if Nat.eqb u t then x else f u.

Definition cstep (c : config) (t : tid) : config :=
  match cprog c t with
  | Done => c
  | Act a k =>
    let '(g', o) := gstep (cg c) a in
    {| cg := g'; cprog := set_fn (cprog c) t (k o); ctrace := set_fn (ctrace c) t (ctrace c t ++ [o]) |}
  end.

Fixpoint crun (c : config) (sched : list tid) : config :=
  match sched with [] => c | t :: tl => crun (cstep c t) tl end.
End Regions.

From RLBoxV Require Import ThreadRec.
From Coq Require Import Lia.

Lemma upd_same c t x : upd c t x t = x.
Proof. unfold upd. rewrite Nat.eqb_refl. reflexivity. Qed.
Lemma upd_other c t x u : u <> t -> upd c t x u = c u.
Proof. unfold upd. intros H. destruct (Nat.eqb u t) eqn:E; [apply Nat.eqb_eq in E; congruence | reflexivity]. Qed.

(* with a record per thread, a step of thread t is a solo step of t and leaves every other thread alone *)
Lemma step_private c t : step false c t t = solo_step (c t) /\ forall u, u <> t -> step false c t u = c u.
Proof.
  unfold step, solo_step, cell_owner. destruct (todo (c t)) as [|[s| |] tl] eqn:E.
  - split; [reflexivity | intros; reflexivity].
  - split.
    + rewrite upd_same. rewrite upd_same. reflexivity.
    + intros u H. rewrite upd_other by exact H. rewrite upd_other by exact H. reflexivity.
  - destruct (saved (c t)) as [|old st] eqn:S.
    + split; [rewrite upd_same; reflexivity | intros u H; rewrite upd_other by exact H; reflexivity].
    + split.
      * rewrite upd_same. rewrite upd_same. reflexivity.
      * intros u H. rewrite upd_other by exact H. rewrite upd_other by exact H. reflexivity.
  - split; [rewrite upd_same; reflexivity | intros u H; rewrite upd_other by exact H; reflexivity].
Qed.

(* C18 for the back end's thread record: under EVERY schedule each thread ends exactly where it ends when it runs alone
   for the same number of its own steps - in particular every callback dispatch consults the sandbox the thread itself entered *)
Theorem record_per_thread_noninterference : forall sched c t,
  run false c sched t = iter_solo (count_tid t sched) (c t).
Proof.
  induction sched as [|u tl IH]; intros c t; cbn [run count_tid iter_solo]; [reflexivity|].
  rewrite IH. destruct (step_private c u) as [Hs Ho].
  destruct (Nat.eqb u t) eqn:E.
  - apply Nat.eqb_eq in E. subst u. rewrite Hs. reflexivity.
  - apply Nat.eqb_neq in E. rewrite (Ho t) by congruence. reflexivity.
Qed.

(* one process-wide record is refuted: thread 0 enters sandbox 10 and takes a callback; thread 1 enters sandbox 11 in between *)
Lemma shared_record_refuted :
  let c0 : config := fun t => match t with
                              | 0 => {| cellv := None; saved := []; todo := [REnter 10; RDispatch; RLeave]; seen := [] |}
                              | 1 => {| cellv := None; saved := []; todo := [REnter 11; RDispatch; RLeave]; seen := [] |}
                              | _ => {| cellv := None; saved := []; todo := []; seen := [] |}
                              end in
  seen (run true c0 [0; 1; 0; 1; 0; 1] 0) = [Some 11] /\
  seen (iter_solo 3 (c0 0)) = [Some 10] /\
  seen (run false c0 [0; 1; 0; 1; 0; 1] 0) = [Some 10].
Proof. vm_compute. repeat split; reflexivity. Qed.

(* World_owner_proofs.v — C13 in full for histories that do not destroy a sandbox (sandbox
   destruction + re-creation is known finding D12): after EVERY such history, for every sandbox,
   the functions reachable from guest code (the back end's slot table) = the front end's
   callback_keys = the registrations held by live owner objects; every registration has exactly
   one owner. *)
From RLBoxV Require Import World World_proofs.
Local Open Scope Z_scope.

Definition keys (w : world) (i : nat) : list Z := ckeys (get_sb w i).

Definition sbinv (s : sbx) : Prop :=
  NoDup (ckeys s) /\ NoDup (slot_keys (slots s)) /\ (forall k, In k (slot_keys (slots s)) <-> In k (ckeys s)).

Definition oinv (w : world) : Prop :=
  (forall i, sbinv (get_sb w i)) /\
  (forall i, ckeys (get_sb w i) <> [] -> st (get_sb w i) = Created) /\
  (forall j i k, cb_owner_at w j = Some (i, k) -> In k (keys w i)) /\
  (forall i k, In k (keys w i) -> exists j, cb_owner_at w j = Some (i, k)) /\
  (forall j j' p, cb_owner_at w j = Some p -> cb_owner_at w j' = Some p -> j = j').

(* ---------- lists ---------- *)
Lemma memZ_In k l : memZ k l = true <-> In k l.
Proof.
  unfold memZ. rewrite existsb_exists. split.
  - intros (x & Hx & E). apply Z.eqb_eq in E. subst. exact Hx.
  - intros H. exists k. split; [exact H|apply Z.eqb_refl].
Qed.
Lemma memZ_false k l : memZ k l = false <-> ~ In k l.
Proof. rewrite <- memZ_In. destruct (memZ k l); split; congruence. Qed.

Lemma first_none_spec l : forall n, first_none l = Some n -> nth_error l n = Some None.
Proof.
  induction l as [|[x|] tl IH]; intros n H; cbn in H; try discriminate.
  - destruct (first_none tl) as [m|]; [|discriminate]. inversion H; subst. cbn. apply IH. reflexivity.
  - inversion H; subst. reflexivity.
Qed.

Lemma slot_keys_set l : forall n k, nth_error l n = Some None ->
  (forall x, In x (slot_keys (wset_nth l n (Some k))) <-> x = k \/ In x (slot_keys l)) /\
  (NoDup (slot_keys l) -> ~ In k (slot_keys l) -> NoDup (slot_keys (wset_nth l n (Some k)))).
Proof.
  induction l as [|[y|] tl IH]; intros n k Hn; destruct n as [|n]; cbn in Hn; try discriminate.
  - destruct (IH n k Hn) as [A B]. cbn [wset_nth slot_keys]. split.
    + intros x. cbn [In]. rewrite A. tauto.
    + intros Hnd Hni. inversion Hnd as [|? ? Hy Hnd']; subst. constructor.
      * rewrite A. intros [->|H]; [apply Hni; left; reflexivity|contradiction].
      * apply B; [assumption|]. intros H; apply Hni; right; exact H.
  - cbn [wset_nth slot_keys]. split; [intros x; cbn [In]; split; intros [H|H]; auto|].
    intros Hnd Hni. constructor; assumption.
  - destruct (IH n k Hn) as [A B]. cbn [wset_nth slot_keys]. split; [exact A|exact B].
Qed.

Lemma clear_slot_spec l k : NoDup (slot_keys l) ->
  (forall x, In x (slot_keys (clear_slot l k)) <-> In x (slot_keys l) /\ x <> k) /\ NoDup (slot_keys (clear_slot l k)).
Proof.
  induction l as [|[y|] tl IH]; intros Hnd; cbn [clear_slot slot_keys] in *.
  - split; [intros x; cbn; tauto|constructor].
  - inversion Hnd as [|? ? Hy Hnd']; subst. destruct (Z.eqb_spec y k) as [->|Hne].
    + cbn [slot_keys]. split; [|assumption]. intros x. cbn [In]. split.
      * intros H. split; [right; exact H|]. intros ->. contradiction.
      * intros [[H|H] Hx]; [congruence|exact H].
    + destruct (IH Hnd') as [A B]. cbn [slot_keys]. split.
      * intros x. cbn [In]. rewrite A. split; [intros [H|[H1 H2]]; [subst; split; [left; reflexivity|exact Hne]|split; [right; exact H1|exact H2]]|].
        intros [[H|H] Hx]; [left; exact H|right; split; assumption].
      * constructor; [|exact B]. rewrite A. tauto.
  - apply IH. exact Hnd.
Qed.

Lemma remove_firstZ_spec k l : NoDup l ->
  (forall x, In x (remove_first Z.eqb k l) <-> In x l /\ x <> k) /\ NoDup (remove_first Z.eqb k l).
Proof.
  induction l as [|y tl IH]; intros Hnd; cbn [remove_first].
  - split; [intros x; cbn; tauto|constructor].
  - inversion Hnd as [|? ? Hy Hnd']; subst. destruct (Z.eqb_spec k y) as [->|Hne].
    + split; [|assumption]. intros x. cbn [In]. split.
      * intros H. split; [right; exact H|]. intros ->. contradiction.
      * intros [[H|H] Hx]; [congruence|exact H].
    + destruct (IH Hnd') as [A B]. split.
      * intros x. cbn [In]. rewrite A. split; [intros [H|[H1 H2]]; [subst; split; [left; reflexivity|congruence]|split; [right; exact H1|exact H2]]|].
        intros [[H|H] Hx]; [left; exact H|right; split; assumption].
      * constructor; [|exact B]. rewrite A. tauto.
Qed.

Lemma NoDup_snoc (l : list Z) k : NoDup l -> ~ In k l -> NoDup (l ++ [k]).
Proof.
  induction l as [|x tl IH]; cbn; intros Hnd Hni; [constructor; [intros []|constructor]|].
  inversion Hnd as [|? ? Hx Hnd']; subst. constructor.
  - rewrite in_app_iff. cbn. intros [H|[H|[]]]; [contradiction|]. apply Hni; left; congruence.
  - apply IH; [assumption|]. intros H; apply Hni; right; assumption.
Qed.

(* ---------- accessors ---------- *)
Lemma owner_put w i s j : cb_owner_at (put_sb w i s) j = cb_owner_at w j.
Proof. reflexivity. Qed.
Lemma get_set_owner w j o i : get_sb (set_owner w j o) i = get_sb w i.
Proof. reflexivity. Qed.
Lemma owner_set w j o j' :
  cb_owner_at (set_owner w j o) j' = if (Nat.eqb j' j && Nat.ltb j (length (owns w)))%bool then o else cb_owner_at w j'.
Proof. unfold cb_owner_at, set_owner; cbn [owns]. apply nth_set_nth. Qed.
Lemma owns_len_set w j o : length (owns (set_owner w j o)) = length (owns w).
Proof. unfold set_owner; cbn [owns]. apply set_nth_length. Qed.
Lemma owns_len_put w i s : length (owns (put_sb w i s)) = length (owns w).
Proof. reflexivity. Qed.

(* the invariant with one registration [ex] allowed to be (still) ownerless *)
Definition ginv (ex : option (nat * Z)) (w : world) : Prop :=
  (forall i, sbinv (get_sb w i)) /\
  (forall i, ckeys (get_sb w i) <> [] -> st (get_sb w i) = Created) /\
  (forall j i k, cb_owner_at w j = Some (i, k) -> In k (keys w i)) /\
  (forall i k, In k (keys w i) -> ex = Some (i, k) \/ exists j, cb_owner_at w j = Some (i, k)) /\
  (forall j j' p, cb_owner_at w j = Some p -> cb_owner_at w j' = Some p -> j = j') /\
  (forall j, cb_owner_at w j <> None -> cb_owner_at w j <> ex) /\
  (forall i k, ex = Some (i, k) -> In k (keys w i)).

Lemma ginv_none w : ginv None w <-> oinv w.
Proof.
  unfold ginv, oinv. split.
  - intros (A & B & C & D & E & _ & _). repeat split; try assumption; try apply A.
    intros i k H. destruct (D i k H) as [X|X]; [discriminate|exact X].
  - intros (A & B & C & D & E). repeat split; try assumption; try apply A.
    + intros i k H. right. apply D. exact H.
    + intros j H1 H2. congruence.
    + intros i k H. discriminate.
Qed.

(* ---------- one sandbox ---------- *)
Lemma reg_sb s k n :
  sbinv s -> memZ k (ckeys s) = false -> first_none (slots s) = Some n ->
  let s' := {| st := st s; ckeys := ckeys s ++ [k]; slots := wset_nth (slots s) n (Some k); cache := cache s; icache := icache s |} in
  sbinv s' /\ (forall x, In x (ckeys s') <-> x = k \/ In x (ckeys s)).
Proof.
  intros (N1 & N2 & Eq) Hm Hf. apply memZ_false in Hm. apply first_none_spec in Hf.
  destruct (slot_keys_set (slots s) n k Hf) as [A B]. cbn zeta. cbn [ckeys slots]. split.
  - split; [apply NoDup_snoc; assumption|]. split.
    + apply B; [exact N2|]. rewrite Eq. exact Hm.
    + intros x. split.
      * intros H. apply A in H. apply in_or_app. destruct H as [->|H]; [right; left; reflexivity|left; apply Eq; exact H].
      * intros H. apply A. apply in_app_or in H as [H|[->|[]]]; [right; apply Eq; exact H|left; reflexivity].
  - intros x. split.
    + intros H. apply in_app_or in H as [H|[->|[]]]; [right; exact H|left; reflexivity].
    + intros [->|H]; apply in_or_app; [right; left; reflexivity|left; exact H].
Qed.

Lemma unreg_sb s k :
  sbinv s ->
  let s' := {| st := st s; ckeys := remove_first Z.eqb k (ckeys s); slots := clear_slot (slots s) k; cache := cache s; icache := icache s |} in
  sbinv s' /\ (forall x, In x (ckeys s') <-> In x (ckeys s) /\ x <> k).
Proof.
  intros (N1 & N2 & Eq). destruct (remove_firstZ_spec k (ckeys s) N1) as [A1 A2].
  destruct (clear_slot_spec (slots s) k N2) as [B1 B2]. cbn zeta. cbn [ckeys slots]. split; [|exact A1].
  split; [exact A2|]. split; [exact B2|]. intros x. rewrite A1, B1, Eq. tauto.
Qed.

(* ---------- steps ---------- *)
Lemma put_sb_get w i s j : (i < length (sbs w))%nat ->
  get_sb (put_sb w i s) j = if Nat.eqb j i then s else get_sb w j.
Proof. intros L. rewrite get_put. apply Nat.ltb_lt in L. rewrite L, andb_true_r. reflexivity. Qed.

Lemma created_in_range w i : st (get_sb w i) = Created -> (i < length (sbs w))%nat.
Proof.
  intros H. destruct (Nat.ltb_spec i (length (sbs w))) as [L|L]; [exact L|].
  unfold get_sb in H. rewrite nth_overflow in H by exact L. discriminate.
Qed.

Lemma register_ginv w i k w1 n :
  ginv None w -> register_cb w i k = Ok (w1, n) -> ginv (Some (i, k)) w1 /\ length (owns w1) = length (owns w).
Proof.
  intros (A & B & C & D & E & _ & _) H. unfold register_cb in H.
  destruct (status_eqb (st (get_sb w i)) Created) eqn:Es; cbn [check bind] in H; [|discriminate].
  apply status_eqb_eq in Es. pose proof (created_in_range w i Es) as L.
  destruct (memZ k (ckeys (get_sb w i))) eqn:Em; cbn [negb check bind] in H; [discriminate|].
  destruct (first_none (slots (get_sb w i))) as [m|] eqn:Ef; [|discriminate]. inversion H; subst w1 n; clear H.
  destruct (reg_sb (get_sb w i) k m (A i) Em Ef) as [S1 S2]. cbn zeta in S1, S2.
  set (s' := {| st := st (get_sb w i); ckeys := ckeys (get_sb w i) ++ [k]; slots := wset_nth (slots (get_sb w i)) m (Some k);
                cache := cache (get_sb w i); icache := icache (get_sb w i) |}) in *.
  assert (G : forall j, get_sb (put_sb w i s') j = if Nat.eqb j i then s' else get_sb w j) by (intros j; apply put_sb_get; exact L).
  split; [|reflexivity]. unfold ginv, keys.
  refine (conj _ (conj _ (conj _ (conj _ (conj _ (conj _ _)))))).
  - intros j. rewrite G. destruct (Nat.eqb j i); [exact S1|apply A].
  - intros j. rewrite G. destruct (Nat.eqb_spec j i) as [->|]; [intros _; exact Es|apply B].
  - intros j i0 k0 Ho. rewrite owner_put in Ho. rewrite G. destruct (Nat.eqb_spec i0 i) as [->|].
    + apply S2. right. apply (C j i k0 Ho).
    + apply (C j i0 k0 Ho).
  - intros i0 k0. rewrite G. destruct (Nat.eqb_spec i0 i) as [->|Hne].
    + intros Hin. apply S2 in Hin as [->|Hin]; [left; reflexivity|]. right. destruct (D i k0 Hin) as [X|X]; [discriminate|exact X].
    + intros Hin. right. destruct (D i0 k0 Hin) as [X|X]; [discriminate|exact X].
  - intros j j' p. rewrite !owner_put. apply E.
  - intros j Hj Heq. rewrite owner_put in Heq. apply memZ_false in Em. apply Em. apply (C j i k Heq).
  - intros i0 k0 Heq. inversion Heq; subst. rewrite G, Nat.eqb_refl. apply S2. left. reflexivity.
Qed.

Lemma owner_some_in_range w j p : cb_owner_at w j = Some p -> (j < length (owns w))%nat.
Proof.
  intros H. destruct (Nat.ltb_spec j (length (owns w))) as [L|L]; [exact L|].
  unfold cb_owner_at in H. rewrite nth_overflow in H by exact L. discriminate.
Qed.

(* releasing the registration held by owner j (sandbox_callback::unregister / destructor) *)
Lemma owner_unregister_ginv ex w j w' :
  ginv ex w -> owner_unregister false w j = Ok w' ->
  ginv ex w' /\ cb_owner_at w' j = None /\ length (owns w') = length (owns w) /\
  (forall j', j' <> j -> cb_owner_at w' j' = cb_owner_at w j').
Proof.
  intros (A & B & C & D & E & F & G0) H. unfold owner_unregister in H.
  destruct (cb_owner_at w j) as [[i k]|] eqn:Eo.
  2:{ inversion H; subst w'. repeat split; try assumption; try apply A. }
  pose proof (owner_some_in_range w j _ Eo) as Lj.
  pose proof (C j i k Eo) as Hin. unfold keys in Hin.
  assert (Hne : ckeys (get_sb w i) <> []) by (intros X; rewrite X in Hin; destruct Hin).
  pose proof (B i Hne) as Es. pose proof (created_in_range w i Es) as L.
  unfold unregister_cb in H.
  assert (Hs : status_eqb (st (get_sb w i)) Created = true) by (rewrite Es; reflexivity).
  rewrite Hs in H. cbn [negb andb] in H.
  pose proof (proj2 (memZ_In k (ckeys (get_sb w i))) Hin) as Em. rewrite Em in H. cbn [check bind] in H.
  inversion H; subst w'; clear H.
  destruct (unreg_sb (get_sb w i) k (A i)) as [S1 S2]. cbn zeta in S1, S2.
  set (s' := {| st := st (get_sb w i); ckeys := remove_first Z.eqb k (ckeys (get_sb w i)); slots := clear_slot (slots (get_sb w i)) k;
                cache := cache (get_sb w i); icache := icache (get_sb w i) |}) in *.
  assert (G : forall x, get_sb (set_owner (put_sb w i s') j None) x = if Nat.eqb x i then s' else get_sb w x)
    by (intros x; rewrite get_set_owner; apply put_sb_get; exact L).
  assert (O : forall j', cb_owner_at (set_owner (put_sb w i s') j None) j' = if Nat.eqb j' j then None else cb_owner_at w j').
  { intros j'. rewrite owner_set, owns_len_put. apply Nat.ltb_lt in Lj. rewrite Lj, andb_true_r. rewrite owner_put. reflexivity. }
  assert (Hex : ex <> Some (i, k)) by (intros X; apply (F j); [rewrite Eo; discriminate|rewrite Eo; congruence]).
  split; [|split; [rewrite O, Nat.eqb_refl; reflexivity|split; [rewrite owns_len_set; reflexivity|]]].
  2:{ intros j' Hj'. rewrite O. destruct (Nat.eqb_spec j' j); [contradiction|reflexivity]. }
  unfold ginv, keys. refine (conj _ (conj _ (conj _ (conj _ (conj _ (conj _ _)))))).
  - intros x. rewrite G. destruct (Nat.eqb x i); [exact S1|apply A].
  - intros x. rewrite G. destruct (Nat.eqb_spec x i) as [->|]; [intros _; exact Es|apply B].
  - intros j' i0 k0 Ho. rewrite O in Ho. destruct (Nat.eqb_spec j' j) as [->|Hj']; [discriminate|].
    rewrite G. destruct (Nat.eqb_spec i0 i) as [->|]; [|apply (C j' i0 k0 Ho)].
    apply S2. split; [apply (C j' i k0 Ho)|]. intros ->. apply Hj'. apply (E j' j (i, k)); assumption.
  - intros i0 k0. rewrite G. destruct (Nat.eqb_spec i0 i) as [->|Hne0].
    + intros Hx. apply S2 in Hx as [Hx Hk]. destruct (D i k0 Hx) as [X|[j' X]]; [left; exact X|]. right. exists j'.
      rewrite O. destruct (Nat.eqb_spec j' j) as [->|]; [rewrite Eo in X; congruence|exact X].
    + intros Hx. destruct (D i0 k0 Hx) as [X|[j' X]]; [left; exact X|]. right. exists j'.
      rewrite O. destruct (Nat.eqb_spec j' j) as [->|]; [rewrite Eo in X; congruence|exact X].
  - intros j1 j2 p. rewrite !O. destruct (Nat.eqb j1 j); [discriminate|]. destruct (Nat.eqb j2 j); [discriminate|]. apply E.
  - intros j' Hn. rewrite O in *. destruct (Nat.eqb j' j); [congruence|]. apply F. exact Hn.
  - intros i0 k0 Heq. rewrite G. destruct (Nat.eqb_spec i0 i) as [->|]; [|apply G0; exact Heq].
    apply S2. split; [apply G0; exact Heq|]. intros ->. apply Hex. exact Heq.
Qed.

(* the new owner takes the pending registration *)
Lemma adopt_ginv w j p :
  ginv (Some p) w -> cb_owner_at w j = None -> (j < length (owns w))%nat -> ginv None (set_owner w j (Some p)).
Proof.
  intros (A & B & C & D & E & F & G0) Hn Lj. destruct p as [i k].
  assert (O : forall j', cb_owner_at (set_owner w j (Some (i, k))) j' = if Nat.eqb j' j then Some (i, k) else cb_owner_at w j').
  { intros j'. rewrite owner_set. apply Nat.ltb_lt in Lj. rewrite Lj, andb_true_r. reflexivity. }
  unfold ginv, keys. refine (conj _ (conj _ (conj _ (conj _ (conj _ (conj _ _)))))).
  - intros x. rewrite get_set_owner. apply A.
  - intros x. rewrite get_set_owner. apply B.
  - intros j' i0 k0 Ho. rewrite get_set_owner. rewrite O in Ho. destruct (Nat.eqb j' j); [inversion Ho; subst; apply (G0 i0 k0 eq_refl)|apply (C j' i0 k0 Ho)].
  - intros i0 k0 Hx. rewrite get_set_owner in Hx. right. destruct (D i0 k0 Hx) as [X|[j' X]].
    + inversion X; subst. exists j. rewrite O, Nat.eqb_refl. reflexivity.
    + exists j'. rewrite O. destruct (Nat.eqb_spec j' j) as [->|]; [congruence|exact X].
  - intros j1 j2 q. rewrite !O. destruct (Nat.eqb_spec j1 j) as [->|N1], (Nat.eqb_spec j2 j) as [->|N2]; intros H1 H2; try reflexivity.
    + exfalso. apply (F j2); [congruence|congruence].
    + exfalso. apply (F j1); [congruence|congruence].
    + apply (E j1 j2 q); assumption.
  - intros j' X. exact X.
  - intros i0 k0 X. discriminate.
Qed.

(* moving a registration from owner j2 to the inert owner j *)
Lemma move_ginv w j j2 :
  ginv None w -> cb_owner_at w j = None -> (j < length (owns w))%nat -> j <> j2 ->
  ginv None (set_owner (set_owner w j (cb_owner_at w j2)) j2 None).
Proof.
  intros (A & B & C & D & E & F & G0) Hn Lj Hne.
  set (w1 := set_owner w j (cb_owner_at w j2)).
  assert (O1 : forall j', cb_owner_at w1 j' = if Nat.eqb j' j then cb_owner_at w j2 else cb_owner_at w j').
  { intros j'. unfold w1. rewrite owner_set. apply Nat.ltb_lt in Lj. rewrite Lj, andb_true_r. reflexivity. }
  assert (O : forall j', cb_owner_at (set_owner w1 j2 None) j' =
                         if Nat.eqb j' j2 then (if Nat.ltb j2 (length (owns w)) then None else cb_owner_at w j2) else if Nat.eqb j' j then cb_owner_at w j2 else cb_owner_at w j').
  { intros j'. rewrite owner_set. unfold w1 at 1. rewrite owns_len_set. destruct (Nat.eqb_spec j' j2) as [->|]; cbn [andb].
    - destruct (j2 <? length (owns w))%nat; [reflexivity|]. rewrite O1. destruct (Nat.eqb_spec j2 j); [congruence|reflexivity].
    - apply O1. }
  (* an owner beyond the list is inert *)
  assert (R : (j2 <? length (owns w))%nat = false -> cb_owner_at w j2 = None).
  { intros X. apply Nat.ltb_ge in X. unfold cb_owner_at. apply nth_overflow. exact X. }
  unfold ginv, keys. refine (conj _ (conj _ (conj _ (conj _ (conj _ (conj _ _)))))).
  - intros x. rewrite !get_set_owner. apply A.
  - intros x. rewrite !get_set_owner. apply B.
  - intros j' i0 k0 Ho. rewrite !get_set_owner. rewrite O in Ho.
    destruct (Nat.eqb j' j2); [destruct (j2 <? length (owns w))%nat; [discriminate|apply (C j2 i0 k0 Ho)]|].
    destruct (Nat.eqb j' j); [apply (C j2 i0 k0 Ho)|apply (C j' i0 k0 Ho)].
  - intros i0 k0 Hx. rewrite !get_set_owner in Hx. right. destruct (D i0 k0 Hx) as [X|[j' X]]; [discriminate|].
    destruct (Nat.eqb_spec j' j2) as [->|N2].
    + exists j. rewrite O. destruct (Nat.eqb_spec j j2); [congruence|]. rewrite Nat.eqb_refl. exact X.
    + exists j'. rewrite O. destruct (Nat.eqb_spec j' j2); [congruence|]. destruct (Nat.eqb_spec j' j) as [->|]; [congruence|exact X].
  - intros a b q. rewrite !O. intros Ha Hb.
    destruct (Nat.eqb_spec a j2) as [->|Na2].
    { destruct (j2 <? length (owns w))%nat eqn:L2; [discriminate|]. rewrite (R eq_refl) in Ha. discriminate. }
    destruct (Nat.eqb_spec b j2) as [->|Nb2].
    { destruct (j2 <? length (owns w))%nat eqn:L2; [discriminate|]. rewrite (R eq_refl) in Hb. discriminate. }
    destruct (Nat.eqb_spec a j) as [->|Naj], (Nat.eqb_spec b j) as [->|Nbj]; try reflexivity.
    + exfalso. apply Nb2. apply (E b j2 q); assumption.
    + exfalso. apply Na2. apply (E a j2 q); assumption.
    + apply (E a b q); assumption.
  - intros j' X. exact X.
  - intros i0 k0 X. discriminate.
Qed.

(* the invariant only looks at status, keys, slots and owners *)
Lemma oinv_ext w w' :
  (forall i, ckeys (get_sb w' i) = ckeys (get_sb w i) /\ slots (get_sb w' i) = slots (get_sb w i) /\
             (ckeys (get_sb w i) <> [] -> st (get_sb w' i) = st (get_sb w i))) ->
  (forall j, cb_owner_at w' j = cb_owner_at w j) ->
  oinv w -> oinv w'.
Proof.
  intros Hs Ho (A & B & C & D & E). unfold oinv, keys, sbinv in *.
  refine (conj _ (conj _ (conj _ (conj _ _)))).
  - intros i. destruct (Hs i) as (K & S & _). rewrite K, S. apply A.
  - intros i. destruct (Hs i) as (K & _ & T). rewrite K. intros Hne. rewrite (T Hne). apply B. exact Hne.
  - intros j i k. rewrite Ho. destruct (Hs i) as (K & _ & _). rewrite K. apply C.
  - intros i k. destruct (Hs i) as (K & _ & _). rewrite K. intros Hin. destruct (D i k Hin) as [j Hj]. exists j. rewrite Ho. exact Hj.
  - intros j j' p. rewrite !Ho. apply E.
Qed.

Definition no_destroy (o : wop) : bool := match o with WDestroy _ => false | _ => true end.

Lemma wstep_oinv w o w' x : oinv w -> no_destroy o = true -> wstep true w o = Ok (w', x) -> oinv w'.
Proof.
  intros Hinv Hnd. unfold wstep. destruct o; cbn [wstep_gen]; try discriminate Hnd.
  - (* create *)
    unfold create_sandbox. destruct (Nat.ltb_spec i (length (sbs w))) as [L|L]; cbn [check bind]; [|discriminate].
    destruct (status_eqb (st (get_sb w i)) NotCreated) eqn:Es; cbn [check bind]; [|discriminate].
    apply status_eqb_eq in Es.
    assert (K : ckeys (get_sb w i) = []).
    { destruct (ckeys (get_sb w i)) eqn:Ek; [reflexivity|]. destruct Hinv as (_ & B & _).
      assert (X : ckeys (get_sb w i) <> []) by (rewrite Ek; discriminate). apply B in X. congruence. }
    assert (G : forall s' l', (ckeys s' = ckeys (get_sb w i) /\ slots s' = slots (get_sb w i)) ->
                forall j, ckeys (get_sb {| sbs := wset_nth (sbs w) i s'; slist := l'; owns := owns w |} j) = ckeys (get_sb w j) /\
                          slots (get_sb {| sbs := wset_nth (sbs w) i s'; slist := l'; owns := owns w |} j) = slots (get_sb w j) /\
                          (ckeys (get_sb w j) <> [] -> st (get_sb {| sbs := wset_nth (sbs w) i s'; slist := l'; owns := owns w |} j) = st (get_sb w j))).
    { intros s' l' [K1 K2] j.
      assert (X : get_sb {| sbs := wset_nth (sbs w) i s'; slist := l'; owns := owns w |} j = if Nat.eqb j i then s' else get_sb w j).
      { unfold get_sb; cbn [sbs]. rewrite nth_set_nth. apply Nat.ltb_lt in L. rewrite L, andb_true_r. reflexivity. }
      rewrite X. destruct (Nat.eqb_spec j i) as [Hji|Hji]; [|repeat split; reflexivity].
      rewrite Hji. repeat split; try assumption. intros Y. rewrite K in Y. congruence. }
    destruct ok; intros H; inversion H; subst; clear H.
    + eapply oinv_ext; [apply G; split; reflexivity|reflexivity|exact Hinv].
    + unfold put_sb. eapply oinv_ext; [apply G; split; reflexivity|reflexivity|exact Hinv].
  - intros H; inversion H; subst; exact Hinv.
  - intros H; inversion H; subst; exact Hinv.
  - unfold lookup_op. destruct (memZ _ _); intros H; inversion H; subst; try exact Hinv.
    apply (oinv_ext w); [|reflexivity|exact Hinv]. intros j. rewrite get_put.
    destruct (Nat.eqb_spec j i) as [->|]; cbn [andb]; [|repeat split; reflexivity].
    destruct (i <? length (sbs w))%nat; repeat split; reflexivity.
  - unfold ilookup_op. destruct (memZ _ _); intros H; inversion H; subst; try exact Hinv.
    apply (oinv_ext w); [|reflexivity|exact Hinv]. intros j. rewrite get_put.
    destruct (Nat.eqb_spec j i) as [->|]; cbn [andb]; [|repeat split; reflexivity].
    destruct (i <? length (sbs w))%nat; repeat split; reflexivity.
  - (* register into owner j *)
    destruct (Nat.ltb_spec j (length (owns w))) as [Lj|Lj]; cbn [check bind]; [|discriminate].
    destruct (register_cb w i k) as [[w1 n]| | |] eqn:E; cbn [bind]; try discriminate.
    destruct (register_ginv w i k w1 n (proj2 (ginv_none w) Hinv) E) as [G1 L1].
    destruct (owner_unregister false w1 j) as [w2| | |] eqn:E2; cbn [bind]; try discriminate.
    destruct (owner_unregister_ginv _ w1 j w2 G1 E2) as (G2 & N2 & L2 & _).
    intros H; inversion H; subst. apply ginv_none. apply adopt_ginv; [exact G2|exact N2|]. rewrite L2, L1. exact Lj.
  - (* unregister / destroy owner j *)
    destruct (owner_unregister false w j) as [w1| | |] eqn:E; cbn [bind]; try discriminate.
    destruct (owner_unregister_ginv None w j w1 (proj2 (ginv_none w) Hinv) E) as (G1 & _).
    intros H; inversion H; subst. apply ginv_none. exact G1.
  - (* move construction *)
    destruct (Nat.eqb_spec j j2) as [->|Hne]; [intros H; inversion H; subst; exact Hinv|].
    destruct (Nat.ltb_spec j (length (owns w))) as [Lj|Lj]; cbn [check bind]; [|discriminate].
    destruct (cb_owner_at w j) eqn:Eo; intros H; inversion H; subst; [exact Hinv|].
    apply ginv_none. apply move_ginv; [apply ginv_none; exact Hinv|exact Eo|exact Lj|exact Hne].
  - (* move assignment: release, then move *)
    destruct (Nat.eqb_spec j j2) as [->|Hne]; [intros H; inversion H; subst; exact Hinv|].
    destruct (Nat.ltb_spec j (length (owns w))) as [Lj|Lj]; cbn [check bind]; [|discriminate].
    destruct (owner_unregister false w j) as [w1| | |] eqn:E; cbn [bind]; try discriminate.
    destruct (owner_unregister_ginv None w j w1 (proj2 (ginv_none w) Hinv) E) as (G1 & N1 & L1 & _).
    intros H; inversion H; subst. apply ginv_none. apply move_ginv; [exact G1|exact N1|rewrite L1; exact Lj|exact Hne].
  - intros H; inversion H; subst; exact Hinv.
Qed.

Lemma wrun_oinv ops : forall w w' xs,
  forallb no_destroy ops = true -> oinv w -> wrun true w ops = Ok (w', xs) -> oinv w'.
Proof.
  induction ops as [|o tl IH]; intros w w' xs Hnd Hinv H; cbn [wrun] in H.
  - inversion H; subst; exact Hinv.
  - cbn [forallb] in Hnd. apply andb_prop in Hnd as [Ho Htl].
    destruct (wstep true w o) as [[w1 x]| | |] eqn:E; cbn [bind] in H; try discriminate.
    destruct (wrun true w1 tl) as [[w2 xs2]| | |] eqn:E2; cbn [bind] in H; try discriminate.
    inversion H; subst. eapply IH; [exact Htl| |exact E2]. eapply wstep_oinv; eauto.
Qed.

Lemma oinv_init nsb nslots nown : oinv (world_init nsb nslots nown).
Proof.
  assert (G : forall i, get_sb (world_init nsb nslots nown) i = sbx_init nslots \/ get_sb (world_init nsb nslots nown) i = sbx_init 0).
  { intros i. unfold get_sb, world_init; cbn [sbs]. destruct (Nat.ltb_spec i nsb).
    - left. rewrite nth_indep with (d' := sbx_init nslots) by (rewrite repeat_length; assumption). apply nth_repeat.
    - right. apply nth_overflow. rewrite repeat_length. assumption. }
  assert (S0 : forall n, slot_keys (repeat None n) = []) by (induction n; cbn; auto).
  assert (O : forall j, cb_owner_at (world_init nsb nslots nown) j = None).
  { intros j. unfold cb_owner_at, world_init; cbn [owns]. destruct (Nat.ltb_spec j nown).
    - apply nth_repeat.
    - apply nth_overflow. rewrite repeat_length. assumption. }
  unfold oinv, keys, sbinv. refine (conj _ (conj _ (conj _ (conj _ _)))).
  - intros i. destruct (G i) as [-> | ->]; cbn [sbx_init ckeys slots]; rewrite S0; repeat split; try constructor; intros [].
  - intros i. destruct (G i) as [-> | ->]; cbn; congruence.
  - intros j i k. rewrite O. discriminate.
  - intros i k. destruct (G i) as [-> | ->]; cbn; intros [].
  - intros j j' p. rewrite O. discriminate.
Qed.

(* C13, full statement, for every history that does not destroy a sandbox *)
Theorem owners_agree ops nsb nslots nown w xs :
  forallb no_destroy ops = true ->
  wrun code_move_assign_releases (world_init nsb nslots nown) ops = Ok (w, xs) ->
  forall i k,
    (In k (reachable w i) <-> In k (ckeys (get_sb w i))) /\
    (In k (ckeys (get_sb w i)) <-> exists j, cb_owner_at w j = Some (i, k)) /\
    (forall j j', cb_owner_at w j = Some (i, k) -> cb_owner_at w j' = Some (i, k) -> j = j') /\
    NoDup (reachable w i).
Proof.
  intros Hnd H. pose proof (wrun_oinv ops _ _ _ Hnd (oinv_init nsb nslots nown) H) as (A & B & C & D & E).
  intros i k. destruct (A i) as (N1 & N2 & Eq). unfold reachable. repeat split.
  - apply Eq.
  - apply Eq.
  - apply D.
  - intros [j Hj]. apply (C j i k Hj).
  - intros j j'. apply E.
  - exact N2.
Qed.

(* the same for histories with recoverable aborts: refused operations (a second registration of a
   registered function, a registration with every entry point taken, a registration outside the
   created window, …) leave no trace, whatever follows them *)
Lemma wrun_rec_oinv ops : forall w, forallb no_destroy ops = true -> oinv w -> oinv (wrun_rec true w ops).
Proof.
  induction ops as [|o tl IH]; intros w Hnd Hinv; cbn [wrun_rec]; [exact Hinv|].
  cbn [forallb] in Hnd. apply andb_prop in Hnd as [Ho Htl].
  destruct (wstep true w o) as [[w1 x]| | |] eqn:E; try (apply IH; assumption).
  apply IH; [exact Htl|]. eapply wstep_oinv; eauto.
Qed.

Theorem owners_agree_recoverable ops nsb nslots nown :
  forallb no_destroy ops = true ->
  let w := wrun_rec code_move_assign_releases (world_init nsb nslots nown) ops in
  forall i k,
    (In k (reachable w i) <-> In k (ckeys (get_sb w i))) /\
    (In k (ckeys (get_sb w i)) <-> exists j, cb_owner_at w j = Some (i, k)) /\
    (forall j j', cb_owner_at w j = Some (i, k) -> cb_owner_at w j' = Some (i, k) -> j = j') /\
    NoDup (reachable w i).
Proof.
  intros Hnd w. pose proof (wrun_rec_oinv ops _ Hnd (oinv_init nsb nslots nown)) as (A & B & C & D & E).
  intros i k. destruct (A i) as (N1 & N2 & Eq). unfold reachable. repeat split.
  - apply Eq.
  - apply Eq.
  - apply D.
  - intros [j Hj]. apply (C j i k Hj).
  - intros j j'. apply E.
  - exact N2.
Qed.

(* ConvAst.v — a tiny deep-embedded language for the bodies of the INSTANTIATED
   convert_type_fundamental<T_To, T_From> functions as clang's AST shows them (if-constexpr already
   resolved, every implicit conversion an explicit cast node), its interpreter over Machine.v, and the
   fixed tactic that proves one generated program equal to the specification for ALL source values.
   The programs themselves are regenerated from /repo's headers on every run (Gen_ConvPrograms.v,
   written by harness/m3_ast.py). *)
From RLBoxV Require Export Conv Conv_proofs.
Local Open Scope Z_scope.

Inductive cexpr :=
| EVar                                  (* the parameter `from` (lvalue-to-rvalue) *)
| ELit (v : Z)                          (* integer literal *)
| ELimit (k : ikind) (is_max : bool)    (* std::numeric_limits<k>::max() / min() *)
| ECast (k : ikind) (e : cexpr).        (* implicit IntegralCast / static_cast to k *)
Inductive ccmp := CLe | CGe | CLt | CGt.
Inductive cstmt :=
| SCheck (op : ccmp) (a b : cexpr)      (* dynamic_check(a op b, msg) *)
| SAssign (e : cexpr).                  (* to = e   (e already carries the final cast) *)

Fixpoint ceval (v : Z) (e : cexpr) : Z :=
  match e with
  | EVar => v
  | ELit x => x
  | ELimit k true => hi k
  | ELimit k false => lo k
  | ECast k e' => wrap k (ceval v e')
  end.
Definition ccompare (op : ccmp) (a b : Z) : bool :=
  match op with CLe => a <=? b | CGe => b <=? a | CLt => a <? b | CGt => b <? a end.

(* statements in order; the first failing check aborts; the assignment yields the result;
   a body without assignment is malformed (Fault: the theorems exclude it) *)
Fixpoint crun (p : list cstmt) (v : Z) : res Z :=
  match p with
  | [] => Fault
  | SCheck op a b :: tl => if ccompare op (ceval v a) (ceval v b) then crun tl v else Abort
  | SAssign e :: _ => Ok (ceval v e)
  end.

Lemma wrap_id' k x : lo k <= x <= hi k -> wrap k x = x.
Proof. intros H. apply wrap_id. apply in_range_intro. exact H. Qed.

(* evaluate every closed (source-value-free) subterm, drop casts of the source value that are the
   identity on its range, split on each comparison that occurs, finish with lia *)
Ltac conv_ast_tac :=
  let v := fresh "v" in let Hv := fresh "Hv" in
  intros v Hv; apply in_range_bounds in Hv;
  cbv [crun ceval ccompare conv_spec in_range] in *;
  repeat match goal with
         | |- context [wrap ?k ?c] => lazymatch c with context [v] => fail | _ => let r := eval vm_compute in (wrap k c) in change (wrap k c) with r end
         | |- context [hi ?k] => let r := eval vm_compute in (hi k) in change (hi k) with r
         | |- context [lo ?k] => let r := eval vm_compute in (lo k) in change (lo k) with r
         | H : context [hi ?k] |- _ => let r := eval vm_compute in (hi k) in change (hi k) with r in H
         | H : context [lo ?k] |- _ => let r := eval vm_compute in (lo k) in change (lo k) with r in H
         end;
  repeat match goal with
         | |- context [wrap ?k v] => rewrite (wrap_id' k v) by (cbv [lo hi signed bits size]; cbn; lia)
         end;
  repeat match goal with
         | |- context [?a <=? ?b] => destruct (Z.leb_spec a b)
         | |- context [?a <? ?b] => destruct (Z.ltb_spec a b)
         end;
  cbn [andb]; try reflexivity; try lia;
  try (f_equal; first [apply wrap_id'; cbv [lo hi signed bits size]; cbn; lia | lia]).

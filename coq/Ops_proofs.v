(* Ops_proofs.v — the operator semantics is well typed (every defined result lies in the range
   of its result type), the macros compute exactly the plain operators, compound assignment
   and increment/decrement store what the plain forms store (or abort for sandbox memory) *)
From RLBoxV Require Import Ops Conv_proofs.
Local Open Scope Z_scope.

Definition promoted (c : ikind) : Prop :=
  c = IInt \/ c = IUInt \/ c = ILong \/ c = IULong \/ c = ILLong \/ c = IULLong.

Lemma promote_promoted k : promoted (promote k).
Proof. destruct k; cbv [promote promoted]; tauto. Qed.

Lemma common_promoted ka kb : promoted (common ka kb).
Proof. destruct ka, kb; vm_compute; tauto. Qed.

Lemma range_pos_neg c : promoted c -> lo c <= 0 < hi c.
Proof. intros [-> | [-> | [-> | [-> | [-> | ->]]]]]; vm_compute; split; congruence. Qed.

Lemma signed_range c : promoted c -> signed c = true -> lo c = - hi c - 1.
Proof. intros [-> | [-> | [-> | [-> | [-> | ->]]]]]; vm_compute; congruence. Qed.

Lemma arith_res_range c r k v : arith_res c r = Some (k, v) -> in_range k v = true.
Proof.
  unfold arith_res. destruct (signed c).
  - destruct (in_range c r) eqn:E; [|discriminate]. intros H; inversion H; subst; exact E.
  - intros H; inversion H; subst. apply wrap_in_range.
Qed.

Lemma div_in_range c x d : promoted c -> in_range c x = true -> 0 < d -> in_range c (x / d) = true.
Proof.
  intros Hc Hx Hd. apply in_range_bounds in Hx. apply in_range_intro. pose proof (range_pos_neg c Hc).
  split.
  - destruct (Z_le_gt_dec 0 x); [pose proof (Z.div_pos x d ltac:(lia) Hd); lia|].
    assert (x <= x / d); [|lia]. apply Z.div_le_lower_bound; [lia|]. nia.
  - destruct (Z_le_gt_dec 0 x); [|assert (x / d < 0) by (apply Z.div_lt_upper_bound; lia); lia].
    assert (x / d <= x); [|lia]. apply Z.div_le_upper_bound; [lia|]. nia.
Qed.

Lemma rem_in_range c x y : promoted c -> in_range c x = true -> in_range c y = true -> y <> 0 ->
  in_range c (Z.rem x y) = true.
Proof.
  intros Hc Hx Hy Hn. apply in_range_bounds in Hx. apply in_range_bounds in Hy. apply in_range_intro.
  pose proof (Z.rem_bound_abs x y Hn) as B. pose proof (range_pos_neg c Hc).
  destruct (signed c) eqn:Sg.
  - pose proof (signed_range c Hc Sg). lia.
  - assert (lo c = 0) by (unfold lo; rewrite Sg; reflexivity).
    pose proof (Z.rem_bound_pos x y ltac:(lia) ltac:(lia)). lia.
Qed.

Lemma b2z_bool b : in_range IBool (b2z b) = true.
Proof. destruct b; reflexivity. Qed.

(* every defined result of a plain operator lies in the range of its result type *)
Theorem cop_welltyped o ka va kb vb c r :
  cop o ka va kb vb = Some (c, r) -> in_range c r = true.
Proof.
  pose proof (common_promoted ka kb) as Hc. pose proof (promote_promoted ka) as Hl.
  unfold cop. set (cc := common ka kb) in *. set (l := promote ka) in *.
  pose proof (wrap_in_range cc va) as Hx. pose proof (wrap_in_range cc vb) as Hy.
  pose proof (wrap_in_range l va) as Hxl.
  destruct o; intros H;
    try (apply arith_res_range in H; exact H);
    try (inversion H; subst; first [apply wrap_in_range | apply b2z_bool]).
  - destruct (wrap cc vb =? 0); [discriminate|]. apply arith_res_range in H. exact H.
  - destruct (Z.eqb_spec (wrap cc vb) 0); [discriminate|].
    destruct (signed cc && (wrap cc va =? lo cc) && (wrap cc vb =? -1))%bool; [discriminate|].
    inversion H; subst. apply rem_in_range; assumption.
  - destruct ((wrap (promote kb) vb <? 0) || (bits l <=? wrap (promote kb) vb))%bool; [discriminate|].
    destruct (signed l).
    + destruct ((wrap l va <? 0) || negb (in_range l (wrap l va * 2 ^ wrap (promote kb) vb)))%bool eqn:E; [discriminate|].
      inversion H; subst. apply orb_false_elim in E as [_ E]. apply negb_false_iff in E. exact E.
    + inversion H; subst. apply wrap_in_range.
  - destruct (Z.ltb_spec (wrap (promote kb) vb) 0); [discriminate|]. cbn [orb] in H.
    destruct (bits l <=? wrap (promote kb) vb); [discriminate|]. inversion H; subst.
    apply div_in_range; [exact Hl|exact Hxl|]. apply Z.pow_pos_nonneg; lia.
Qed.

(* result types: comparisons and logical operators yield bool; shifts the promoted left operand;
   everything else the common type *)
Lemma cop_result_type o ka va kb vb c r :
  cop o ka va kb vb = Some (c, r) ->
  c = match o with
      | OEq | ONe | OLt | OLe | OGt | OGe | OLAnd | OLOr => IBool
      | OShl | OShr => promote ka
      | _ => common ka kb
      end.
Proof.
  unfold cop, arith_res. destruct o; intros H;
    repeat match type of H with
           | (if ?b then _ else _) = _ => destruct b
           | (let _ := _ in _) = _ => cbv zeta in H
           end; try discriminate; inversion H; reflexivity.
Qed.

(* ---------- the macros ---------- *)
(* with plain / tainted operands the wrapped operator IS the plain operator: same type, same
   value, undefined exactly where the plain expression is *)
Lemma wbin_plain_tainted a o wa ka va wb kb vb :
  wa <> WV -> wb <> WV -> wbin a o wa ka va wb kb vb = Some (Ok (cop o ka va kb vb)).
Proof. intros Ha Hb. unfold wbin, unwrap. destruct wa, wb; try congruence; reflexivity. Qed.

(* a tainted_volatile operand holding the sandbox image of an application value behaves as that
   value *)
Lemma unwrap_volatile a k sk v :
  abi_ok a = true -> sbx_equiv a k = Some sk -> in_range sk v = true -> in_range k v = true ->
  unwrap a WV k v = Some (Ok v).
Proof.
  intros Ha He Hs Hk. unfold unwrap, to_app. rewrite He.
  rewrite (conv_correct k sk v Hs (proj2 (sbx_equiv_no_n2 a k sk Ha He))). unfold conv_spec. rewrite Hk. reflexivity.
Qed.

(* compound assignment on a plain-like (tainted) object stores what the plain form stores *)
Lemma wcompound_tainted a o ka va wb kb vb :
  wb <> WV -> wcompound a o WT ka va wb kb vb = Some (Ok (ccompound o ka va kb vb)).
Proof.
  intros Hb. unfold wcompound, ccompound. rewrite wbin_plain_tainted by congruence.
  destruct (cop o ka va kb vb) as [[c r]|]; reflexivity.
Qed.

(* ... on an object in sandbox memory: the exact plain result when the stored sandbox type can hold
   it, otherwise abort; never a silently different value *)
Lemma wcompound_volatile a o ka va wb kb vb sk c r :
  abi_ok a = true -> wb <> WV -> sbx_equiv a ka = Some sk -> sk <> IBool ->
  in_range sk va = true -> in_range ka va = true ->
  cop o ka va kb vb = Some (c, r) ->
  wcompound a o WV ka va wb kb vb = Some (if in_range sk r then Ok (Some r) else Abort).
Proof.
  intros Ha Hb He Hnb Hs Hk Hc. unfold wcompound, wbin.
  rewrite (unwrap_volatile a ka sk va Ha He Hs Hk).
  replace (unwrap a wb kb vb) with (Some (Ok vb)) by (destruct wb; try congruence; reflexivity).
  cbn [bind]. rewrite Hc. unfold assign. rewrite He.
  rewrite (conv_correct sk c r (cop_welltyped _ _ _ _ _ _ _ Hc)).
  - unfold conv_spec. destruct (in_range sk r); reflexivity.
  - destruct sk; try reflexivity; congruence.
Qed.

(* pre/post increment/decrement on a tainted object: value of the expression and stored value are
   those of the plain forms *)
Lemma wincdec_tainted a dec post k v :
  wincdec a false dec post WT k v = Some (Ok (cincdec dec post k v)).
Proof.
  unfold wincdec, cincdec. replace (if (post && false)%bool then false else dec) with dec by (destruct post; reflexivity).
  cbn [unwrap]. destruct (cop (if dec then OSub else OAdd) k v IInt 1) as [[c r]|]; [|reflexivity].
  cbn [assign]. reflexivity.
Qed.

(* the fixed defect D1: with both post forms calling operator++, x-- on 10 yields 10 and stores 11 *)
Lemma postdec_before_fix_refuted :
  wincdec abi_host true true true WT IInt 10 = Some (Ok (Some (10, 11))) /\ cincdec true true IInt 10 = Some (10, 9) /\ wincdec abi_host false true true WT IInt 10 = Some (Ok (Some (10, 9))).
Proof. vm_compute. repeat split. Qed.

(* non-vacuity and the classic corner cases *)
Example cop_examples :
  cop OLt IInt (-1) IUInt 1 = Some (IBool, 0) /\                 (* -1 < 1u is false *)
  cop OAdd IUChar 200 IUChar 100 = Some (IInt, 300) /\           (* promotion *)
  cop OAdd IInt (2^31 - 1) IInt 1 = None /\                      (* signed overflow *)
  cop OAdd IUInt (2^32 - 1) IInt 1 = Some (IUInt, 0) /\ cop OSub ILong 0 IULong 1 = Some (IULong, 2^64 - 1) /\ cop ODiv IInt (-7) IInt 2 = Some (IInt, -3) /\ cop ORem IInt (-7) IInt 2 = Some (IInt, -1) /\ cop ODiv IInt (-2^31) IInt (-1) = None /\ cop ORem IInt 5 IInt 0 = None /\ cop OShl IUChar 255 IInt 24 = None /\ cop OShl IUChar 127 IInt 24 = Some (IInt, 127 * 2^24) /\ cop OShr ISChar (-8) ILong 1 = Some (IInt, -4) /\ cop OShl IInt 1 IInt 32 = None /\ cop OAnd ISChar (-1) IUShort 65535 = Some (IInt, 65535) /\ cop OMul ILLong (2^32) IUInt 3 = Some (ILLong, 3 * 2^32) /\ cuop UNeg IUInt 1 = Some (IUInt, 2^32 - 1) /\ cuop UNot IUChar 0 = Some (IInt, -1) /\ cuop UNeg IInt (-2^31) = None.
Proof. vm_compute. repeat split. Qed.

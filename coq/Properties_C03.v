(* Properties_C03.v — C03: every tainted data pointer is null or points into its
   own sandbox.  Statements only; proofs in Ptr_proofs.v. *)
From RLBoxV Require Import Ptr Ptr_proofs.
Local Open Scope Z_scope.

(* whatever bits the guest produces, in a result or a callback argument *)
Theorem C03_from_guest : forall s r,
  region_ok s -> 0 <= r < rsize s -> ptr_inv s (unsandbox s r).
Proof. exact unsandbox_inv. Qed.
Print Assumptions C03_from_guest.

(* ... or stores in a pointer cell / array element / struct field of sandbox s,
   with any number of other sandboxes alive *)
Theorem C03_from_memory : forall l s cell rep,
  world_ok l -> In s l -> inr s cell = true -> 0 <= rep < rsize s ->
  exists a, load_ptr_cell l cell rep = Ok a /\ ptr_inv s a.
Proof.
  intros l s cell rep Hw Hin Hc Hr. exists (unsandbox s rep). split.
  - exact (proj1 (cell_uses_own_sandbox l s cell Hw Hin Hc) rep).
  - exact (unsandbox_inv s rep (world_ok_in l s Hw Hin) Hr).
Qed.
Print Assumptions C03_from_memory.

(* every chain of pointer-producing operations, of any length, from any pointer
   satisfying the invariant — outside known finding D5 (field/element addresses
   formed through null or reaching past the end are not checked) *)
Theorem C03_chain_outside_finding : forall l s ops p q,
  world_ok l -> In s l -> ptr_inv s p -> forallb (rep_ok s) ops = true ->
  fields_safe true l s p ops = true ->
  run_chain true l s p ops = Ok q -> ptr_inv s q.
Proof. intros l s ops p q. exact (chain_inv l s ops p q). Qed.
Print Assumptions C03_chain_outside_finding.

Theorem C03_code_has_index_nullcheck : code_index_nullcheck = true.
Proof. reflexivity. Qed.

(* D5, kept visible *)
Theorem C03_chain_full_refuted : ~ chain_inv_full.
Proof. exact chain_inv_full_refuted. Qed.
Theorem C03_chain_full_refuted_at_end :
  exists l s ops q, world_ok l /\ In s l /\ forallb (rep_ok s) ops = true /\
    run_chain true l s 0 ops = Ok q /\ ~ ptr_inv s q.
Proof. exact chain_inv_full_refuted_at_end. Qed.

(* fixed defect D4 (regression witness) *)
Theorem C03_index_null_before_fix_refuted :
  exists l s q, world_ok l /\ In s l /\ run_chain false l s 0 [OpIndex 3 4] = Ok q /\ ~ ptr_inv s q.
Proof. exact chain_unchecked_index_refuted. Qed.

(* the plug-in obligation the test-suite's 4 KiB mask sandbox does not meet *)
Theorem C03_needs_total_translation :
  exists s r, region_ok s /\ 0 <= r < 2^32 /\ ~ ptr_inv s (unsandbox s r).
Proof. exact needs_total_translation. Qed.

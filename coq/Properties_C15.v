(* Properties_C15.v — C15: app-pointer tokens are non-zero, bounded, unique and
   resolve to their pointer.  For EVERY token width W and every limit
   1 <= max < W-1 (strictly more than the 8-bit exploration the property text
   suggests).  Statements only; proofs in AppPtr_proofs.v. *)
From RLBoxV Require Import AppPtr AppPtr_proofs AppPtr_owner_proofs AppPtr2 AppPtr2_proofs.
Local Open Scope Z_scope.

(* one registration from any state satisfying the invariant: a fresh token in
   [1,max] bound to the pointer, or Abort exactly when all of 1..max are in use *)
Theorem C15_register : forall W max ptr m,
  1 <= max -> max < W - 1 -> ainv max m ->
  (exists i m', get_app_pointer_idx W max ptr m = Ok (i, m') /\
       1 <= i <= max /\ ~ In i (keys (entries m)) /\
       entries m' = (i, ptr) :: entries m /\ ainv max m') \/
  (get_app_pointer_idx W max ptr m = Abort /\ forall i, 1 <= i <= max -> In i (keys (entries m))).
Proof. exact register_spec. Qed.
Print Assumptions C15_register.

Theorem C15_release : forall max idx m,
  ainv max m -> idx <> 0 ->
  (In idx (keys (entries m)) /\ exists m', remove_app_ptr idx m = Ok m' /\ ainv max m' /\
      (forall k, In k (keys (entries m')) <-> In k (keys (entries m)) /\ k <> idx)) \/
  (~ In idx (keys (entries m)) /\ remove_app_ptr idx m = Abort).
Proof. exact release_spec. Qed.
Print Assumptions C15_release.

(* every history keeps: tokens pairwise distinct, 0 reserved, all in [0,max], cursor in [1,max+1] *)
Theorem C15_inv_all_histories : forall W max ops m m',
  1 <= max -> max < W - 1 -> ainv max m ->
  Forall (fun o => match o with ARelease i => i <> 0 | _ => True end) ops ->
  arun W max m ops = Ok m' -> ainv max m'.
Proof. intros W max ops m m'. exact (arun_inv W max ops m m'). Qed.
Print Assumptions C15_inv_all_histories.

Theorem C15_init : forall max, 1 <= max -> ainv max amap_init.
Proof. exact ainv_init. Qed.

(* lookup: the pointer it was issued for, until release; abort after *)
Theorem C15_lookup_registered : forall i ptr es, find_key ((i, ptr) :: es) i = Some ptr.
Proof. exact find_key_head. Qed.
Theorem C15_lookup_unaffected_by_others : forall i j ptr es,
  i <> j -> find_key ((i, ptr) :: es) j = find_key es j /\ find_key (remove_key es i) j = find_key es j.
Proof. intros i j ptr es H; split; [exact (find_key_other i j ptr es H)|exact (find_key_remove_other es i j H)]. Qed.
Theorem C15_lookup_after_release : forall max idx m m',
  ainv max m -> remove_app_ptr idx m = Ok m' -> lookup_index idx m' = Abort.
Proof. exact lookup_after_release. Qed.
Print Assumptions C15_lookup_after_release.

(* the scan bounded by the table size is exact (pigeonhole) *)
Theorem C15_scan_exact : forall es from to,
  (forall i, scan es from to = Some i ->
     from <= i <= to /\ mem_key es i = false /\ (forall j, from <= j < i -> mem_key es j = true)) /\
  (scan es from to = None -> forall j, from <= j <= to -> mem_key es j = true).
Proof. intros es from to; split; [intros i; exact (scan_some es from to i)|exact (scan_none es from to)]. Qed.
Print Assumptions C15_scan_exact.

(* N1 (outside the property's limits): limit = type maximum and full table: never terminates *)
Theorem C15_limit_is_type_max_diverges :
  get_unused_index 4 3 {| entries := [(0,0); (1,11); (2,12); (3,13)]; counter := 2 |} = Diverge.
Proof. exact limit_is_type_max_diverges. Qed.

(* owner layer (rlbox_policy_types.hpp app_pointer objects): after EVERY history of
   get_app_pointer into an empty or a live slot, moves between slots and destructions, over any
   number n of owner slots, any token width W and any limit 1 <= max < W-1:
   the table invariant holds; no token has two owners; the tokens held by live owners are exactly
   the non-zero keys of the table (nothing leaks, nothing dangles); and every live owner's token is
   in [1,max] and resolves to the pointer the abstract history (the ghost fold) says that slot stands
   for, while every inert slot stands for nothing. *)
Theorem C15_owners_all_histories : forall W max n ops w,
  1 <= max -> max < W - 1 -> Forall (oop_ok n) ops ->
  orun code_overwrite_releases W max {| amapw := amap_init; owners := repeat None n |} ops = Ok w ->
  ainv max (amapw w) /\
  NoDup (held (owners w)) /\
  (forall i, In i (held (owners w)) <-> In i (live_tokens (amapw w))) /\
  (forall k, match owner_at w k, fold_left gstep ops ghost_init k with
             | Some i, Some p => 1 <= i <= max /\ lookup_index i (amapw w) = Ok p
             | None, None => True
             | _, _ => False
             end).
Proof. exact owners_hold_live_tokens. Qed.
Print Assumptions C15_owners_all_histories.

(* an owner operation aborts only when it is a registration into a full table; releases (by
   destruction, by being overwritten, by being moved onto) never abort *)
Theorem C15_owner_step_aborts_only_when_full : forall W max n w g o,
  1 <= max -> max < W - 1 -> ginv max n None w g -> oop_ok n o ->
  (exists w', ostep code_overwrite_releases W max w o = Ok w' /\ ginv max n None w' (gstep g o)) \/
  (exists k ptr, o = OGet k ptr /\ ostep code_overwrite_releases W max w o = Abort /\
                 forall i, 1 <= i <= max -> In i (keys (entries (amapw w)))).
Proof. exact owner_step_aborts_only_when_full. Qed.
Print Assumptions C15_owner_step_aborts_only_when_full.

Theorem C15_owners_nonvacuous :
  exists w, orun true 256 200 {| amapw := amap_init; owners := repeat None 3 |}
              [OGet 0%nat 101; OGet 1%nat 102; OGet 0%nat 103; OMove 2%nat 1%nat; ODestroy 0%nat] = Ok w /\
            owners w = [None; None; Some 2] /\ live_tokens (amapw w) = [2] /\
            fold_left gstep [OGet 0%nat 101; OGet 1%nat 102; OGet 0%nat 103; OMove 2%nat 1%nat; ODestroy 0%nat]
                      ghost_init 2%nat = Some 102.
Proof. exact owners_example. Qed.

(* concrete witnesses: the state after the fix, and the leak before it (D9') *)
Theorem C15_owner_overwrite_after_fix :
  exists w, orun true 256 200 {| amapw := amap_init; owners := [None; None] |} [OGet 0%nat 101; OGet 0%nat 102; OMove 1%nat 0%nat] = Ok w /\
            held (owners w) = [2] /\ live_tokens (amapw w) = [2] /\ owners w = [None; Some 2].
Proof. exact overwrite_releases_after_fix. Qed.
Theorem C15_owner_overwrite_before_fix_refuted :
  exists w, orun false 256 200 {| amapw := amap_init; owners := [None; None] |} [OGet 0%nat 101; OGet 0%nat 102] = Ok w /\
            held (owners w) = [2] /\ live_tokens (amapw w) = [2; 1].
Proof. exact overwrite_leaked_before_fix. Qed.
Theorem C15_code_overwrite_releases : code_overwrite_releases = true.
Proof. reflexivity. Qed.

Theorem C15_nonvacuous :
  exists m, arun 256 3 amap_init [ARegister 101; ARegister 102; ARelease 1; ARegister 103; ARegister 104] = Ok m /\
            keys (entries m) = [1; 3; 2; 0] /\ lookup_index 1 m = Ok 104 /\
            get_app_pointer_idx 256 3 105 m = Abort.
Proof. exact table_example. Qed.

(* ---- several sandboxes (coq/AppPtr2.v): each sandbox has a table of its own, so owners of
   different sandboxes hold EQUAL tokens, and a move-assignment may overwrite an owner of one
   sandbox by an owner of another.  Every history of that world that does not abort is, seen from
   each sandbox, a history of the single-sandbox owner layer (an owner of another sandbox is an
   inert slot there) … ---- *)
Theorem C15_many_sandboxes_project : forall W max s ops w w',
  (s < length (maps2 w))%nat -> wf2 w ->
  Forall (oop2_ok (length (owners2 w))) ops -> Forall (oop2_sbx_ok (length (maps2 w))) ops ->
  orun2 W max w ops = Ok w' ->
  orun code_overwrite_releases W max (proj s w) (map (proj_op s) ops) = Ok (proj s w').
Proof. exact orun2_proj. Qed.
Print Assumptions C15_many_sandboxes_project.
(* … hence, for every sandbox and every history: its live owners hold exactly its live tokens, no
   token has two owners, every owner's token is in 1..max and resolves IN ITS OWN TABLE to the
   pointer it was issued for; an overwritten or moved-from owner holds nothing *)
Theorem C15_owners_all_histories_many_sandboxes : forall W max ns n ops w s,
  1 <= max -> max < W - 1 -> (s < ns)%nat ->
  Forall (oop2_ok n) ops -> Forall (oop2_sbx_ok ns) ops ->
  orun2 W max {| maps2 := repeat amap_init ns; owners2 := repeat None n |} ops = Ok w ->
  ainv max (amapw (proj s w)) /\
  NoDup (held (owners (proj s w))) /\
  (forall i, In i (held (owners (proj s w))) <-> In i (live_tokens (amapw (proj s w)))) /\
  (forall k, match owner_at (proj s w) k, fold_left gstep (map (proj_op s) ops) ghost_init k with
             | Some i, Some p => 1 <= i <= max /\ lookup_index i (amapw (proj s w)) = Ok p
             | None, None => True
             | _, _ => False
             end).
Proof. exact owners2_hold_live_tokens. Qed.
Print Assumptions C15_owners_all_histories_many_sandboxes.

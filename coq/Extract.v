(* Extract.v — extraction of the executable models to OCaml (ExtrOcamlBasic only;
   Z, positive, N, nat stay the extracted inductives; no Extract Constant). *)
From Coq Require Extraction.
From Coq Require Import ExtrOcamlBasic.
From RLBoxV Require Import Machine Conv Conv_proofs.
Extraction Language OCaml.
Extraction "model.ml"
  Z.add Z.mul Z.sub Z.div_eucl Z.of_nat Z.to_nat Z.eqb Z.leb Z.ltb Z.opp
  all_ikinds ikind_eqb size signed lo hi in_range wrap w64
  conv conv_branch conv_spec conv_array conv_spec_list n2_pair memcpy_path
  sbx_equiv abi_host abi_lp32 abi_wide to_sbx to_app.

(* Extract.v — extraction of the executable models to OCaml (ExtrOcamlBasic only;
   Z, positive, N, nat stay the extracted inductives; no Extract Constant). *)
From Coq Require Extraction.
From Coq Require Import ExtrOcamlBasic.
From RLBoxV Require Import Machine Conv Conv_proofs Ptr Bulk Layout AppPtr AppPtr2 World Calls Calls_proofs Invoke Mem Ops Verify Casts ScopeExit Symbols FloatCmp.
Extraction Language OCaml.
Extraction "model.ml"
  Z.add Z.mul Z.sub Z.div_eucl Z.of_nat Z.to_nat Z.eqb Z.leb Z.ltb Z.opp Z.pow Z.modulo
  bind check
  all_ikinds ikind_eqb size signed lo hi in_range wrap w64 M64
  conv conv_branch conv_spec conv_array conv_spec_list n2_pair memcpy_path
  sbx_equiv abi_host abi_lp32 abi_wide to_sbx to_app conv_cell
  region_of same_sbx unsandbox sandbox_ptr unsandbox_noctx sandbox_ptr_noctx load_ptr_cell store_ptr_cell
  ptr_arith ptr_index_gen ptr_arith_spec arith_wraps arith_exact field_addr
  arr_index arr_index_spec arr_index_cell ptr_arith_cell check_range range_good range_inside range_outside
  assign_raw_pointer assign_raw_pointer_vol malloc_in_sandbox app_pointer_addr
  step_pop run_chain fields_safe field_safe rep_ok
  arith_form arith_form_spec form_n form_sub
  code_postdec_fixed code_index_nullcheck code_range_guarded
  rl_memset rl_memcpy rl_memcmp verify_range counted_good usp_because copy_or_deny copy_or_grant grant_or_copy deny_or_copy acc_good
  amap_init get_app_pointer_idx get_unused_index remove_app_ptr lookup_index astep arun
  ostep orun owner_at held live_tokens code_overwrite_releases ostep2 orun2 owner2_at map_at proj proj_op
  world_init wstep wstep_spec wstep_gen wrun cb_owner_at reachable owned_keys code_move_assign_releases
  invoke invoke_spec cv sv
  sx_run sx_step sx_init
  sstep srun sspec symw_init first_times
  fdecode fof_int fcompare ftruth wfcompare wfcompare_negating
  image to_opaque_img from_opaque_img sandbox_static_cast sandbox_ptr_cast sandbox_static_cast_mem sandbox_ptr_cast_mem opaque_to_sbx
  vrun cv_value cv_ptr cv_range cv_string_unique cv_string_std cmda cstrlen apply_muts cv_buffer_address cv_address cv_ptr_cell usp_cell cv_string_std_cell cv_string_unique_cell cv_range_cell cv_string_unique_cell_refetch cv_struct_ptr_cell
  cop cuop wbin wcompound ccompound cincdec wincdec code_postdec_ok common promote
  bytes_le le_val write read encode decode store_int load_int load_cv_ptr load_range range_footprint range_checked
  store_ptr load_ptr store_bits load_bits code_cv_reads_guest_width
  run spec nest closes crossings rans world_slot_of thread_states expected_states
  sizeof alignof offsets labi_host labi_lp32 labi_lp32_16 labi_wide labi_lp32_64.

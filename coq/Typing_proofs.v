(* Typing_proofs.v — composition: the per-entry obligations lift to every expression of any depth,
   for EVERY rule table *)
From RLBoxV Require Import Typing.

Fixpoint expr_ind' (P : expr -> Prop) (Hs : forall w, P (Src w)) (Ha : forall w, P (App w))
  (Ho : forall f es, Forall P es -> P (Op f es)) (e : expr) : P e :=
  match e with
  | Src w => Hs w | App w => Ha w
  | Op f es => Ho f es ((fix go (l : list expr) : Forall P l :=
                           match l with
                           | [] => Forall_nil P
                           | x :: tl => Forall_cons x (expr_ind' P Hs Ha Ho x) (go tl)
                           end) es)
  end.

Lemma kind_eqb_eq a b : kind_eqb a b = true -> a = b.
Proof. destruct a, b; cbn; congruence. Qed.
Lemma wt_eqb_eq a b : wt_eqb a b = true -> a = b.
Proof.
  destruct a as [ka ta], b as [kb tb]. unfold wt_eqb; cbn. intros H. apply andb_prop in H as [H1 H2].
  apply kind_eqb_eq in H1. apply Nat.eqb_eq in H2. subst. reflexivity.
Qed.
Lemma wts_eqb_eq a : forall b, wts_eqb a b = true -> a = b.
Proof.
  induction a as [|x xs IH]; intros [|y ys] H; cbn in H; try discriminate; [reflexivity|].
  apply andb_prop in H as [H1 H2]. apply wt_eqb_eq in H1. apply IH in H2. subst. reflexivity.
Qed.

Lemma lookup_spec tbl f ts en : lookup tbl f ts = Some en -> In en tbl /\ form en = f /\ args en = ts.
Proof.
  unfold lookup. intros H. apply find_some in H as [Hin Hb]. apply andb_prop in Hb as [H1 H2].
  apply Nat.eqb_eq in H1. apply wts_eqb_eq in H2. repeat split; assumption.
Qed.

Lemma seq_opt_map_nth {A B} (f : A -> option B) (l : list A) ts :
  seq_opt (map f l) = Some ts -> Forall2 (fun x t => f x = Some t) l ts.
Proof.
  revert ts. induction l as [|x tl IH]; intros ts H; cbn in H.
  - inversion H. constructor.
  - destruct (f x) as [t|] eqn:E; [|discriminate]. destruct (seq_opt (map f tl)) as [xs|]; [|discriminate].
    inversion H; subst. constructor; [exact E|apply IH; reflexivity].
Qed.

Section C01.
Variable declass : nat -> list wt -> bool.

Lemma exposed_child_wrapped tbl es ts :
  Forall2 (fun x t => ty tbl x = Some t) es ts ->
  (forall x, In x es -> wf x = true -> forall w, ty tbl x = Some w -> exposed_in declass tbl x = true ->
             wrapped w = true \/ is_void w = true) ->
  (forall x, In x es -> wf x = true) ->
  (forall t, In t ts -> negb (is_void t) = true) ->
  existsb (exposed_in declass tbl) es = true -> existsb wrapped ts = true.
Proof.
  induction 1 as [|y t ys tts Hy _ IHf]; intros IH Hwf Hv Hex; [discriminate|].
  cbn [existsb] in *. apply orb_prop in Hex as [Hex|Hex].
  - destruct (IH y (or_introl eq_refl) (Hwf y (or_introl eq_refl)) t Hy Hex) as [W|V].
    + rewrite W. reflexivity.
    + specialize (Hv t (or_introl eq_refl)). rewrite V in Hv. discriminate.
  - rewrite IHf; [apply orb_true_r| | | |exact Hex].
    + intros z Hz. apply IH. right. exact Hz.
    + intros z Hz. apply Hwf. right. exact Hz.
    + intros z Hz. apply Hv. right. exact Hz.
Qed.

Theorem composition_taint tbl :
  table_ok declass tbl = true ->
  forall e, wf e = true -> forall w, ty tbl e = Some w -> exposed_in declass tbl e = true ->
  wrapped w = true \/ is_void w = true.
Proof.
  intros Hok. induction e as [w0|w0|f es IH] using expr_ind'; intros Hwf w Hty Hex.
  - cbn in Hty. inversion Hty; subst. left. exact Hwf.
  - cbn in Hex. discriminate.
  - cbn [ty exposed_in wf] in *.
    destruct (seq_opt (map (ty tbl) es)) as [ts|] eqn:Ets; [|discriminate].
    destruct (lookup tbl f ts) as [en|] eqn:El; [|discriminate].
    destruct (lookup_spec _ _ _ _ El) as (Hin & Hf & Ha).
    destruct (declass f ts) eqn:Ed; [discriminate|].
    unfold table_ok in Hok. rewrite forallb_forall in Hok. specialize (Hok en Hin).
    apply andb_prop in Hok as [Hr Hv]. unfold rule_ok in Hr. rewrite Hf, Ha, Ed, Hty in Hr. cbn [orb] in Hr.
    (* some operand is exposed, hence wrapped *)
    assert (Hw : existsb wrapped ts = true).
    { unfold no_void_args in Hv. rewrite Ha in Hv. rewrite forallb_forall in Hv.
      rewrite Forall_forall in IH. rewrite forallb_forall in Hwf.
      apply (exposed_child_wrapped tbl es ts (seq_opt_map_nth (ty tbl) es ts Ets)); assumption. }
    rewrite Hw in Hr. cbn in Hr. apply orb_prop in Hr. exact Hr.
Qed.

(* the reading the property asks for: an expression whose value is a plain (non-void) application
   value has every sandbox-originated leaf underneath a declassifying node *)
Corollary plain_result_is_declassified tbl :
  table_ok declass tbl = true ->
  forall e w, wf e = true -> ty tbl e = Some w -> wrapped w = false -> is_void w = false ->
  exposed_in declass tbl e = false.
Proof.
  intros Hok e w Hwf Hty Hp Hv. destruct (exposed_in declass tbl e) eqn:E; [|reflexivity].
  destruct (composition_taint tbl Hok e Hwf w Hty E); congruence.
Qed.
End C01.

Section C02.
Variable is_sink : nat -> bool.
Variable forbidden : wt -> bool.
Variable checked_entry : nat -> bool.

Theorem composition_sinks tbl :
  forallb (sink_ok is_sink forbidden checked_entry) tbl = true ->
  forall e w, ty tbl e = Some w -> sinks_clean is_sink forbidden checked_entry tbl e = true.
Proof.
  intros Hok. induction e as [w0|w0|f es IH] using expr_ind'; intros w Hty; [reflexivity|reflexivity|].
  cbn [ty sinks_clean] in *.
  destruct (seq_opt (map (ty tbl) es)) as [ts|] eqn:Ets; [|discriminate].
  destruct (lookup tbl f ts) as [en|] eqn:El; [|discriminate].
  destruct (lookup_spec _ _ _ _ El) as (Hin & Hf & Ha).
  rewrite forallb_forall in Hok. specialize (Hok en Hin). unfold sink_ok in Hok. rewrite Hf, Ha, Hty in Hok.
  apply andb_true_intro. split.
  - pose proof (seq_opt_map_nth (ty tbl) es ts Ets) as F2. rewrite Forall_forall in IH.
    apply forallb_forall. intros x Hx. clear - F2 Hx IH.
    induction F2 as [|y t ys tts Hy _ IHf]; [destruct Hx|].
    destruct Hx as [->|Hx]; [eapply IH; [left; reflexivity|exact Hy]|].
    apply IHf; [|exact Hx]. intros z Hz. apply IH. right. exact Hz.
  - rewrite orb_false_r in Hok. exact Hok.
Qed.
End C02.

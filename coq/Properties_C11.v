(* Properties_C11.v — C11: sandbox function invocation delivers arguments and results
   faithfully.  For EVERY signature (parameter lists of any length over integers of every
   kind, enum/float/double, data pointers, function pointers, by-value structs nested to any
   depth), every ABI satisfying abi_ok, every region, every well-typed argument list and
   guest result.  Statements only. *)
From RLBoxV Require Import Invoke Invoke_proofs Conv_proofs World.
Local Open Scope Z_scope.

(* what the code computes (invoke: per-argument convert_type TO_SANDBOX through the wrapper's
   UNSAFE_sandboxed, one call, convert_type TO_APPLICATION of the result) is what C11 demands
   (invoke_spec: the guest sees exactly the argument values in its own ABI, pointers as
   (address - base) with null as 0, or the invocation aborts before the call when one integer is
   not representable; the result is the guest value or an abort) *)
Theorem C11_invoke_faithful : forall a s sig args retk gret,
  abi_ok a = true ->
  wt_list a true sig args ->
  match retk with Some rk => wt a false rk gret | None => True end ->
  invoke a s sig args retk gret = invoke_spec a s sig args retk gret.
Proof. intros a s sig args retk gret Ha Hw Hr. exact (invoke_correct a s Ha sig args retk gret Hw Hr). Qed.
Print Assumptions C11_invoke_faithful.

(* exactly one call when every argument is representable, none otherwise *)
Theorem C11_call_count : forall a s sig args retk gret o,
  invoke a s sig args retk gret = Some o -> (calls o <= 1)%nat /\ (calls o = 0%nat <-> o = IAbortBefore).
Proof. intros. destruct o; cbn; split; try lia; split; congruence. Qed.

(* symbol addresses cached for one instance are invisible to every other instance, and the cache
   used by invocation is independent of the one used for function addresses (fixed defect D11) *)
Theorem C11_instance_isolation : forall w i j name, i <> j ->
  get_sb (fst (lookup_op w i name)) j = get_sb w j /\ get_sb (fst (ilookup_op w i name)) j = get_sb w j.
Proof. exact lookup_other_instance. Qed.
Theorem C11_fn_address_order_independent : forall w i name,
  icache (get_sb (fst (lookup_op w i name)) i) = icache (get_sb w i) /\
  cache (get_sb (fst (ilookup_op w i name)) i) = cache (get_sb w i).
Proof. exact lookup_kinds_independent. Qed.
Print Assumptions C11_instance_isolation.

(* non-vacuity: a 4-parameter signature with a struct under the LP32-like ABI; one call with a
   representable list, one with a long that does not fit the guest's 32-bit long *)
Theorem C11_example :
  let s := {| rbase := 2^44; rsize := 2^32 |} in
  let sig := [KInt ILong; KPtr; KStruct [KInt IUShort; KPtr; KInt ILLong]; KBits] in
  invoke abi_lp32 s sig [VInt (-5); VPtr (2^44 + 64); VStruct [VInt 65535; VPtr 0; VInt (2^40)]; VInt 77] (Some (KInt ILong)) (VInt (-1))
    = Some (ICalled [VInt (-5); VPtr 64; VStruct [VInt 65535; VPtr 0; VInt (2^40)]; VInt 77] (Ok (Some (VInt (-1))))) /\
  invoke abi_lp32 s sig [VInt (2^31); VPtr 0; VStruct [VInt 0; VPtr 0; VInt 0]; VInt 0] None (VInt 0) = Some IAbortBefore.
Proof. vm_compute. split; reflexivity. Qed.

(* Properties_C11.v — C11: sandbox function invocation delivers arguments and results
   faithfully.  For EVERY signature (parameter lists of any length over integers of every
   kind, enum/float/double, data pointers, function pointers, by-value structs nested to any
   depth), every ABI satisfying abi_ok, every region, every well-typed argument list and
   guest result.  Statements only. *)
From RLBoxV Require Import Invoke Invoke_proofs Conv_proofs World Symbols Symbols_proofs.
Local Open Scope Z_scope.

(* what the code computes (invoke: per-argument convert_type TO_SANDBOX through the wrapper's
   UNSAFE_sandboxed, one call, convert_type TO_APPLICATION of the result) is what C11 demands
   (invoke_spec: the guest sees exactly the argument values in its own ABI, pointers as
   (address - base) with null as 0, or the invocation aborts before the call when one integer is
   not representable; the result is the guest value or an abort) *)
Theorem C11_invoke_faithful : forall a s sig args retk gret,
  abi_ok a = true ->
  wt_list a true sig args ->
  match retk with Some rk => wt a false rk gret | None => True end ->
  invoke a s sig args retk gret = invoke_spec a s sig args retk gret.
Proof. intros a s sig args retk gret Ha Hw Hr. exact (invoke_correct a s Ha sig args retk gret Hw Hr). Qed.
Print Assumptions C11_invoke_faithful.

(* exactly one call when every argument is representable, none otherwise *)
Theorem C11_call_count : forall a s sig args retk gret o,
  invoke a s sig args retk gret = Some o -> (calls o <= 1)%nat /\ (calls o = 0%nat <-> o = IAbortBefore).
Proof. intros. destruct o; cbn; split; try lia; split; congruence. Qed.

(* symbol addresses cached for one instance are invisible to every other instance, and the cache
   used by invocation is independent of the one used for function addresses (fixed defect D11) *)
Theorem C11_instance_isolation : forall w i j name, i <> j ->
  get_sb (fst (lookup_op w i name)) j = get_sb w j /\ get_sb (fst (ilookup_op w i name)) j = get_sb w j.
Proof. exact lookup_other_instance. Qed.
Theorem C11_fn_address_order_independent : forall w i name,
  icache (get_sb (fst (lookup_op w i name)) i) = icache (get_sb w i) /\
  cache (get_sb (fst (ilookup_op w i name)) i) = cache (get_sb w i).
Proof. exact lookup_kinds_independent. Qed.
Print Assumptions C11_instance_isolation.

(* the caches with their contents (name -> address), any number of instances each bound to its own library
   [lib i]: after EVERY history of by-name invocations (public cache) and function-address requests (internal
   cache) on any instances, each lookup yields the address of the named function in the library of the instance
   asked - never one resolved for another instance, whatever was invoked or asked before or after - *)
Theorem C11_symbol_of_own_library : forall (lib : nat -> Z -> Z) n ops,
  forallb (op_in_range n) ops = true ->
  map snd (snd (srun lib false (symw_init n) ops)) = sspec lib ops.
Proof.
  intros lib n ops H. apply srun_addresses; [apply sinv_init|].
  unfold symw_init. rewrite repeat_length. exact H.
Qed.
Print Assumptions C11_symbol_of_own_library.
(* - and the back end is asked exactly at the first lookup of each (kind of lookup, instance, name) *)
Theorem C11_backend_asked_once : forall (lib : nat -> Z -> Z) n ops,
  forallb (op_in_range n) ops = true ->
  map fst (snd (srun lib false (symw_init n) ops)) = first_times [] ops.
Proof.
  intros lib n ops H. apply srun_asked; [apply cached_keys_init|].
  unfold symw_init. rewrite repeat_length. exact H.
Qed.
Print Assumptions C11_backend_asked_once.
(* one process-wide pair of caches would hand instance 1 the address resolved for instance 0 *)
Theorem C11_shared_cache_refuted :
  let lib := fun (i : nat) (n : Z) => 4096 + 256 * Z.of_nat i + n in
  map snd (snd (srun lib true (symw_init 2) [SLook SInt 0 5; SLook SInt 1 5])) <> sspec lib [SLook SInt 0 5; SLook SInt 1 5].
Proof. exact shared_cache_refuted. Qed.

(* non-vacuity: a 4-parameter signature with a struct under the LP32-like ABI; one call with a
   representable list, one with a long that does not fit the guest's 32-bit long *)
Theorem C11_example :
  let s := {| rbase := 2^44; rsize := 2^32 |} in
  let sig := [KInt ILong; KPtr; KStruct [KInt IUShort; KPtr; KInt ILLong]; KBits] in
  invoke abi_lp32 s sig [VInt (-5); VPtr (2^44 + 64); VStruct [VInt 65535; VPtr 0; VInt (2^40)]; VInt 77] (Some (KInt ILong)) (VInt (-1))
    = Some (ICalled [VInt (-5); VPtr 64; VStruct [VInt 65535; VPtr 0; VInt (2^40)]; VInt 77] (Ok (Some (VInt (-1))))) /\
  invoke abi_lp32 s sig [VInt (2^31); VPtr 0; VStruct [VInt 0; VPtr 0; VInt 0]; VInt 0] None (VInt 0) = Some IAbortBefore.
Proof. vm_compute. split; reflexivity. Qed.

(* Ptr_proofs.v — lemmas about Ptr.v *)
From RLBoxV Require Import Ptr.
Local Open Scope Z_scope.

Lemma inr_iff r a : inr r a = true <-> rbase r <= a < rbase r + rsize r.
Proof. unfold inr; rewrite andb_true_iff, Z.leb_le, Z.ltb_lt; tauto. Qed.

Lemma inr_false_iff r a : inr r a = false <-> ~ (rbase r <= a < rbase r + rsize r).
Proof. rewrite <- inr_iff; destruct (inr r a); intuition congruence. Qed.

Lemma region_of_some l a r : region_of l a = Some r -> In r l /\ inr r a = true.
Proof.
  induction l as [|x tl IH]; cbn [region_of]; [discriminate|].
  destruct (inr x a) eqn:E; intros H.
  - inversion H; subst; split; [left; reflexivity | assumption].
  - destruct (IH H); split; [right|]; assumption.
Qed.

Lemma region_of_none l a : region_of l a = None -> forall r, In r l -> inr r a = false.
Proof.
  induction l as [|x tl IH]; cbn [region_of]; intros H r Hin; [destruct Hin|].
  destruct (inr x a) eqn:E; [discriminate|].
  destruct Hin as [->|Hin]; [assumption | apply IH; assumption].
Qed.

Lemma disjoint_not_both r1 r2 a :
  region_ok r1 -> region_ok r2 -> disjoint r1 r2 -> inr r1 a = true -> inr r2 a = true -> False.
Proof. unfold disjoint, region_ok; rewrite !inr_iff; lia. Qed.

Lemma world_ok_in l r : world_ok l -> In r l -> region_ok r.
Proof.
  induction l as [|x tl IH]; cbn [world_ok]; intros H Hin; [destruct Hin|].
  destruct H as (Hx & _ & Htl); destruct Hin as [->|Hin]; auto.
Qed.

(* in a well-formed world the region containing an address is unique *)
Lemma region_of_unique l r a :
  world_ok l -> In r l -> inr r a = true -> region_of l a = Some r.
Proof.
  induction l as [|x tl IH]; cbn [world_ok region_of]; intros H Hin Ha; [destruct Hin|].
  destruct H as (Hx & Hd & Htl).
  destruct Hin as [->|Hin].
  - rewrite Ha; reflexivity.
  - destruct (inr x a) eqn:E; [|apply IH; assumption].
    exfalso. rewrite Forall_forall in Hd.
    exact (disjoint_not_both x r a Hx (world_ok_in tl r Htl Hin) (Hd r Hin) E Ha).
Qed.

Lemma obase_pos l a r : world_ok l -> region_of l a = Some r -> 0 < obase (region_of l a).
Proof.
  intros Hw H; rewrite H; cbn. destruct (region_of_some l a r H) as [Hin _].
  destruct (world_ok_in l r Hw Hin); assumption.
Qed.

(* two distinct regions of a well formed world have distinct bases *)
Lemma same_base_same_region l r1 r2 :
  world_ok l -> In r1 l -> In r2 l -> rbase r1 = rbase r2 -> r1 = r2.
Proof.
  induction l as [|x tl IH]; cbn [world_ok]; intros H H1 H2 Hb; [destruct H1|].
  destruct H as (Hx & Hd & Htl). rewrite Forall_forall in Hd.
  destruct H1 as [->|H1], H2 as [->|H2]; auto.
  - exfalso. pose proof (Hd r2 H2) as D. pose proof (world_ok_in tl r2 Htl H2) as O2.
    unfold disjoint, region_ok in *; lia.
  - exfalso. pose proof (Hd r1 H1) as D. pose proof (world_ok_in tl r1 Htl H1) as O1.
    unfold disjoint, region_ok in *; lia.
Qed.

(* same_sbx with a pointer known to be in s: true iff the other address is in s *)
Lemma same_sbx_in l s p t :
  world_ok l -> In s l -> inr s p = true -> (same_sbx l p t = true <-> inr s t = true).
Proof.
  intros Hw Hin Hp. unfold same_sbx.
  rewrite (region_of_unique l s p Hw Hin Hp); cbn [obase].
  destruct (region_of l t) as [r|] eqn:E; cbn [obase].
  - destruct (region_of_some l t r E) as [Hr Ht].
    rewrite Z.eqb_eq. split.
    + intros Hb. rewrite (same_base_same_region l s r Hw Hin Hr Hb). exact Ht.
    + intros Hs. pose proof (region_of_unique l s t Hw Hin Hs) as U. congruence.
  - pose proof (region_of_none l t E s Hin) as N. rewrite N.
    destruct (world_ok_in l s Hw Hin) as (Hpos & _). rewrite Z.eqb_eq. split; [lia|discriminate].
Qed.

(* same_sbx with a pointer in no region: true iff the other is in no region *)
Lemma same_sbx_out l p t :
  world_ok l -> region_of l p = None -> (same_sbx l p t = true <-> region_of l t = None).
Proof.
  intros Hw Hp. unfold same_sbx. rewrite Hp; cbn [obase].
  destruct (region_of l t) as [r|] eqn:E; cbn [obase].
  - pose proof (obase_pos l t r Hw E) as P. rewrite E in P; cbn in P.
    rewrite Z.eqb_eq. split; [lia|discriminate].
  - rewrite Z.eqb_eq; tauto.
Qed.

Lemma world_ok_single s : region_ok s -> world_ok [s].
Proof. intros H; cbn [world_ok]; repeat split; try apply H; constructor. Qed.

Definition demo_region : region := {| rbase := 2^44; rsize := 2^32 |}.
Lemma demo_region_ok : region_ok demo_region.
Proof. unfold region_ok, demo_region; cbn [rbase rsize]; repeat split; vm_compute; congruence. Qed.
Lemma demo_world_ok : world_ok [demo_region].
Proof. apply world_ok_single, demo_region_ok. Qed.

(* ---------------- C04: representation conversion ---------------- *)
Lemma roundtrip_rep s r :
  region_ok s -> 0 <= r < rsize s -> sandbox_ptr s (unsandbox s r) = r.
Proof.
  intros (Hb & _ & _) Hr. unfold unsandbox, sandbox_ptr, impl_unsandbox, impl_sandbox.
  destruct (Z.eqb_spec r 0) as [->|Hn]; [reflexivity|].
  destruct (Z.eqb_spec (rbase s + r) 0) as [E|E]; [lia|].
  replace (rbase s + r - rbase s) with r by lia. apply Z.mod_small; assumption.
Qed.

(* every offset except 0: offset 0 is the guest's null by construction of the representation *)
Lemma roundtrip_addr s a :
  region_ok s -> inr s a = true -> a <> rbase s -> unsandbox s (sandbox_ptr s a) = a.
Proof.
  intros (Hb & Hs & _) Ha Hne. apply inr_iff in Ha.
  unfold unsandbox, sandbox_ptr, impl_unsandbox, impl_sandbox.
  destruct (Z.eqb_spec a 0) as [->|Hn]; [lia|].
  rewrite (Z.mod_small (a - rbase s)) by lia.
  destruct (Z.eqb_spec (a - rbase s) 0); lia.
Qed.

Lemma first_byte_is_guest_null s : region_ok s -> sandbox_ptr s (rbase s) = 0.
Proof.
  intros (Hb & Hs & _). unfold sandbox_ptr, impl_sandbox.
  destruct (Z.eqb_spec (rbase s) 0); [reflexivity|].
  rewrite Z.sub_diag. apply Z.mod_0_l; lia.
Qed.

Lemma null_paths l s ex :
  unsandbox s 0 = 0 /\ sandbox_ptr s 0 = 0 /\
  unsandbox_noctx l 0 ex = Ok 0 /\ sandbox_ptr_noctx l 0 ex = Ok 0 /\
  load_ptr_cell l ex 0 = Ok 0 /\ store_ptr_cell l ex 0 = Ok 0.
Proof. repeat split. Qed.

Lemma nonnull_rep_nonnull_addr s r :
  region_ok s -> 0 < r < rsize s -> unsandbox s r <> 0 /\ inr s (unsandbox s r) = true.
Proof.
  intros (Hb & Hs & _) Hr. unfold unsandbox, impl_unsandbox.
  destruct (Z.eqb_spec r 0); [lia|]. split; [lia|]. apply inr_iff; lia.
Qed.

Lemma nonnull_addr_nonnull_rep s a :
  region_ok s -> inr s a = true -> a <> rbase s -> sandbox_ptr s a <> 0.
Proof.
  intros (Hb & Hs & _) Ha Hne. apply inr_iff in Ha. unfold sandbox_ptr, impl_sandbox.
  destruct (Z.eqb_spec a 0); [lia|]. rewrite Z.mod_small by lia. lia.
Qed.

(* per-sandbox: with any set of live sandboxes, a cell in sandbox s is translated with s *)
Lemma cell_uses_own_sandbox l s cell :
  world_ok l -> In s l -> inr s cell = true ->
  (forall rep, load_ptr_cell l cell rep = Ok (unsandbox s rep)) /\
  (forall a, store_ptr_cell l cell a = Ok (sandbox_ptr s a)).
Proof.
  intros Hw Hin Hc. pose proof (region_of_unique l s cell Hw Hin Hc) as U.
  unfold load_ptr_cell, store_ptr_cell, unsandbox_noctx, sandbox_ptr_noctx, unsandbox, sandbox_ptr.
  rewrite U. split; intros x; destruct (x =? 0); reflexivity.
Qed.

Lemma find_iff l s a :
  world_ok l -> In s l -> (region_of l a = Some s <-> inr s a = true).
Proof.
  intros Hw Hin; split.
  - intros H; exact (proj2 (region_of_some l a s H)).
  - apply region_of_unique; assumption.
Qed.

(* ---------------- C05: pointer arithmetic ---------------- *)
Lemma arith_target_mod sub p n stride :
  arith_target sub p n stride = w64 (arith_exact sub p n stride).
Proof.
  unfold arith_target, arith_exact, w64, M64. destruct sub.
  - rewrite Zminus_mod_idemp_r. rewrite <- Zminus_mod_idemp_r.
    rewrite Zmult_mod_idemp_l. rewrite Zminus_mod_idemp_r. reflexivity.
  - rewrite Zplus_mod_idemp_r. rewrite <- Zplus_mod_idemp_r.
    rewrite Zmult_mod_idemp_l. rewrite Zplus_mod_idemp_r. reflexivity.
Qed.

Lemma ptr_arith_null l sub n stride : ptr_arith l sub 0 n stride = Abort.
Proof. reflexivity. Qed.

Lemma ptr_arith_never_outside l s sub p n stride t :
  world_ok l -> In s l -> inr s p = true ->
  ptr_arith l sub p n stride = Ok t -> inr s t = true.
Proof.
  intros Hw Hin Hp. unfold ptr_arith.
  destruct (negb (p =? 0)); cbn [check bind]; [|discriminate].
  destruct (same_sbx l p (arith_target sub p n stride)) eqn:E; cbn [check bind]; [|discriminate].
  intros H; inversion H; subst. apply (same_sbx_in l s p _ Hw Hin Hp); assumption.
Qed.

Lemma ptr_arith_exact l s sub p n stride :
  world_ok l -> In s l -> inr s p = true ->
  arith_wraps sub p n stride = false ->
  ptr_arith l sub p n stride = ptr_arith_spec l sub p n stride.
Proof.
  intros Hw Hin Hp Hnw. unfold ptr_arith, ptr_arith_spec.
  destruct (world_ok_in l s Hw Hin) as (Hb & _). apply inr_iff in Hp as Hp'.
  destruct (Z.eqb_spec p 0) as [->|Hne]; [lia|]. cbn [negb check bind].
  unfold arith_wraps in Hnw. apply negb_false_iff in Hnw. rewrite Hnw. cbn [andb].
  apply andb_prop in Hnw as [H1 H2]. apply Z.leb_le in H1. apply Z.ltb_lt in H2.
  rewrite arith_target_mod. rewrite (w64_small _ (conj H1 H2)).
  destruct (same_sbx l p (arith_exact sub p n stride)); reflexivity.
Qed.

(* operator[] with the null check (current code after the fix) *)
Lemma ptr_index_checked_eq l p n stride :
  ptr_index_gen true l p n stride = ptr_arith l false p n stride.
Proof. reflexivity. Qed.

(* D3: kept visible *)
Definition ptr_arith_exact_full : Prop :=
  forall l s sub p n stride, world_ok l -> In s l -> inr s p = true ->
  ptr_arith l sub p n stride = ptr_arith_spec l sub p n stride.
Lemma ptr_arith_exact_full_refuted : ~ ptr_arith_exact_full.
Proof.
  intros H.
  specialize (H [demo_region] demo_region false (2^44 + 16) (2^62) 4 demo_world_ok (or_introl eq_refl) eq_refl).
  vm_compute in H. discriminate.
Qed.

(* ---------------- C17: array indexing ---------------- *)
Lemma unsigned_of_wrap_id k n :
  k <> IBool -> in_range k n = true -> 0 <= n -> wrap (unsigned_of k) n = n.
Proof.
  intros Hk Hr Hn. apply wrap_id.
  unfold in_range in *. apply andb_prop in Hr as [H1 H2].
  apply Z.leb_le in H1. apply Z.leb_le in H2.
  apply andb_true_intro; rewrite !Z.leb_le.
  destruct k; try congruence; cbv [unsigned_of lo hi signed bits size] in *; cbn in *; lia.
Qed.

Lemma arr_index_correct k n len start elsize :
  k <> IBool -> in_range k n = true ->
  arr_index k n len start elsize = arr_index_spec n len start elsize.
Proof.
  intros Hk Hr. unfold arr_index, arr_index_spec.
  destruct (Z.leb_spec 0 n) as [Hn|Hn]; cbn [andb check bind]; [|reflexivity].
  rewrite (unsigned_of_wrap_id k n Hk Hr Hn).
  destruct (n <? len); reflexivity.
Qed.

Lemma arr_index_designates n len start elsize a :
  0 < elsize -> arr_index_spec n len start elsize = Ok a ->
  start <= a /\ a + elsize <= start + len * elsize /\ a = start + n * elsize /\ 0 <= n < len.
Proof.
  unfold arr_index_spec. intros He.
  destruct (Z.leb_spec 0 n) as [Hn|Hn]; destruct (Z.ltb_spec n len) as [Hl|Hl]; cbn [andb]; try discriminate.
  intros Heq; inversion Heq; subst. nia.
Qed.



(* ---------------- C03: the invariant along chains ---------------- *)
Lemma unsandbox_inv s r : region_ok s -> 0 <= r < rsize s -> ptr_inv s (unsandbox s r).
Proof.
  intros Hs Hr. unfold ptr_inv, unsandbox, impl_unsandbox.
  destruct (Z.eqb_spec r 0); [left; reflexivity|]. right. apply inr_iff. lia.
Qed.

Lemma step_pop_inv idxchk l s p o q :
  world_ok l -> In s l -> ptr_inv s p -> rep_ok s o = true ->
  (match o with
   | OpField off => field_safe s p off = true
   | OpElem i len elsz => field_safe s p (i * elsz) = true
   | _ => True end) ->
  (idxchk = true \/ p <> 0) ->
  step_pop idxchk l s p o = Ok q -> ptr_inv s q.
Proof.
  intros Hw Hin Hp Hrep Hf Hidx.
  pose proof (world_ok_in l s Hw Hin) as Hs.
  destruct o; cbn [step_pop rep_ok] in *.
  - (* arith *) intros H. destruct Hp as [->|Hp]; [rewrite ptr_arith_null in H; discriminate|].
    right. eapply ptr_arith_never_outside; eauto.
  - (* index *) intros H.
    destruct Hp as [->|Hp].
    + destruct Hidx as [->|Hne]; [|congruence]. cbn in H. discriminate.
    + right. unfold ptr_index_gen in H.
      destruct (negb idxchk || negb (p =? 0)); cbn [check bind] in H; [|discriminate].
      destruct (same_sbx l p (arith_target false p n stride)) eqn:E; cbn [check bind] in H; [|discriminate].
      inversion H; subst. apply (same_sbx_in l s p _ Hw Hin Hp); assumption.
  - (* field *) intros H; inversion H; subst. unfold field_safe in Hf.
    apply andb_prop in Hf as [_ Hf]. right. unfold field_addr.
    rewrite w64_small; [exact Hf|].
    destruct Hs as (B0 & S0 & E0). unfold inr in Hf. apply andb_prop in Hf as [F1 F2].
    apply Z.leb_le in F1. apply Z.ltb_lt in F2. lia.
  - (* element of an array through a pointer *)
    unfold arr_index. destruct ((0 <=? i) && (wrap (unsigned_of IULong) i <? len)); cbn [check bind]; [|discriminate].
    intros H; inversion H; subst. unfold field_safe in Hf.
    apply andb_prop in Hf as [_ Hf]. right.
    rewrite w64_small; [exact Hf|].
    destruct Hs as (B0 & S0 & E0). unfold inr in Hf. apply andb_prop in Hf as [F1 F2].
    apply Z.leb_le in F1. apply Z.ltb_lt in F2. lia.
  - (* cast *) intros H; inversion H; subst; assumption.
  - (* load pointer cell *)
    destruct (Z.eqb_spec p 0) as [->|Hne]; [discriminate|].
    destruct Hp as [->|Hp]; [congruence|].
    destruct (cell_uses_own_sandbox l s p Hw Hin Hp) as [Hl _]. rewrite Hl.
    intros H; inversion H; subst. apply unsandbox_inv; [assumption|].
    apply andb_prop in Hrep as [H1 H2]. apply Z.leb_le in H1. apply Z.ltb_lt in H2. lia.
  - (* from guest *) intros H; inversion H; subst. apply unsandbox_inv; [assumption|].
    apply andb_prop in Hrep as [H1 H2]. apply Z.leb_le in H1. apply Z.ltb_lt in H2. lia.
  - (* malloc *) unfold malloc_in_sandbox. cbn [negb].
    destruct (negb (count =? 0)); cbn [check bind]; [|discriminate].
    destruct (Z.eqb_spec (unsandbox s ret) 0) as [E|E]; [intros H; inversion H; left; reflexivity|].
    destruct (inr s (unsandbox s ret)) eqn:I; cbn [check bind]; [|discriminate].
    destruct (same_sbx l _ _); cbn [check bind]; [|discriminate].
    intros H; inversion H; subst. right; assumption.
  - (* assign raw *) unfold assign_raw_pointer.
    destruct (inr s a) eqn:I; cbn [check bind]; [|discriminate].
    intros H; inversion H; subst. right; assumption.
  - (* app pointer *) unfold app_pointer_addr.
    destruct (inr s (impl_unsandbox s idx)) eqn:I; cbn [check bind]; [|discriminate].
    intros H; inversion H; subst. right; assumption.
  - intros H; inversion H; left; reflexivity.
Qed.

(* with the operator[] null check in place: every chain, any length *)
Lemma chain_inv l s ops : forall p q,
  world_ok l -> In s l -> ptr_inv s p -> forallb (rep_ok s) ops = true ->
  fields_safe true l s p ops = true ->
  run_chain true l s p ops = Ok q -> ptr_inv s q.
Proof.
  induction ops as [|o tl IH]; cbn [run_chain fields_safe forallb]; intros p q Hw Hin Hp Hrep Hfs Hrun.
  - inversion Hrun; subst; assumption.
  - apply andb_prop in Hrep as [Hr1 Hr2]. apply andb_prop in Hfs as [Hf1 Hf2].
    destruct (step_pop true l s p o) as [p'| | |] eqn:E; cbn [bind] in Hrun; try discriminate.
    apply (IH p' q Hw Hin); try assumption.
    eapply (step_pop_inv true l s p o p'); eauto.
    destruct o; auto.
Qed.

(* D5 kept visible: unguarded field/element addresses break the invariant *)
Definition chain_inv_full : Prop :=
  forall l s ops p q, world_ok l -> In s l -> ptr_inv s p -> forallb (rep_ok s) ops = true ->
  run_chain true l s p ops = Ok q -> ptr_inv s q.
Lemma chain_inv_full_refuted : ~ chain_inv_full.
Proof.
  intros H.
  (* through null *)
  specialize (H [demo_region] demo_region [OpField 4] 0 4 demo_world_ok (or_introl eq_refl) (or_introl eq_refl) eq_refl eq_refl).
  destruct H as [H|H]; vm_compute in H; discriminate.
Qed.
Lemma chain_inv_full_refuted_at_end :
  exists l s ops q, world_ok l /\ In s l /\ forallb (rep_ok s) ops = true /\
    run_chain true l s 0 ops = Ok q /\ ~ ptr_inv s q.
Proof.
  exists [demo_region], demo_region, [OpFromGuest (2^32 - 1); OpField 4], (2^44 + 2^32 + 3).
  split; [exact demo_world_ok|].
  split; [left; reflexivity|]. split; [reflexivity|]. split; [reflexivity|].
  intros [H|H]; vm_compute in H; discriminate.
Qed.

(* before the fix: operator[] on null (D4) *)
Lemma chain_unchecked_index_refuted :
  exists l s q, world_ok l /\ In s l /\ run_chain false l s 0 [OpIndex 3 4] = Ok q /\ ~ ptr_inv s q.
Proof.
  exists [demo_region], demo_region, 12. split; [exact demo_world_ok|].
  split; [left; reflexivity|]. split; [reflexivity|].
  intros [H|H]; vm_compute in H; discriminate.
Qed.

(* the plug-in obligation: if some representation translates outside the region
   (as with the 4 KiB mask sandbox of the test-suite) the invariant fails at once *)
Lemma needs_total_translation :
  exists s r, region_ok s /\ 0 <= r < 2^32 /\ ~ ptr_inv s (unsandbox s r).
Proof.
  exists {| rbase := 2^44; rsize := 4096 |}, 5000.
  split; [unfold region_ok; cbn [rbase rsize]; repeat split; vm_compute; congruence|]. split; [lia|].
  intros [H|H]; vm_compute in H; discriminate.
Qed.

(* ---------------- C05: all operator forms ---------------- *)
Lemma arith_form_exact l s f p n stride :
  world_ok l -> In s l -> inr s p = true ->
  arith_wraps (form_sub f) p (form_n f n) stride = false ->
  arith_form true true l f p n stride = arith_form_spec l f p n stride.
Proof.
  intros Hw Hin Hp Hnw.
  destruct f; cbn [arith_form arith_form_spec form_sub form_n] in *;
    rewrite ?ptr_index_checked_eq;
    rewrite (ptr_arith_exact l s _ p _ stride Hw Hin Hp Hnw); reflexivity.
Qed.

Lemma arith_form_never_outside po ic l s f p n stride r o :
  world_ok l -> In s l -> inr s p = true ->
  arith_form po ic l f p n stride = Ok (r, o) -> inr s r = true /\ inr s o = true.
Proof.
  intros Hw Hin Hp.
  assert (A : forall sub m q, ptr_arith l sub p m stride = Ok q -> inr s q = true)
    by (intros; eapply ptr_arith_never_outside; eauto).
  destruct f; cbn [arith_form];
    try (match goal with |- context [ptr_arith l ?sb p ?m stride] =>
           destruct (ptr_arith l sb p m stride) as [q| | |] eqn:E; cbn [bind]; try discriminate;
           intros H; injection H as <- <-; split; try assumption; eapply A; eauto end).
  (* index *)
  unfold ptr_index_gen.
  destruct (negb ic || negb (p =? 0)); cbn [check bind]; [|discriminate].
  destruct (same_sbx l p (arith_target false p n stride)) eqn:E; cbn [check bind]; [|discriminate].
  intros H; injection H as <- <-. split; [|assumption].
  apply (same_sbx_in l s p _ Hw Hin Hp); assumption.
Qed.

(* D1: before the fix post-decrement moved forward *)
Lemma postdec_unfixed_refuted :
  exists l s p stride, world_ok l /\ In s l /\ inr s p = true /\
    arith_form false true l FPostDec p 0 stride <> arith_form_spec l FPostDec p 0 stride.
Proof.
  exists [demo_region], demo_region, (2^44 + 64), 4.
  split; [exact demo_world_ok|]. split; [left; reflexivity|]. split; [reflexivity|].
  vm_compute. discriminate.
Qed.

Lemma radd_before_fix_refuted :
  let r := {| rbase := 2^44; rsize := 65536 |} in
  radd_before_fix (2^44 + 65528) 3 8 = Ok (2^44 + 65552) /\
  ptr_arith_spec [r] false (2^44 + 65528) 3 4 = Abort /\
  ptr_arith [r] false (2^44 + 65528) 3 4 = Abort /\
  radd_before_fix 0 5 8 = Ok 40 /\ ptr_arith [r] false 0 5 4 = Abort.
Proof. vm_compute. repeat split; reflexivity. Qed.

(* ---------- operands held in sandbox memory ---------- *)
Lemma arr_index_cell_inside k f len start elsize a :
  k <> IBool -> in_range k (f 0%nat) = true -> 0 < elsize ->
  arr_index_cell k f len start elsize = Ok a ->
  start <= a /\ a + elsize <= start + len * elsize /\ a = start + f 0%nat * elsize.
Proof.
  intros Hk Hr He H. unfold arr_index_cell in H. rewrite (arr_index_correct k _ len start elsize Hk Hr) in H.
  change (arr_index_spec (f 0%nat) len start elsize = Ok a) in H.
  destruct (arr_index_designates _ _ _ _ _ He H) as (A & B & C & _). repeat split; assumption.
Qed.

Lemma arr_index_cell_later_reads_irrelevant k f g len start elsize :
  f 0%nat = g 0%nat -> arr_index_cell k f len start elsize = arr_index_cell k g len start elsize.
Proof. intros E. unfold arr_index_cell. rewrite E. reflexivity. Qed.

Lemma arr_index_cell_refetch_escapes :
  exists f a, arr_index_cell_refetch IInt f 4 1000 4 = Ok a /\ in_range IInt (f 0%nat) = true /\ ~ (1000 <= a /\ a + 4 <= 1000 + 4 * 4).
Proof. exists (fun i => match i with O => 3 | _ => 4096 end). eexists. vm_compute. split; [reflexivity|]. split; [reflexivity|]. intros [A B]. apply B. reflexivity. Qed.

Lemma ptr_arith_cell_never_outside l s sub p f stride t :
  world_ok l -> In s l -> inr s p = true -> ptr_arith_cell l sub p f stride = Ok t -> inr s t = true.
Proof. intros W I P H. exact (ptr_arith_never_outside l s sub p (f 0%nat) stride t W I P H). Qed.

Lemma ptr_arith_cell_refetch_escapes :
  exists f t, world_ok [demo_region] /\ inr demo_region (2^44 + 64) = true /\
    ptr_arith_cell_refetch [demo_region] false (2^44 + 64) f 4 = Ok t /\ inr demo_region t = false.
Proof.
  exists (fun i => match i with O => 1 | _ => 2^40 end). exists (2^44 + 64 + 2^42). split; [exact demo_world_ok|].
  split; [vm_compute; reflexivity|]. split; vm_compute; reflexivity.
Qed.

(* a data pointer passed to a callback (C12) *)
Lemma cb_ptr_param s rep : region_ok s -> 0 <= rep < rsize s ->
  (unsandbox s rep = 0 <-> rep = 0) /\ ptr_inv s (unsandbox s rep) /\ sandbox_ptr s (unsandbox s rep) = rep.
Proof.
  intros Hs Hr. split; [|split; [exact (unsandbox_inv s rep Hs Hr)|exact (roundtrip_rep s rep Hs Hr)]].
  unfold unsandbox, impl_unsandbox. destruct Hs as (Hb & _ & _).
  destruct (Z.eqb_spec rep 0) as [->|Hn]; [tauto|]. split; [lia|tauto].
Qed.

(* Layout.v — C types RLBox supports, their size/alignment under the application
   ABI and under a sandbox ABI (sizeof(tainted_volatile<T>) = size of the
   converted type), struct layout (offset = round-up to field alignment). *)
From RLBoxV Require Export Conv.
Local Open Scope Z_scope.

Inductive cty :=
| TInt (k : ikind)
| TEnum                      (* enum with underlying type unsigned int: maps to itself *)
| TFloat | TDouble
| TPtr                       (* object or function pointer *)
| TArr (n : Z) (t : cty)
| TStruct (fs : list cty).

(* a sandbox layout ABI: the integer map plus the pointer representation width *)
Record labi := { l_int : abi; l_ptr : Z }.
Definition labi_host : labi := {| l_int := abi_host; l_ptr := 8 |}.
Definition labi_lp32 : labi := {| l_int := abi_lp32; l_ptr := 4 |}.
Definition labi_lp32_16 : labi := {| l_int := abi_lp32; l_ptr := 2 |}.
Definition labi_wide : labi := {| l_int := abi_wide; l_ptr := 4 |}.
Definition labi_lp32_64 : labi := {| l_int := abi_lp32; l_ptr := 8 |}.

Definition round_up (x a : Z) : Z := ((x + a - 1) / a) * a.

Definition ksize (a : labi) (k : ikind) : Z :=
  match sbx_equiv (l_int a) k with Some s => size s | None => size k end.

(* the layout algorithm on a list of (size, alignment) pairs: each member at the next
   multiple of its alignment; the aggregate's alignment is the largest member alignment *)
Fixpoint layout_end (sa : list (Z * Z)) (off : Z) : Z :=
  match sa with [] => off | (s, al) :: tl => layout_end tl (round_up off al + s) end.
Fixpoint layout_offs (sa : list (Z * Z)) (off : Z) : list Z :=
  match sa with
  | [] => []
  | (s, al) :: tl => let o := round_up off al in o :: layout_offs tl (o + s)
  end.
Fixpoint max_align (sa : list (Z * Z)) : Z :=
  match sa with [] => 1 | (_, al) :: tl => Z.max al (max_align tl) end.

Fixpoint alignof (a : labi) (t : cty) : Z :=
  match t with
  | TInt k => ksize a k
  | TEnum | TFloat => 4
  | TDouble => 8
  | TPtr => l_ptr a
  | TArr _ e => alignof a e
  | TStruct fs => max_align (map (fun f => (0, alignof a f)) fs)
  end.

Fixpoint sizeof (a : labi) (t : cty) : Z :=
  match t with
  | TInt k => ksize a k
  | TEnum | TFloat => 4
  | TDouble => 8
  | TPtr => l_ptr a
  | TArr n e => n * sizeof a e
  | TStruct fs =>
    let sa := map (fun f => (sizeof a f, alignof a f)) fs in
    round_up (layout_end sa 0) (max_align sa)
  end.

(* offsets of the fields of a struct *)
Definition size_align (a : labi) (fs : list cty) : list (Z * Z) := map (fun f => (sizeof a f, alignof a f)) fs.
Definition offsets (a : labi) (fs : list cty) : list Z := layout_offs (size_align a fs) 0.

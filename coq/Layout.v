(* Layout.v — C types RLBox supports, their size/alignment under the application
   ABI and under a sandbox ABI (sizeof(tainted_volatile<T>) = size of the
   converted type), struct layout (offset = round-up to field alignment). *)
From RLBoxV Require Export Conv.
Local Open Scope Z_scope.

Inductive cty :=
| TInt (k : ikind)
| TEnum                      (* enum with underlying type unsigned int: maps to itself *)
| TFloat | TDouble
| TPtr                       (* object or function pointer *)
| TArr (n : Z) (t : cty)
| TStruct (fs : list cty).

(* a sandbox layout ABI: the integer map plus the pointer representation width *)
Record labi := { l_int : abi; l_ptr : Z }.
Definition labi_host : labi := {| l_int := abi_host; l_ptr := 8 |}.
Definition labi_lp32 : labi := {| l_int := abi_lp32; l_ptr := 4 |}.
Definition labi_lp32_16 : labi := {| l_int := abi_lp32; l_ptr := 2 |}.
Definition labi_wide : labi := {| l_int := abi_wide; l_ptr := 4 |}.

Definition round_up (x a : Z) : Z := ((x + a - 1) / a) * a.

Definition ksize (a : labi) (k : ikind) : Z :=
  match sbx_equiv (l_int a) k with Some s => size s | None => size k end.

Fixpoint alignof (a : labi) (t : cty) : Z :=
  match t with
  | TInt k => ksize a k
  | TEnum | TFloat => 4
  | TDouble => 8
  | TPtr => l_ptr a
  | TArr _ e => alignof a e
  | TStruct fs => (fix go (l : list cty) : Z :=
                     match l with [] => 1 | f :: tl => Z.max (alignof a f) (go tl) end) fs
  end.

Fixpoint sizeof (a : labi) (t : cty) : Z :=
  match t with
  | TInt k => ksize a k
  | TEnum | TFloat => 4
  | TDouble => 8
  | TPtr => l_ptr a
  | TArr n e => n * sizeof a e
  | TStruct fs =>
    round_up ((fix go (l : list cty) (off : Z) : Z :=
                 match l with
                 | [] => off
                 | f :: tl => go tl (round_up off (alignof a f) + sizeof a f)
                 end) fs 0) (alignof a (TStruct fs))
  end.

(* offsets of the fields of a struct *)
Fixpoint offsets_from (a : labi) (fs : list cty) (off : Z) : list Z :=
  match fs with
  | [] => []
  | f :: tl => let o := round_up off (alignof a f) in o :: offsets_from a tl (o + sizeof a f)
  end.
Definition offsets (a : labi) (fs : list cty) : list Z := offsets_from a fs 0.

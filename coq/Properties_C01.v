(* Properties_C01.v — C01: sandbox data cannot lose its taint implicitly.
   The theorem below is proved ONCE, for EVERY rule table and every declassifier set, and for
   expressions of ANY depth; on every run the table is regenerated from the C++ compiler's verdicts
   on /repo's headers (coq/Gen_Rules_C01.v), the kernel re-checks the per-entry obligation
   (table_ok, hint_ok) by computation, and the instance C01_current_tree_<family> is derived there.
   Statements only. *)
From RLBoxV Require Import Typing Typing_proofs.

(* if every row of the table satisfies the per-rule obligation — a program with a wrapped operand
   that is not an explicit unwrapper / pointer null test either does not compile or yields a wrapped
   (or no) value — then in every typable expression whose value is plain, every sandbox-originated
   leaf is dominated by an explicit unwrapping node *)
Theorem C01_composition : forall declass tbl,
  table_ok declass tbl = true ->
  forall e w, wf e = true -> ty tbl e = Some w -> wrapped w = false -> is_void w = false ->
  exposed_in declass tbl e = false.
Proof. exact plain_result_is_declassified. Qed.
Print Assumptions C01_composition.

Theorem C01_taint_propagates : forall declass tbl,
  table_ok declass tbl = true ->
  forall e, wf e = true -> forall w, ty tbl e = Some w -> exposed_in declass tbl e = true ->
  wrapped w = true \/ is_void w = true.
Proof. exact composition_taint. Qed.

(* non-vacuity: a table in which  t + 1  is wrapped and  UNSAFE_unverified  unwraps; the expression
   take(unverified(t + 1)) is typable, plain and clean; a table that lets  int x = t  compile is rejected *)
Example C01_example :
  let ti := {| wk := KT; wty := 1 |} in let pi := {| wk := Plain; wty := 1 |} in
  let tbl := [ {| form := 0; args := [ti; pi]; verdict := Some ti |};      (* t + plain *)
               {| form := 1; args := [ti]; verdict := Some pi |};          (* t.UNSAFE_unverified() *)
               {| form := 2; args := [ti]; verdict := None |} ] in          (* int x = t : rejected *)
  let declass := fun (f : nat) (_ : list wt) => Nat.eqb f 1 in
  table_ok declass tbl = true /\
  ty tbl (Op 1 [Op 0 [Src ti; App pi]]) = Some pi /\
  exposed_in declass tbl (Op 1 [Op 0 [Src ti; App pi]]) = false /\
  table_ok declass ({| form := 2; args := [ti]; verdict := Some pi |} :: tbl) = false.
Proof. vm_compute. repeat split. Qed.

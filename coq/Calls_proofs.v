(* Calls_proofs.v — every call tree, every placement of unrepresentable values and
   throwing bodies: the run with the thread record refines the specification that
   dispatches on the entry point called; notifications are well nested; the timing
   records are exactly the closing notifications; the thread record's sandbox is restored. *)
From RLBoxV Require Import Calls.

Fixpoint node_ind' (P : node -> Prop)
  (H : forall tgt fnid arg ret th c kids, Forall P kids -> P (Node tgt fnid arg ret th c kids)) (n : node) : P n :=
  match n with
  | Node tgt fnid arg ret th c kids =>
    H tgt fnid arg ret th c kids ((fix go (l : list node) : Forall P l :=
                      match l with
                      | [] => Forall_nil P
                      | x :: tl => Forall_cons x (node_ind' P H x) (go tl)
                      end) kids)
  end.

(* ---------- refinement: run (code) = spec (C12's demand) ---------- *)
Definition R (r : rr) (s : list ev * bool) (c : nat) : Prop :=
  let '(evs, ab, t', recs) := r in (evs, ab) = s /\ cur t' = c.

Lemma kids_loop_spec (r : thr -> node -> rr) (rs : nat -> node -> list ev * bool) stop kids :
  Forall (fun k => forall t, R (r t k) (rs (cur t) k) (cur t)) kids ->
  forall t, R (kids_loop r stop kids t) (kids_spec rs stop kids (cur t)) (cur t).
Proof.
  induction 1 as [|k tl Hk Htl IH]; intros t; cbn [kids_loop kids_spec].
  - cbn. split; reflexivity.
  - specialize (Hk t). destruct (r t k) as [[[e1 ab1] t1] r1]. cbn in Hk. destruct Hk as (E & C).
    rewrite <- E. destruct (ab1 && stop)%bool.
    + cbn. split; [reflexivity|exact C].
    + specialize (IH t1). rewrite C in IH.
      destruct (kids_loop r stop tl t1) as [[[e2 ab2] t2] r2]. cbn in IH. destruct IH as (E2 & C2).
      rewrite <- E2. cbn. split; [reflexivity|exact C2].
Qed.

Section Refine.
Variable slot_of : nat -> nat -> option nat.
Variable cb_void g_void : nat -> bool.
Variable cin cout : Z -> res Z.

Lemma run_refines_spec n : forall is_invoke t,
  R (run slot_of cb_void g_void cin cout false is_invoke t n)
    (spec slot_of cb_void g_void cin cout is_invoke (cur t) n) (cur t).
Proof.
  induction n as [tgt fnid arg ret th catches kids IH] using node_ind'. intros is_invoke t.
  cbn [run spec]. destruct is_invoke.
  - destruct (cin arg) as [a'| | |]; try (cbn; split; reflexivity).
    pose proof (kids_loop_spec (run slot_of cb_void g_void cin cout false false)
                  (spec slot_of cb_void g_void cin cout false) true kids) as K.
    assert (F : Forall (fun k => forall t0, R (run slot_of cb_void g_void cin cout false false t0 k)
                                     (spec slot_of cb_void g_void cin cout false (cur t0) k) (cur t0)) kids)
      by (eapply Forall_impl; [|exact IH]; intros a Ha t0; apply Ha).
    specialize (K F {| cur := tgt; lastcb := lastcb t |}). cbn [cur] in K.
    destruct (kids_loop _ true kids _) as [[[evs ab] t2] recs].
    destruct (kids_spec _ true kids tgt) as [evs' ab'].
    cbn in K. destruct K as (E & C). injection E as <- <-.
    destruct ab; [cbn; split; reflexivity|].
    destruct (g_void fnid); [cbn; split; reflexivity|].
    destruct (cout ret); cbn; split; reflexivity.
  - destruct (slot_of (cur t) tgt) as [fn|] eqn:E; [|cbn; split; reflexivity].
    cbn [cur lastcb]. rewrite E.
    destruct (cout arg) as [a'| | |]; try (cbn; split; reflexivity).
    pose proof (kids_loop_spec (run slot_of cb_void g_void cin cout false true)
                  (spec slot_of cb_void g_void cin cout true) (negb catches) kids) as K.
    assert (F : Forall (fun k => forall t0, R (run slot_of cb_void g_void cin cout false true t0 k)
                                     (spec slot_of cb_void g_void cin cout true (cur t0) k) (cur t0)) kids)
      by (eapply Forall_impl; [|exact IH]; intros a Ha t0; apply Ha).
    specialize (K F {| cur := cur t; lastcb := tgt |}). cbn [cur] in K.
    destruct (kids_loop _ (negb catches) kids _) as [[[evs ab] t2] recs].
    destruct (kids_spec _ (negb catches) kids (cur t)) as [evs' ab'].
    cbn in K. destruct K as (E2 & C). injection E2 as <- <-.
    destruct (ab || th)%bool; [cbn; split; [reflexivity|exact C]|].
    destruct (cb_void fn); [cbn; split; [reflexivity|exact C]|].
    destruct (cin ret); cbn; (split; [reflexivity|exact C]).
Qed.

(* in the specification, an application function runs only as the function registered at the
   entry point that was called, and is handed the sandbox whose guest code made the call *)
Lemma rans_app a b : rans (a ++ b) = rans a ++ rans b.
Proof. induction a as [|e a IH]; [reflexivity|]. destruct e; cbn; rewrite ?IH; reflexivity. Qed.

Lemma kids_spec_ran (rs : nat -> node -> list ev * bool) (P : nat * nat -> Prop) stop kids :
  Forall (fun k => forall c p, In p (rans (fst (rs c k))) -> P p) kids ->
  forall c p, In p (rans (fst (kids_spec rs stop kids c))) -> P p.
Proof.
  induction 1 as [|k tl Hk Htl IH]; intros c p; cbn [kids_spec]; [intros []|].
  specialize (Hk c p). destruct (rs c k) as [e1 ab1]. cbn [fst] in Hk.
  destruct (ab1 && stop)%bool; [exact Hk|].
  specialize (IH c p). destruct (kids_spec rs stop tl c) as [e2 ab2]. cbn [fst] in *.
  rewrite rans_app. intros Hin. apply in_app_or in Hin as [Hin|Hin]; [apply Hk|apply IH]; exact Hin.
Qed.

Lemma spec_ran_registered n : forall is_invoke c p,
  In p (rans (fst (spec slot_of cb_void g_void cin cout is_invoke c n))) ->
  exists slot, slot_of (snd p) slot = Some (fst p).
Proof.
  induction n as [tgt fnid arg ret th catches kids IH] using node_ind'. intros is_invoke c p.
  cbn [spec]. destruct is_invoke.
  - destruct (cin arg) as [a'| | |]; try (cbn; intros []).
    pose proof (kids_spec_ran (spec slot_of cb_void g_void cin cout false)
                  (fun p => exists slot, slot_of (snd p) slot = Some (fst p)) true kids) as K.
    assert (F : Forall (fun k => forall c0 p0, In p0 (rans (fst (spec slot_of cb_void g_void cin cout false c0 k))) ->
                                     exists slot, slot_of (snd p0) slot = Some (fst p0)) kids)
      by (eapply Forall_impl; [|exact IH]; intros a Ha c0 p0; apply Ha).
    specialize (K F tgt p).
    destruct (kids_spec _ true kids tgt) as [evs ab]. cbn [fst] in K.
    assert (G : forall tl, rans tl = [] -> In p (rans (fst ((EIn true fnid tgt :: EGuest tgt fnid a' :: evs) ++ tl, ab))) ->
                       exists slot, slot_of (snd p) slot = Some (fst p)).
    { intros tl Htl. cbn [fst app rans]. rewrite rans_app, Htl, app_nil_r. exact K. }
    destruct ab; [apply (G [_]); reflexivity|].
    destruct (g_void fnid); [apply (G [_; _]); reflexivity|].
    destruct (cout ret); first [apply (G [_; _]); reflexivity | apply (G [_]); reflexivity].
  - destruct (slot_of c tgt) as [fn|] eqn:E; [|cbn; intros []].
    destruct (cout arg) as [a'| | |]; try (cbn; intros []).
    pose proof (kids_spec_ran (spec slot_of cb_void g_void cin cout true)
                  (fun p => exists slot, slot_of (snd p) slot = Some (fst p)) (negb catches) kids) as K.
    assert (F : Forall (fun k => forall c0 p0, In p0 (rans (fst (spec slot_of cb_void g_void cin cout true c0 k))) ->
                                     exists slot, slot_of (snd p0) slot = Some (fst p0)) kids)
      by (eapply Forall_impl; [|exact IH]; intros a Ha c0 p0; apply Ha).
    specialize (K F c p).
    destruct (kids_spec _ (negb catches) kids c) as [evs ab]. cbn [fst] in K.
    assert (G : forall tl (b : bool), rans tl = [] -> In p (rans (fst ((EOut false fn c :: ERan fn c a' :: evs) ++ tl, b))) ->
                       exists slot, slot_of (snd p) slot = Some (fst p)).
    { intros tl b Htl. cbn [fst app rans]. rewrite rans_app, Htl, app_nil_r.
      intros [<-|Hin]; [exists tgt; exact E|apply K; exact Hin]. }
    destruct (ab || th)%bool; [apply (G [_]); reflexivity|].
    destruct (cb_void fn); [apply (G [_; _]); reflexivity|].
    destruct (cin ret); first [apply (G [_; _]); reflexivity | apply (G [_]); reflexivity].
Qed.
End Refine.

(* ---------- C19: balanced, payload-matched, one timing record per crossing ---------- *)
(* a run segment is neutral: it returns the stack it found, whatever follows *)
Definition neutral (evs : list ev) : Prop := forall stack tl, nest stack (evs ++ tl) = nest stack tl.

Lemma neutral_nil : neutral [].
Proof. intros stack tl; reflexivity. Qed.
Lemma neutral_app a b : neutral a -> neutral b -> neutral (a ++ b).
Proof. intros Ha Hb stack tl. rewrite <- app_assoc. rewrite Ha. apply Hb. Qed.
Lemma frame_eqb_refl fr : frame_eqb fr fr = true.
Proof. destruct fr as [[a b] c]. cbn. rewrite Bool.eqb_reflx, !Nat.eqb_refl. reflexivity. Qed.
Lemma neutral_invoke i s mid : neutral mid -> neutral (EIn true i s :: mid ++ [EOut true i s]).
Proof.
  intros Hm stack tl. cbn [app nest]. rewrite <- app_assoc. rewrite Hm. cbn [app nest].
  rewrite frame_eqb_refl. reflexivity.
Qed.
Lemma neutral_callback i s mid : neutral mid -> neutral (EOut false i s :: mid ++ [EIn false i s]).
Proof.
  intros Hm stack tl. cbn [app nest]. rewrite <- app_assoc. rewrite Hm. cbn [app nest].
  rewrite frame_eqb_refl. reflexivity.
Qed.
Definition silent (e : ev) : bool :=
  match e with EIn _ _ _ | EOut _ _ _ => false | _ => true end.
Lemma neutral_silent e mid : silent e = true -> neutral mid -> neutral (e :: mid).
Proof. intros He Hm stack tl. destruct e; try discriminate; cbn [app nest]; apply Hm. Qed.
Lemma neutral_snoc_silent e mid : silent e = true -> neutral mid -> neutral (mid ++ [e]).
Proof. intros He Hm. apply neutral_app; [exact Hm|]. apply neutral_silent; [exact He|apply neutral_nil]. Qed.

Lemma closes_app a b : closes (a ++ b) = closes a ++ closes b.
Proof. induction a as [|e a IH]; [reflexivity|]. destruct e as [[] ? ?|[] ? ?| | | | |]; cbn; rewrite ?IH; reflexivity. Qed.
Lemma crossings_app a b : crossings (a ++ b) = (crossings a + crossings b)%nat.
Proof. unfold crossings. rewrite filter_app, app_length. reflexivity. Qed.

Definition good (r : rr) : Prop :=
  let '(evs, ab, t', recs) := r in neutral evs /\ recs = closes evs /\ length recs = crossings evs.

Lemma kids_loop_good (r : thr -> node -> rr) stop kids :
  Forall (fun k => forall t, good (r t k)) kids -> forall t, good (kids_loop r stop kids t).
Proof.
  induction 1 as [|k tl Hk Htl IH]; intros t; cbn [kids_loop].
  - cbn. split; [apply neutral_nil|]. split; reflexivity.
  - specialize (Hk t). destruct (r t k) as [[[e1 ab1] t1] r1]. cbn in Hk. destruct Hk as (N1 & C1 & L1).
    destruct (ab1 && stop)%bool.
    + cbn. repeat split; assumption.
    + specialize (IH t1). destruct (kids_loop r stop tl t1) as [[[e2 ab2] t2] r2]. cbn in IH.
      destruct IH as (N2 & C2 & L2). cbn. split; [apply neutral_app; assumption|].
      rewrite closes_app, crossings_app, app_length. subst. split; [reflexivity|lia].
Qed.

Section Balanced.
Variable slot_of : nat -> nat -> option nat.
Variable cb_void g_void : nat -> bool.
Variable cin cout : Z -> res Z.
Variable late_key : bool.

Lemma good_invoke i s a evs recs tl :
  neutral evs -> recs = closes evs -> length recs = crossings evs -> Forall (fun e => silent e = true) tl ->
  neutral ((EIn true i s :: EGuest s i a :: evs) ++ EOut true i s :: tl) /\
  recs ++ [(s, true, i)] = closes ((EIn true i s :: EGuest s i a :: evs) ++ EOut true i s :: tl) /\
  length (recs ++ [(s, true, i)]) = crossings ((EIn true i s :: EGuest s i a :: evs) ++ EOut true i s :: tl).
Proof.
  intros N C L Htl.
  assert (Ctl : closes tl = [] /\ crossings tl = 0%nat /\ neutral tl).
  { induction Htl as [|e tl He _ IH]; [repeat split; apply neutral_nil|].
    destruct IH as (A & B & D). destruct e; try discriminate; cbn; repeat split; try assumption;
      apply neutral_silent; try reflexivity; assumption. }
  destruct Ctl as (A & B & D).
  split.
  - replace ((EIn true i s :: EGuest s i a :: evs) ++ EOut true i s :: tl) with
        ((EIn true i s :: (EGuest s i a :: evs) ++ [EOut true i s]) ++ tl).
    + apply neutral_app; [|exact D]. apply neutral_invoke. apply neutral_silent; [reflexivity|exact N].
    + cbn [app]. rewrite <- app_assoc. reflexivity.
  - cbn [app closes]. rewrite closes_app. cbn [closes]. rewrite A, C. split; [reflexivity|].
    rewrite app_length. change (EIn true i s :: EGuest s i a :: evs ++ EOut true i s :: tl) with
      ([EIn true i s; EGuest s i a] ++ evs ++ [EOut true i s] ++ tl).
    rewrite !crossings_app, B. rewrite <- C, L. cbn. lia.
Qed.

Lemma silent_tl_facts tl : Forall (fun e => silent e = true) tl ->
  closes tl = [] /\ crossings tl = 0%nat /\ neutral tl.
Proof.
  induction 1 as [|e tl He _ IH]; [repeat split; apply neutral_nil|].
  destruct IH as (A & B & D). destruct e; try discriminate; cbn; repeat split; try assumption;
    apply neutral_silent; try reflexivity; assumption.
Qed.

Lemma good_callback i s fn' a evs recs tl :
  neutral evs -> recs = closes evs -> length recs = crossings evs -> Forall (fun e => silent e = true) tl ->
  neutral ((EOut false i s :: ERan fn' s a :: evs) ++ EIn false i s :: tl) /\
  recs ++ [(s, false, i)] = closes ((EOut false i s :: ERan fn' s a :: evs) ++ EIn false i s :: tl) /\
  length (recs ++ [(s, false, i)]) = crossings ((EOut false i s :: ERan fn' s a :: evs) ++ EIn false i s :: tl).
Proof.
  intros N C L Htl. destruct (silent_tl_facts tl Htl) as (A & B & D).
  split.
  - replace ((EOut false i s :: ERan fn' s a :: evs) ++ EIn false i s :: tl) with
        ((EOut false i s :: (ERan fn' s a :: evs) ++ [EIn false i s]) ++ tl).
    + apply neutral_app; [|exact D]. apply neutral_callback. apply neutral_silent; [reflexivity|exact N].
    + cbn [app]. rewrite <- app_assoc. reflexivity.
  - cbn [app closes]. rewrite closes_app. cbn [closes]. rewrite A, C. split; [reflexivity|].
    rewrite app_length. change (EOut false i s :: ERan fn' s a :: evs ++ EIn false i s :: tl) with
      ([EOut false i s; ERan fn' s a] ++ evs ++ [EIn false i s] ++ tl).
    rewrite !crossings_app, B. rewrite <- C, L. cbn. lia.
Qed.

Lemma run_good n : forall is_invoke t, good (run slot_of cb_void g_void cin cout late_key is_invoke t n).
Proof.
  induction n as [tgt fnid arg ret th catches kids IH] using node_ind'. intros is_invoke t.
  cbn [run]. destruct is_invoke.
  - assert (Bad : good ([EIn true fnid tgt; EOut true fnid tgt], true, t, [(tgt, true, fnid)])).
    { cbn. split; [|split; reflexivity].
      change [EIn true fnid tgt; EOut true fnid tgt] with (EIn true fnid tgt :: [] ++ [EOut true fnid tgt]).
      apply neutral_invoke, neutral_nil. }
    destruct (cin arg) as [a'| | |]; try exact Bad.
    pose proof (kids_loop_good (run slot_of cb_void g_void cin cout late_key false) true kids) as K.
    assert (F : Forall (fun k => forall t0, good (run slot_of cb_void g_void cin cout late_key false t0 k)) kids)
      by (eapply Forall_impl; [|exact IH]; intros a Ha t0; apply Ha).
    specialize (K F {| cur := tgt; lastcb := lastcb t |}).
    destruct (kids_loop _ true kids _) as [[[evs ab] t2] recs]. cbn in K. destruct K as (N & C & L).
    destruct ab; [cbn [good]; apply good_invoke; auto|].
    destruct (g_void fnid); [cbn [good]; apply good_invoke; auto|].
    destruct (cout ret); cbn [good]; apply good_invoke; auto.
  - destruct (slot_of (cur t) tgt) as [fn1|] eqn:E;
      [|cbn; split; [apply neutral_silent; [reflexivity|apply neutral_nil]|split; reflexivity]].
    cbn [cur lastcb]. rewrite E.
    assert (Bad : good ([EOut false fn1 (cur t); EIn false fn1 (cur t)], true, {| cur := cur t; lastcb := tgt |}, [(cur t, false, fn1)])).
    { cbn. split; [|split; reflexivity].
      change [EOut false fn1 (cur t); EIn false fn1 (cur t)] with (EOut false fn1 (cur t) :: [] ++ [EIn false fn1 (cur t)]).
      apply neutral_callback, neutral_nil. }
    destruct (cout arg) as [a'| | |]; try exact Bad.
    pose proof (kids_loop_good (run slot_of cb_void g_void cin cout late_key true) (negb catches) kids) as K.
    assert (F : Forall (fun k => forall t0, good (run slot_of cb_void g_void cin cout late_key true t0 k)) kids)
      by (eapply Forall_impl; [|exact IH]; intros a Ha t0; apply Ha).
    specialize (K F {| cur := cur t; lastcb := tgt |}).
    destruct (kids_loop _ (negb catches) kids _) as [[[evs ab] t2] recs]. cbn in K. destruct K as (N & C & L).
    set (fn := if late_key then _ else fn1).
    destruct (ab || th)%bool; [cbn [good]; apply good_callback; auto|].
    destruct (cb_void fn); [cbn [good]; apply good_callback; auto|].
    destruct (cin ret); cbn [good]; apply good_callback; auto.
Qed.
End Balanced.

(* the early fetch of (sandbox, key) in the interceptor is necessary: a variant that reads the
   slot record after the body's nested crossings runs the wrong function's result path *)
Example late_key_breaks_dispatch :
  let slot := fun (s k : nat) => match k with 0%nat => Some 10%nat | 1%nat => Some 11%nat | _ => None end in
  let t := Node 0 0 5 0 false false
             [Node 0 0 1 2 false false [Node 0 0 5 0 false false [Node 1 0 1 2 false false []]]] in
  let idc := fun v : Z => Ok v in
  rans (fst (fst (fst (run slot (fun _ => false) (fun _ => false) idc idc true true {| cur := 9; lastcb := 0 |} t))))
    <> rans (fst (spec slot (fun _ => false) (fun _ => false) idc idc true 9%nat t)) /\
  rans (fst (fst (fst (run slot (fun _ => false) (fun _ => false) idc idc false true {| cur := 9; lastcb := 0 |} t))))
    = rans (fst (spec slot (fun _ => false) (fun _ => false) idc idc true 9%nat t)).
Proof. vm_compute. split; [intros H; discriminate H|reflexivity]. Qed.

Example tree_example :
  let slot := fun (s k : nat) => Some (10 * s + k)%nat in
  let t := Node 0 0 5 7 false false
             [Node 1 0 1 2 false true [Node 1 0 (2^40) 0 false false []; Node 1 1 3 4 false false []];
              Node 2 0 1 2 true false []] in
  let cin := fun v : Z => if (v <? 2^31)%Z then Ok v else Abort in
  let '(evs, ab, c, recs) := run slot (fun _ => false) (fun f => Nat.eqb f 1) cin (fun v => Ok v) false true {| cur := 99; lastcb := 0 |} t in
  nest [] evs = Some [] /\ ab = true /\ cur c = 99%nat /\ length recs = 5%nat /\ recs = closes evs.
Proof. vm_compute. repeat split. Qed.

Lemma neutral_nest evs : neutral evs -> nest [] evs = Some [].
Proof. intros H. specialize (H [] []). rewrite app_nil_r in H. exact H. Qed.

(* the slot table of the lifecycle/registry model (World.v) as the dispatch table *)
From RLBoxV Require Import World.
Definition world_slot_of (w : world) (s k : nat) : option nat :=
  match nth k (slots (get_sb w s)) None with Some key => Some (Z.to_nat key) | None => None end.

(* the hooks see the per-sandbox state by reference: threading through the cells = iterating per sandbox *)
Lemma thread_states_expected f init : forall evs cells seen,
  (forall s, cells s = Nat.iter (count_sbx s seen) f (init s)) ->
  thread_states f cells evs = expected_states f init seen evs.
Proof.
  induction evs as [|e tl IH]; intros cells seen H; cbn [thread_states expected_states]; [reflexivity|].
  destruct (notif_sbx e) as [s|]; [|apply IH; exact H].
  rewrite (H s). f_equal. apply IH. intros x. unfold upd_cell. cbn [count_sbx].
  destruct (Nat.eqb x s) eqn:E.
  - apply Nat.eqb_eq in E. subst x. rewrite Nat.eqb_refl. cbn. reflexivity.
  - rewrite Nat.eqb_sym, E. cbn. apply H.
Qed.

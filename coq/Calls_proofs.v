(* Calls_proofs.v — every call tree, every fault placement: balanced, one timing
   record per crossing, thread record restored *)
From RLBoxV Require Import Calls.

Fixpoint node_ind' (P : node -> Prop)
  (H : forall id f c kids, Forall P kids -> P (Node id f c kids)) (n : node) : P n :=
  match n with
  | Node id f c kids =>
    H id f c kids ((fix go (l : list node) : Forall P l :=
                      match l with
                      | [] => Forall_nil P
                      | x :: tl => Forall_cons x (node_ind' P H x) (go tl)
                      end) kids)
  end.

(* a run segment is neutral: it returns the stack it found, whatever follows *)
Definition neutral (evs : list ev) : Prop := forall stack tl, nest stack (evs ++ tl) = nest stack tl.

Lemma neutral_nil : neutral [].
Proof. intros stack tl; reflexivity. Qed.
Lemma neutral_app a b : neutral a -> neutral b -> neutral (a ++ b).
Proof. intros Ha Hb stack tl. rewrite <- app_assoc. rewrite Ha. apply Hb. Qed.

Lemma frame_eqb_refl fr : frame_eqb fr fr = true.
Proof. destruct fr as [[a b] c]. cbn. rewrite Bool.eqb_reflx, !Nat.eqb_refl. reflexivity. Qed.

Lemma neutral_invoke i s mid : neutral mid -> neutral (EIn true i s :: mid ++ [EOut true i s]).
Proof.
  intros Hm stack tl. cbn [app nest]. rewrite <- app_assoc. rewrite Hm. cbn [app nest].
  rewrite frame_eqb_refl. reflexivity.
Qed.
Lemma neutral_callback i s mid : neutral mid -> neutral (EOut false i s :: mid ++ [EIn false i s]).
Proof.
  intros Hm stack tl. cbn [app nest]. rewrite <- app_assoc. rewrite Hm. cbn [app nest].
  rewrite frame_eqb_refl. reflexivity.
Qed.
Lemma neutral_skip_guest s mid : neutral mid -> neutral (EGuest s :: mid).
Proof. intros Hm stack tl. cbn [app nest]. apply Hm. Qed.
Lemma neutral_skip_ran f s mid : neutral mid -> neutral (ERan f s :: mid).
Proof. intros Hm stack tl. cbn [app nest]. apply Hm. Qed.

Definition good (r : rr) (cur : nat) : Prop :=
  let '(evs, ab, c, recs) := r in c = cur /\ neutral evs /\ length recs = crossings evs.

Lemma crossings_app a b : crossings (a ++ b) = (crossings a + crossings b)%nat.
Proof. unfold crossings. rewrite filter_app, app_length. reflexivity. Qed.

Lemma kids_loop_good (r : nat -> node -> rr) stop kids :
  Forall (fun k => forall c, good (r c k) c) kids ->
  forall c, good (kids_loop r stop kids c) c.
Proof.
  induction 1 as [|k tl Hk Htl IH]; intros c; cbn [kids_loop].
  - cbn. split; [reflexivity|]. split; [apply neutral_nil|reflexivity].
  - specialize (Hk c). destruct (r c k) as [[[e1 ab1] c1] r1]. cbn in Hk. destruct Hk as (-> & N1 & L1).
    destruct (ab1 && stop)%bool.
    + cbn. split; [reflexivity|]. split; assumption.
    + specialize (IH c). destruct (kids_loop r stop tl c) as [[[e2 ab2] c2] r2]. cbn in IH.
      destruct IH as (-> & N2 & L2). cbn. split; [reflexivity|]. split; [apply neutral_app; assumption|].
      rewrite app_length, crossings_app. lia.
Qed.

Lemma run_good reg name n : forall is_invoke cur, good (run reg name is_invoke cur n) cur.
Proof.
  induction n as [id f catches kids IH] using node_ind'. intros is_invoke cur.
  cbn [run]. destruct is_invoke.
  - destruct f.
    1,3,4: (pose proof (kids_loop_good (run reg name false) true kids) as K;
      assert (F : Forall (fun k => forall c, good (run reg name false c k) c) kids)
        by (eapply Forall_impl; [|exact IH]; intros a Ha c; apply Ha);
      specialize (K F id); destruct (kids_loop (run reg name false) true kids id) as [[[evs ab] c] recs];
      cbn in K; destruct K as (_ & N & L); cbn;
      split; [reflexivity|]; split;
      [ change (EIn true name id :: EGuest id :: evs ++ [EOut true name id]) with
             (EIn true name id :: (EGuest id :: evs) ++ [EOut true name id]);
        apply neutral_invoke; apply neutral_skip_guest; exact N
      | rewrite app_length; cbn [length];
        change (EIn true name id :: EGuest id :: evs ++ [EOut true name id]) with
               ([EIn true name id; EGuest id] ++ evs ++ [EOut true name id]);
        rewrite !crossings_app; cbn; lia ]).
    cbn. split; [reflexivity|]. split; [|reflexivity].
    change [EIn true name id; EOut true name id] with (EIn true name id :: [] ++ [EOut true name id]).
    apply neutral_invoke, neutral_nil.
  - destruct f.
    1,3,4: (pose proof (kids_loop_good (run reg name true) (negb catches) kids) as K;
      assert (F : Forall (fun k => forall c, good (run reg name true c k) c) kids)
        by (eapply Forall_impl; [|exact IH]; intros a Ha c; apply Ha);
      specialize (K F cur); destruct (kids_loop (run reg name true) (negb catches) kids cur) as [[[evs ab] c] recs];
      cbn in K; destruct K as (-> & N & L); cbn;
      split; [reflexivity|]; split;
      [ change (EOut false (reg cur id) cur :: ERan (reg cur id) cur :: evs ++ [EIn false (reg cur id) cur]) with
             (EOut false (reg cur id) cur :: (ERan (reg cur id) cur :: evs) ++ [EIn false (reg cur id) cur]);
        apply neutral_callback; apply neutral_skip_ran; exact N
      | rewrite app_length; cbn [length];
        change (EOut false (reg cur id) cur :: ERan (reg cur id) cur :: evs ++ [EIn false (reg cur id) cur]) with
               ([EOut false (reg cur id) cur; ERan (reg cur id) cur] ++ evs ++ [EIn false (reg cur id) cur]);
        rewrite !crossings_app; cbn; lia ]).
    cbn. split; [reflexivity|]. split; [|reflexivity].
    change [EOut false (reg cur id) cur; EIn false (reg cur id) cur] with
           (EOut false (reg cur id) cur :: [] ++ [EIn false (reg cur id) cur]).
    apply neutral_callback, neutral_nil.
Qed.

(* dispatch: every application function that runs is the one registered at the entry point
   called, in the sandbox that is executing: by construction of [run], stated on the events *)
Lemma ran_is_registered reg name n : forall is_invoke cur fn sb,
  In (ERan fn sb) (let '(evs, _, _, _) := run reg name is_invoke cur n in evs) ->
  exists k, fn = reg sb k.
Proof.
  induction n as [id f catches kids IH] using node_ind'. intros is_invoke cur fn sb.
  assert (KL : forall r stop, Forall (fun k => forall c fn sb, In (ERan fn sb) (let '(evs, _, _, _) := r c k in evs) -> exists j, fn = reg sb j) kids ->
                 forall c, In (ERan fn sb) (let '(evs, _, _, _) := kids_loop r stop kids c in evs) -> exists j, fn = reg sb j).
  { intros r stop HF. induction HF as [|k tl Hk Htl IHl]; intros c; cbn [kids_loop]; [intros []|].
    specialize (Hk c fn sb). destruct (r c k) as [[[e1 ab1] c1] r1].
    destruct (ab1 && stop)%bool; [exact Hk|].
    specialize (IHl c1). destruct (kids_loop r stop tl c1) as [[[e2 ab2] c2] r2].
    intros Hin. apply in_app_or in Hin as [Hin|Hin]; [apply Hk|apply IHl]; assumption. }
  cbn [run]. destruct is_invoke.
  - destruct f.
    1,3,4: (specialize (KL (run reg name false) true);
      assert (F : Forall (fun k => forall c fn sb, In (ERan fn sb) (let '(evs, _, _, _) := run reg name false c k in evs) -> exists j, fn = reg sb j) kids)
        by (eapply Forall_impl; [|exact IH]; intros a Ha c fn' sb'; apply Ha);
      specialize (KL F id); destruct (kids_loop (run reg name false) true kids id) as [[[evs ab] c] recs];
      intros [Hin|[Hin|Hin]]; try discriminate;
      apply in_app_or in Hin as [Hin|[Hin|[]]]; [apply KL; exact Hin|discriminate]).
    intros [Hin|[Hin|[]]]; discriminate.
  - destruct f.
    1,3,4: (specialize (KL (run reg name true) (negb catches));
      assert (F : Forall (fun k => forall c fn sb, In (ERan fn sb) (let '(evs, _, _, _) := run reg name true c k in evs) -> exists j, fn = reg sb j) kids)
        by (eapply Forall_impl; [|exact IH]; intros a Ha c fn' sb'; apply Ha);
      specialize (KL F cur); destruct (kids_loop (run reg name true) (negb catches) kids cur) as [[[evs ab] c] recs];
      intros [Hin|[Hin|Hin]]; [discriminate|injection Hin as <- <-; exists id; reflexivity|];
      apply in_app_or in Hin as [Hin|[Hin|[]]]; [apply KL; exact Hin|discriminate]).
    intros [Hin|[Hin|[]]]; discriminate.
Qed.

Example tree_example :
  let t := Node 0 FNone false [Node 1 FNone true [Node 1 FRes false []]; Node 2 FBody false []] in
  let '(evs, ab, c, recs) := run (fun s k => (10 * s + k)%nat) 7 true 99 t in
  nest [] evs = Some [] /\ ab = true /\ c = 99%nat /\ length recs = 4%nat.
Proof. vm_compute. repeat split. Qed.

(* Symbols.v — the per-instance symbol caches of rlbox_sandbox (rlbox_sandbox.hpp: func_ptr_map behind
   lookup_symbol, used by invocation by name; internal_func_ptr_map behind internal_lookup_symbol, used by
   sandbox_function_address).  A cache maps a NAME to the ADDRESS the back end gave for it.  The back end of
   instance i answers with the address of the name in the library instance i is bound to: [lib i name]
   (a Section variable — dlsym / the harness library table; recorded in the trusted base). *)
From RLBoxV Require Export Machine.
From Coq Require Export Arith PeanoNat.
Local Open Scope Z_scope.

Record symc := { pubc : list (Z * Z); intc : list (Z * Z) }.
Definition symw := list symc.
Definition symc_init : symc := {| pubc := []; intc := [] |}.
Definition symw_init (n : nat) : symw := repeat symc_init n.

Fixpoint assoc (n : Z) (l : list (Z * Z)) : option Z :=
  match l with [] => None | (k, a) :: tl => if k =? n then Some a else assoc n tl end.

Fixpoint sset_nth {A} (l : list A) (k : nat) (a : A) : list A :=
  match l, k with
  | [], _ => []
  | _ :: tl, O => a :: tl
  | x :: tl, S k' => x :: sset_nth tl k' a
  end.

Inductive skind := SPub | SInt.
Inductive sop := SLook (k : skind) (i : nat) (name : Z).

Definition cache_of (k : skind) (c : symc) : list (Z * Z) := match k with SPub => pubc c | SInt => intc c end.
Definition with_cache (k : skind) (c : symc) (l : list (Z * Z)) : symc :=
  match k with SPub => {| pubc := l; intc := intc c |} | SInt => {| pubc := pubc c; intc := l |} end.

(* [shared]: false = the code (one pair of caches per instance); true = one process-wide pair of caches
   (what a static map would be: the refuted alternative) *)
Definition slot_of (shared : bool) (i : nat) : nat := if shared then 0%nat else i.

Section WithLib.
Variable lib : nat -> Z -> Z.

(* one lookup: (new state, (back end asked?, address returned)) *)
Definition sstep (shared : bool) (w : symw) (o : sop) : symw * (bool * Z) :=
  match o with
  | SLook k i name =>
    let c := nth (slot_of shared i) w symc_init in
    match assoc name (cache_of k c) with
    | Some a => (w, (false, a))
    | None => let a := lib i name in
              (sset_nth w (slot_of shared i) (with_cache k c ((name, a) :: cache_of k c)), (true, a))
    end
  end.

Fixpoint srun (shared : bool) (w : symw) (ops : list sop) : symw * list (bool * Z) :=
  match ops with
  | [] => (w, [])
  | o :: tl => let '(w1, x) := sstep shared w o in
               let '(w2, xs) := srun shared w1 tl in (w2, x :: xs)
  end.

(* what C11 demands of every lookup in a history: the address of the named function in the library of the
   instance that was asked, whatever happened before *)
Definition sspec (ops : list sop) : list Z := map (fun o => match o with SLook _ i name => lib i name end) ops.
End WithLib.

Definition skind_eqb (a b : skind) : bool := match a, b with SPub, SPub | SInt, SInt => true | _, _ => false end.
(* was (kind, instance, name) looked up earlier in the history? *)
Definition same_key (o p : sop) : bool :=
  match o, p with SLook k i n, SLook k' i' n' => skind_eqb k k' && Nat.eqb i i' && (n =? n') end.
Fixpoint first_times (seen : list sop) (ops : list sop) : list bool :=
  match ops with
  | [] => []
  | o :: tl => negb (existsb (same_key o) seen) :: first_times (o :: seen) tl
  end.

(* Threads_proofs.v — non-interference: under EVERY schedule each thread observes exactly what it
   observes when the other threads' steps are removed *)
From RLBoxV Require Import Threads World_proofs.
Local Open Scope Z_scope.

Section NI.
Variable reg : sid -> region.
Variable owner : sid -> tid.
(* the allocator's contract: distinct instances have disjoint memory *)
Hypothesis disjoint_regs : forall i j, i <> j -> forall x, inr (reg i) x = true -> inr (reg j) x = false.

(* a thread only acts on instances it owns, and looks up with example addresses inside them *)
Fixpoint owns (t : tid) (p : prog) : Prop :=
  match p with
  | Done => True
  | Act a k => owner (target a) = t /\
               match a with AFind i ex => inr (reg i) ex = true | _ => True end /\
               forall o, owns t (k o)
  end.

Definition mine (t : tid) (i : sid) : bool := Nat.eqb (owner i) t.

Definition same_view (t : tid) (g1 g2 : gstate) : Prop :=
  (forall i, owner i = t -> gst g1 i = gst g2 i) /\
  filter (mine t) (glist g1) = filter (mine t) (glist g2).

Lemma same_view_refl t g : same_view t g g.
Proof. split; intros; reflexivity. Qed.
Lemma same_view_trans t a b c : same_view t a b -> same_view t b c -> same_view t a c.
Proof. intros [A1 A2] [B1 B2]. split; [intros i H; rewrite A1, B1 by exact H; reflexivity|congruence]. Qed.
Lemma same_view_sym t a b : same_view t a b -> same_view t b a.
Proof. intros [A1 A2]. split; [intros i H; symmetry; apply A1; exact H|congruence]. Qed.

Lemma scan_disjoint i ex l : inr (reg i) ex = true ->
  scan reg l ex = if existsb (Nat.eqb i) l then Some i else None.
Proof.
  intros Hin. induction l as [|j tl IH]; [reflexivity|]. cbn [scan existsb].
  destruct (Nat.eqb_spec i j) as [->|Hne]; [rewrite Hin; reflexivity|].
  rewrite (disjoint_regs i j Hne ex Hin). cbn [orb]. exact IH.
Qed.

Lemma existsb_filter_mine t i l : owner i = t ->
  existsb (Nat.eqb i) (filter (mine t) l) = existsb (Nat.eqb i) l.
Proof.
  intros Ho. induction l as [|j tl IH]; [reflexivity|]. cbn [filter existsb].
  destruct (mine t j) eqn:Mj; cbn [existsb]; rewrite IH; [reflexivity|].
  destruct (Nat.eqb_spec i j) as [->|]; [|reflexivity].
  unfold mine in Mj. rewrite Ho, Nat.eqb_refl in Mj. discriminate.
Qed.

Lemma filter_remove_first_mine t i l : owner i = t ->
  filter (mine t) (remove_first Nat.eqb i l) = remove_first Nat.eqb i (filter (mine t) l).
Proof.
  intros Ho. induction l as [|j tl IH]; [reflexivity|]. cbn [remove_first filter].
  destruct (Nat.eqb_spec i j) as [->|Hne].
  - unfold mine at 2. rewrite Ho, Nat.eqb_refl. cbn [remove_first]. rewrite Nat.eqb_refl. reflexivity.
  - cbn [filter]. destruct (mine t j); [cbn [remove_first]; destruct (Nat.eqb_spec i j); [contradiction|]; rewrite IH; reflexivity|exact IH].
Qed.

Lemma filter_remove_first_other t i l : owner i <> t ->
  filter (mine t) (remove_first Nat.eqb i l) = filter (mine t) l.
Proof.
  intros Ho. induction l as [|j tl IH]; [reflexivity|]. cbn [remove_first filter].
  destruct (Nat.eqb_spec i j) as [->|Hne].
  - unfold mine at 2. destruct (Nat.eqb_spec (owner j) t); [contradiction|reflexivity].
  - cbn [filter]. rewrite IH. reflexivity.
Qed.

(* a step of the thread itself: same observation, views stay equal *)
Lemma own_step t g1 g2 a :
  same_view t g1 g2 -> owner (target a) = t ->
  match a with AFind i ex => inr (reg i) ex = true | _ => True end ->
  snd (gstep reg g1 a) = snd (gstep reg g2 a) /\ same_view t (fst (gstep reg g1 a)) (fst (gstep reg g2 a)).
Proof.
  intros [V1 V2] Ho Hex. destruct a as [i x y|i s|i|i|i ex]; cbn [target] in Ho; cbn [gstep].
  - rewrite (V1 i Ho). destruct (status_eqb (gst g2 i) x); cbn [fst snd]; (split; [reflexivity|]).
    + split; cbn [gst glist]; [|exact V2]. intros j Hj. unfold upd. destruct (Nat.eqb j i); [reflexivity|apply V1; exact Hj].
    + split; assumption.
  - cbn [fst snd]. split; [reflexivity|]. split; cbn [gst glist]; [|exact V2].
    intros j Hj. unfold upd. destruct (Nat.eqb j i); [reflexivity|apply V1; exact Hj].
  - cbn [fst snd]. split; [reflexivity|]. split; cbn [gst glist]; [exact V1|].
    rewrite !filter_app, V2. reflexivity.
  - rewrite <- (existsb_filter_mine t i (glist g1) Ho), <- (existsb_filter_mine t i (glist g2) Ho), V2.
    destruct (existsb (Nat.eqb i) (filter (mine t) (glist g2))); cbn [fst snd]; (split; [reflexivity|]).
    + split; cbn [gst glist]; [exact V1|]. rewrite !filter_remove_first_mine by exact Ho. rewrite V2. reflexivity.
    + split; assumption.
  - cbn [fst snd]. split; [|split; assumption].
    rewrite !(scan_disjoint i ex _ Hex).
    rewrite <- (existsb_filter_mine t i (glist g1) Ho), <- (existsb_filter_mine t i (glist g2) Ho), V2. reflexivity.
Qed.

(* a step of another thread does not change this thread's view *)
Lemma other_step t g a : owner (target a) <> t -> same_view t (fst (gstep reg g a)) g.
Proof.
  intros Ho. destruct a as [i x y|i s|i|i|i ex]; cbn [target] in Ho; cbn [gstep].
  - destruct (status_eqb (gst g i) x); cbn [fst]; [|apply same_view_refl].
    split; cbn [gst glist]; [|reflexivity]. intros j Hj. unfold upd.
    destruct (Nat.eqb_spec j i) as [->|]; [contradiction|reflexivity].
  - cbn [fst]. split; cbn [gst glist]; [|reflexivity]. intros j Hj. unfold upd.
    destruct (Nat.eqb_spec j i) as [->|]; [contradiction|reflexivity].
  - cbn [fst]. split; cbn [gst glist]; [reflexivity|]. rewrite filter_app. cbn [filter].
    unfold mine at 2. destruct (Nat.eqb_spec (owner i) t); [contradiction|]. apply app_nil_r.
  - destruct (existsb (Nat.eqb i) (glist g)); cbn [fst]; [|apply same_view_refl].
    split; cbn [gst glist]; [reflexivity|]. apply filter_remove_first_other. exact Ho.
  - cbn [fst]. apply same_view_refl.
Qed.

Definition sim (t : tid) (c1 c2 : config) : Prop :=
  same_view t (cg c1) (cg c2) /\ cprog c1 t = cprog c2 t /\ ctrace c1 t = ctrace c2 t.

Definition all_own (c : config) : Prop := forall u, owns u (cprog c u).

Lemma all_own_step c u : all_own c -> all_own (cstep reg c u).
Proof.
  intros H v. unfold cstep. destruct (cprog c u) as [|a k] eqn:E; [apply H|].
  destruct (gstep reg (cg c) a) as [g' o]. cbn [cprog]. unfold set_fn.
  destruct (Nat.eqb_spec v u) as [->|]; [|apply H].
  specialize (H u). rewrite E in H. destruct H as (_ & _ & Hk). apply Hk.
Qed.

Theorem noninterference t sched : forall c1 c2,
  all_own c1 -> all_own c2 -> sim t c1 c2 ->
  sim t (crun reg c1 sched) (crun reg c2 (filter (Nat.eqb t) sched)).
Proof.
  induction sched as [|u tl IH]; intros c1 c2 O1 O2 S; [exact S|].
  cbn [crun filter]. destruct (Nat.eqb_spec t u) as [<-|Hne].
  - (* the thread itself moves in both runs *)
    cbn [crun]. apply IH; [apply all_own_step; exact O1|apply all_own_step; exact O2|].
    destruct S as (V & P & T). unfold cstep. rewrite <- P.
    destruct (cprog c1 t) as [|a k] eqn:E; [unfold sim; split; [exact V|split; congruence]|].
    pose proof (O1 t) as Ow. rewrite E in Ow. destruct Ow as (Ho & Hex & _).
    destruct (own_step t (cg c1) (cg c2) a V Ho Hex) as [Eo Ev].
    destruct (gstep reg (cg c1) a) as [g1 o1], (gstep reg (cg c2) a) as [g2 o2]. cbn [fst snd] in *. subst o2.
    split; [exact Ev|]. cbn [cprog ctrace]. unfold set_fn. rewrite Nat.eqb_refl, T. split; reflexivity.
  - (* another thread moves in the concurrent run only *)
    apply IH; [apply all_own_step; exact O1|exact O2|].
    destruct S as (V & P & T). unfold cstep.
    destruct (cprog c1 u) as [|a k] eqn:E; [unfold sim; split; [exact V|split; congruence]|].
    pose proof (O1 u) as Ow. rewrite E in Ow. destruct Ow as (Ho & _ & _).
    assert (Hn : owner (target a) <> t) by congruence.
    pose proof (other_step t (cg c1) a Hn) as Ev.
    destruct (gstep reg (cg c1) a) as [g1 o1]. cbn [fst] in Ev.
    split; [eapply same_view_trans; [exact Ev|exact V]|]. cbn [cprog ctrace]. unfold set_fn.
    destruct (Nat.eqb_spec t u); [contradiction|]. split; assumption.
Qed.

(* the live-sandbox list stays consistent for every thread: its own instances are in the list exactly
   as in its solo run *)
Corollary own_list_view t sched c : all_own c ->
  filter (mine t) (glist (cg (crun reg c sched))) = filter (mine t) (glist (cg (crun reg c (filter (Nat.eqb t) sched)))).
Proof.
  intros O. destruct (noninterference t sched c c O O) as ((_ & V) & _); [|exact V].
  split; [apply same_view_refl|split; reflexivity].
Qed.
End NI.

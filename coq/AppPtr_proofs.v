(* AppPtr_proofs.v — the token table for every width, every limit, every history *)
From Coq Require Import FinFun.
From RLBoxV Require Import AppPtr.
Local Open Scope Z_scope.

Definition keys (es : list (Z * Z)) : list Z := map fst es.

Lemma mem_key_in es i : mem_key es i = true <-> In i (keys es).
Proof.
  unfold mem_key, keys. rewrite existsb_exists. split.
  - intros ((k, v) & Hin & He). cbn in He. apply Z.eqb_eq in He. subst.
    apply in_map_iff. exists (i, v). split; [reflexivity|assumption].
  - intros H. apply in_map_iff in H as ((k, v) & He & Hin). cbn in He. subst.
    exists (i, v). split; [assumption|]. cbn. apply Z.eqb_refl.
Qed.

Lemma mem_key_false es i : mem_key es i = false <-> ~ In i (keys es).
Proof. rewrite <- mem_key_in. destruct (mem_key es i); intuition congruence. Qed.

Lemma first_free_some es : forall fuel from i,
  first_free es from fuel = Some i ->
  from <= i < from + Z.of_nat fuel /\ mem_key es i = false /\
  (forall j, from <= j < i -> mem_key es j = true).
Proof.
  induction fuel as [|f IH]; intros from i; cbn [first_free]; [discriminate|].
  destruct (mem_key es from) eqn:E.
  - intros H. destruct (IH (from + 1) i H) as (H1 & H2 & H3).
    split; [lia|]. split; [assumption|]. intros j Hj.
    destruct (Z.eq_dec j from) as [->|Hne]; [assumption|apply H3; lia].
  - intros H; inversion H; subst. split; [lia|]. split; [assumption|]. intros j Hj; lia.
Qed.

Lemma first_free_none es : forall fuel from,
  first_free es from fuel = None -> forall j, from <= j < from + Z.of_nat fuel -> mem_key es j = true.
Proof.
  induction fuel as [|f IH]; intros from; cbn [first_free]; intros H j Hj; [lia|].
  destruct (mem_key es from) eqn:E; [|discriminate].
  destruct (Z.eq_dec j from) as [->|Hne]; [assumption|apply (IH (from + 1) H); lia].
Qed.

(* pigeonhole: n consecutive indices cannot all be keys of fewer than n entries *)
Lemma consecutive_keys_bound es from (n : nat) :
  (forall j, from <= j < from + Z.of_nat n -> In j (keys es)) -> (n <= length es)%nat.
Proof.
  intros H.
  set (l := map (fun k => from + Z.of_nat k) (seq 0 n)).
  assert (Hnd : NoDup l).
  { unfold l. apply FinFun.Injective_map_NoDup; [|apply seq_NoDup].
    intros a b Hab. lia. }
  assert (Hincl : incl l (keys es)).
  { intros x Hx. unfold l in Hx. apply in_map_iff in Hx as (k & <- & Hk).
    apply in_seq in Hk. apply H. lia. }
  pose proof (NoDup_incl_length Hnd Hincl) as L.
  unfold l in L. rewrite map_length, seq_length in L. unfold keys in L. rewrite map_length in L. exact L.
Qed.

(* the bounded scan is exact *)
Lemma scan_some es from to i :
  scan es from to = Some i ->
  from <= i <= to /\ mem_key es i = false /\ (forall j, from <= j < i -> mem_key es j = true).
Proof.
  unfold scan. destruct (Z.leb_spec (to - from + 1) 0) as [Hn|Hn]; [discriminate|].
  destruct (first_free es from _) as [k|] eqn:E; [|discriminate].
  destruct (Z.leb_spec k to) as [Hk|Hk]; [|discriminate].
  intros Heq; inversion Heq; subst.
  destruct (first_free_some es _ from i E) as (H1 & H2 & H3). split; [lia|]. split; assumption.
Qed.

Lemma scan_none es from to :
  scan es from to = None -> forall j, from <= j <= to -> mem_key es j = true.
Proof.
  unfold scan. destruct (Z.leb_spec (to - from + 1) 0) as [|Hn]; [intros _ j Hj; lia|].
  set (n := to - from + 1) in *. set (len := Z.of_nat (length es)).
  destruct (first_free es from (Z.to_nat (Z.min n (len + 1)))) as [k|] eqn:E.
  - destruct (Z.leb_spec k to) as [|Hk]; [discriminate|]. intros _ j Hj.
    destruct (first_free_some es _ from k E) as (_ & _ & H3). apply H3. lia.
  - intros _ j Hj.
    pose proof (first_free_none es _ from E) as Hall.
    destruct (Z.leb_spec n (len + 1)) as [Hle|Hgt].
    + rewrite Z.min_l in Hall by lia. apply Hall. rewrite Z2Nat.id by lia. unfold n in *; lia.
    + (* cut at len+1: impossible by pigeonhole *)
      exfalso. rewrite Z.min_r in Hall by lia.
      assert (B : (Z.to_nat (len + 1) <= length es)%nat).
      { apply (consecutive_keys_bound es from). intros x Hx. apply mem_key_in. apply Hall. exact Hx. }
      unfold len in B. lia.
Qed.

(* ---------- invariant ---------- *)
Definition ainv (max : Z) (m : amap) : Prop :=
  NoDup (keys (entries m)) /\ In 0 (keys (entries m)) /\
  (forall k, In k (keys (entries m)) -> 0 <= k <= max) /\
  1 <= counter m <= max + 1.

Lemma ainv_init max : 1 <= max -> ainv max amap_init.
Proof.
  intros H. unfold ainv, amap_init; cbn [entries counter keys map fst].
  split; [constructor; [intros []|constructor]|].
  split; [left; reflexivity|]. split; [|lia].
  intros k [<-|[]]; lia.
Qed.

Lemma keys_remove_notin es i : ~ In i (keys es) -> remove_key es i = es.
Proof.
  induction es as [|(k, v) tl IH]; cbn; intros H; [reflexivity|].
  destruct (Z.eqb_spec k i) as [->|Hne]; [exfalso; apply H; left; reflexivity|].
  rewrite IH; [reflexivity|]. intros Hin; apply H; right; assumption.
Qed.

Lemma keys_remove es i : NoDup (keys es) ->
  NoDup (keys (remove_key es i)) /\ (forall k, In k (keys (remove_key es i)) <-> In k (keys es) /\ k <> i).
Proof.
  induction es as [|(k0, v) tl IH]; cbn; intros Hnd.
  - split; [constructor|]. intros k; tauto.
  - inversion Hnd as [|? ? Hnot Hnd']; subst.
    destruct (Z.eqb_spec k0 i) as [->|Hne].
    + split; [assumption|]. intros k. split.
      * intros Hk. split; [right; assumption|]. intros ->. contradiction.
      * intros [[<-|Hk] Hn]; [congruence|assumption].
    + destruct (IH Hnd') as [IH1 IH2]. cbn. split.
      * constructor; [|assumption]. intros Hin. apply IH2 in Hin. tauto.
      * intros k. rewrite IH2. split.
        -- intros [<-|[Hk Hn]]; [split; [left; reflexivity|congruence]|split; [right; assumption|assumption]].
        -- intros [[<-|Hk] Hn]; [left; reflexivity|right; split; assumption].
Qed.

(* registration: with any limit below the type maximum *)
Lemma get_unused_spec W max m :
  1 <= max -> max < W - 1 -> ainv max m ->
  (exists i, get_unused_index W max m = Ok (i, {| entries := entries m; counter := i + 1 |}) /\
             1 <= i <= max /\ ~ In i (keys (entries m))) \/
  (get_unused_index W max m = Abort /\ forall i, 1 <= i <= max -> In i (keys (entries m))).
Proof.
  intros Hmax HW (Hnd & H0 & Hrange & Hc). unfold get_unused_index.
  destruct (Z.ltb_spec max (W - 1)); [|lia].
  destruct (scan (entries m) (counter m) max) as [i|] eqn:E1.
  - left. exists i. split; [reflexivity|].
    destruct (scan_some _ _ _ _ E1) as (H1 & H2 & _). split; [lia|]. apply mem_key_false; assumption.
  - destruct (scan (entries m) 1 (counter m - 1)) as [i|] eqn:E2.
    + left. exists i. split; [reflexivity|].
      destruct (scan_some _ _ _ _ E2) as (H1 & H2 & _). split; [lia|]. apply mem_key_false; assumption.
    + right. split; [reflexivity|]. intros i Hi. apply mem_key_in.
      destruct (Z.ltb_spec i (counter m)).
      * apply (scan_none _ _ _ E2); lia.
      * apply (scan_none _ _ _ E1); lia.
Qed.

Lemma register_spec W max ptr m :
  1 <= max -> max < W - 1 -> ainv max m ->
  (exists i m', get_app_pointer_idx W max ptr m = Ok (i, m') /\
       1 <= i <= max /\ ~ In i (keys (entries m)) /\
       entries m' = (i, ptr) :: entries m /\ ainv max m') \/
  (get_app_pointer_idx W max ptr m = Abort /\ forall i, 1 <= i <= max -> In i (keys (entries m))).
Proof.
  intros Hmax HW Hinv. unfold get_app_pointer_idx.
  destruct (get_unused_spec W max m Hmax HW Hinv) as [(i & E & Hi & Hfresh)|[E Hall]].
  - left. rewrite E. cbn [bind]. cbn [entries counter].
    rewrite (keys_remove_notin _ _ Hfresh).
    eexists; eexists; split; [reflexivity|]. split; [assumption|]. split; [assumption|].
    split; [reflexivity|].
    destruct Hinv as (Hnd & H0 & Hrange & Hc). unfold ainv; cbn [entries counter keys map fst].
    split; [constructor; assumption|]. split; [right; assumption|].
    split; [|lia]. intros k [<-|Hk]; [lia|apply Hrange; assumption].
  - right. rewrite E. split; [reflexivity|assumption].
Qed.

Lemma release_spec max idx m :
  ainv max m -> idx <> 0 ->
  (In idx (keys (entries m)) /\ exists m', remove_app_ptr idx m = Ok m' /\ ainv max m' /\
      (forall k, In k (keys (entries m')) <-> In k (keys (entries m)) /\ k <> idx)) \/
  (~ In idx (keys (entries m)) /\ remove_app_ptr idx m = Abort).
Proof.
  intros (Hnd & H0 & Hrange & Hc) Hne. unfold remove_app_ptr.
  destruct (mem_key (entries m) idx) eqn:E.
  - left. split; [apply mem_key_in; assumption|]. eexists; split; [reflexivity|].
    destruct (keys_remove (entries m) idx Hnd) as [K1 K2]. split.
    + unfold ainv; cbn [entries counter]. split; [assumption|]. split; [apply K2; split; [assumption|lia]|].
      split; [|assumption]. intros k Hk. apply K2 in Hk. apply Hrange; tauto.
    + cbn [entries]. exact K2.
  - right. split; [apply mem_key_false; assumption|reflexivity].
Qed.

(* lookup returns exactly the registered pointer *)
Lemma find_key_head i ptr es : find_key ((i, ptr) :: es) i = Some ptr.
Proof. cbn. rewrite Z.eqb_refl. reflexivity. Qed.

Lemma find_key_other i j ptr es : i <> j -> find_key ((i, ptr) :: es) j = find_key es j.
Proof. intros H. cbn. destruct (Z.eqb_spec i j); [contradiction|reflexivity]. Qed.

Lemma find_key_none es i : ~ In i (keys es) -> find_key es i = None.
Proof.
  induction es as [|(k, v) tl IH]; cbn; intros H; [reflexivity|].
  destruct (Z.eqb_spec k i) as [->|]; [exfalso; apply H; left; reflexivity|].
  apply IH. intros Hin; apply H; right; assumption.
Qed.

Lemma find_key_remove_other es i j : i <> j -> find_key (remove_key es i) j = find_key es j.
Proof.
  intros Hne. induction es as [|(k, v) tl IH]; cbn; [reflexivity|].
  destruct (Z.eqb_spec k i) as [->|Hki].
  - destruct (Z.eqb_spec i j); [contradiction|reflexivity].
  - cbn. destruct (Z.eqb_spec k j); [reflexivity|assumption].
Qed.

Lemma lookup_after_release max idx m m' :
  ainv max m -> remove_app_ptr idx m = Ok m' -> lookup_index idx m' = Abort.
Proof.
  intros (Hnd & _) H. unfold remove_app_ptr in H.
  destruct (mem_key (entries m) idx); [|discriminate]. inversion H; subst. unfold lookup_index; cbn [entries].
  destruct (keys_remove (entries m) idx Hnd) as [_ K2].
  rewrite find_key_none; [reflexivity|]. intros Hin. apply K2 in Hin. tauto.
Qed.

(* every history of registrations and releases keeps the invariant *)
Lemma arun_inv W max ops : forall m m',
  1 <= max -> max < W - 1 -> ainv max m ->
  Forall (fun o => match o with ARelease i => i <> 0 | _ => True end) ops ->
  arun W max m ops = Ok m' -> ainv max m'.
Proof.
  induction ops as [|o tl IH]; cbn [arun]; intros m m' Hmax HW Hinv Hops Hrun.
  - inversion Hrun; subst; assumption.
  - inversion Hops as [|? ? Ho Htl]; subst.
    destruct (astep W max m o) as [m1| | |] eqn:E; cbn [bind] in Hrun; try discriminate.
    apply (IH m1 m' Hmax HW); try assumption.
    destruct o as [ptr|idx]; cbn [astep] in E.
    + destruct (register_spec W max ptr m Hmax HW Hinv) as [(i & m2 & E2 & _ & _ & _ & Hinv2)|[E2 _]];
        rewrite E2 in E; cbn [bind snd] in E; [inversion E; subst; assumption|discriminate].
    + destruct (release_spec max idx m Hinv Ho) as [(_ & m2 & E2 & Hinv2 & _)|[_ E2]];
        rewrite E2 in E; [inversion E; subst; assumption|discriminate].
Qed.

(* N1: with the limit equal to the type's maximum and a full table the scan never ends *)
Lemma limit_is_type_max_diverges :
  get_unused_index 4 3 {| entries := [(0,0); (1,11); (2,12); (3,13)]; counter := 2 |} = Diverge.
Proof. vm_compute. reflexivity. Qed.

(* non-vacuity: 8-bit table with limit 3 *)
Example table_example :
  exists m, arun 256 3 amap_init [ARegister 101; ARegister 102; ARelease 1; ARegister 103; ARegister 104] = Ok m /\
            keys (entries m) = [1; 3; 2; 0] /\ lookup_index 1 m = Ok 104 /\
            get_app_pointer_idx 256 3 105 m = Abort.
Proof. eexists. vm_compute. repeat split. Qed.

(* owner layer before the fix (D9'): overwriting a live owner leaked its token *)
Lemma overwrite_leaked_before_fix :
  exists w, orun false 256 200 {| amapw := amap_init; owners := [None; None] |} [OGet 0%nat 101; OGet 0%nat 102] = Ok w /\
            held (owners w) = [2] /\ live_tokens (amapw w) = [2; 1].
Proof. eexists. vm_compute. repeat split. Qed.

Lemma overwrite_releases_after_fix :
  exists w, orun true 256 200 {| amapw := amap_init; owners := [None; None] |} [OGet 0%nat 101; OGet 0%nat 102; OMove 1%nat 0%nat] = Ok w /\
            held (owners w) = [2] /\ live_tokens (amapw w) = [2] /\ owners w = [None; Some 2].
Proof. eexists. vm_compute. repeat split. Qed.

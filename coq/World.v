(* World.v — model of the sandbox object's lifecycle and registries
   (rlbox_sandbox.hpp: sandbox_created, sandbox_list, callback_keys, func_ptr_map;
   back-end callback slot table) and of the owning objects (rlbox_policy_types.hpp
   sandbox_callback: register, unregister, destruction, move construction, move
   assignment).  Any number of sandbox objects and owner variables. *)
From RLBoxV Require Export Machine.
From Coq Require Export Arith PeanoNat.
Local Open Scope Z_scope.

Inductive status := NotCreated | Initializing | Created | CleaningUp.
Definition status_eqb (a b : status) : bool :=
  match a, b with
  | NotCreated, NotCreated | Initializing, Initializing | Created, Created | CleaningUp, CleaningUp => true
  | _, _ => false
  end.

Record sbx := {
  st : status;               (* std::atomic<Sandbox_Status> sandbox_created *)
  ckeys : list Z;            (* callback_keys (function addresses) *)
  slots : list (option Z);   (* back end: callback_unique_keys[MAX_CALLBACKS] *)
  cache : list Z;            (* names present in func_ptr_map *)
  icache : list Z            (* names present in the internal-lookup cache (separate map after the fix: commit) *)
}.

Definition sbx_init (nslots : nat) : sbx :=
  {| st := NotCreated; ckeys := []; slots := repeat None nslots; cache := []; icache := [] |}.

(* an owner variable (sandbox_callback<..>): inert, or owning key k of sandbox i in back-end slot s *)
Record world := {
  sbs : list sbx;
  slist : list nat;                          (* static sandbox_list, in push_back order *)
  owns : list (option (nat * Z))             (* owner variables: Some (sandbox, key) *)
}.

Fixpoint wset_nth {A} (l : list A) (k : nat) (a : A) : list A :=
  match l, k with
  | [], _ => []
  | _ :: tl, O => a :: tl
  | x :: tl, S k' => x :: wset_nth tl k' a
  end.

Definition get_sb (w : world) (i : nat) : sbx := nth i (sbs w) (sbx_init 0).
Definition put_sb (w : world) (i : nat) (s : sbx) : world :=
  {| sbs := wset_nth (sbs w) i s; slist := slist w; owns := owns w |}.

Fixpoint remove_first {A} (eqb : A -> A -> bool) (x : A) (l : list A) : list A :=
  match l with [] => [] | y :: tl => if eqb x y then tl else y :: remove_first eqb x tl end.

Definition memZ (x : Z) (l : list Z) : bool := existsb (Z.eqb x) l.

(* first free back-end slot *)
Fixpoint first_none (l : list (option Z)) : option nat :=
  match l with
  | [] => None
  | None :: _ => Some 0%nat
  | Some _ :: tl => match first_none tl with Some n => Some (S n) | None => None end
  end.

(* impl_unregister_callback: clear the first slot holding the key *)
Fixpoint clear_slot (l : list (option Z)) (k : Z) : list (option Z) :=
  match l with
  | [] => []
  | Some k' :: tl => if k' =? k then None :: tl else Some k' :: clear_slot tl k
  | None :: tl => None :: clear_slot tl k
  end.

(* observable outcome of one operation *)
Inductive out := ODone | ONull | OBool (b : bool) | ONat (n : nat) | OIgnored.

(* ---------- lifecycle ---------- *)
Definition create_sandbox (ok : bool) (w : world) (i : nat) : res (world * out) :=
  let s := get_sb w i in
  _ <- check (Nat.ltb i (length (sbs w))) ;;              (* the object exists (model bookkeeping) *)
  _ <- check (status_eqb (st s) NotCreated) ;;            (* compare_exchange NOT_CREATED -> INITIALIZING *)
  if ok then
    Ok ({| sbs := wset_nth (sbs w) i {| st := Created; ckeys := ckeys s; slots := slots s; cache := cache s; icache := icache s |};
           slist := slist w ++ [i]; owns := owns w |}, OBool true)
  else
    Ok (put_sb w i {| st := Initializing; ckeys := ckeys s; slots := slots s; cache := cache s; icache := icache s |}, OBool false).

(* [fresh] = false: what the code does (registrations, back-end slots and symbol caches
   survive, D12); true: what C14 demands of the next incarnation (used as the spec) *)
Definition destroyed_sbx (fresh : bool) (s : sbx) : sbx :=
  if fresh then {| st := NotCreated; ckeys := []; slots := repeat None (length (slots s)); cache := []; icache := [] |}
  else {| st := NotCreated; ckeys := ckeys s; slots := slots s; cache := cache s; icache := icache s |}.

Definition destroy_sandbox (fresh : bool) (w : world) (i : nat) : res (world * out) :=
  let s := get_sb w i in
  _ <- check (status_eqb (st s) Created) ;;               (* compare_exchange CREATED -> CLEANING_UP *)
  _ <- check (existsb (Nat.eqb i) (slist w)) ;;
  Ok ({| sbs := wset_nth (sbs w) i (destroyed_sbx fresh s);
         slist := remove_first Nat.eqb i (slist w); owns := owns w |}, ODone).

Definition is_created (w : world) (i : nat) : bool := status_eqb (st (get_sb w i)) Created.

(* malloc_in_sandbox / free_in_sandbox outside the window *)
Definition malloc_op (w : world) (i : nat) : out := if is_created w i then ODone else ONull.
Definition free_op (w : world) (i : nat) : out := if is_created w i then ODone else OIgnored.

(* by-name invocation / function address: what the back end is asked *)
Definition lookup_op (w : world) (i : nat) (name : Z) : world * out :=
  let s := get_sb w i in
  if memZ name (cache s) then (w, OBool false)   (* served from the cache: back end not asked *)
  else (put_sb w i {| st := st s; ckeys := ckeys s; slots := slots s; cache := name :: cache s; icache := icache s |}, OBool true).
Definition ilookup_op (w : world) (i : nat) (name : Z) : world * out :=
  let s := get_sb w i in
  if memZ name (icache s) then (w, OBool false)
  else (put_sb w i {| st := st s; ckeys := ckeys s; slots := slots s; cache := cache s; icache := name :: icache s |}, OBool true).

(* ---------- callbacks ---------- *)
(* rlbox_sandbox::register_callback followed by the back end's impl_register_callback;
   a full table is refused (abort) — shipped back ends after the fix: commit, verif back end always *)
Definition register_cb (w : world) (i : nat) (k : Z) : res (world * nat) :=
  let s := get_sb w i in
  _ <- check (status_eqb (st s) Created) ;;
  _ <- check (negb (memZ k (ckeys s))) ;;
  match first_none (slots s) with
  | None => Abort
  | Some n =>
    Ok (put_sb w i {| st := st s; ckeys := ckeys s ++ [k]; slots := wset_nth (slots s) n (Some k);
                      cache := cache s; icache := icache s |}, n)
  end.

(* rlbox_sandbox::unregister_callback *)
Definition unregister_cb (fresh : bool) (w : world) (i : nat) (k : Z) : res world :=
  let s := get_sb w i in
  if negb (status_eqb (st s) Created) then Ok w else
  if fresh && negb (memZ k (ckeys s)) then Ok w else      (* spec: an owner of an earlier incarnation is harmless *)
  _ <- check (memZ k (ckeys s)) ;;
  Ok (put_sb w i {| st := st s; ckeys := remove_first Z.eqb k (ckeys s); slots := clear_slot (slots s) k;
                    cache := cache s; icache := icache s |}).

Definition cb_owner_at (w : world) (j : nat) : option (nat * Z) := nth j (owns w) None.
Definition set_owner (w : world) (j : nat) (o : option (nat * Z)) : world :=
  {| sbs := sbs w; slist := slist w; owns := wset_nth (owns w) j o |}.

(* sandbox_callback::unregister() / destructor *)
Definition owner_unregister (fresh : bool) (w : world) (j : nat) : res world :=
  match cb_owner_at w j with
  | None => Ok w
  | Some (i, k) => w' <- unregister_cb fresh w i k ;; Ok (set_owner w' j None)
  end.

Inductive wop :=
| WCreate (i : nat) (ok : bool) | WDestroy (i : nat) | WMalloc (i : nat) | WFree (i : nat)
| WLookup (i : nat) (name : Z) | WILookup (i : nat) (name : Z)
| WRegister (j i : nat) (k : Z)       (* owner j = sandbox i .register_callback(f_k)  (move-assigned into j) *)
| WUnregister (j : nat)               (* owner j .unregister() / goes out of scope *)
| WMoveCtor (j j2 : nat)              (* new owner j (inert before) constructed from std::move(owner j2) *)
| WMoveAssign (j j2 : nat)            (* owner j = std::move(owner j2) *)
| WIsUnreg (j : nat).

(* [rel]: operator=(&&) releases what it overwrites (after the fix: commit) *)
Definition wstep_gen (fresh rel : bool) (w : world) (o : wop) : res (world * out) :=
  match o with
  | WCreate i ok => create_sandbox ok w i
  | WDestroy i => destroy_sandbox fresh w i
  | WMalloc i => Ok (w, malloc_op w i)
  | WFree i => Ok (w, free_op w i)
  | WLookup i name => Ok (lookup_op w i name)
  | WILookup i name => Ok (ilookup_op w i name)
  | WRegister j i k =>
    _ <- check (Nat.ltb j (length (owns w))) ;;             (* the owner variable exists (model bookkeeping) *)
    r <- register_cb w i k ;;
    let '(w1, n) := r in
    w2 <- (if rel then owner_unregister fresh w1 j else Ok w1) ;;
    Ok (set_owner w2 j (Some (i, k)), ONat n)
  | WUnregister j => w' <- owner_unregister fresh w j ;; Ok (w', ODone)
  | WMoveCtor j j2 =>
    (* a constructor builds a NEW object: the slot j must be inert (otherwise the step is not a move construction: skipped) *)
    if Nat.eqb j j2 then Ok (w, ODone) else
    _ <- check (Nat.ltb j (length (owns w))) ;;             (* the target variable exists (model bookkeeping) *)
    match cb_owner_at w j with
    | Some _ => Ok (w, ODone)
    | None => Ok (set_owner (set_owner w j (cb_owner_at w j2)) j2 None, ODone)
    end
  | WMoveAssign j j2 =>
    if Nat.eqb j j2 then Ok (w, ODone) else
    _ <- check (Nat.ltb j (length (owns w))) ;;
    w1 <- (if rel then owner_unregister fresh w j else Ok w) ;;
    Ok (set_owner (set_owner w1 j (cb_owner_at w1 j2)) j2 None, ODone)
  | WIsUnreg j => Ok (w, OBool (match cb_owner_at w j with None => true | Some _ => false end))
  end.

Definition wstep := wstep_gen false.     (* the code *)
Definition wstep_spec := wstep_gen true true.   (* what C13/C14 demand *)

Fixpoint wrun (rel : bool) (w : world) (ops : list wop) : res (world * list out) :=
  match ops with
  | [] => Ok (w, [])
  | o :: tl =>
    r <- wstep rel w o ;;
    let '(w1, x) := r in
    r2 <- wrun rel w1 tl ;;
    let '(w2, xs) := r2 in Ok (w2, x :: xs)
  end.

(* histories with RECOVERABLE aborts (RLBOX_USE_EXCEPTIONS): a refused operation leaves the world as
   it was and the history goes on (what the correspondence run's `rx` operation does) *)
Fixpoint wrun_rec (rel : bool) (w : world) (ops : list wop) : world :=
  match ops with
  | [] => w
  | o :: tl => match wstep rel w o with Ok (w1, _) => wrun_rec rel w1 tl | _ => wrun_rec rel w tl end
  end.

Definition world_init (nsb nslots nown : nat) : world :=
  {| sbs := repeat (sbx_init nslots) nsb; slist := []; owns := repeat None nown |}.

Definition code_move_assign_releases : bool := true.

(* what sandboxed code can reach in sandbox i: the keys in the back-end slot table *)
Fixpoint slot_keys (l : list (option Z)) : list Z :=
  match l with [] => [] | Some k :: tl => k :: slot_keys tl | None :: tl => slot_keys tl end.
Definition reachable (w : world) (i : nat) : list Z := slot_keys (slots (get_sb w i)).
(* keys of live registered owners of sandbox i *)
Fixpoint owned_keys (l : list (option (nat * Z))) (i : nat) : list Z :=
  match l with
  | [] => []
  | Some (i', k) :: tl => if Nat.eqb i' i then k :: owned_keys tl i else owned_keys tl i
  | None :: tl => owned_keys tl i
  end.

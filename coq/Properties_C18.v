(* Properties_C18.v — C18: distinct sandboxes can be used from distinct threads without
   interference.  For ANY number of threads, ANY programs (the next action may depend on all earlier
   observations) that act only on instances they own, and EVERY schedule.
   PARTIAL in one respect (DESIGN.md): the theorem is about interleavings of the code's atomic units
   (one compare-exchange / store of a status word, one lock-protected section on the list); that these
   units really are atomic and that nothing else is shared — i.e. absence of data races in the C++
   memory model — is supported by ThreadSanitizer runs of the real code, not proved.
   Statements only. *)
From RLBoxV Require Import Threads Threads_proofs World ThreadRec ThreadRec_proofs.
Local Open Scope Z_scope.

(* non-interference: thread t's program, its sequence of observations (results of its status
   transitions, of its list updates, of its example-based lookups) and its view of the shared state
   after any schedule are those of the run in which all other threads' steps are deleted *)
Theorem C18_noninterference : forall reg owner,
  (forall i j, i <> j -> forall x, inr (reg i) x = true -> inr (reg j) x = false) ->
  forall t sched c,
  (forall u, Threads_proofs.owns reg owner u (cprog c u)) ->
  let c1 := crun reg c sched in
  let c2 := crun reg c (filter (Nat.eqb t) sched) in
  ctrace c1 t = ctrace c2 t /\ cprog c1 t = cprog c2 t /\ same_view owner t (cg c1) (cg c2).
Proof.
  intros reg owner Hd t sched c Ho.
  destruct (noninterference reg owner Hd t sched c c Ho Ho) as (V & P & T).
  - split; [apply same_view_refl|split; reflexivity].
  - cbv zeta. repeat split; assumption || apply V.
Qed.
Print Assumptions C18_noninterference.

(* pointers are translated relative to the thread's own sandbox: an example-based lookup with an
   address inside instance i finds i or nothing, whatever other instances are in the list *)
Theorem C18_lookup_own_instance : forall reg,
  (forall i j, i <> j -> forall x, inr (reg i) x = true -> inr (reg j) x = false) ->
  forall i ex l, inr (reg i) ex = true ->
  scan reg l ex = if existsb (Nat.eqb i) l then Some i else None.
Proof. intros reg Hd i ex l H. exact (scan_disjoint reg Hd i ex l H). Qed.

(* non-vacuity: two threads create, look up and destroy their instances under an interleaved schedule *)
Example C18_example :
  let reg := fun i : nat => {| rbase := Z.of_nat (i + 1) * 2^44; rsize := 2^32 |} in
  let life := fun (i : nat) (ex : Z) =>
     Act (ACas i NotCreated Initializing) (fun _ => Act (ASet i Created) (fun _ => Act (APush i) (fun _ =>
     Act (AFind i ex) (fun _ => Act (ACas i Created CleaningUp) (fun _ => Act (AErase i) (fun _ =>
     Act (ASet i NotCreated) (fun _ => Act (AFind i ex) (fun _ => Done)))))))) in
  let c0 := {| cg := {| gst := fun _ => NotCreated; glist := [] |};
               cprog := fun t => match t with 0%nat => life 0%nat (2^44 + 64) | 1%nat => life 1%nat (2 * 2^44 + 64) | _ => Done end;
               ctrace := fun _ => [] |} in
  let sched := [0; 1; 1; 0; 1; 0; 0; 1; 1; 0; 1; 0; 0; 1; 0; 1]%nat in
  ctrace (crun reg c0 sched) 0%nat = [OOk; OOk; OOk; OFound (Some 0%nat); OOk; OOk; OOk; OFound None] /\
  ctrace (crun reg c0 sched) 1%nat = [OOk; OOk; OOk; OFound (Some 1%nat); OOk; OOk; OOk; OFound None].
Proof. vm_compute. split; reflexivity. Qed.

Local Open Scope nat_scope.
(* the back end's record of the currently executing sandbox (saved / set / restored around every invocation, read by the
   callback trampolines): with one record per thread - library-provided or embedder-provided thread-local storage - every
   thread, under EVERY schedule, ends exactly where it ends alone after the same number of its own steps: each callback
   dispatch consults the sandbox that thread entered.  One process-wide record is refuted. *)
Theorem C18_thread_record : forall sched c t,
  ThreadRec.run false c sched t = iter_solo (count_tid t sched) (c t).
Proof. exact record_per_thread_noninterference. Qed.
Print Assumptions C18_thread_record.
Theorem C18_shared_record_refuted :
  let c0 : ThreadRec.config := fun t => match t with
                              | 0 => {| cellv := None; saved := []; todo := [REnter 10; RDispatch; RLeave]; seen := [] |}
                              | 1 => {| cellv := None; saved := []; todo := [REnter 11; RDispatch; RLeave]; seen := [] |}
                              | _ => {| cellv := None; saved := []; todo := []; seen := [] |}
                              end in
  seen (ThreadRec.run true c0 [0; 1; 0; 1; 0; 1] 0) = [Some 11] /\
  seen (iter_solo 3 (c0 0)) = [Some 10] /\
  seen (ThreadRec.run false c0 [0; 1; 0; 1; 0; 1] 0) = [Some 10].
Proof. exact shared_record_refuted. Qed.

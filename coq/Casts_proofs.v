From RLBoxV Require Import Casts Conv_proofs Mem_proofs Ptr_proofs.
Local Open Scope Z_scope.

Lemma opaque_roundtrip_value k v : in_range k v = true ->
  decode k (from_opaque_img (to_opaque_img (image k v))) = v.
Proof. intros H. unfold from_opaque_img, to_opaque_img, image. apply decode_encode. exact H. Qed.

Lemma static_cast_tainted a to from v :
  sandbox_static_cast a false to from v = Some (Ok (wrap to v)) /\
  in_range to (wrap to v) = true /\ (in_range to v = true -> wrap to v = v).
Proof. repeat split; [apply wrap_in_range|apply wrap_id]. Qed.

Lemma static_cast_volatile a to from sk v :
  abi_ok a = true -> sbx_equiv a from = Some sk -> in_range sk v = true -> in_range from v = true ->
  sandbox_static_cast a true to from v = Some (Ok (wrap to v)).
Proof.
  intros Ha He Hs Hk. unfold sandbox_static_cast, to_app. rewrite He.
  rewrite (conv_correct from sk v Hs (proj2 (sbx_equiv_no_n2 a from sk Ha He))). unfold conv_spec. rewrite Hk. reflexivity.
Qed.

(* a cast of a pointer held in sandbox memory designates the address its cell designates: the cast
   adds nothing to the translation; null stays null *)
Lemma ptr_cast_address vol s x :
  sandbox_ptr_cast vol s x = (if vol then unsandbox s x else x) /\ sandbox_ptr_cast false s 0 = 0 /\ sandbox_ptr_cast true s 0 = 0.
Proof. repeat split. Qed.

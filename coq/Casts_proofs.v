From RLBoxV Require Import Casts Conv_proofs Mem_proofs Ptr_proofs.
Local Open Scope Z_scope.

Lemma opaque_roundtrip_value k v : in_range k v = true ->
  decode k (from_opaque_img (to_opaque_img (image k v))) = v.
Proof. intros H. unfold from_opaque_img, to_opaque_img, image. apply decode_encode. exact H. Qed.

Lemma static_cast_tainted a to from v :
  sandbox_static_cast a false to from v = Some (Ok (wrap to v)) /\
  in_range to (wrap to v) = true /\ (in_range to v = true -> wrap to v = v).
Proof. repeat split; [apply wrap_in_range|apply wrap_id]. Qed.

Lemma static_cast_volatile a to from sk v :
  abi_ok a = true -> sbx_equiv a from = Some sk -> in_range sk v = true -> in_range from v = true ->
  sandbox_static_cast a true to from v = Some (Ok (wrap to v)).
Proof.
  intros Ha He Hs Hk. unfold sandbox_static_cast, to_app. rewrite He.
  rewrite (conv_correct from sk v Hs (proj2 (sbx_equiv_no_n2 a from sk Ha He))). unfold conv_spec. rewrite Hk. reflexivity.
Qed.

(* a cast of a pointer held in sandbox memory designates the address its cell designates: the cast
   adds nothing to the translation; null stays null *)
Lemma ptr_cast_address vol s x :
  sandbox_ptr_cast vol s x = (if vol then unsandbox s x else x) /\ sandbox_ptr_cast false s 0 = 0 /\ sandbox_ptr_cast true s 0 = 0.
Proof. repeat split. Qed.

(* ---------- casts of cells, from the bytes of sandbox memory ---------- *)
(* the memory-level cast IS the value-level cast (the one the correspondence run ties to the
   headers) applied to what the cell's bytes denote in the sandbox type: every memory, every
   bit pattern *)
Lemma static_cast_mem_refines a to from sk addr m :
  sbx_equiv a from = Some sk ->
  sandbox_static_cast_mem a to from addr m =
  sandbox_static_cast a true to from (decode sk (read m addr (nbytes sk))).
Proof.
  intros He. unfold sandbox_static_cast_mem, sandbox_static_cast, load_int, to_app. rewrite He. reflexivity.
Qed.

(* … it holds exactly static_cast<to> of the value the bytes denote, or aborts exactly when the
   operand's own application type cannot hold that value (C06); nothing else *)
Lemma static_cast_mem_spec a to from sk addr m :
  abi_ok a = true -> sbx_equiv a from = Some sk -> sk <> IBool ->
  let v := decode sk (read m addr (nbytes sk)) in
  sandbox_static_cast_mem a to from addr m =
  Some (if in_range from v then Ok (wrap to v) else Abort).
Proof.
  intros Ha He Hb v. unfold sandbox_static_cast_mem.
  rewrite (load_int_decodes a from addr m sk Ha He Hb). fold v. unfold conv_spec.
  destruct (in_range from v); reflexivity.
Qed.

(* … and depends on no byte outside the cell *)
Lemma static_cast_mem_local a to from sk addr m1 m2 :
  sbx_equiv a from = Some sk ->
  (forall y, addr <= y < addr + size sk -> m1 y = m2 y) ->
  sandbox_static_cast_mem a to from addr m1 = sandbox_static_cast_mem a to from addr m2.
Proof.
  intros He H. unfold sandbox_static_cast_mem. rewrite (load_int_local a from addr m1 m2 sk He H). reflexivity.
Qed.

(* a cast after a store of a representable value returns static_cast<to> of that value *)
Lemma static_cast_mem_after_store a to from addr v m m' :
  abi_ok a = true -> in_range from v = true -> store_int a from addr v m = Some (Ok m') ->
  sandbox_static_cast_mem a to from addr m' = Some (Ok (wrap to v)).
Proof.
  intros Ha Hr Hs. unfold sandbox_static_cast_mem. rewrite (load_after_store a from addr v m m' Ha Hr Hs). reflexivity.
Qed.

(* pointer casts of a pointer cell: the designated address is the one a plain load of the cell
   designates (same translation path), hence null or inside the sandbox whatever the cell holds
   below the sandbox size (taint is kept: the result is again a checked tainted pointer) *)
Lemma ptr_cast_mem_is_load w s addr m : sandbox_ptr_cast_mem w s addr m = load_ptr w s addr m.
Proof. reflexivity. Qed.

Lemma ptr_cast_mem_inv w s addr m :
  region_ok s -> 0 <= load_bits w addr m < rsize s -> ptr_inv s (sandbox_ptr_cast_mem w s addr m).
Proof. intros Hs Hr. unfold sandbox_ptr_cast_mem, sandbox_ptr_cast. apply unsandbox_inv; assumption. Qed.

Lemma ptr_cast_mem_roundtrip w s addr p m :
  0 <= w -> 0 <= sandbox_ptr s p < 256 ^ w ->
  sandbox_ptr_cast_mem w s addr (store_ptr w s addr p m) = unsandbox s (sandbox_ptr s p).
Proof. intros Hw Hr. rewrite ptr_cast_mem_is_load. apply load_store_ptr; assumption. Qed.

(* ---------- opaque: every byte image, and what crosses the boundary ---------- *)
Lemma opaque_roundtrip_image (img : list Z) : from_opaque_img (to_opaque_img img) = img.
Proof. reflexivity. Qed.

(* an opaque argument / callback result crosses exactly as the tainted value it came from *)
Lemma opaque_crosses_as_tainted a k v : in_range k v = true ->
  opaque_to_sbx a k (to_opaque_img (image k v)) = to_sbx a k v.
Proof.
  intros H. unfold opaque_to_sbx, from_opaque_img, to_opaque_img, image. rewrite (decode_encode k v H). reflexivity.
Qed.

(* non-vacuity: a 4-byte cell holding 0xFFFFFFFF read as long under the LP32 guest ABI and cast to
   unsigned short *)
Example static_cast_mem_example :
  sandbox_static_cast_mem abi_lp32 IUShort ILong 16 (fun y => if (16 <=? y) && (y <? 20) then 255 else 7) = Some (Ok 65535).
Proof. vm_compute. reflexivity. Qed.

(* World_proofs.v — lifecycle and registry theorems *)
From RLBoxV Require Import World.
Local Open Scope Z_scope.

Lemma status_eqb_eq a b : status_eqb a b = true <-> a = b.
Proof. destruct a, b; cbn; split; intros; try discriminate; try reflexivity. Qed.

Lemma set_nth_length {A} (l : list A) : forall k a, length (wset_nth l k a) = length l.
Proof. induction l as [|x tl IH]; intros [|k] a; cbn; try reflexivity. rewrite IH. reflexivity. Qed.

Lemma nth_set_nth {A} (l : list A) : forall k a d j,
  nth j (wset_nth l k a) d = if (Nat.eqb j k && Nat.ltb k (length l))%bool then a else nth j l d.
Proof.
  induction l as [|x tl IH]; intros k a d j.
  - cbn [wset_nth length]. replace (k <? 0)%nat with false by (symmetry; apply Nat.ltb_ge; lia).
    rewrite andb_false_r. destruct k; reflexivity.
  - destruct k as [|k]; destruct j as [|j]; cbn [wset_nth nth length]; try reflexivity.
    rewrite IH. reflexivity.
Qed.

Lemma get_put w i s j :
  get_sb (put_sb w i s) j = if (Nat.eqb j i && Nat.ltb i (length (sbs w)))%bool then s else get_sb w j.
Proof. unfold get_sb, put_sb; cbn [sbs]. apply nth_set_nth. Qed.

(* ---------- C14: order ---------- *)
Lemma create_only_from_not_created ok w i r :
  create_sandbox ok w i = Ok r -> st (get_sb w i) = NotCreated.
Proof.
  unfold create_sandbox. destruct (Nat.ltb i (length (sbs w))); cbn [check bind]; [|discriminate].
  destruct (status_eqb (st (get_sb w i)) NotCreated) eqn:E; cbn [check bind]; [|discriminate].
  intros _. apply status_eqb_eq; assumption.
Qed.
Lemma create_aborts_otherwise ok w i :
  st (get_sb w i) <> NotCreated -> create_sandbox ok w i = Abort.
Proof.
  intros H. unfold create_sandbox. destruct (Nat.ltb i (length (sbs w))); cbn [check bind]; [|reflexivity].
  destruct (status_eqb (st (get_sb w i)) NotCreated) eqn:E; cbn [check bind]; [|reflexivity].
  apply status_eqb_eq in E. contradiction.
Qed.
Lemma destroy_only_from_created f w i r :
  destroy_sandbox f w i = Ok r -> st (get_sb w i) = Created.
Proof.
  unfold destroy_sandbox. destruct (status_eqb (st (get_sb w i)) Created) eqn:E; cbn [check bind]; [|discriminate].
  intros _. apply status_eqb_eq; assumption.
Qed.
Lemma destroy_aborts_otherwise f w i :
  st (get_sb w i) <> Created -> destroy_sandbox f w i = Abort.
Proof.
  intros H. unfold destroy_sandbox. destruct (status_eqb (st (get_sb w i)) Created) eqn:E; cbn [check bind]; [|reflexivity].
  apply status_eqb_eq in E. contradiction.
Qed.

(* ---------- C14: the registry is exact in every reachable state ---------- *)
Definition rinv (w : world) : Prop :=
  NoDup (slist w) /\
  (forall i, In i (slist w) <-> st (get_sb w i) = Created) /\
  (forall i, st (get_sb w i) <> CleaningUp).

Lemma remove_first_in i l : forall x, In x (remove_first Nat.eqb i l) -> In x l.
Proof.
  induction l as [|y tl IH]; cbn; intros x H; [assumption|].
  destruct (Nat.eqb_spec i y); [right; assumption|]. destruct H as [->|H]; [left; reflexivity|right; apply IH; assumption].
Qed.
Lemma remove_first_nodup i l : NoDup l -> NoDup (remove_first Nat.eqb i l) /\ ~ In i (remove_first Nat.eqb i l) /\
  (forall x, x <> i -> In x l -> In x (remove_first Nat.eqb i l)).
Proof.
  induction l as [|y tl IH]; cbn; intros Hnd.
  - split; [constructor|]. split; [tauto|]. intros x _ [].
  - inversion Hnd as [|? ? Hnot Hnd']; subst.
    destruct (Nat.eqb_spec i y) as [->|Hne].
    + split; [assumption|]. split; [assumption|]. intros x Hx [->|H]; [congruence|assumption].
    + destruct (IH Hnd') as (I1 & I2 & I3). split.
      * constructor; [|assumption]. intros H. apply Hnot. eapply remove_first_in; eauto.
      * split.
        -- intros [->|H]; [congruence|contradiction].
        -- intros x Hx [->|H]; [left; reflexivity|right; apply I3; assumption].
Qed.

Lemma rinv_init nsb nslots nown : rinv (world_init nsb nslots nown).
Proof.
  unfold rinv, world_init; cbn [slist sbs]. split; [constructor|].
  assert (G : forall i, st (get_sb {| sbs := repeat (sbx_init nslots) nsb; slist := []; owns := repeat None nown |} i) = NotCreated).
  { intros i. unfold get_sb; cbn [sbs]. destruct (Nat.ltb_spec i nsb).
    - rewrite nth_indep with (d' := sbx_init nslots) by (rewrite repeat_length; assumption). rewrite nth_repeat. reflexivity.
    - rewrite nth_overflow by (rewrite repeat_length; assumption). reflexivity. }
  split; intros i; rewrite G; [split; [intros []|discriminate]|discriminate].
Qed.

(* operations that leave statuses and the list untouched *)
Definition same_life (w w' : world) : Prop :=
  slist w' = slist w /\ length (sbs w') = length (sbs w) /\ forall i, st (get_sb w' i) = st (get_sb w i).

Lemma same_life_rinv w w' : same_life w w' -> rinv w -> rinv w'.
Proof.
  intros (Hl & Hlen & Hst) (Hnd & H1 & H3). unfold rinv. rewrite Hl.
  split; [assumption|]. split; intros i; rewrite Hst; [apply H1|apply H3].
Qed.

Lemma same_life_refl w : same_life w w.
Proof. repeat split. Qed.
Lemma same_life_trans a b c : same_life a b -> same_life b c -> same_life a c.
Proof.
  intros (A1 & A2 & A3) (B1 & B2 & B3). split; [congruence|]. split; [congruence|].
  intros i; rewrite B3; apply A3.
Qed.

Lemma put_sb_same_life w i s : st s = st (get_sb w i) -> same_life w (put_sb w i s).
Proof.
  intros Hs. split; [reflexivity|]. split; [unfold put_sb; cbn [sbs]; apply set_nth_length|].
  intros j. rewrite get_put. destruct (Nat.eqb_spec j i) as [->|]; cbn [andb]; [|reflexivity].
  destruct (i <? length (sbs w))%nat; congruence.
Qed.

Lemma set_owner_same_life w j o : same_life w (set_owner w j o).
Proof. repeat split. Qed.

Lemma register_cb_same_life w i k w' n : register_cb w i k = Ok (w', n) -> same_life w w'.
Proof.
  unfold register_cb. destruct (status_eqb _ _); cbn [check bind]; [|discriminate].
  destruct (negb _); cbn [check bind]; [|discriminate].
  destruct (first_none _); [|discriminate]. intros H; inversion H; subst.
  apply put_sb_same_life. reflexivity.
Qed.

Lemma unregister_cb_same_life f w i k w' : unregister_cb f w i k = Ok w' -> same_life w w'.
Proof.
  unfold unregister_cb. destruct (negb _); [intros H; inversion H; apply same_life_refl|].
  destruct (f && negb _)%bool; [intros H; inversion H; apply same_life_refl|].
  destruct (memZ _ _); cbn [check bind]; [|discriminate]. intros H; inversion H; subst.
  apply put_sb_same_life. reflexivity.
Qed.

Lemma owner_unregister_same_life f w j w' : owner_unregister f w j = Ok w' -> same_life w w'.
Proof.
  unfold owner_unregister. destruct (cb_owner_at w j) as [[i k]|]; [|intros H; inversion H; apply same_life_refl].
  destruct (unregister_cb f w i k) as [w1| | |] eqn:E; cbn [bind]; try discriminate.
  intros H; inversion H; subst. eapply same_life_trans; [eapply unregister_cb_same_life; eauto|apply set_owner_same_life].
Qed.

Lemma NoDup_app_intro_single (l : list nat) i : NoDup l -> ~ In i l -> NoDup (l ++ [i]).
Proof.
  induction l as [|x tl IH]; cbn; intros Hnd Hni; [constructor; [intros []|constructor]|].
  inversion Hnd as [|? ? Hx Hnd']; subst. constructor.
  - rewrite in_app_iff. cbn. intros [H|[H|[]]]; [contradiction|]. apply Hni; left; congruence.
  - apply IH; [assumption|]. intros H; apply Hni; right; assumption.
Qed.

Lemma wstep_rinv f rel w o w' x : rinv w -> wstep_gen f rel w o = Ok (w', x) -> rinv w'.
Proof.
  intros Hinv. destruct o; cbn [wstep_gen].
  - (* create *)
    unfold create_sandbox. destruct (Nat.ltb_spec i (length (sbs w))) as [L|L]; cbn [check bind]; [|discriminate].
    destruct (status_eqb (st (get_sb w i)) NotCreated) eqn:E; cbn [check bind]; [|discriminate].
    apply status_eqb_eq in E. destruct Hinv as (Hnd & H1 & H3).
    assert (Hni : ~ In i (slist w)) by (intros Hin; apply H1 in Hin; congruence).
    destruct ok; intros H; inversion H; subst; clear H.
    + assert (G : forall s' l' j, st (get_sb {| sbs := wset_nth (sbs w) i s'; slist := l'; owns := owns w |} j)
                 = if Nat.eqb j i then st s' else st (get_sb w j)).
      { intros s' l' j. unfold get_sb at 1; cbn [sbs]. rewrite nth_set_nth.
        apply Nat.ltb_lt in L. rewrite L, andb_true_r. destruct (Nat.eqb j i); reflexivity. }
      unfold rinv; cbn [slist]. split; [|split].
      * apply NoDup_app_intro_single; assumption.
      * intros j. rewrite G. cbn [st]. rewrite in_app_iff. cbn [In].
        destruct (Nat.eqb_spec j i) as [->|Hne].
        -- split; [reflexivity|intros _; right; left; reflexivity].
        -- rewrite H1. split; [intros [Hc|[Hc|[]]]; [assumption|congruence]|intros Hc; left; assumption].
      * intros j. rewrite G. cbn [st]. destruct (Nat.eqb j i); [discriminate|apply H3].
    + assert (G : forall j, st (get_sb (put_sb w i {| st := Initializing; ckeys := ckeys (get_sb w i); slots := slots (get_sb w i); cache := cache (get_sb w i); icache := icache (get_sb w i) |}) j)
                 = if Nat.eqb j i then Initializing else st (get_sb w j)).
      { intros j. rewrite get_put. apply Nat.ltb_lt in L. rewrite L, andb_true_r. destruct (Nat.eqb j i); reflexivity. }
      unfold rinv. cbn [put_sb slist]. split; [assumption|]. split; intros j; rewrite G.
      * destruct (Nat.eqb_spec j i) as [->|Hne]; [split; [contradiction|discriminate]|apply H1].
      * destruct (Nat.eqb j i); [discriminate|apply H3].
  - (* destroy *)
    unfold destroy_sandbox. destruct (status_eqb (st (get_sb w i)) Created) eqn:E; cbn [check bind]; [|discriminate].
    destruct (existsb (Nat.eqb i) (slist w)) eqn:Ex; cbn [check bind]; [|discriminate].
    intros H; inversion H; subst; clear H. apply status_eqb_eq in E.
    destruct Hinv as (Hnd & H1 & H3).
    destruct (remove_first_nodup i (slist w) Hnd) as (R1 & R2 & R3).
    assert (G : forall j, st (get_sb {| sbs := wset_nth (sbs w) i (destroyed_sbx f (get_sb w i));
                                        slist := remove_first Nat.eqb i (slist w); owns := owns w |} j)
               = if (Nat.eqb j i && Nat.ltb i (length (sbs w)))%bool then NotCreated else st (get_sb w j)).
    { intros j. unfold get_sb at 1; cbn [sbs]. rewrite nth_set_nth. destruct (_ && _)%bool; [|reflexivity].
      unfold destroyed_sbx; destruct f; reflexivity. }
    assert (L : (i < length (sbs w))%nat).
    { destruct (Nat.ltb_spec i (length (sbs w))); [assumption|]. exfalso.
      unfold get_sb in E. rewrite nth_overflow in E by assumption. cbn in E. discriminate. }
    apply Nat.ltb_lt in L.
    unfold rinv; cbn [slist]. split; [assumption|]. split; intros j; rewrite G, L, andb_true_r.
    + destruct (Nat.eqb_spec j i) as [->|Hne].
      * split; [contradiction|discriminate].
      * rewrite <- H1. split; [apply remove_first_in|apply R3; assumption].
    + destruct (Nat.eqb j i); [discriminate|apply H3].
  - intros H; inversion H; subst; assumption.
  - intros H; inversion H; subst; assumption.
  - unfold lookup_op. destruct (memZ _ _); intros H; inversion H; subst; [assumption|].
    eapply same_life_rinv; [|exact Hinv]. apply put_sb_same_life; reflexivity.
  - unfold ilookup_op. destruct (memZ _ _); intros H; inversion H; subst; [assumption|].
    eapply same_life_rinv; [|exact Hinv]. apply put_sb_same_life; reflexivity.
  - (* register *)
    destruct (j <? length (owns w))%nat; cbn [check bind]; [|discriminate].
    destruct (register_cb w i k) as [[w1 n]| | |] eqn:E; cbn [bind]; try discriminate.
    pose proof (register_cb_same_life _ _ _ _ _ E) as S1.
    destruct rel.
    + destruct (owner_unregister f w1 j) as [w2| | |] eqn:E2; cbn [bind]; try discriminate.
      intros H; inversion H; subst. eapply same_life_rinv; [|exact Hinv].
      eapply same_life_trans; [exact S1|]. eapply same_life_trans; [eapply owner_unregister_same_life; eauto|apply set_owner_same_life].
    + cbn [bind]. intros H; inversion H; subst. eapply same_life_rinv; [|exact Hinv].
      eapply same_life_trans; [exact S1|apply set_owner_same_life].
  - destruct (owner_unregister f w j) as [w1| | |] eqn:E; cbn [bind]; try discriminate.
    intros H; inversion H; subst. eapply same_life_rinv; [|exact Hinv]. eapply owner_unregister_same_life; eauto.
  - destruct (Nat.eqb j j2); [intros H; inversion H; subst; assumption|].
    destruct (j <? length (owns w))%nat; cbn [check bind]; [|discriminate].
    destruct (cb_owner_at w j); intros H; inversion H; subst; [assumption|].
    eapply same_life_rinv; [|exact Hinv]. repeat split.
  - destruct (Nat.eqb j j2); [intros H; inversion H; subst; assumption|].
    destruct (j <? length (owns w))%nat; cbn [check bind]; [|discriminate].
    destruct rel.
    + destruct (owner_unregister f w j) as [w1| | |] eqn:E; cbn [bind]; try discriminate.
      intros H; inversion H; subst. eapply same_life_rinv; [|exact Hinv].
      eapply same_life_trans; [eapply owner_unregister_same_life; eauto|]. repeat split.
    + cbn [bind]. intros H; inversion H; subst. eapply same_life_rinv; [|exact Hinv]. repeat split.
  - intros H; inversion H; subst; assumption.
Qed.

(* every history over any number of objects *)
Lemma wrun_rinv rel ops : forall w w' xs, rinv w -> wrun rel w ops = Ok (w', xs) -> rinv w'.
Proof.
  induction ops as [|o tl IH]; cbn [wrun]; intros w w' xs Hinv H.
  - inversion H; subst; assumption.
  - destruct (wstep rel w o) as [[w1 x]| | |] eqn:E; cbn [bind] in H; try discriminate.
    unfold wstep in E.
    destruct (wrun rel w1 tl) as [[w2 xs2]| | |] eqn:E2; cbn [bind] in H; try discriminate.
    inversion H; subst. eapply IH; [|exact E2]. eapply wstep_rinv; eauto.
Qed.

(* D12 (known finding): registrations and cached symbols survive destroy + create *)
Lemma incarnation_not_fresh :
  exists w xs, wrun true (world_init 1 4 2) [WCreate 0 true; WRegister 0 0 77; WLookup 0 5; WDestroy 0; WCreate 0 true] = Ok (w, xs) /\
    reachable w 0%nat = [77] /\ cache (get_sb w 0%nat) = [5] /\
    wstep true w (WRegister 1 0 77) = Abort.
Proof. eexists; eexists. vm_compute. repeat split. Qed.

(* D9 before the fix: move-assignment onto a live owner leaked its registration *)
Lemma move_assign_leaked_before_fix :
  exists w xs, wrun false (world_init 1 4 2) [WCreate 0 true; WRegister 0 0 77; WRegister 1 0 78; WMoveAssign 0 1] = Ok (w, xs) /\
    reachable w 0%nat = [77; 78] /\ owned_keys (owns w) 0 = [78].
Proof. eexists; eexists. vm_compute. repeat split. Qed.
Lemma move_assign_releases_after_fix :
  exists w xs, wrun true (world_init 1 4 2) [WCreate 0 true; WRegister 0 0 77; WRegister 1 0 78; WMoveAssign 0 1; WRegister 1 0 77] = Ok (w, xs) /\
    reachable w 0%nat = [77; 78] /\ owned_keys (owns w) 0 = [78; 77].
Proof. eexists; eexists. vm_compute. repeat split. Qed.

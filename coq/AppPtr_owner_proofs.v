(* AppPtr_owner_proofs.v — the owner layer of the app-pointer table (rlbox_policy_types.hpp
   app_pointer objects over rlbox_app_pointer.hpp): for EVERY history of get_app_pointer into a
   slot (empty or live), move between slots and destruction, over any number of owner slots and
   any token width, the tokens held by live owners are exactly the non-zero keys of the table,
   no token has two owners, and every owner's token resolves to the pointer it was issued for
   (a ghost function slot -> pointer that follows the history is the abstract specification). *)
From RLBoxV Require Import AppPtr AppPtr_proofs.
Local Open Scope Z_scope.

(* ---------- list plumbing ---------- *)
Lemma set_nth_length {A} (l : list A) k a : (k < length l)%nat -> length (set_nth l k a) = length l.
Proof.
  intros H. unfold set_nth. rewrite app_length. cbn [length]. rewrite firstn_length, skipn_length. lia.
Qed.

Lemma set_nth_nth {A} (l : list A) k a d j : (k < length l)%nat ->
  nth j (set_nth l k a) d = if Nat.eqb j k then a else nth j l d.
Proof.
  intros H. unfold set_nth.
  assert (Hf : length (firstn k l) = k) by (rewrite firstn_length; lia).
  destruct (Nat.eqb_spec j k) as [->|Hne].
  - rewrite app_nth2; rewrite Hf; [|lia]. rewrite Nat.sub_diag. reflexivity.
  - destruct (Nat.lt_ge_cases j k) as [Hlt|Hge].
    + rewrite app_nth1; [|rewrite Hf; assumption].
      rewrite <- (firstn_skipn k l) at 2. rewrite app_nth1; [reflexivity|rewrite Hf; assumption].
    + rewrite app_nth2; rewrite Hf; [|assumption].
      destruct (j - k)%nat as [|d'] eqn:Ed; [lia|]. cbn [nth].
      rewrite <- (firstn_skipn (S k) l) at 2.
      rewrite app_nth2; rewrite firstn_length; [|lia].
      replace (j - Nat.min (S k) (length l))%nat with d' by lia. reflexivity.
Qed.

Lemma held_in l i : In i (held l) <-> exists k, nth k l None = Some i.
Proof.
  induction l as [|[a|] tl IH]; cbn [held].
  - split; [intros []|intros [[|k] H]; discriminate].
  - cbn [In]. rewrite IH. split.
    + intros [<-|[k H]]; [exists 0%nat; reflexivity|exists (S k); exact H].
    + intros [[|k] H]; cbn [nth] in H; [left; congruence|right; exists k; exact H].
  - rewrite IH. split.
    + intros [k H]; exists (S k); exact H.
    + intros [[|k] H]; cbn [nth] in H; [discriminate|exists k; exact H].
Qed.

Lemma held_nodup l :
  (forall k k' i, nth k l None = Some i -> nth k' l None = Some i -> k = k') -> NoDup (held l).
Proof.
  induction l as [|[a|] tl IH]; cbn [held]; intros H.
  - constructor.
  - constructor.
    + intros Hin. apply held_in in Hin. destruct Hin as [k Hk].
      specialize (H 0%nat (S k) a eq_refl Hk). discriminate.
    + apply IH. intros k k' i A B. specialize (H (S k) (S k') i A B). congruence.
  - apply IH. intros k k' i A B. specialize (H (S k) (S k') i A B). congruence.
Qed.

Lemma live_in m i : In i (live_tokens m) <-> In i (keys (entries m)) /\ i <> 0.
Proof.
  unfold live_tokens, keys. rewrite filter_In. split; intros [A B]; split; try assumption.
  - destruct (Z.eqb_spec i 0); [discriminate|assumption].
  - destruct (Z.eqb_spec i 0); [contradiction|reflexivity].
Qed.

(* ---------- the ghost specification: which pointer each slot stands for ---------- *)
Definition ghost := nat -> option Z.
Definition gset (g : ghost) (k : nat) (x : option Z) : ghost := fun j => if Nat.eqb j k then x else g j.
Definition gstep (g : ghost) (o : oop) : ghost :=
  match o with
  | OGet k ptr => gset g k (Some ptr)
  | OMove k j => if Nat.eqb k j then g else gset (gset g k (g j)) j None
  | ODestroy k => gset g k None
  end.
Definition ghost_init : ghost := fun _ => None.

Definition oop_ok (n : nat) (o : oop) : Prop :=
  match o with OGet k _ => (k < n)%nat | OMove k j => (k < n)%nat /\ (j < n)%nat | ODestroy k => (k < n)%nat end.

Section Inv.
Variables (W max : Z) (n : nat).
Hypothesis Hmax : 1 <= max.
Hypothesis HW : max < W - 1.

(* [ex]: a token already issued by the table and not yet adopted by its slot (inside
   sandbox.get_app_pointer, between get_app_pointer_idx and the move-assignment) *)
Definition ginv (ex : option (Z * Z)) (w : aworld) (g : ghost) : Prop :=
  ainv max (amapw w) /\
  length (owners w) = n /\
  (forall k k' i, owner_at w k = Some i -> owner_at w k' = Some i -> k = k') /\
  (forall i, ((exists k, owner_at w k = Some i) \/ (exists p, ex = Some (i, p))) <->
             (In i (keys (entries (amapw w))) /\ i <> 0)) /\
  (forall k i p, owner_at w k = Some i -> ex = Some (i, p) -> False) /\
  (forall e p, ex = Some (e, p) -> find_key (entries (amapw w)) e = Some p) /\
  (forall k, match owner_at w k, g k with
             | Some i, Some p => find_key (entries (amapw w)) i = Some p
             | None, None => True
             | _, _ => False
             end).

Lemma ginv_ext ex w g g' : (forall k, g k = g' k) -> ginv ex w g -> ginv ex w g'.
Proof.
  intros E (A & B & C & D & F & G & H). repeat (split; [assumption|]).
  intros k. rewrite <- E. apply H.
Qed.

Lemma owner_in_range w k i : length (owners w) = n -> owner_at w k = Some i -> (k < n)%nat.
Proof.
  intros L H. unfold owner_at in H. destruct (Nat.lt_ge_cases k n) as [|Hge]; [assumption|].
  rewrite nth_overflow in H; [discriminate|lia].
Qed.

(* releasing slot k: never aborts in a state satisfying the invariant *)
Lemma unreg_ginv ex w g k : ginv ex w g -> (k < n)%nat ->
  exists w', unregister_owner w k = Ok w' /\ ginv ex w' (gset g k None) /\ owner_at w' k = None.
Proof.
  intros (A & L & C & D & F & G & H) Hk. unfold unregister_owner.
  destruct (owner_at w k) as [i|] eqn:Ek.
  - assert (Hi : In i (keys (entries (amapw w))) /\ i <> 0) by (apply D; left; exists k; assumption).
    destruct Hi as [Hin Hne].
    destruct (release_spec max i (amapw w) A Hne) as [(_ & m' & E & A' & K)|[Hnot _]]; [|contradiction].
    rewrite E. cbn [bind]. eexists; split; [reflexivity|].
    assert (N : forall j, owner_at {| amapw := m'; owners := set_nth (owners w) k None |} j =
                          if Nat.eqb j k then None else owner_at w j).
    { intros j. unfold owner_at; cbn [owners]. apply set_nth_nth. lia. }
    assert (Em : entries m' = remove_key (entries (amapw w)) i).
    { unfold remove_app_ptr in E. destruct (mem_key _ _); [|discriminate]. inversion E; reflexivity. }
    split; [|rewrite N, Nat.eqb_refl; reflexivity].
    unfold ginv; cbn [amapw]. split; [assumption|].
    split; [cbn [owners]; rewrite set_nth_length; lia|].
    split; [|split; [|split; [|split]]].
    + intros j j' i'. rewrite !N. destruct (Nat.eqb j k), (Nat.eqb j' k); try discriminate. apply C.
    + intros i'. rewrite K. split.
      * intros [[j Hj]|[p Hp]].
        -- rewrite N in Hj. destruct (Nat.eqb_spec j k) as [|Hjk]; [discriminate|].
           destruct (proj1 (D i')) as [X Y]; [left; exists j; assumption|].
           split; [split; [assumption|]|assumption].
           intros ->. apply Hjk. apply (C j k i); assumption.
        -- destruct (proj1 (D i')) as [X Y]; [right; exists p; assumption|].
           split; [split; [assumption|]|assumption].
           intros ->. exact (F k i p Ek Hp).
      * intros [[X Y] Z0]. destruct (proj2 (D i') (conj X Z0)) as [[j Hj]|P]; [|right; assumption].
        left. exists j. rewrite N. destruct (Nat.eqb_spec j k) as [->|]; [congruence|assumption].
    + intros j i' p. rewrite N. destruct (Nat.eqb j k); [discriminate|]. apply F.
    + intros e p Hp. rewrite Em. rewrite find_key_remove_other; [apply G; assumption|].
      intros <-. exact (F k i p Ek Hp).
    + intros j. rewrite N. unfold gset. destruct (Nat.eqb_spec j k) as [|Hjk]; [exact I|].
      specialize (H j). destruct (owner_at w j) as [i'|] eqn:Ej; [|exact H].
      destruct (g j); [|exact H]. rewrite Em, find_key_remove_other; [exact H|].
      intros <-. apply Hjk. apply (C j k i); assumption.
  - eexists; split; [reflexivity|]. split; [|assumption].
    apply (ginv_ext ex w g); [|repeat (split; try assumption)].
    intros j. unfold gset. destruct (Nat.eqb_spec j k) as [->|]; [|reflexivity].
    specialize (H k). rewrite Ek in H. destruct (g k); [contradiction|reflexivity].
Qed.

(* the slot adopts the pending token *)
Lemma adopt_ginv w g k i p : ginv (Some (i, p)) w g -> (k < n)%nat -> owner_at w k = None ->
  ginv None {| amapw := amapw w; owners := set_nth (owners w) k (Some i) |} (gset g k (Some p)).
Proof.
  intros (A & L & C & D & F & G & H) Hk Ek.
  assert (N : forall j, owner_at {| amapw := amapw w; owners := set_nth (owners w) k (Some i) |} j =
                        if Nat.eqb j k then Some i else owner_at w j).
  { intros j. unfold owner_at; cbn [owners]. apply set_nth_nth. lia. }
  unfold ginv; cbn [amapw]. split; [assumption|].
  split; [cbn [owners]; rewrite set_nth_length; lia|].
  split; [|split; [|split; [|split]]].
  - intros j j' i'. rewrite !N.
    destruct (Nat.eqb_spec j k) as [->|Hj], (Nat.eqb_spec j' k) as [->|Hj']; intros X Y.
    + reflexivity.
    + inversion X; subst i'. exfalso. exact (F j' i p Y eq_refl).
    + inversion Y; subst i'. exfalso. exact (F j i p X eq_refl).
    + apply (C j j' i'); assumption.
  - intros i'. rewrite <- D. split.
    + intros [[j Hj]|[q Hq]]; [|discriminate]. rewrite N in Hj.
      destruct (Nat.eqb j k); [inversion Hj; subst; right; exists p; reflexivity|left; exists j; assumption].
    + intros [[j Hj]|[q Hq]].
      * left. exists j. rewrite N. destruct (Nat.eqb_spec j k) as [->|]; [congruence|assumption].
      * inversion Hq; subst. left. exists k. rewrite N, Nat.eqb_refl. reflexivity.
  - intros j i' q _ X; discriminate.
  - intros e q X; discriminate.
  - intros j. rewrite N. unfold gset. destruct (Nat.eqb j k); [apply G; reflexivity|apply H].
Qed.

(* the table issues a token: it is pending *)
Lemma issue_ginv w g ptr : ginv None w g ->
  (exists i m', get_app_pointer_idx W max ptr (amapw w) = Ok (i, m') /\
                ginv (Some (i, ptr)) {| amapw := m'; owners := owners w |} g) \/
  (get_app_pointer_idx W max ptr (amapw w) = Abort /\
   forall i, 1 <= i <= max -> In i (keys (entries (amapw w)))).
Proof.
  intros (A & L & C & D & F & G & H).
  destruct (register_spec W max ptr (amapw w) Hmax HW A) as [(i & m' & E & Hi & Hfresh & Em & A')|[E Hall]];
    [left|right; split; assumption].
  exists i, m'. split; [assumption|].
  unfold ginv, owner_at; cbn [amapw owners]. fold (owner_at w).
  split; [assumption|]. split; [assumption|]. split; [assumption|].
  rewrite Em. cbn [keys map fst]. fold (keys (entries (amapw w))).
  split; [|split; [|split]].
  - intros i'. split.
    + intros [[j Hj]|[q Hq]].
      * destruct (proj1 (D i')) as [X Y]; [left; exists j; exact Hj|]. split; [right; assumption|assumption].
      * inversion Hq; subst. split; [left; reflexivity|lia].
    + intros [[<-|X] Y]; [right; exists ptr; reflexivity|].
      destruct (proj2 (D i') (conj X Y)) as [J|[q Hq]]; [left; assumption|discriminate].
  - intros j i' q Hj Hq. inversion Hq; subst. apply Hfresh.
    apply (proj1 (D i')). left. exists j. exact Hj.
  - intros e q Hq. inversion Hq; subst. apply find_key_head.
  - intros j. specialize (H j). unfold owner_at in *. destruct (nth j (owners w) None) as [i'|] eqn:Ej; [|exact H].
    destruct (g j); [|exact H]. rewrite find_key_other; [exact H|].
    intros <-. apply Hfresh. apply (proj1 (D i)). left. exists j. exact Ej.
Qed.

(* one step: either it succeeds and the invariant and the ghost follow, or it is a registration
   into a full table; in particular no release ever aborts *)
Lemma ostep_ginv w g o : ginv None w g -> oop_ok n o ->
  (exists w', ostep true W max w o = Ok w' /\ ginv None w' (gstep g o)) \/
  (exists k ptr, o = OGet k ptr /\ ostep true W max w o = Abort /\
                 forall i, 1 <= i <= max -> In i (keys (entries (amapw w)))).
Proof.
  intros I Hok. destruct o as [k ptr|k j|k]; cbn [ostep gstep oop_ok] in *.
  - destruct (issue_ginv w g ptr I) as [(i & m' & E & I1)|[E Hall]].
    + left. rewrite E. cbn [bind].
      destruct (unreg_ginv _ _ _ k I1 Hok) as (w2 & E2 & I2 & N2).
      rewrite E2. cbn [bind]. eexists; split; [reflexivity|].
      apply (ginv_ext None _ (gset (gset g k None) k (Some ptr))).
      * intros j. unfold gset. destruct (Nat.eqb j k); reflexivity.
      * apply adopt_ginv; assumption.
    + right. exists k, ptr. split; [reflexivity|]. rewrite E. split; [reflexivity|assumption].
  - left. destruct Hok as [Hk Hj]. destruct (Nat.eqb_spec k j) as [->|Hne].
    + eexists; split; [reflexivity|assumption].
    + destruct (unreg_ginv _ _ _ k I Hk) as (w2 & E2 & I2 & N2).
      rewrite E2. cbn [bind]. eexists; split; [reflexivity|].
      destruct I2 as (A & L & C & D & F & G & H).
      set (w3 := {| amapw := amapw w2; owners := set_nth (set_nth (owners w2) k (owner_at w2 j)) j None |}).
      assert (N : forall x, owner_at w3 x =
                  if Nat.eqb x j then None else if Nat.eqb x k then owner_at w2 j else owner_at w2 x).
      { intros x. unfold owner_at, w3; cbn [owners].
        rewrite set_nth_nth; [|rewrite set_nth_length; lia].
        destruct (Nat.eqb x j); [reflexivity|]. apply set_nth_nth. lia. }
      assert (Ekj : Nat.eqb k j = false) by (apply Nat.eqb_neq; assumption).
      assert (Ejk : Nat.eqb j k = false) by (apply Nat.eqb_neq; auto).
      apply (ginv_ext None _ (gset (gset (gset g k None) k (gset g k None j)) j None)).
      { intros x. unfold gset. destruct (Nat.eqb x j); [reflexivity|].
        destruct (Nat.eqb x k); [rewrite Ejk|]; reflexivity. }
      unfold ginv. change (amapw w3) with (amapw w2). split; [assumption|].
      split; [unfold w3; cbn [owners]; rewrite !set_nth_length; rewrite ?set_nth_length; lia|].
      split; [|split; [|split; [|split]]].
      * intros x x' i. rewrite !N.
        destruct (Nat.eqb_spec x j) as [->|Hxj]; [discriminate|].
        destruct (Nat.eqb_spec x' j) as [->|Hx'j]; [discriminate|].
        destruct (Nat.eqb_spec x k) as [->|Hxk], (Nat.eqb_spec x' k) as [->|Hx'k]; intros X Y.
        -- reflexivity.
        -- exfalso. apply Hx'j. apply (C x' j i); assumption.
        -- exfalso. apply Hxj. apply (C x j i); assumption.
        -- apply (C x x' i); assumption.
      * intros i. rewrite <- D. split.
        -- intros [[x Hx]|[q Hq]]; [|discriminate]. left. rewrite N in Hx.
           destruct (Nat.eqb x j); [discriminate|].
           destruct (Nat.eqb x k); [exists j|exists x]; assumption.
        -- intros [[x Hx]|[q Hq]]; [|discriminate]. left.
           destruct (Nat.eqb_spec x j) as [->|Hxj].
           ++ exists k. rewrite N, Ekj, Nat.eqb_refl. assumption.
           ++ exists x. rewrite N. destruct (Nat.eqb_spec x j); [contradiction|].
              destruct (Nat.eqb_spec x k) as [->|]; [congruence|assumption].
      * intros x i q _ X; discriminate.
      * intros e q X; discriminate.
      * intros x. rewrite N. pose proof (H j) as Hj'. pose proof (H x) as Hx. unfold gset in *.
        destruct (Nat.eqb_spec x j) as [->|Hxj]; [exact Logic.I|].
        destruct (Nat.eqb_spec x k) as [->|Hxk]; [rewrite Ejk in *; exact Hj'|exact Hx].
  - left. destruct (unreg_ginv _ _ _ k I Hok) as (w2 & E2 & I2 & _).
    exists w2. split; assumption.
Qed.

Lemma orun_ginv ops : forall w g w', ginv None w g -> Forall (oop_ok n) ops ->
  orun true W max w ops = Ok w' -> ginv None w' (fold_left gstep ops g).
Proof.
  induction ops as [|o tl IH]; cbn [orun fold_left]; intros w g w' I Hok E.
  - inversion E; subst. assumption.
  - inversion Hok as [|? ? Ho Htl]; subst.
    destruct (ostep_ginv w g o I Ho) as [(w1 & E1 & I1)|(k & ptr & _ & E1 & _)];
      rewrite E1 in E; cbn [bind] in E; [|discriminate].
    apply (IH w1 _ w' I1 Htl E).
Qed.

Lemma ginv_init : ginv None {| amapw := amap_init; owners := repeat None n |} ghost_init.
Proof.
  assert (N : forall k, owner_at {| amapw := amap_init; owners := repeat None n |} k = None).
  { intros k. unfold owner_at; cbn [owners].
    destruct (Nat.lt_ge_cases k n); [|apply nth_overflow; rewrite repeat_length; assumption].
    apply (repeat_spec n None). apply nth_In. rewrite repeat_length. assumption. }
  unfold ginv; cbn [amapw]. split; [apply ainv_init; assumption|].
  split; [cbn [owners]; apply repeat_length|].
  split; [intros k k' i X; rewrite N in X; discriminate|].
  split; [|split; [|split]].
  - intros i. split.
    + intros [[k X]|[p X]]; [rewrite N in X|]; discriminate.
    + cbn [amap_init entries keys map fst In]. intros [[<-|[]] X]. contradiction.
  - intros k i p X; rewrite N in X; discriminate.
  - intros e p X; discriminate.
  - intros k. rewrite N. exact I.
Qed.

End Inv.

(* ---------- the statements ---------- *)
Theorem owners_hold_live_tokens W max n ops w :
  1 <= max -> max < W - 1 -> Forall (oop_ok n) ops ->
  orun true W max {| amapw := amap_init; owners := repeat None n |} ops = Ok w ->
  ainv max (amapw w) /\
  NoDup (held (owners w)) /\
  (forall i, In i (held (owners w)) <-> In i (live_tokens (amapw w))) /\
  (forall k, match owner_at w k, fold_left gstep ops ghost_init k with
             | Some i, Some p => 1 <= i <= max /\ lookup_index i (amapw w) = Ok p
             | None, None => True
             | _, _ => False
             end).
Proof.
  intros Hmax HW Hok E.
  destruct (orun_ginv W max n Hmax HW ops _ _ w (ginv_init max n Hmax) Hok E) as (A & L & C & D & F & G & H).
  split; [assumption|]. split; [apply held_nodup; exact C|]. split.
  - intros i. rewrite held_in, live_in, <- D. split; [intros X; left; exact X|intros [X|[p X]]; [exact X|discriminate]].
  - intros k. specialize (H k). destruct (owner_at w k) as [i|] eqn:Ek; [|exact H].
    destruct (fold_left gstep ops ghost_init k); [|exact H]. split.
    + destruct (proj1 (D i)) as [X Y]; [left; exists k; exact Ek|].
      destruct A as (_ & _ & R & _). specialize (R i X). lia.
    + unfold lookup_index. rewrite H. reflexivity.
Qed.

Theorem owner_step_aborts_only_when_full W max n w g o :
  1 <= max -> max < W - 1 -> ginv max n None w g -> oop_ok n o ->
  (exists w', ostep true W max w o = Ok w' /\ ginv max n None w' (gstep g o)) \/
  (exists k ptr, o = OGet k ptr /\ ostep true W max w o = Abort /\
                 forall i, 1 <= i <= max -> In i (keys (entries (amapw w)))).
Proof. intros Hmax HW. apply ostep_ginv; assumption. Qed.

(* the premises are satisfiable and the ghost is what one expects *)
Lemma owners_example :
  exists w, orun true 256 200 {| amapw := amap_init; owners := repeat None 3 |}
              [OGet 0%nat 101; OGet 1%nat 102; OGet 0%nat 103; OMove 2%nat 1%nat; ODestroy 0%nat] = Ok w /\
            owners w = [None; None; Some 2] /\ live_tokens (amapw w) = [2] /\
            fold_left gstep [OGet 0%nat 101; OGet 1%nat 102; OGet 0%nat 103; OMove 2%nat 1%nat; ODestroy 0%nat]
                      ghost_init 2%nat = Some 102.
Proof. eexists. vm_compute. repeat split. Qed.

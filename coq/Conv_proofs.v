(* Conv_proofs.v — lemmas about Conv.v *)
From RLBoxV Require Import Conv.
Local Open Scope Z_scope.

(* N2: bool as the target of a *different* one-byte type is neither checked
   nor preserved (sizeof is used where the range should be). *)
Definition n2_pair (to from : ikind) : bool :=
  match to, from with
  | IBool, (IChar | ISChar | IUChar) => true
  | _, _ => false
  end.

Lemma in_range_bounds k v : in_range k v = true -> lo k <= v <= hi k.
Proof. unfold in_range; intros H; apply andb_prop in H as [H1 H2]; lia. Qed.

Lemma in_range_intro k v : lo k <= v <= hi k -> in_range k v = true.
Proof. unfold in_range; intros; apply andb_true_intro; split; apply Z.leb_le; lia. Qed.

Ltac closed_eval t := let r := eval vm_compute in t in change t with r.
Ltac closed_eval_in t H := let r := eval vm_compute in t in change t with r in H.

Ltac conv_pair to from Hr :=
  closed_eval_in (lo from) Hr; closed_eval_in (hi from) Hr;
  cbv [conv conv_spec in_range];
  closed_eval (conv_branch to from); cbv iota beta;
  try closed_eval (wrap from (hi to));
  closed_eval (hi to); closed_eval (lo to);
  repeat match goal with
  | |- context [?a <=? ?b] => destruct (Z.leb_spec a b)
  end;
  cbn [check bind andb];
  try reflexivity; try lia;
  try (f_equal; apply wrap_id; apply in_range_intro;
       closed_eval (hi to); closed_eval (lo to); lia).

Lemma conv_correct to from v :
  in_range from v = true -> n2_pair to from = false ->
  conv to from v = conv_spec to v.
Proof.
  intros Hr Hn; apply in_range_bounds in Hr.
  destruct to, from; try discriminate Hn; clear Hn.
  all: match goal with |- conv ?t ?f _ = _ => conv_pair t f Hr end.
Qed.

Lemma conv_list_correct to from vs :
  forallb (in_range from) vs = true -> n2_pair to from = false ->
  conv_list to from vs = conv_spec_list to vs.
Proof.
  intros Hr Hn; induction vs as [|v tl IH]; cbn [conv_list conv_spec_list]; [reflexivity|].
  cbn [forallb] in Hr; apply andb_prop in Hr as [Hv Htl].
  rewrite (conv_correct to from v Hv Hn), (IH Htl); reflexivity.
Qed.

Lemma memcpy_same_range to from v :
  memcpy_path to from = true -> n2_pair to from = false -> in_range from v = true ->
  reinterpret to from v = v /\ in_range to v = true.
Proof.
  intros Hm Hn Hr; apply in_range_bounds in Hr.
  destruct to, from; try discriminate Hm; try discriminate Hn; clear Hm Hn;
  match goal with |- reinterpret ?t ?f _ = _ /\ _ =>
    closed_eval_in (lo f) Hr; closed_eval_in (hi f) Hr;
    assert (Hin : in_range t v = true)
      by (apply in_range_intro; closed_eval (lo t); closed_eval (hi t); lia);
    split; [ cbv [reinterpret]; try reflexivity; apply wrap_id; exact Hin | exact Hin ]
  end.
Qed.

Lemma conv_array_correct to from vs :
  forallb (in_range from) vs = true -> n2_pair to from = false ->
  conv_array to from vs = conv_spec_list to vs.
Proof.
  intros Hr Hn; unfold conv_array.
  destruct (memcpy_path to from) eqn:Hm; [|apply conv_list_correct; assumption].
  induction vs as [|v tl IH]; cbn [map conv_spec_list]; [reflexivity|].
  cbn [forallb] in Hr; apply andb_prop in Hr as [Hv Htl].
  destruct (memcpy_same_range to from v Hm Hn Hv) as [Hid Hin].
  rewrite Hid; unfold conv_spec at 1; rewrite Hin; cbn [bind].
  specialize (IH Htl). rewrite <- IH. reflexivity.
Qed.

(* the ABI map never produces an N2 pair *)
Lemma sbx_equiv_no_n2 a k s :
  abi_ok a = true -> sbx_equiv a k = Some s ->
  n2_pair s k = false /\ n2_pair k s = false.
Proof.
  unfold abi_ok; intros Ha He.
  repeat (apply andb_prop in Ha as [Ha ?]).
  destruct a as [sh i l ll]; cbn [a_short a_int a_long a_llong] in *.
  destruct k; cbn [sbx_equiv a_short a_int a_long a_llong] in He; inversion He; subst; clear He;
    try (split; reflexivity);
    repeat match goal with
    | H : signed_kind ?x = true |- _ => destruct x; try discriminate H; clear H
    end; split; reflexivity.
Qed.

Lemma to_sbx_correct a k v r :
  abi_ok a = true -> in_range k v = true -> to_sbx a k v = Some r ->
  exists s, sbx_equiv a k = Some s /\ r = conv_spec s v.
Proof.
  unfold to_sbx; intros Ha Hr H; destruct (sbx_equiv a k) as [s|] eqn:He; [|discriminate].
  inversion H; subst; exists s; split; [reflexivity|].
  apply conv_correct; [assumption|]. exact (proj1 (sbx_equiv_no_n2 a k s Ha He)).
Qed.

Lemma to_app_correct a k s v r :
  abi_ok a = true -> sbx_equiv a k = Some s -> in_range s v = true -> to_app a k v = Some r ->
  r = conv_spec k v.
Proof.
  unfold to_app; intros Ha He Hr H; rewrite He in H; inversion H; subst.
  apply conv_correct; [assumption|]. exact (proj2 (sbx_equiv_no_n2 a k s Ha He)).
Qed.

(* store then load: value preserved or abort, never changed *)
Lemma roundtrip a k s v :
  abi_ok a = true -> sbx_equiv a k = Some s -> in_range k v = true ->
  (x <- conv s k v ;; conv k s x) = (if in_range s v then Ok v else Abort).
Proof.
  intros Ha He Hr. destruct (sbx_equiv_no_n2 a k s Ha He) as [H1 H2].
  rewrite (conv_correct s k v Hr H1). unfold conv_spec at 1.
  destruct (in_range s v) eqn:Hs; cbn [bind]; [|reflexivity].
  rewrite (conv_correct k s v Hs H2). unfold conv_spec. rewrite Hr. reflexivity.
Qed.

(* N2, kept visible: the unrestricted statement is false of the code. *)
Definition conv_correct_full : Prop :=
  forall to from v, in_range from v = true -> conv to from v = conv_spec to v.
Lemma conv_correct_full_refuted : ~ conv_correct_full.
Proof. intros H. specialize (H IBool IUChar 5 eq_refl). vm_compute in H. discriminate. Qed.

(* non-vacuity of the hypotheses *)
Example conv_hyps_satisfiable :
  in_range ILong (2^40) = true /\ n2_pair IInt ILong = false /\ conv IInt ILong (2^40) = Abort
  /\ conv IUInt ILong 4294967295 = Ok 4294967295 /\ abi_ok abi_lp32 = true.
Proof. vm_compute. repeat split. Qed.

(* callback parameters and results (C12) *)
Lemma cb_int_param a k s v : abi_ok a = true -> sbx_equiv a k = Some s -> in_range s v = true ->
  to_app a k v = Some (conv_spec k v).
Proof.
  intros Ha He Hr. destruct (to_app a k v) as [r|] eqn:E.
  - f_equal. exact (to_app_correct a k s v r Ha He Hr E).
  - unfold to_app in E. rewrite He in E. discriminate.
Qed.
Lemma cb_int_result a k v : abi_ok a = true -> in_range k v = true ->
  (exists s, sbx_equiv a k = Some s /\ to_sbx a k v = Some (conv_spec s v)) \/ sbx_equiv a k = None.
Proof.
  intros Ha Hr. destruct (sbx_equiv a k) as [s|] eqn:He; [left|right; reflexivity].
  exists s. split; [reflexivity|]. destruct (to_sbx a k v) as [r|] eqn:E.
  - destruct (to_sbx_correct a k v r Ha Hr E) as (s' & He' & ->). congruence.
  - unfold to_sbx in E. rewrite He in E. discriminate.
Qed.

(* the source in sandbox memory (D21) *)
Lemma conv_cell_correct to from f :
  in_range from (f 0%nat) = true -> n2_pair to from = false ->
  conv_cell to from f = (if in_range to (f 0%nat) then Ok (f 0%nat) else Abort).
Proof. intros A B. exact (conv_correct to from (f 0%nat) A B). Qed.
Lemma conv_cell_reread_refuted :
  let f := fun i : nat => match i with O => -32768 | _ => -32769 end in
  (forall i, in_range IInt (f i) = true) /\
  conv_cell_reread IShort f = Ok 32767 /\
  conv_cell IShort IInt f = Ok (-32768) /\ conv IShort IInt (-32769) = Abort.
Proof. split; [intros [|i]; reflexivity|]. vm_compute. repeat split. Qed.

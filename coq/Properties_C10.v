(* Properties_C10.v — C10: bulk memory operations never straddle or leave the sandbox. *)
From RLBoxV Require Import Ptr Ptr_proofs Bulk Bulk_proofs Verify Verify_proofs.
Local Open Scope Z_scope.

Definition g := code_range_guarded.

(* the single range check: an accepted non-wrapping range no larger than a sandbox is wholly
   inside one live region or wholly outside every live region; and conversely *)
Theorem C10_range_sound : forall l p size,
  world_ok l -> (forall r, In r l -> size <= rsize r) ->
  0 < size -> 0 <= p -> p + size <= M64 ->
  check_range g l p size = Ok tt -> range_good l p size = true.
Proof. exact (check_range_sound g). Qed.
Print Assumptions C10_range_sound.

Theorem C10_range_complete : forall l p size,
  world_ok l -> 0 <= p -> range_good l p size = true -> check_range g l p size = Ok tt.
Proof. exact (check_range_complete g). Qed.
Print Assumptions C10_range_complete.

(* a range starting inside a sandbox: any size whatsoever (wrap included) *)
Theorem C10_range_inside_any_size : forall l s p size,
  world_ok l -> In s l -> inr s p = true -> 0 < size < M64 ->
  check_range true l p size = Ok tt -> range_inside s p size = true.
Proof. exact check_range_inside_guarded. Qed.
Print Assumptions C10_range_inside_any_size.

Theorem C10_memset_safe : forall l s total dest n fp,
  world_ok l -> uniform l total -> total <= 2^63 -> In s l -> inr s dest = true ->
  0 < w64 n -> rl_memset g l total dest n = Ok fp ->
  fp = [WR dest (w64 n)] /\ range_inside s dest (w64 n) = true.
Proof. exact (rl_memset_safe g). Qed.
Print Assumptions C10_memset_safe.

Theorem C10_memset_complete : forall l s total dest n,
  world_ok l -> uniform l total -> In s l ->
  0 < w64 n -> range_inside s dest (w64 n) = true ->
  rl_memset g l total dest n = Ok [WR dest (w64 n)].
Proof. exact (rl_memset_complete g). Qed.

Theorem C10_memcpy_safe : forall l s total dest src n fp,
  world_ok l -> uniform l total -> total <= 2^63 -> In s l -> inr s dest = true ->
  0 < w64 n -> 0 <= src -> src + w64 n <= M64 ->
  rl_memcpy g l total dest src n = Ok fp ->
  fp = [WR dest (w64 n); RD src (w64 n)] /\ range_inside s dest (w64 n) = true /\
  range_good l src (w64 n) = true.
Proof. exact (rl_memcpy_safe g). Qed.
Print Assumptions C10_memcpy_safe.

Theorem C10_memcmp_safe : forall l s total dest src n fp,
  world_ok l -> uniform l total -> total <= 2^63 -> In s l -> inr s dest = true ->
  0 < w64 n -> 0 <= src -> src + w64 n <= M64 ->
  rl_memcmp g l total dest src n = Ok fp ->
  fp = [RD dest (w64 n); RD src (w64 n)] /\ range_inside s dest (w64 n) = true /\
  range_good l src (w64 n) = true.
Proof. exact (rl_memcmp_safe g). Qed.

Theorem C10_too_large : forall l total dest src n,
  total < w64 n -> rl_memset g l total dest n = Abort /\ rl_memcpy g l total dest src n = Abort /\
  rl_memcmp g l total dest src n = Abort.
Proof. exact (rl_too_large g). Qed.

Theorem C10_null_start : forall l total src n,
  rl_memset g l total 0 n = Abort /\ rl_memcpy g l total 0 src n = Abort /\ rl_memcmp g l total 0 src n = Abort.
Proof. exact (rl_null g). Qed.

(* a pointer handed back with a count really has that many whole elements inside:
   every count, every element size (copy_and_verify_range/_string/_buffer_address) *)
Theorem C10_counted_pointer : forall l s start count elsz a,
  world_ok l -> In s l -> inr s start = true -> 0 <= count -> 0 < elsz ->
  verify_range true l start count elsz = Ok (Some a) ->
  a = start /\ 0 < count /\ range_inside s start (count * elsz) = true.
Proof. exact verify_range_counted. Qed.
Print Assumptions C10_counted_pointer.

Theorem C10_counted_pointer_complete : forall l s start count elsz,
  world_ok l -> In s l -> 0 < count -> 0 < elsz ->
  range_inside s start (count * elsz) = true ->
  verify_range true l start count elsz = Ok (Some start).
Proof. exact verify_range_complete. Qed.

Theorem C10_unverified_safe_pointer : forall l s p count elsz a,
  world_ok l -> In s l -> inr s p = true -> 0 < count -> 0 < elsz ->
  usp_because true l p count elsz = Ok a -> a = p /\ range_inside s p (count * elsz) = true.
Proof. exact usp_counted. Qed.
Print Assumptions C10_unverified_safe_pointer.

(* copy_memory_or_deny_access (copy path): a source buffer inside sandbox s is read for exactly num*elsz
   bytes, all inside s; a request whose extent leaves s, wraps, or is empty is refused before anything is read *)
Theorem C10_copy_or_deny_safe : forall l s src num elsz fp,
  world_ok l -> In s l -> inr s src = true -> 0 <= num -> 0 < elsz ->
  copy_or_deny true l src num elsz = Ok fp ->
  fp = [RD src (num * elsz)] /\ 0 < num /\ range_inside s src (num * elsz) = true.
Proof. exact copy_or_deny_safe. Qed.
Theorem C10_copy_or_deny_refuses : forall l s src num elsz,
  world_ok l -> In s l -> inr s src = true -> 0 < num -> 0 < elsz ->
  range_inside s src (num * elsz) = false -> copy_or_deny true l src num elsz = Abort.
Proof. exact copy_or_deny_refuses. Qed.
Print Assumptions C10_copy_or_deny_safe.

(* copy_memory_or_grant_access (copy path): whatever the back end's allocator returns, the bytes written lie
   inside sandbox s and the bytes read are a good application-side range *)
Theorem C10_copy_or_grant_safe : forall gg l s total src num elsz ret fp,
  world_ok l -> uniform l total -> total <= 2^63 -> In s l ->
  0 < num -> 0 < elsz -> 0 < w64 (num * elsz) -> 0 <= src -> src + w64 (num * elsz) <= M64 ->
  copy_or_grant gg l s total src num elsz ret = Ok fp -> fp <> [] ->
  exists p, fp = [WR p (w64 (num * elsz)); RD src (w64 (num * elsz))] /\ inr s p = true /\
            range_inside s p (w64 (num * elsz)) = true /\ range_good l src (w64 (num * elsz)) = true.
Proof. exact copy_or_grant_safe. Qed.
Print Assumptions C10_copy_or_grant_safe.

(* a back end that can grant / deny access is handed a buffer only after the range check: every buffer it is asked to
   transfer lies wholly inside one sandbox or wholly outside all of them *)
Theorem C10_granted_buffer_checked : forall l s total src num elsz succ mret fp,
  world_ok l -> (forall r, In r l -> w64 (num * elsz) <= rsize r) ->
  0 < w64 (num * elsz) -> 0 <= src -> src + w64 (num * elsz) <= M64 ->
  grant_or_copy g l s total src num elsz succ mret = Ok (true, fp) ->
  range_good l src (w64 (num * elsz)) = true.
Proof. exact (granted_range_good g). Qed.
Theorem C10_denied_buffer_checked : forall l src num elsz succ fp,
  world_ok l -> (forall r, In r l -> w64 (num * elsz) <= rsize r) ->
  0 < w64 (num * elsz) -> 0 <= src -> src + w64 (num * elsz) <= M64 ->
  deny_or_copy g l src num elsz succ = Ok (true, fp) ->
  range_good l src (w64 (num * elsz)) = true.
Proof. exact (denied_range_good g). Qed.
Print Assumptions C10_granted_buffer_checked.

(* unverified_safe_pointer_because on a pointer that itself lies in sandbox memory: the address handed back is the one that
   was range-checked, whatever is written to the cell while the check runs *)
Theorem C10_usp_cell_checked : forall sc total size cell m t v m' t',
  vrun sc (usp_cell total size cell) m t = Ok (v, m', t') -> v = 0 \/ v + size <= total.
Proof. exact usp_cell_checked. Qed.

Theorem C10_code_is_guarded : g = true.
Proof. reflexivity. Qed.

(* fixed defects D6, D7 (regression witnesses) *)
Theorem C10_unguarded_refuted : ~ verify_range_counted_full false.
Proof. exact verify_range_unguarded_refuted. Qed.
Theorem C10_usp_before_fix :
  usp_because false [{| rbase := 2^44; rsize := 4096 |}] (2^44 + 16) 4000 1 = Abort /\
  usp_because false [demo_region] (2^44 + 2^32 - 1000) 100 40 = Ok (2^44 + 2^32 - 1000).
Proof. exact usp_because_unfixed_wrong_size. Qed.

(* Mem.v — byte-level model of sandbox memory and of the accesses RLBox makes to it
   (rlbox.hpp tainted_volatile<T>::operator= / get_raw_value, copy_and_verify on a pointer,
   copy_and_verify_range_helper): little-endian two's complement encoding of the
   sandbox-equivalent type at exactly sizeof(sandbox type) bytes. *)
From RLBoxV Require Export Conv Ptr Layout.
Local Open Scope Z_scope.

Definition mem := Z -> Z.            (* address -> byte (0..255) *)

Fixpoint bytes_le (n : nat) (x : Z) : list Z :=
  match n with O => [] | S n' => (x mod 256) :: bytes_le n' (x / 256) end.
Fixpoint le_val (bs : list Z) : Z :=
  match bs with [] => 0 | b :: tl => b + 256 * le_val tl end.

Fixpoint write (m : mem) (a : Z) (bs : list Z) : mem :=
  match bs with
  | [] => m
  | b :: tl => write (fun x => if x =? a then b else m x) (a + 1) tl
  end.
Fixpoint read (m : mem) (a : Z) (n : nat) : list Z :=
  match n with O => [] | S n' => m a :: read m (a + 1) n' end.

Definition nbytes (k : ikind) : nat := Z.to_nat (size k).
(* object representation of value v in integer type k *)
Definition encode (k : ikind) (v : Z) : list Z := bytes_le (nbytes k) (v mod 2 ^ bits k).
(* value of an object of type k with these bytes (bool: only 0/1 objects are valid) *)
Definition decode (k : ikind) (bs : list Z) : Z :=
  match k with IBool => le_val bs | _ => wrap k (le_val bs) end.

(* ---------- integer cells ---------- *)
(* deref(p) = v for p a tainted pointer to k (tainted_volatile::operator=): convert to the sandbox type,
   store sizeof(sandbox type) bytes *)
Definition store_int (a : abi) (k : ikind) (addr v : Z) (m : mem) : option (res mem) :=
  match sbx_equiv a k with
  | Some sk => Some (x <- conv sk k v ;; Ok (write m addr (encode sk x)))
  | None => None
  end.
(* deref(p).get_raw_value(): read sizeof(sandbox type) bytes, convert to the application type *)
Definition load_int (a : abi) (k : ikind) (addr : Z) (m : mem) : option (res Z) :=
  match sbx_equiv a k with
  | Some sk => Some (conv k sk (decode sk (read m addr (nbytes sk))))
  | None => None
  end.

(* [fixed] = false: the code before the fix: commit (D8): copy_and_verify on a tainted pointer to k and
   copy_and_verify_range read the pointee through a raw application-typed pointer, i.e. size k
   bytes decoded as k, no conversion; true: read through the tainted reference *)
Definition load_cv_ptr (fixed : bool) (a : abi) (k : ikind) (addr : Z) (m : mem) : option (res Z) :=
  if fixed then load_int a k addr m
  else match sbx_equiv a k with
       | Some _ => Some (Ok (decode k (read m addr (nbytes k))))
       | None => None
       end.

(* element i of a range starting at addr: the stride is the sandbox type's size *)
Definition load_range_el (fixed : bool) (a : abi) (k : ikind) (addr : Z) (i : Z) (m : mem) : option (res Z) :=
  match sbx_equiv a k with
  | Some sk => load_cv_ptr fixed a k (addr + i * size sk) m
  | None => None
  end.
Fixpoint load_range (fixed : bool) (a : abi) (k : ikind) (addr : Z) (i : Z) (n : nat) (m : mem) : option (res (list Z)) :=
  match n with
  | O => Some (Ok [])
  | S n' =>
    match load_range_el fixed a k addr i m, load_range fixed a k addr (i + 1) n' m with
    | Some r, Some rs => Some (x <- r ;; xs <- rs ;; Ok (x :: xs))
    | _, _ => None
    end
  end.
(* bytes a range copy touches: [addr, addr + footprint) *)
Definition range_footprint (fixed : bool) (a : abi) (k : ikind) (n : Z) : option Z :=
  match sbx_equiv a k with
  | Some sk => Some (if n =? 0 then 0 else (n - 1) * size sk + (if fixed then size sk else size k))
  | None => None
  end.
(* bytes the range check covers *)
Definition range_checked (fixed : bool) (a : abi) (k : ikind) (n : Z) : option Z :=
  match sbx_equiv a k with
  | Some sk => Some (n * (if fixed then size sk else size k))
  | None => None
  end.

(* ---------- pointer cells ---------- *)
(* pointer representation of width w bytes *)
Definition store_ptr (w : Z) (s : region) (addr p : Z) (m : mem) : mem :=
  write m addr (bytes_le (Z.to_nat w) (sandbox_ptr s p)).
Definition load_ptr (w : Z) (s : region) (addr : Z) (m : mem) : Z :=
  unsandbox s (le_val (read m addr (Z.to_nat w))).

(* ---------- cells whose representation is the same on both sides (enum, float, double) ---------- *)
Definition store_bits (w : Z) (addr v : Z) (m : mem) : mem := write m addr (bytes_le (Z.to_nat w) v).
Definition load_bits (w : Z) (addr : Z) (m : mem) : Z := le_val (read m addr (Z.to_nat w)).

Definition code_cv_reads_guest_width : bool := true.

(* Machine.v — integer types of the LP64 application ABI, C++ conversion to a
   type (wrap), size_t/uintptr_t arithmetic (mod 2^64), and the outcome type
   shared by every model.  Definitions and their basic lemmas only. *)
From Coq Require Export ZArith List Bool Lia.
Export ListNotations.
Local Open Scope Z_scope.

(* ---------- outcomes ---------- *)
Inductive res (A : Type) : Type :=
| Ok (a : A)
| Abort            (* detail::dynamic_check failed: exception / process abort *)
| Diverge          (* the code provably never terminates on this input *)
| Fault.           (* the access traps in hardware (null / guard page): crash, no abort *)
Arguments Ok {A} a.
Arguments Abort {A}.
Arguments Diverge {A}.
Arguments Fault {A}.

Definition bind {A B} (r : res A) (f : A -> res B) : res B :=
  match r with Ok a => f a | Abort => Abort | Diverge => Diverge | Fault => Fault end.
Notation "x <- r ;; k" := (bind r (fun x => k)) (at level 61, r at next level, right associativity).

Definition check (b : bool) : res unit := if b then Ok tt else Abort.

(* ---------- integer kinds (every integer type the host ABI distinguishes) ---------- *)
Inductive ikind :=
| IBool | IChar | ISChar | IUChar | IShort | IUShort | IInt | IUInt
| ILong | IULong | ILLong | IULLong | IChar16 | IChar32 | IWChar.

Definition all_ikinds : list ikind :=
  [IBool; IChar; ISChar; IUChar; IShort; IUShort; IInt; IUInt;
   ILong; IULong; ILLong; IULLong; IChar16; IChar32; IWChar].

Definition ikind_eqb (a b : ikind) : bool :=
  match a, b with
  | IBool, IBool | IChar, IChar | ISChar, ISChar | IUChar, IUChar
  | IShort, IShort | IUShort, IUShort | IInt, IInt | IUInt, IUInt
  | ILong, ILong | IULong, IULong | ILLong, ILLong | IULLong, IULLong
  | IChar16, IChar16 | IChar32, IChar32 | IWChar, IWChar => true
  | _, _ => false
  end.

Lemma ikind_eqb_spec a b : reflect (a = b) (ikind_eqb a b).
Proof. destruct a, b; cbn; constructor; congruence. Qed.

(* sizeof under the application ABI (x86-64 LP64, g++/clang) *)
Definition size (k : ikind) : Z :=
  match k with
  | IBool | IChar | ISChar | IUChar => 1
  | IShort | IUShort | IChar16 => 2
  | IInt | IUInt | IChar32 | IWChar => 4
  | ILong | IULong | ILLong | IULLong => 8
  end.

(* std::is_signed_v *)
Definition signed (k : ikind) : bool :=
  match k with
  | IChar | ISChar | IShort | IInt | ILong | ILLong | IWChar => true
  | _ => false
  end.

Definition bits (k : ikind) : Z := 8 * size k.

(* std::numeric_limits<T>::min() / max() *)
Definition lo (k : ikind) : Z :=
  if signed k then - 2 ^ (bits k - 1) else 0.
Definition hi (k : ikind) : Z :=
  match k with
  | IBool => 1
  | _ => if signed k then 2 ^ (bits k - 1) - 1 else 2 ^ (bits k) - 1
  end.

Definition in_range (k : ikind) (v : Z) : bool := (lo k <=? v) && (v <=? hi k).

(* static_cast<k>(x) for an integer x given as its mathematical value *)
Definition wrap (k : ikind) (x : Z) : Z :=
  match k with
  | IBool => if x =? 0 then 0 else 1
  | _ => if signed k
         then (x + 2 ^ (bits k - 1)) mod 2 ^ (bits k) - 2 ^ (bits k - 1)
         else x mod 2 ^ (bits k)
  end.

(* size_t / uintptr_t arithmetic *)
Definition M64 : Z := 2 ^ 64.
Definition w64 (x : Z) : Z := x mod M64.

Lemma size_pos k : 0 < size k.
Proof. destruct k; cbn; lia. Qed.

Lemma lo_le_hi k : lo k <= hi k.
Proof. destruct k; vm_compute; congruence. Qed.

Lemma wrap_id k x : in_range k x = true -> wrap k x = x.
Proof.
  unfold in_range; intros H; apply andb_prop in H as [H1 H2].
  apply Z.leb_le in H1; apply Z.leb_le in H2.
  destruct k; cbv [wrap signed bits size lo hi] in *;
    try (destruct (Z.eqb_spec x 0); lia);
    cbn in *;
    try (rewrite Z.mod_small; lia).
Qed.

Lemma wrap_in_range k x : in_range k (wrap k x) = true.
Proof.
  unfold in_range; apply andb_true_intro; rewrite !Z.leb_le.
  destruct k; cbv [wrap signed bits size lo hi];
    try (destruct (Z.eqb_spec x 0); lia); cbn;
    match goal with
    | |- context [?a mod ?m] => pose proof (Z.mod_pos_bound a m ltac:(lia)); lia
    end.
Qed.

Lemma w64_range x : 0 <= w64 x < M64.
Proof. unfold w64, M64; apply Z.mod_pos_bound; lia. Qed.

Lemma w64_small x : 0 <= x < M64 -> w64 x = x.
Proof. unfold w64; intros; apply Z.mod_small; assumption. Qed.

(* Properties_C14.v — C14: sandbox lifecycle is a strict state machine; the
   live-sandbox registry is exact.  Statements only; proofs in World_proofs.v. *)
From RLBoxV Require Import World World_proofs.

(* order: create succeeds only on a sandbox that is not created, destroy only on one that is *)
Theorem C14_create_only_from_not_created : forall ok w i r,
  create_sandbox ok w i = Ok r -> st (get_sb w i) = NotCreated.
Proof. exact create_only_from_not_created. Qed.
Theorem C14_create_aborts_otherwise : forall ok w i,
  st (get_sb w i) <> NotCreated -> create_sandbox ok w i = Abort.
Proof. exact create_aborts_otherwise. Qed.
Theorem C14_destroy_only_from_created : forall w i r,
  destroy_sandbox false w i = Ok r -> st (get_sb w i) = Created.
Proof. exact (destroy_only_from_created false). Qed.
Theorem C14_destroy_aborts_otherwise : forall w i,
  st (get_sb w i) <> Created -> destroy_sandbox false w i = Abort.
Proof. exact (destroy_aborts_otherwise false). Qed.
Print Assumptions C14_destroy_aborts_otherwise.

(* the registry is exact after EVERY history over any number of sandbox objects and owners:
   sandbox_list has no duplicates and contains exactly the objects in state CREATED
   (so, with Properties_C04.C04_find_iff, an address is resolved to a sandbox iff it
   lies in a live one); no object rests in CLEANING_UP *)
Theorem C14_registry_exact : forall ops nsb nslots nown w xs,
  wrun code_move_assign_releases (world_init nsb nslots nown) ops = Ok (w, xs) ->
  NoDup (slist w) /\ (forall i, In i (slist w) <-> st (get_sb w i) = Created) /\
  (forall i, st (get_sb w i) <> CleaningUp).
Proof.
  intros ops nsb nslots nown w xs H.
  exact (wrun_rinv _ ops _ w xs (rinv_init nsb nslots nown) H).
Qed.
Print Assumptions C14_registry_exact.

(* outside the window: allocation returns null, frees are ignored, registration aborts,
   unregistration is ignored *)
Theorem C14_outside_window : forall w i k,
  is_created w i = false ->
  malloc_op w i = ONull /\ free_op w i = OIgnored /\ register_cb w i k = Abort /\ unregister_cb false w i k = Ok w.
Proof.
  intros w i k H. unfold malloc_op, free_op, register_cb, unregister_cb, is_created in *.
  rewrite H. repeat split.
Qed.
Print Assumptions C14_outside_window.

(* a failed create leaves INITIALIZING for ever (N4: consistent with the property's wording, noted) *)
Theorem C14_failed_create_sticks :
  exists w xs, wrun true (world_init 1 4 1) [WCreate 0 false] = Ok (w, xs) /\
    wstep true w (WCreate 0 true) = Abort /\ wstep true w (WDestroy 0) = Abort.
Proof. eexists; eexists. vm_compute. repeat split. Qed.

(* D12 (known finding): the next incarnation is NOT fresh *)
Theorem C14_fresh_incarnation_refuted :
  exists w xs, wrun true (world_init 1 4 2) [WCreate 0 true; WRegister 0 0 77; WLookup 0 5; WDestroy 0; WCreate 0 true] = Ok (w, xs) /\
    reachable w 0%nat = [77%Z] /\ cache (get_sb w 0%nat) = [5%Z] /\
    wstep true w (WRegister 1 0 77) = Abort.
Proof. exact incarnation_not_fresh. Qed.

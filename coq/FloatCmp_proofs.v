From RLBoxV Require Import FloatCmp.
From Coq Require Import Lia.
Local Open Scope Z_scope.

Lemma fcmp3_range a b s : fcmp3 a b = Some s -> s = -1 \/ s = 0 \/ s = 1.
Proof.
  destruct a as [|na|m1 e1], b as [|nb|m2 e2]; cbn; try discriminate; intros H; inversion H; clear H.
  - destruct (Bool.eqb na nb); [|destruct na]; auto.
  - destruct na; auto.
  - destruct nb; auto.
  - destruct (_ <? _); [|destruct (_ =? _)]; auto.
Qed.

Lemma fcmp3_sym a b : fcmp3 b a = match fcmp3 a b with Some s => Some (- s) | None => None end.
Proof.
  destruct a as [|na|m1 e1], b as [|nb|m2 e2]; cbn; try reflexivity.
  - destruct na, nb; reflexivity.
  - destruct na; reflexivity.
  - destruct nb; reflexivity.
  - rewrite (Z.min_comm e2 e1). set (x := m1 * _). set (y := m2 * _).
    destruct (Z.ltb_spec x y), (Z.ltb_spec y x), (Z.eqb_spec x y), (Z.eqb_spec y x); try lia; reflexivity.
Qed.

(* mirroring is always right: a op b = b op' a *)
Lemma fcompare_mirror a b :
  fcompare FLt a b = fcompare FGt b a /\ fcompare FLe a b = fcompare FGe b a /\
  fcompare FGt a b = fcompare FLt b a /\ fcompare FGe a b = fcompare FLe b a /\
  fcompare FEq a b = fcompare FEq b a /\ fcompare FNe a b = fcompare FNe b a.
Proof.
  unfold fcompare. rewrite (fcmp3_sym a b).
  destruct (fcmp3 a b) as [s|] eqn:E; [|repeat split; reflexivity].
  destruct (fcmp3_range _ _ _ E) as [ -> | [ -> | -> ] ]; repeat split; reflexivity.
Qed.

(* <= is < or ==, >= is > or ==, != is the negation of == *)
Lemma fcompare_le_split a b : fcompare FLe a b = fcompare FLt a b || fcompare FEq a b.
Proof.
  unfold fcompare. destruct (fcmp3 a b) as [s|] eqn:E; [|reflexivity].
  destruct (fcmp3_range _ _ _ E) as [ -> | [ -> | -> ] ]; reflexivity.
Qed.
Lemma fcompare_ge_split a b : fcompare FGe a b = fcompare FGt a b || fcompare FEq a b.
Proof.
  unfold fcompare. destruct (fcmp3 a b) as [s|] eqn:E; [|reflexivity].
  destruct (fcmp3_range _ _ _ E) as [ -> | [ -> | -> ] ]; reflexivity.
Qed.
Lemma fcompare_ne a b : fcompare FNe a b = negb (fcompare FEq a b).
Proof. unfold fcompare. destruct (fcmp3 a b); reflexivity. Qed.

(* negating the mirrored strict comparison is right exactly when the operands are ordered *)
Lemma negating_ok_iff_ordered op a b :
  fcmp3 a b <> None -> wfcompare_negating op a b = fcompare op a b.
Proof.
  intros H. destruct (fcompare_mirror b a) as (M1 & M2 & M3 & M4 & M5 & M6).
  unfold wfcompare_negating. destruct op; auto.
  - (* FLe *) unfold fcompare. rewrite (fcmp3_sym a b). destruct (fcmp3 a b) as [s|] eqn:E; [|congruence].
    destruct (fcmp3_range _ _ _ E) as [ -> | [ -> | -> ] ]; reflexivity.
  - unfold fcompare. rewrite (fcmp3_sym a b). destruct (fcmp3 a b) as [s|] eqn:E; [|congruence].
    destruct (fcmp3_range _ _ _ E) as [ -> | [ -> | -> ] ]; reflexivity.
Qed.
Lemma negating_refuted : exists a b,
  wfcompare_negating FLe a b <> fcompare FLe a b /\ wfcompare_negating FGe a b <> fcompare FGe a b.
Proof. exists FNaN, (FFin 1 0). cbn. split; discriminate. Qed.

(* decoding: the usual landmarks *)
Lemma fdecode_examples :
  fdecode F64 0 = FFin 0 (-1074) /\ fdecode F64 (2^63) = FFin 0 (-1074) /\
  fdecode F64 4607182418800017408 = FFin (2^52) (-52) /\                (* 1.0 *)
  fdecode F64 (2047 * 2^52) = FInf false /\ fdecode F64 (2^63 + 2047 * 2^52) = FInf true /\
  fdecode F64 (2047 * 2^52 + 2^51) = FNaN /\
  fdecode F32 1065353216 = FFin (2^23) (-23) /\ fdecode F32 1 = FFin 1 (-149) /\
  fcompare FEq (fdecode F64 0) (fdecode F64 (2^63)) = true /\           (* +0 == -0 *)
  fcompare FEq (fdecode F32 1065353216) (fdecode F64 4607182418800017408) = true /\   (* 1.0f == 1.0 *)
  fcompare FLt (fdecode F32 1) (fdecode F64 1) = false /\ fcompare FLt (fdecode F64 1) (fdecode F32 1) = true.
Proof. vm_compute. repeat split; reflexivity. Qed.

(* Calls.v — model of boundary crossings: INTERNAL_invoke_with_func_ptr,
   sandbox_callback_interceptor, the back end's thread record {sandbox,
   last_callback_invoked} (impl_invoke_with_func_ptr saves/restores the sandbox
   with a scope_exit; the per-slot trampoline stores the slot; the interceptor
   reads (sandbox, key-of-slot) before anything else), transition hooks
   (RLBOX_TRANSITION_ACTION_IN/OUT), transition timing records, value conversion
   of one argument and of the result in both directions, for call trees of any
   depth and width.  An abort arises wherever a value is not representable
   (argument or result conversion, either direction) or a callback body throws. *)
From RLBoxV Require Export Machine.
Local Open Scope Z_scope.

(* a node is an invocation (of guest function [fnid] in sandbox [tgt]) or a guest call of
   entry point (slot) [tgt] of the executing sandbox; children alternate: the guest body
   of an invocation calls callbacks, the body of a callback invokes.
   [arg]: the value passed (application value for an invocation, guest value for a
   callback call); [ret]: the value the body returns (guest value for an invocation,
   application value for a callback); [throws]: the callback body throws after its nested
   invocations; [catches]: the callback body catches the exceptions of its nested invocations. *)
Inductive node := Node (tgt fnid : nat) (arg ret : Z) (throws catches : bool) (kids : list node).

Inductive ev :=
| EIn (is_invoke : bool) (ident : nat) (state : nat)    (* RLBOX_TRANSITION_ACTION_IN(kind, name/key, transition_state) *)
| EOut (is_invoke : bool) (ident : nat) (state : nat)
| EGuest (sb fnid : nat) (a : Z)        (* guest function fnid of sandbox sb's library entered, saw a *)
| EInvRes (sb : nat) (r : option Z)     (* the application received the (tainted) result; None: void *)
| ERan (fn sb : nat) (a : Z)            (* application callback fn ran, was given sandbox sb and argument a *)
| EGuestGot (sb : nat) (r : option Z)   (* guest code got r back from the entry point *)
| ETrap (sb slot : nat).                (* guest code called an entry point that is not issued *)

(* the back end's per-thread record *)
Record thr := { cur : nat; lastcb : nat }.

(* a timing record: (sandbox whose vector receives it, is_invoke, name/key) *)
Definition trec := (nat * bool * nat)%type.
(* result: events, aborted?, thread record afterwards, timing records in push_back order *)
Definition rr := (list ev * bool * thr * list trec)%type.

(* run the children in order; [stop]: an abort of a child ends the loop (guest frames never
   catch; a callback body only if it does not catch) *)
Definition kids_loop (r : thr -> node -> rr) (stop : bool) : list node -> thr -> rr :=
  fix loop (l : list node) (c : thr) : rr :=
    match l with
    | [] => ([], false, c, [])
    | k :: tl =>
      let '(e1, ab1, c1, r1) := r c k in
      if ab1 && stop then (e1, true, c1, r1)
      else let '(e2, ab2, c2, r2) := loop tl c1 in (e1 ++ e2, ab2, c2, r1 ++ r2)
    end.

Section Run.
Variable slot_of : nat -> nat -> option nat.   (* back-end slot table: sandbox, slot -> registered application function *)
Variable cb_void : nat -> bool.                (* application function fn returns void *)
Variable g_void : nat -> bool.                 (* guest function fnid returns void *)
Variable cin : Z -> res Z.                     (* application -> sandbox conversion of the value type *)
Variable cout : Z -> res Z.                    (* sandbox -> application *)
(* [late_key]: false = the code (the interceptor fetches (sandbox, key) on entry);
   true = a variant that fetches the key only after the body's nested crossings (used to show
   in Coq that the early fetch is necessary) *)
Variable late_key : bool.

Fixpoint run (is_invoke : bool) (t : thr) (n : node) {struct n} : rr :=
  match n with
  | Node tgt fnid arg ret throws catches kids =>
    if is_invoke then
      (* application -> guest function fnid of sandbox tgt *)
      let e_in := EIn true fnid tgt in
      let e_out := EOut true fnid tgt in
      let rc : trec := (tgt, true, fnid) in
      match cin arg with
      | Ok a' =>
        let t1 := {| cur := tgt; lastcb := lastcb t |} in           (* impl_invoke_with_func_ptr *)
        let '(evs, ab, t2, recs) := kids_loop (run false) true kids t1 in
        let t3 := {| cur := cur t; lastcb := lastcb t2 |} in        (* its scope_exit, on every exit *)
        let pre := e_in :: EGuest tgt fnid a' :: evs in
        if ab then (pre ++ [e_out], true, t3, recs ++ [rc])
        else if g_void fnid then (pre ++ [e_out; EInvRes tgt None], false, t3, recs ++ [rc])
        else match cout ret with
             | Ok r' => (pre ++ [e_out; EInvRes tgt (Some r')], false, t3, recs ++ [rc])
             | _ => (pre ++ [e_out], true, t3, recs ++ [rc])
             end
      | _ => ([e_in; e_out], true, t, [rc])
      end
    else
      (* guest code of sandbox [cur t] calls entry point tgt *)
      match slot_of (cur t) tgt with
      | None => ([ETrap (cur t) tgt], true, t, [])
      | Some _ =>
        let t1 := {| cur := cur t; lastcb := tgt |} in            (* trampoline tgt *)
        let sb := cur t1 in
        match slot_of sb (lastcb t1) with                         (* interceptor entry *)
        | None => ([ETrap sb tgt], true, t1, [])
        | Some fn0 =>
          match cout arg with
          | Ok a' =>
            let '(evs, ab, t2, recs) := kids_loop (run true) (negb catches) kids t1 in
            let fn := if late_key then match slot_of sb (lastcb t2) with Some f => f | None => fn0 end else fn0 in
            let e_out := EOut false fn0 sb in
            let e_in := EIn false fn0 sb in
            let rc : trec := (sb, false, fn0) in
            let pre := e_out :: ERan fn sb a' :: evs in
            if ab || throws then (pre ++ [e_in], true, t2, recs ++ [rc])
            else if cb_void fn then (pre ++ [e_in; EGuestGot sb None], false, t2, recs ++ [rc])
            else match cin ret with
                 | Ok r' => (pre ++ [e_in; EGuestGot sb (Some r')], false, t2, recs ++ [rc])
                 | _ => (pre ++ [e_in], true, t2, recs ++ [rc])
                 end
          | _ => ([EOut false fn0 sb; EIn false fn0 sb], true, t1, [(sb, false, fn0)])
          end
        end
      end
  end.
End Run.

(* ---------- well-nestedness ---------- *)
(* a stack of open crossings: (is_invoke, ident, state) *)
Definition frame := (bool * nat * nat)%type.
Definition frame_eqb (a b : frame) : bool :=
  let '(a1, a2, a3) := a in let '(b1, b2, b3) := b in
  Bool.eqb a1 b1 && Nat.eqb a2 b2 && Nat.eqb a3 b3.

(* an invocation is In ... Out ; a callback inside it is Out ... In; the closing
   notification must carry the same kind, identity and transition state as the opening one *)
Fixpoint nest (stack : list frame) (evs : list ev) : option (list frame) :=
  match evs with
  | [] => Some stack
  | EIn true i s :: tl => nest ((true, i, s) :: stack) tl
  | EOut false i s :: tl => nest ((false, i, s) :: stack) tl
  | EOut true i s :: tl =>
    match stack with fr :: st' => if frame_eqb fr (true, i, s) then nest st' tl else None | [] => None end
  | EIn false i s :: tl =>
    match stack with fr :: st' => if frame_eqb fr (false, i, s) then nest st' tl else None | [] => None end
  | _ :: tl => nest stack tl
  end.

(* the closing notifications, in order, as the timing records they must correspond to *)
Fixpoint closes (evs : list ev) : list trec :=
  match evs with
  | [] => []
  | EOut true i s :: tl => (s, true, i) :: closes tl
  | EIn false i s :: tl => (s, false, i) :: closes tl
  | _ :: tl => closes tl
  end.

Definition crossings (evs : list ev) : nat :=
  length (filter (fun e => match e with EIn true _ _ | EOut false _ _ => true | _ => false end) evs).

(* the application functions that ran, with the sandbox they were handed *)
Fixpoint rans (evs : list ev) : list (nat * nat) :=
  match evs with
  | [] => []
  | ERan fn sb _ :: tl => (fn, sb) :: rans tl
  | _ :: tl => rans tl
  end.

(* ---------- what C12 demands: dispatch decided by the entry point called, nothing else ---------- *)
(* the same tree run by the specification: entry point [tgt] called by sandbox [c] runs
   [slot_of c tgt]; no thread record is consulted *)
Section Spec.
Variable slot_of : nat -> nat -> option nat.
Variable cb_void : nat -> bool.
Variable g_void : nat -> bool.
Variable cin : Z -> res Z.
Variable cout : Z -> res Z.

Definition kids_spec (r : nat -> node -> list ev * bool) (stop : bool) : list node -> nat -> list ev * bool :=
  fix loop (l : list node) (c : nat) : list ev * bool :=
    match l with
    | [] => ([], false)
    | k :: tl =>
      let '(e1, ab1) := r c k in
      if ab1 && stop then (e1, true)
      else let '(e2, ab2) := loop tl c in (e1 ++ e2, ab2)
    end.

Fixpoint spec (is_invoke : bool) (c : nat) (n : node) {struct n} : list ev * bool :=
  match n with
  | Node tgt fnid arg ret throws catches kids =>
    if is_invoke then
      match cin arg with
      | Ok a' =>
        let '(evs, ab) := kids_spec (spec false) true kids tgt in
        let pre := EIn true fnid tgt :: EGuest tgt fnid a' :: evs in
        if ab then (pre ++ [EOut true fnid tgt], true)
        else if g_void fnid then (pre ++ [EOut true fnid tgt; EInvRes tgt None], false)
        else match cout ret with
             | Ok r' => (pre ++ [EOut true fnid tgt; EInvRes tgt (Some r')], false)
             | _ => (pre ++ [EOut true fnid tgt], true)
             end
      | _ => ([EIn true fnid tgt; EOut true fnid tgt], true)
      end
    else
      match slot_of c tgt with
      | None => ([ETrap c tgt], true)
      | Some fn =>
        match cout arg with
        | Ok a' =>
          let '(evs, ab) := kids_spec (spec true) (negb catches) kids c in
          let pre := EOut false fn c :: ERan fn c a' :: evs in
          if ab || throws then (pre ++ [EIn false fn c], true)
          else if cb_void fn then (pre ++ [EIn false fn c; EGuestGot c None], false)
          else match cin ret with
               | Ok r' => (pre ++ [EIn false fn c; EGuestGot c (Some r')], false)
               | _ => (pre ++ [EIn false fn c], true)
               end
        | _ => ([EOut false fn c; EIn false fn c], true)
        end
      end
  end.
End Spec.

(* ---------- the per-sandbox transition state is handed to the hooks BY REFERENCE ----------
   (the hook macros receive the expression sandbox.transition_state): a hook that replaces the state s it is given by
   [f s] makes the notifications of one sandbox observe  init, f init, f (f init), ...  in order, whatever other
   sandboxes' notifications lie in between.  [cells]: sandbox -> current state. *)
Definition notif_sbx (e : ev) : option nat :=
  match e with EIn _ _ s | EOut _ _ s => Some s | _ => None end.
Definition upd_cell (cells : nat -> nat) (s v : nat) : nat -> nat := fun x => if Nat.eqb x s then v else cells x.
Fixpoint thread_states (f : nat -> nat) (cells : nat -> nat) (evs : list ev) : list nat :=
  match evs with
  | [] => []
  | e :: tl =>
    match notif_sbx e with
    | Some s => cells s :: thread_states f (upd_cell cells s (f (cells s))) tl
    | None => thread_states f cells tl
    end
  end.
(* what C19 demands: the k-th notification of sandbox s observes f applied k times to s's initial state *)
Fixpoint count_sbx (s : nat) (l : list nat) : nat :=
  match l with [] => 0%nat | x :: tl => ((if Nat.eqb x s then 1 else 0) + count_sbx s tl)%nat end.
Fixpoint expected_states (f : nat -> nat) (init : nat -> nat) (seen : list nat) (evs : list ev) : list nat :=
  match evs with
  | [] => []
  | e :: tl =>
    match notif_sbx e with
    | Some s => Nat.iter (count_sbx s seen) f (init s) :: expected_states f init (s :: seen) tl
    | None => expected_states f init seen tl
    end
  end.

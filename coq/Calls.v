(* Calls.v — model of boundary crossings: INTERNAL_invoke_with_func_ptr,
   sandbox_callback_interceptor, the back end's thread record {sandbox,
   last_callback_invoked} (impl_invoke_with_func_ptr saves/restores it with a
   scope_exit), transition hooks (RLBOX_TRANSITION_ACTION_IN/OUT), transition
   timing records, for call trees of any depth and width with an abort injected
   at any argument-conversion / callback-body / result-conversion position. *)
From RLBoxV Require Export Machine.
Local Open Scope Z_scope.

Inductive fault := FNone | FArg | FBody | FRes.

(* a node is an invocation (of sandbox [id]) or a callback call (of entry point
   [id] of the executing sandbox); children alternate: the guest body of an
   invocation calls callbacks, the body of a callback invokes.  [catches]: a
   callback body that catches the exceptions of its nested invocations. *)
Inductive node := Node (id : nat) (f : fault) (catches : bool) (kids : list node).

Inductive ev :=
| EIn (is_invoke : bool) (ident : nat) (state : nat)    (* RLBOX_TRANSITION_ACTION_IN(kind, name/key, transition_state) *)
| EOut (is_invoke : bool) (ident : nat) (state : nat)
| ERan (fn : nat) (sb : nat)                            (* application callback fn ran, given sandbox sb *)
| EGuest (sb : nat).                                    (* guest function body entered in sandbox sb *)

(* which application function is registered at entry point k of sandbox s *)
Definition registered := nat -> nat -> nat.

(* result: events, aborted?, thread's current sandbox afterwards, timing records (kind, ident) *)
Definition rr := (list ev * bool * nat * list (bool * nat))%type.

(* run the children in order; [stop]: an abort of a child ends the loop (guest frames never
   catch; a callback body only if it does not catch) *)
Definition kids_loop (r : nat -> node -> rr) (stop : bool) : list node -> nat -> rr :=
  fix loop (l : list node) (c : nat) : rr :=
    match l with
    | [] => ([], false, c, [])
    | k :: tl =>
      let '(e1, ab1, c1, r1) := r c k in
      if ab1 && stop then (e1, true, c1, r1)
      else let '(e2, ab2, c2, r2) := loop tl c1 in (e1 ++ e2, ab2, c2, r1 ++ r2)
    end.

Section Run.
Variable reg : registered.
Variable invoke_name : nat.           (* identity of the invoked sandbox function *)

Fixpoint run (is_invoke : bool) (cur : nat) (n : node) {struct n} : rr :=
  match n with
  | Node id f catches kids =>
    if is_invoke then
      (* application -> sandbox id *)
      let e_in := EIn true invoke_name id in
      let e_out := EOut true invoke_name id in
      match f with
      | FArg => ([e_in; e_out], true, cur, [(true, invoke_name)])
      | _ =>
        let '(evs, ab, c, recs) := kids_loop (run false) true kids id in
        (* impl_invoke_with_func_ptr restores the thread's sandbox on every exit (scope_exit) *)
        let ab' := ab || match f with FRes => true | _ => false end in
        (e_in :: EGuest id :: evs ++ [e_out], ab', cur, recs ++ [(true, invoke_name)])
      end
    else
      (* guest code of sandbox [cur] calls entry point id *)
      let fn := reg cur id in
      let e_out := EOut false fn cur in
      let e_in := EIn false fn cur in
      match f with
      | FArg => ([e_out; e_in], true, cur, [(false, fn)])
      | _ =>
        let '(evs, ab, c, recs) := kids_loop (run true) (negb catches) kids cur in
        let ab' := ab || match f with FBody | FRes => true | _ => false end in
        (e_out :: ERan fn cur :: evs ++ [e_in], ab', c, recs ++ [(false, fn)])
      end
  end.
End Run.

(* ---------- well-nestedness ---------- *)
(* a stack of open crossings: (is_invoke, ident, state) *)
Definition frame := (bool * nat * nat)%type.
Definition frame_eqb (a b : frame) : bool :=
  let '(a1, a2, a3) := a in let '(b1, b2, b3) := b in
  Bool.eqb a1 b1 && Nat.eqb a2 b2 && Nat.eqb a3 b3.

(* an invocation is In ... Out ; a callback inside it is Out ... In *)
Fixpoint nest (stack : list frame) (evs : list ev) : option (list frame) :=
  match evs with
  | [] => Some stack
  | EIn true i s :: tl => nest ((true, i, s) :: stack) tl
  | EOut false i s :: tl => nest ((false, i, s) :: stack) tl
  | EOut true i s :: tl =>
    match stack with fr :: st' => if frame_eqb fr (true, i, s) then nest st' tl else None | [] => None end
  | EIn false i s :: tl =>
    match stack with fr :: st' => if frame_eqb fr (false, i, s) then nest st' tl else None | [] => None end
  | _ :: tl => nest stack tl
  end.

Definition crossings (evs : list ev) : nat :=
  length (filter (fun e => match e with EIn true _ _ | EOut false _ _ => true | _ => false end) evs).

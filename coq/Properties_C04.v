(* Properties_C04.v — C04: pointer representation conversion is faithful,
   null-preserving and per-sandbox.  Statements only. *)
From RLBoxV Require Import Ptr Ptr_proofs.
Local Open Scope Z_scope.

Theorem C04_roundtrip_rep : forall s r,
  region_ok s -> 0 <= r < rsize s -> sandbox_ptr s (unsandbox s r) = r.
Proof. exact roundtrip_rep. Qed.
Print Assumptions C04_roundtrip_rep.

(* every in-sandbox address except the first byte, whose representation is the guest's null *)
Theorem C04_roundtrip_addr : forall s a,
  region_ok s -> inr s a = true -> a <> rbase s -> unsandbox s (sandbox_ptr s a) = a.
Proof. exact roundtrip_addr. Qed.
Print Assumptions C04_roundtrip_addr.

Theorem C04_first_byte_is_guest_null : forall s, region_ok s -> sandbox_ptr s (rbase s) = 0.
Proof. exact first_byte_is_guest_null. Qed.

(* null <-> 0 on every path *)
Theorem C04_null : forall l s ex,
  unsandbox s 0 = 0 /\ sandbox_ptr s 0 = 0 /\
  unsandbox_noctx l 0 ex = Ok 0 /\ sandbox_ptr_noctx l 0 ex = Ok 0 /\
  load_ptr_cell l ex 0 = Ok 0 /\ store_ptr_cell l ex 0 = Ok 0.
Proof. exact null_paths. Qed.

Theorem C04_nonnull_stays_nonnull : forall s,
  region_ok s ->
  (forall r, 0 < r < rsize s -> unsandbox s r <> 0 /\ inr s (unsandbox s r) = true) /\
  (forall a, inr s a = true -> a <> rbase s -> sandbox_ptr s a <> 0).
Proof.
  intros s Hs; split; [intros r; exact (nonnull_rep_nonnull_addr s r Hs) | intros a; exact (nonnull_addr_nonnull_rep s a Hs)].
Qed.

(* per-sandbox: with ANY set of live sandboxes (any world satisfying the back-end
   contract — in particular every registry state reachable by create/destroy
   histories, see Properties_C14), a pointer stored in or read from a cell of
   sandbox s is translated with s, and an example address finds s iff it is in s *)
Theorem C04_per_sandbox : forall l s cell,
  world_ok l -> In s l -> inr s cell = true ->
  (forall rep, load_ptr_cell l cell rep = Ok (unsandbox s rep)) /\
  (forall a, store_ptr_cell l cell a = Ok (sandbox_ptr s a)).
Proof. exact cell_uses_own_sandbox. Qed.
Print Assumptions C04_per_sandbox.

Theorem C04_find_iff : forall l s a,
  world_ok l -> In s l -> (region_of l a = Some s <-> inr s a = true).
Proof. exact find_iff. Qed.

Theorem C04_nonvacuous :
  world_ok [demo_region] /\ unsandbox demo_region 100 = 2^44 + 100 /\ sandbox_ptr demo_region (2^44 + 100) = 100.
Proof. split; [exact demo_world_ok|]. vm_compute. split; reflexivity. Qed.

(* Casts.v — model of tainted_opaque (rlbox_types.hpp, to_opaque / from_opaque: the same storage
   reinterpreted) and of sandbox_static_cast / sandbox_reinterpret_cast / sandbox_const_cast
   (rlbox_stdlib.hpp: convert the operand to a tainted value — a load when it lives in sandbox
   memory — apply the C++ cast to the underlying value, wrap the result). *)
From RLBoxV Require Export Conv Mem.
Local Open Scope Z_scope.

(* object image of an application-side wrapper holding integer v of kind k *)
Definition image (k : ikind) (v : Z) : list Z := encode k v.
(* to_opaque / from_opaque: reinterpret_cast of the same bytes *)
Definition to_opaque_img (img : list Z) : list Z := img.
Definition from_opaque_img (img : list Z) : list Z := img.

(* sandbox_static_cast<to>(x) for integer kinds; [vol]: x is a tainted_volatile holding the
   sandbox-type value v *)
Definition sandbox_static_cast (a : abi) (vol : bool) (to from : ikind) (v : Z) : option (res Z) :=
  if vol then match to_app a from v with Some r => Some (x <- r ;; Ok (wrap to x)) | None => None end
  else Some (Ok (wrap to v)).

(* the three casts on pointers: the designated address is the operand's address *)
Definition sandbox_ptr_cast (vol : bool) (s : region) (x : Z) : Z :=
  if vol then unsandbox s x      (* x is the representation stored in the pointer cell *)
  else x.

(* ---------- the casts applied to a CELL of sandbox memory (tainted_volatile operand), from the
   bytes: sandbox_static_cast<to> of a dereferenced pointer is "load the cell (C07), static_cast, wrap"; the pointer casts
   are "load the pointer cell (C04/C07), reinterpret" ---------- *)
Definition sandbox_static_cast_mem (a : abi) (to from : ikind) (addr : Z) (m : mem) : option (res Z) :=
  match load_int a from addr m with Some r => Some (x <- r ;; Ok (wrap to x)) | None => None end.
Definition sandbox_ptr_cast_mem (w : Z) (s : region) (addr : Z) (m : mem) : Z :=
  sandbox_ptr_cast true s (load_bits w addr m).

(* an opaque value handed to a sandbox function / returned from a callback: what crosses the
   boundary is computed from the opaque object's bytes *)
Definition opaque_to_sbx (a : abi) (k : ikind) (img : list Z) : option (res Z) :=
  to_sbx a k (decode k (from_opaque_img img)).

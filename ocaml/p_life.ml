(* C13 / C14 handlers: histories over sandbox objects and callback owners *)
open Model
open Util

let zi = z_of_int
let ni n = nat_of_int n
let pow2 n = Z.pow (zi 2) (zi n)

(* run one history with a step function; returns the outcome string *)
let run_hist ?(spec_like = false) (noop : bool) (step : world -> wop -> (world * out) res) (nslots : int) (ops : string list) : string * bool =
  let w = ref (world_init (ni 3) (ni nslots) (ni 200)) in
  let buf = Buffer.create 64 in
  let add s = if Buffer.length buf > 0 then Buffer.add_char buf ','; Buffer.add_string buf s in
  let stop = ref false in
  let recreated_with_state = ref false in
  (* per-instance libraries of the driver: name n of object i is at 0x1000 + 256 i + n (reported minus 0x1000) *)
  let sw = ref (symw_init (ni 3)) in
  let lib i n = Z.add (Z.mul (zi 256) (Z.of_nat i)) n in
  let sym k i n = (let (sw', r) = sstep lib false !sw (SLook (k, ni i, zi n)) in sw := sw'; r) in
  let apply o = (match step !w o with Ok (w', x) -> w := w'; Some x | _ -> None) in
  let created i = (match (List.nth !w.sbs i).st with Created -> true | _ -> false) in
  List.iter (fun tok ->
      if not !stop then begin
        (* a leading '!': the operation's abort is recoverable — the refused step leaves the state as it was (World.wrun_rec) *)
        let recover = String.length tok > 0 && tok.[0] = '!' in
        let tok = if recover then String.sub tok 1 (String.length tok - 1) else tok in
        let o = String.split_on_char ':' tok in
        let c = List.hd o in
        let arg n = int_of_string (List.nth o n) in
        let abort () = add (c ^ "=ABORT"); if not recover then stop := true in
        (match c with
         | "go" when (match cb_owner_at !w (ni (arg 1)) with None -> true | Some (i, _) -> not (created (int_of_nat i))) ->
           add (match cb_owner_at !w (ni (arg 1)) with None -> "go=dead" | Some _ -> "go=notcreated")
         | ("l" | "il" | "gs" | "lb" | "ilb" | "fa" | "occ") when not (created (arg 1)) -> add (c ^ "=notcreated")
         | "lb" | "ilb" | "fa" -> if noop then add (c ^ "=skip") else
             (* by-name lookup through a reused caller buffer: the address is the named function's, whatever was looked up before *)
             let op = if c = "lb" then WLookup (ni (arg 1), zi (arg 2)) else WILookup (ni (arg 1), zi (arg 2)) in
             (* the caches with their contents (Symbols.v): which address comes back *)
             let (asked, addr) = sym (if c = "lb" then SPub else SInt) (arg 1) (arg 2) in
             (match apply op with
              | Some (OBool b) when b = asked -> add (c ^ (if b then "=asked:" else "=cached:") ^ string_of_z addr)
              | Some _ -> add (c ^ "=MODELS-DISAGREE") | None -> abort ())
         | "c" ->
           let i = arg 1 in
           let ok = noop || (List.nth o 2 = "1") in
           let s = List.nth !w.sbs i in
           if (s.ckeys <> [] || s.cache <> [] || s.icache <> []) then recreated_with_state := true;
           (match apply (WCreate (ni i, ok)) with
            | Some (OBool b) -> add (if b then "c=1" else "c=0") | _ -> abort ())
         | "d" -> (match apply (WDestroy (ni (arg 1))) with Some _ -> add "d=ok" | None -> abort ())
         | "m" -> (match apply (WMalloc (ni (arg 1))) with Some ONull -> add "m=null" | Some _ -> add "m=ptr" | None -> abort ())
         | "f" -> if noop then add "f=skip" else
             (match apply (WFree (ni (arg 1))) with Some OIgnored -> add "f=ignored" | Some _ -> add "f=done" | None -> abort ())
         | "fo" -> if noop then add "fo=skip" else
             (match apply (WFree (ni (arg 1))) with Some OIgnored -> add "fo=ignored" | Some _ -> add "fo=done" | None -> abort ())
         | "fv" -> if noop then add "fv=skip" else
             if not (created (arg 2)) then add "fv=nocell" else
             (match apply (WFree (ni (arg 1))) with Some OIgnored -> add "fv=ignored" | Some _ -> add "fv=done" | None -> abort ())
         | "l" | "il" -> if noop then add (c ^ "=skip") else
             let op = if c = "l" then WLookup (ni (arg 1), zi (arg 2)) else WILookup (ni (arg 1), zi (arg 2)) in
             let (asked, _) = sym (if c = "l" then SPub else SInt) (arg 1) (arg 2) in
             (match apply op with Some (OBool b) when b = asked -> add (c ^ (if b then "=asked" else "=cached"))
                                | Some _ -> add (c ^ "=MODELS-DISAGREE") | None -> abort ())
         | "r" ->
           (match apply (WRegister (ni (arg 1), ni (arg 2), zi (arg 3))) with
            | Some (ONat n) -> add (if noop then "r=ok" else "r=" ^ string_of_int (int_of_nat n))
            | _ -> abort ())
         | "rx" ->
           (* recoverable abort: the refused registration leaves the state as it was and the history goes on *)
           (match apply (WRegister (ni (arg 1), ni (arg 2), zi (arg 3))) with
            | Some (ONat n) -> add (if noop then "rx=ok" else "rx=" ^ string_of_int (int_of_nat n))
            | _ -> add "rx=ABORT")
         | "fill" ->
           let i = arg 1 and n = arg 2 in
           let ok = ref true in
           for k = 0 to n - 1 do
             if !ok then (match apply (WRegister (ni (10 + k), ni i, zi (100 + k))) with Some _ -> () | None -> ok := false)
           done;
           if !ok then add "fill=ok" else abort ()
         | "u" ->
           (* is the back end asked?  only for a live owner whose sandbox is inside its created window
              ([spec_like]: an owner of an earlier incarnation is harmless and asks nothing) *)
           let asked = (match cb_owner_at !w (ni (arg 1)) with
               | Some (i, k) -> created (int_of_nat i) && (not spec_like || List.exists (fun x -> x = k) (List.nth !w.sbs (int_of_nat i)).ckeys)
               | None -> false) in
           (match apply (WUnregister (ni (arg 1))) with
            | Some _ -> add (if noop then "u=ok" else "u=ok:be" ^ (if asked then "1" else "0"))
            | None -> abort ())
         | "ur" ->
           (* release owner j while another registration of the same function is attempted at the moment the back end is
              asked: refused, because the function is still registered (C13_register_refusals) *)
           (match cb_owner_at !w (ni (arg 1)) with
            | Some (i, k) when created (int_of_nat i) ->
              let nested = (match register_cb !w i k with Ok _ -> "accepted" | _ -> "refused") in
              (match apply (WUnregister (ni (arg 1))) with
               | Some _ -> add ("ur=ok:nested=" ^ nested)
               | None -> abort ())
            | _ -> add "ur=skip")
         | "mc" ->
           let j = arg 1 and j2 = arg 2 in
           if j = j2 || cb_owner_at !w (ni j) <> None then add "mc=skip"
           else (match apply (WMoveCtor (ni j, ni j2)) with Some _ -> add "mc=ok" | None -> abort ())
         | "ma" -> (match apply (WMoveAssign (ni (arg 1), ni (arg 2))) with Some _ -> add "ma=ok" | None -> abort ())
         | "occ" -> add ("occ=" ^ string_of_int (List.length (reachable !w (ni (arg 1)))))
         | "q" -> (match apply (WIsUnreg (ni (arg 1))) with Some (OBool b) -> add (if b then "q=1" else "q=0") | _ -> abort ())
         | "go" ->
           (match cb_owner_at !w (ni (arg 1)) with
            | None -> add "go=dead"
            | Some (i, k) ->
              (* the guest calls the entry point the owner holds: it runs what the slot table says *)
              if List.mem k (reachable !w i) then add ("go=" ^ string_of_z k) else add "go=dead")
         | "gs" -> if noop then add "gs=skip" else
             let i = arg 1 and sl = arg 2 in
             let s = List.nth !w.sbs i in
             (match (try List.nth s.slots sl with _ -> None) with
              | Some k -> add ("gs=" ^ string_of_z k) | None -> add "gs=dead")
         | "x" -> if noop then add "x=skip" else
             let i = arg 1 in
             (* find_sandbox_from_example over the list of live sandboxes *)
             if List.exists (fun n -> int_of_nat n = i) !w.slist && created i
             then add ("x=" ^ string_of_z (Z.add (Z.mul (zi (i + 1)) (pow2 44)) (zi 64)))
             else abort ()
         | _ -> add ("?" ^ c))
      end) ops;
  ("SEQ " ^ Buffer.contents buf, !recreated_with_state)

let handle (toks : string list) : (string * string * string) option =
  match toks with
  | ("life32" | "lifen" | "lifed") as op :: ops ->
    let noop = (op = "lifen" || op = "lifed") in      (* the two shipped back ends: 64 slots, no failure injection *)
    let nslots = if noop then 64 else 4 in
    let (m, recr) = run_hist noop (wstep code_move_assign_releases) nslots ops in
    let (s, _) = run_hist ~spec_like:true noop wstep_spec nslots ops in
    let cls = op ^ ":len" ^ string_of_int (List.length ops) ^ (if m <> s && recr then ":kf=D12" else "") in
    Some (m, s, cls)
  | _ -> None

(* C18: several threads, each with its own history on its own objects: every thread's outcome is
   that of its solo run (the sequential model of that thread's history alone) *)
let handle_mt (toks : string list) : (string * string * string) option =
  match toks with
  | (("mt32" | "mtn" | "mtne" | "mtd") as op) :: _reps :: "|" :: rest ->
    let rec split acc cur = function
      | [] -> List.rev (List.rev cur :: acc)
      | "|" :: tl -> split (List.rev cur :: acc) [] tl
      | x :: tl -> split acc (x :: cur) tl in
    let threads = split [] [] rest in
    let lop = if op = "mt32" then "life32" else if op = "mtd" then "lifed" else "lifen" in
    let rs = List.map (fun ops -> match handle (lop :: ops) with Some (m, s, _) -> (m, s) | None -> ("?", "?")) threads in
    Some (String.concat " | " (List.map fst rs), String.concat " | " (List.map snd rs),
          op ^ ":threads" ^ string_of_int (List.length threads))
  | _ -> None

(* util.ml — glue between text case files and the extracted model: decimal
   I/O for the extracted Z, token helpers.  No arithmetic of the model is
   re-implemented here: digits are folded with Model.Z.mul / Model.Z.add. *)
open Model

let rec pos_of_int (n : int) : positive =
  if n = 1 then XH
  else if n land 1 = 0 then XO (pos_of_int (n lsr 1))
  else XI (pos_of_int (n lsr 1))

let z_of_int (n : int) : z =
  if n = 0 then Z0 else if n > 0 then Zpos (pos_of_int n) else Zneg (pos_of_int (-n))

let z10 = z_of_int 10

let z_of_string (s : string) : z =
  let neg = String.length s > 0 && s.[0] = '-' in
  let start = if neg then 1 else 0 in
  let acc = ref Z0 in
  for i = start to String.length s - 1 do
    let d = Char.code s.[i] - 48 in
    if d < 0 || d > 9 then failwith ("bad integer: " ^ s);
    acc := Z.add (Z.mul !acc z10) (z_of_int d)
  done;
  if neg then Z.opp !acc else !acc

let rec int_of_pos (p : positive) : int =
  match p with XH -> 1 | XO q -> 2 * int_of_pos q | XI q -> 2 * int_of_pos q + 1

let int_of_z (x : z) : int =
  match x with Z0 -> 0 | Zpos p -> int_of_pos p | Zneg p -> - (int_of_pos p)

let string_of_z (x : z) : string =
  match x with
  | Z0 -> "0"
  | _ ->
    let neg, a = (match x with Zneg p -> true, Zpos p | _ -> false, x) in
    let buf = Buffer.create 24 in
    let cur = ref a in
    while !cur <> Z0 do
      let (q, r) = Z.div_eucl !cur z10 in
      Buffer.add_char buf (Char.chr (48 + int_of_z r));
      cur := q
    done;
    let s = Buffer.contents buf in
    let n = String.length s in
    let rev = String.init n (fun i -> s.[n - 1 - i]) in
    if neg then "-" ^ rev else rev

let rec nat_of_int (n : int) : nat = if n <= 0 then O else S (nat_of_int (n - 1))
let rec int_of_nat (n : nat) : int = match n with O -> 0 | S m -> 1 + int_of_nat m

let kind_names = [
  "bool", IBool; "char", IChar; "schar", ISChar; "uchar", IUChar;
  "short", IShort; "ushort", IUShort; "int", IInt; "uint", IUInt;
  "long", ILong; "ulong", IULong; "llong", ILLong; "ullong", IULLong;
  "char16", IChar16; "char32", IChar32; "wchar", IWChar ]

let kind_of_string s =
  try List.assoc s kind_names with Not_found -> failwith ("bad kind: " ^ s)
let string_of_kind k = fst (List.find (fun (_, k') -> k' = k) kind_names)

let string_of_res (f : 'a -> string) (r : 'a res) : string =
  match r with Ok a -> "OK " ^ f a | Abort -> "ABORT" | Diverge -> "DIVERGE" | Fault -> "FAULT"

let string_of_zlist (l : z list) : string = String.concat "," (List.map string_of_z l)
let zlist_of_string (s : string) : z list =
  if s = "-" || s = "" then [] else List.map z_of_string (String.split_on_char ',' s)

let tokens (line : string) : string list =
  List.filter (fun s -> s <> "") (String.split_on_char ' ' (String.trim line))

(* C06 handlers: convert_type_fundamental kernel, arrays, crossing paths *)
open Model
open Util

let branch_name = function
  | BSameWiden -> "same-widen" | BUU -> "uu-narrow" | BSS -> "ss-narrow"
  | BUSnarrow -> "us-narrow" | BUSwide -> "us-wide" | BSUnarrow -> "su-narrow" | BSUwide -> "su-wide"

let abi_of_string = function
  | "host" -> abi_host | "lp32" -> abi_lp32 | "wide" -> abi_wide
  | s -> failwith ("bad abi " ^ s)

let handle (toks : string list) : (string * string * string) option =
  let toks = (match toks with
      | op :: rest when String.length op > 1 && (op.[0] = 'w' || op.[0] = 'x') -> String.sub op 1 (String.length op - 1) :: rest
      | _ -> toks) in
  match toks with
  | ["conv"; t; f; v] ->
    let t = kind_of_string t and f = kind_of_string f and v = z_of_string v in
    let m = string_of_res string_of_z (conv t f v) in
    let n2 = n2_pair t f in
    let s = if n2 then m else string_of_res string_of_z (conv_spec t v) in
    Some (m, s, branch_name (conv_branch t f) ^ (if n2 then ":n2-outside" else ""))
  | ["conva"; t; f; vs] ->
    let t = kind_of_string t and f = kind_of_string f and vs = zlist_of_string vs in
    let m = string_of_res string_of_zlist (conv_array t f vs) in
    let n2 = n2_pair t f in
    let s = if n2 then m else string_of_res string_of_zlist (conv_spec_list t vs) in
    Some (m, s, (if memcpy_path t f then "memcpy" else "elementwise:" ^ branch_name (conv_branch t f))
                ^ (if n2 then ":n2-outside" else ""))
  | [("store" | "arg" | "cbret") as path; a; k; v] ->
    let a = abi_of_string a and k = kind_of_string k and v = z_of_string v in
    (match to_sbx a k v, sbx_equiv a k with
     | Some r, Some s ->
       Some (string_of_res string_of_z r, string_of_res string_of_z (conv_spec s v),
             path ^ ":" ^ branch_name (conv_branch s k))
     | _ -> Some ("NOCOMPILE", "NOCOMPILE", "nomap"))
  | ["storemix"; a; k; f; v] ->
    (* a plain value of kind f stored through a tainted pointer to k: one checked conversion f -> sandbox(k) *)
    let a = abi_of_string a and k = kind_of_string k and f = kind_of_string f and v = z_of_string v in
    (match sbx_equiv a k with
     | Some s when not (n2_pair s f) ->
       Some (string_of_res string_of_z (conv s f v), string_of_res string_of_z (conv_spec s v),
             "storemix:" ^ branch_name (conv_branch s f))
     | Some _ -> Some ("SKIP", "SKIP", "storemix:n2-outside")
     | None -> Some ("NOCOMPILE", "NOCOMPILE", "nomap"))
  | [("load" | "ret" | "cbarg" | "loadcv" | "loadcvp" | "loadidx" | "loadcvr") as path; a; k; v] ->
    let a = abi_of_string a and k = kind_of_string k and v = z_of_string v in
    (match to_app a k v, sbx_equiv a k with
     | Some r, Some s ->
       Some (string_of_res string_of_z r, string_of_res string_of_z (conv_spec k v),
             path ^ ":" ^ branch_name (conv_branch k s))
     | _ -> Some ("NOCOMPILE", "NOCOMPILE", "nomap"))
  | ["loadw"; a; k; v; evil; _nth] ->
    (* a load from a cell the sandbox rewrites (to evil) before the nth read notification: the conversion reads the cell
       once: the outcome for v, or (code that consistently uses a later read) the outcome for evil; never a mixture *)
    let a = abi_of_string a and k = kind_of_string k and v = z_of_string v and evil = z_of_string evil in
    (* (the model of the read: [conv_cell], the conversion of what the FIRST read returned, whatever later reads return) *)
    (match (match sbx_equiv a k with Some s -> Some (conv_cell k s (fun i -> if i = O then v else evil)) | None -> None), to_app a k evil, sbx_equiv a k with
     | Some r, Some r2, Some s ->
       Some (string_of_res string_of_z r ^ " ||| " ^ string_of_res string_of_z r2,
             string_of_res string_of_z (conv_spec k v) ^ " ||| " ^ string_of_res string_of_z (conv_spec k evil),
             "loadw:" ^ branch_name (conv_branch k s))
     | _ -> Some ("NOCOMPILE", "NOCOMPILE", "nomap"))
  | ["equiv"; a; k] ->
    let a = abi_of_string a and k = kind_of_string k in
    (match sbx_equiv a k with
     | Some s ->
       let r = Printf.sprintf "EQUIV size=%s signed=%s tvsize=%s" (string_of_z (size s))
           (if signed s then "1" else "0") (string_of_z (size s)) in
       Some (r, r, "equiv")
     | None -> Some ("NOCOMPILE", "NOCOMPILE", "nomap"))
  | _ -> None

(* exhaustive sweep of a source range with the extracted [conv]; the summary
   format is the one harness/drivers/c06_kernel.cpp prints *)
let sweep t f lo hi (fn : z -> z res) =
  let runs = Buffer.create 64 and bad = Buffer.create 64 in
  let in_run = ref false and run_start = ref 0 and nbad = ref 0 and nab = ref 0 in
  for x = lo to hi do
    let v = z_of_int x in
    let r = fn v in
    let same = (match r with Ok v' -> v' = v | _ -> false) in
    (match r with
     | Ok v' when not same ->
       if !nbad < 5 then Buffer.add_string bad (" BAD(" ^ string_of_z v ^ "->" ^ string_of_z v' ^ ")");
       incr nbad
     | Ok _ -> ()
     | _ -> incr nab);
    if same && not !in_run then (run_start := x; in_run := true);
    if (not same) && !in_run then begin
      Buffer.add_string runs (Printf.sprintf " [%d,%d]" !run_start (x - 1)); in_run := false end
  done;
  if !in_run then Buffer.add_string runs (Printf.sprintf " [%d,%d]" !run_start hi);
  Printf.sprintf "SWEEP ok=%s aborts=%d changed=%d%s"
    (if Buffer.length runs = 0 then " none" else Buffer.contents runs) !nab !nbad (Buffer.contents bad)

let handle_sweep (toks : string list) =
  match toks with
  | ["convsweep"; t; f; lo; hi] ->
    let t = kind_of_string t and f = kind_of_string f in
    let lo = int_of_string lo and hi = int_of_string hi in
    let m = sweep t f lo hi (conv t f) in
    let s = if n2_pair t f then m else sweep t f lo hi (conv_spec t) in
    Some (m, s, "sweep:" ^ branch_name (conv_branch t f))
  | _ -> None

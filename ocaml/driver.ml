(* driver.ml — reads one case per line on stdin, prints
   "<model outcome>\t<spec outcome>\t<class>" per line.  Each handler is a thin
   parser/printer around functions extracted from the Coq model. *)
let handlers : (string list -> (string * string * string) option) list = [
  P_c06.handle; P_c06.handle_sweep; P_ptr.handle; P_ptr.handle_bulk; P_ptr.handle_chain; P_c15.handle; P_life.handle; P_life.handle_mt; P_calls.handle; P_calls.handle_cbk; P_calls.handle_sx; P_inv.handle; P_mem.handle; P_mem.handle_arr; P_struct.handle; P_ops.handle; P_fops.handle; P_verify.handle; P_casts.handle;
]

let () =
  try
    while true do
      let line = input_line stdin in
      let toks = Util.tokens line in
      let rec go = function
        | [] -> ("NOHANDLER", "NOHANDLER", "-")
        | h :: tl -> (match h toks with Some r -> r | None -> go tl) in
      let (m, s, c) = (try go handlers with Failure msg -> ("ERROR " ^ msg, "ERROR", "-")) in
      print_string m; print_char '\t'; print_string s; print_char '\t'; print_string c; print_char '\n'
    done
  with End_of_file -> ()

(* C11 handler: one invocation of a generated signature *)
open Model
open Util

let pow2 n = Z.pow (z_of_int 2) (z_of_int n)
let base = pow2 44
let region = { rbase = base; rsize = pow2 32 }

let int_kinds = ["bool"; "char"; "schar"; "uchar"; "short"; "ushort"; "int"; "uint"; "long"; "ulong"; "llong"; "ullong"; "char16"; "char32"]
let s1_fields = [KInt ILong; KInt IUShort; KPtr; KInt ILLong]

let pkind_of (k : string) : pkind =
  if List.mem k int_kinds then KInt (kind_of_string k)
  else match k with
    | "enum" | "float" | "double" -> KBits
    | "ptr" | "ptrc" | "ptrv" | "ptrl" -> KPtr
    | "fn" -> KFn
    | "s1" -> KStruct s1_fields
    | "s2" -> KStruct [KPtr; KInt ILLong; KInt ILong]
    | _ -> failwith ("bad param kind " ^ k)

(* application-side value: pointers are given as offsets into the region (0 = null) *)
let rec aval_of (guest : bool) (p : pkind) (s : string) : aval =
  match p with
  | KInt _ | KBits -> VInt (z_of_string s)
  | KFn -> VInt (Z.add (z_of_int 16384) (z_of_string s))
  | KPtr -> let off = z_of_string s in
    if guest then VPtr off else VPtr (if off = Z0 then Z0 else Z.add base off)
  | KStruct fs -> VStruct (List.map2 (aval_of guest) fs (String.split_on_char ';' s))

let rec show (v : aval) : string =
  match v with
  | VInt z | VPtr z -> string_of_z z
  | VStruct vs -> "{" ^ String.concat ";" (List.map show vs) ^ "}"

let out_string (o : inv_out option) : string =
  match o with
  | None -> "ILLTYPED"
  | Some IAbortBefore -> "ABORT n=0"
  | Some (ICalled (gs, r)) ->
    let g = String.concat "," (List.map show gs) in
    (match r with
     | Ok None -> "n=1 G=" ^ g ^ " R=v"
     | Ok (Some v) -> "n=1 G=" ^ g ^ " R=" ^ show v
     | _ -> "ABORT n=1 G=" ^ g)

let handle (toks : string list) : (string * string * string) option =
  match toks with
  | op :: _prog :: rspec :: args when (String.length op > 4 && (String.sub op 0 5 = "inv32" || String.sub op 0 4 = "invw")) ->
    let wide = String.sub op 0 4 = "invw" in
    let a = if wide then abi_wide else abi_lp32 in
    let (retk, gret) = (match String.split_on_char ':' rspec with
        | ["R"; "void"; _] -> (None, VInt Z0)
        | ["R"; k; v] -> let p = pkind_of k in (Some p, aval_of true p v)
        | _ -> failwith "bad return spec") in
    let parsed = List.map (fun s -> match String.split_on_char ':' s with
        | [k; "a"; v] when k = "fn" -> (KFn, "a", VInt (Z.add (z_of_int 20000) (z_of_string v)))   (* the tainted address of sandbox function fa_t<v> *)
        | [k; f; v] -> let p = pkind_of k in (p, f, aval_of false p v)
        | _ -> failwith "bad arg spec") args in
    let sg = List.map (fun (p, _, _) -> p) parsed in
    let vs = List.map (fun (_, _, v) -> v) parsed in
    let m = out_string (invoke a region sg vs retk gret) in
    let s = out_string (invoke_spec a region sg vs retk gret) in
    let has_conv = List.exists (fun (p, _, _) -> match p with
        | KInt k -> (match sbx_equiv a k with Some sk -> sk <> k | None -> false)
        | KStruct _ -> true | _ -> false) parsed in
    let has_ptr = List.exists (fun (p, _, v) -> match p, v with KPtr, VPtr z -> z <> Z0 | KStruct _, _ -> true | _ -> false) parsed in
    let forms = String.concat "" (List.sort_uniq compare (List.map (fun (_, f, _) -> f) parsed)) in
    let cls = (if wide then "invw" else "inv32") ^ ":np" ^ string_of_int (List.length args) ^ ":f=" ^ forms ^
              (if has_conv then ":conv" else "") ^ (if has_ptr then ":ptr" else "") ^
              (if String.length m >= 5 && String.sub m 0 5 = "ABORT" then ":" ^ String.sub m 0 9 else ":ok") in
    Some (m, s, cls)
  | _ -> None

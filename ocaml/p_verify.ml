(* C09 handler: copy_and_verify family under an adversary schedule *)
open Model
open Util

let ni = nat_of_int
let hex_of (l : z list) : string = String.concat "" (List.map (fun b -> Printf.sprintf "%02x" (int_of_z b)) l)
let bytes_of_hex (h : string) : z list =
  List.init (String.length h / 2) (fun i -> z_of_int (int_of_string ("0x" ^ String.sub h (2 * i) 2)))

let handle (toks : string list) : (string * string * string) option =
  match toks with
  | "cv09" :: variant :: off :: a :: b :: h :: rest ->
    let m0 = bytes_of_hex h in
    let w = List.length m0 in
    let off = int_of_string off and a = int_of_string a and b = int_of_string b in
    let muts = (match rest with
        | [s] when s <> "-" -> List.map (fun e -> match String.split_on_char ':' e with
            | [i; o; v] -> (int_of_string i, (ni (int_of_string o), z_of_int (int_of_string v)))
            | _ -> failwith "bad schedule") (String.split_on_char ',' s)
        | _ -> []) in
    let sc (i : nat) = let i = int_of_nat i in List.filter_map (fun (j, m) -> if j = i then Some m else None) muts in
    let fin tail r = (match r with
        | Ok ((v, _), t) -> "V " ^ hex_of v ^ " where=app alias=no" ^ tail v ^ " ticks=" ^ string_of_int (int_of_nat t)
        | Abort -> "ABORT" | Fault -> "FAULT" | Diverge -> "DIVERGE") in
    let alloc v = " alloc=" ^ string_of_int (List.length v) in
    let s = (match variant with
        | "val" -> fin (fun _ -> "") (vrun sc (cv_value (ni a) (ni off)) m0 O)
        | "ptr" -> fin (fun _ -> "") (vrun sc (cv_ptr (ni a) (ni off)) m0 O)
        | "range" ->
          (match vrun sc (cv_range (ni w) (ni a) (ni off) (ni b)) m0 O with
           | Ok ((es, m'), t) -> fin alloc (Ok ((List.concat es, m'), t))
           | Abort -> "ABORT" | Fault -> "FAULT" | Diverge -> "DIVERGE")
        | "stru" -> fin alloc (vrun sc (cv_string_unique (ni w) (ni off)) m0 O)
        | "strs" -> fin alloc (vrun sc (cv_string_std (ni w) (ni off)) m0 O)
        | "cmda" -> fin alloc (vrun sc (cmda (ni w) (ni off) (ni a)) m0 O)
        | "arrv" -> fin (fun _ -> "") (vrun sc (cv_value (ni (4 * a)) (ni off)) m0 O)      (* cv.arr.read ; one read of the 4-element image ; cv.arr.verifier *)
        | "structv" -> fin (fun _ -> "") (vrun sc (cv_value (ni 8) (ni off)) m0 O)      (* cv.structval.read ; one read of the image ; cv.structval.verifier *)
        | "ptrc" ->
          (* representation r designates window offset r - (2^32 - w) *)
          let total = Z.pow (z_of_int 2) (z_of_int 32) in
          let woff r = (let o = Z.sub r (Z.sub total (z_of_int w)) in
                        if Z.leb Z0 o && Z.ltb o (z_of_int w) then Some (ni (int_of_z o)) else None) in
          (match vrun sc (cv_ptr_cell woff (ni a) (ni off)) m0 O with
           | Ok ((Some v, _), t) -> "V " ^ hex_of v ^ " where=app alias=no ticks=" ^ string_of_int (int_of_nat t)
           | Ok ((None, _), t) -> "NULLPTR ticks=" ^ string_of_int (int_of_nat t)
           | Abort -> "ABORT" | Fault -> "FAULT" | Diverge -> "DIVERGE")
        | "strsc" | "struc" | "rangec" ->
          (* the source pointer is a CELL of the window (4 bytes at off): one fetch, then the routine for a pointer held in
             application memory on that copy *)
          let total = Z.pow (z_of_int 2) (z_of_int 32) in
          let woff r = (let o = Z.sub r (Z.sub total (z_of_int w)) in
                        if Z.leb Z0 o && Z.ltb o (z_of_int w) then Some (ni (int_of_z o)) else None) in
          let tk t = " ticks=" ^ string_of_int (int_of_nat t) in
          (match variant with
           | "strsc" -> fin alloc (vrun sc (cv_string_std_cell woff (ni w) (ni off)) m0 O)
           | "struc" ->
             (match vrun sc (cv_string_unique_cell woff (ni w) (ni off)) m0 O with
              | Ok ((Some v, _), t) -> "V " ^ hex_of v ^ " where=app alias=no" ^ alloc v ^ tk t
              | Ok ((None, _), t) -> "NULLPTR" ^ tk t
              | Abort -> "ABORT" | Fault -> "FAULT" | Diverge -> "DIVERGE")
           | _ ->
             (match vrun sc (cv_range_cell woff (ni w) (ni a) (ni off) (ni b)) m0 O with
              | Ok ((Some es, _), t) -> let v = List.concat es in "V " ^ hex_of v ^ " where=app alias=no" ^ alloc v ^ tk t
              | Ok ((None, _), t) -> "NULLPTR" ^ tk t
              | Abort -> "ABORT" | Fault -> "FAULT" | Diverge -> "DIVERGE"))
        | "ptrsw" ->
          (* copy_and_verify on a pointer-to-struct cell; the schedule is indexed by interleave points AND read notifications
             of the cell, in program order *)
          let total = Z.pow (z_of_int 2) (z_of_int 32) in
          let woff r = (let o = Z.sub r (Z.sub total (z_of_int w)) in
                        if Z.leb Z0 o && Z.ltb o (z_of_int w) then Some (ni (int_of_z o)) else None) in
          fin (fun _ -> "") (vrun sc (cv_struct_ptr_cell woff (ni 8) (ni off)) m0 O)
        | "uspc" ->
          let total = Z.pow (z_of_int 2) (z_of_int 32) in
          (match vrun sc (usp_cell total (z_of_int a) (ni off)) m0 O with
           | Ok ((v, _), t) -> "A " ^ string_of_z v ^ " ticks=" ^ string_of_int (int_of_nat t)
           | Abort -> "ABORT" | Fault -> "FAULT" | Diverge -> "DIVERGE")
        | "cvba" | "cva" ->
          (* the window is the last w bytes of a 2^32-byte sandbox: a representation r designates window offset r - (2^32 - w) *)
          let total = Z.pow (z_of_int 2) (z_of_int 32) in
          let r = (if variant = "cvba" then vrun sc (cv_buffer_address total (z_of_int a) (ni off)) m0 O
                   else vrun sc (cv_address (ni off)) m0 O) in
          (match r with
           | Ok ((v, _), t) -> "A " ^ string_of_z v ^ " ticks=" ^ string_of_int (int_of_nat t)
           | Abort -> "ABORT" | Fault -> "FAULT" | Diverge -> "DIVERGE")
        | _ -> failwith "bad variant") in
    let cls = "cv09:" ^ variant ^ ":muts" ^ string_of_int (List.length muts) ^
              (if String.length s > 0 && s.[0] <> 'V' && s.[0] <> 'A' && s.[0] <> 'N' then ":" ^ s else "") in
    Some (s, s, cls)
  | _ -> None

(* handlers for the address-level models: C05 arith, C17 aidx, C10 bulk *)
open Model
open Util

let zs = z_of_string
let pow2 n = Z.pow (z_of_int 2) (z_of_int n)
let shl a n = Z.mul (z_of_int a) (pow2 n)

(* CODE FLAGS — what /repo's headers do today (flipped by the fix: commits) *)
let postdec_ok = code_postdec_fixed
let idxchk = code_index_nullcheck
let guarded = code_range_guarded

let world32 = [ { rbase = shl 1 44; rsize = pow2 32 }; { rbase = shl 2 44; rsize = pow2 32 } ]
let world16 = [ { rbase = shl 6 44; rsize = pow2 16 }; { rbase = shl 7 44; rsize = pow2 16 } ]

(* op name suffix selects the configuration *)
let split_op (op : string) : string * string =
  let n = String.length op in
  if n > 2 && (String.sub op (n - 2) 2 = "16" || String.sub op (n - 2) 2 = "32" || String.sub op (n - 2) 2 = "64" || String.sub op (n - 2) 2 = "3f")
  then (String.sub op 0 (n - 2), String.sub op (n - 2) 2) else (op, "32")
(* "3f": verif32 whose same-sandbox test goes through RLBox's finder, with exactly ONE sandbox alive *)
let world cfg = if cfg = "16" then world16 else if cfg = "3f" then [List.hd world32] else world32
let lab cfg = if cfg = "16" then labi_lp32_16 else if cfg = "64" then labi_lp32_64 else labi_lp32
let total cfg = if cfg = "16" then pow2 16 else pow2 32

let ps_ty = TStruct [TInt IInt; TInt ILong; TInt IChar; TInt ILLong; TPtr]
let ptee_of_string = function
  | "char" -> TInt IChar | "short" -> TInt IShort | "int" -> TInt IInt | "long" -> TInt ILong
  | "ulong" -> TInt IULong | "llong" | "cllong" -> TInt ILLong | "clong" -> TInt ILong | "ullong" -> TInt IULLong | "double" -> TDouble | "float" -> TFloat
  | "ptr" -> TPtr | "arr4" -> TArr (z_of_int 4, TInt IInt) | "larr3" -> TArr (z_of_int 3, TInt ILong)
  | "llarr3" -> TArr (z_of_int 3, TInt ILLong) | "ullarr2x2" -> TArr (z_of_int 2, TArr (z_of_int 2, TInt IULLong)) | "sarr5" -> TArr (z_of_int 5, TInt IShort)
  | "ps" -> ps_ty | s -> failwith ("bad pointee " ^ s)

let form_of_string = function
  | "add" -> FAdd | "sub" -> FSub | "addeq" -> FAddEq | "subeq" -> FSubEq | "preinc" -> FPreInc
  | "postinc" -> FPostInc | "predec" -> FPreDec | "postdec" -> FPostDec | "index" -> FIndex
  | s -> failwith ("bad form " ^ s)

let show_pair = function (r, o) -> "ret=" ^ string_of_z r ^ " obj=" ^ string_of_z o

let handle (toks : string list) : (string * string * string) option =
  match toks with
  | [] -> None
  | op0 :: args ->
    let (op, cfg) = split_op op0 in
    let l = world cfg in
    (match op, args with
     | "stride", [pt] ->
       let s = string_of_z (sizeof (lab cfg) (ptee_of_string pt)) in
       let r = "STRIDE " ^ s ^ " " ^ s in Some (r, r, "stride")
     | "arith", (pt :: form :: p :: nk :: n :: rest) ->
       let wrapk = (match rest with [w] -> w | _ -> "plain") in
       let stride = sizeof (lab cfg) (ptee_of_string pt) in
       (* "radd" (number + pointer) is the pointer's own operator+ with the operands exchanged (fix: commit for D16) *)
       let f = form_of_string (if form = "radd" then "add" else form) and p = zs p and n = zs n and nk = kind_of_string nk in
       (* pcell0 / pcellm: the pointer operand is fetched once from its cell; what the adversary writes there afterwards is
          irrelevant to this operation (the operand object itself is not reported: "obj" is the value the cell held) *)
       (* a tainted_volatile operand is first stored to / loaded from a guest cell of its kind *)
       (* wcell: the same, and the sandbox rewrites the cell before any second read of it: the operation uses the value it
          fetched once *)
       let pre = (if wrapk = "tvol" || wrapk = "wcell" then
                    (match to_sbx (lab cfg).l_int nk n with
                     | Some (Ok _) -> None | _ -> Some "ABORT") else None) in
       (match pre with
        | Some a -> Some (a, a, "tvol-store-abort")
        | None ->
          let m = arith_form postdec_ok idxchk l f p n stride in
          let sp = arith_form_spec l f p n stride in
          let wraps = arith_wraps (form_sub f) p (form_n f n) stride in
          let ms = string_of_res show_pair m and ss = string_of_res show_pair sp in
          (* wcell: one fetch decides the check and the address: the outcome for n, or (code that consistently uses a later
             read) the outcome for the rewritten value n + 3 *)
          let (ms, ss) = if wrapk = "wcell" then
              let n3 = Z.add n (z_of_int 3) in
              (ms ^ " ||| " ^ string_of_res show_pair (arith_form postdec_ok idxchk l f p n3 stride),
               ss ^ " ||| " ^ string_of_res show_pair (arith_form_spec l f p n3 stride))
            else (ms, ss) in
          let cls = form ^ ":" ^ wrapk ^
                    (if p = Z0 then ":null" else "") ^
                    (match m with Ok _ -> ":ok" | _ -> ":abort") ^
                    (if wraps && ms <> ss then ":kf=D3" else "") ^
                    (if f = FPostDec && ms <> ss && not wraps then ":kf=D1" else "") ^
                    (if f = FIndex && p = Z0 && ms <> ss then ":kf=D4" else "") in
          Some (ms, ss, cls))
     | "aidx", (where :: elk :: len :: ik :: n :: rest) ->
       let a = if where = "app" then labi_host else lab cfg in
       let elsz = sizeof a (ptee_of_string elk) in
       let k = kind_of_string ik and n = zs n and len = zs len in
       let show off = "off=" ^ string_of_z off ^ " elsz=" ^ string_of_z elsz in
       let wrapk = (match rest with [w] -> w | _ -> "plain") in
       let watched = String.length wrapk >= 5 && String.sub wrapk 0 5 = "watch" in
       (* cell / watch:<evil>: the index is an integer in sandbox memory (stored there first: aborts when it does not fit the
          guest type); with watch the sandbox rewrites it before any second read: one fetch decides check and address *)
       let pre = (if wrapk = "cell" || watched then
                    (match to_sbx (lab cfg).l_int k n with
                     | Some (Ok _) -> None | _ -> Some "ABORT") else None) in
       (match pre with
        | Some a -> Some (a, a, "cell-store-abort")
        | None ->
          let m = string_of_res show (arr_index k n len Z0 elsz) in
          let s = string_of_res show (arr_index_spec n len Z0 elsz) in
          let (m, s) = if watched then
              let evil = zs (String.sub wrapk 6 (String.length wrapk - 6)) in
              (* the model of an index held in sandbox memory: the reads of the cell return n, then evil, evil, ... *)
              let m = string_of_res show (arr_index_cell k (fun i -> if i = O then n else evil) len Z0 elsz) in
              (m ^ " ||| " ^ string_of_res show (arr_index k evil len Z0 elsz),
               s ^ " ||| " ^ string_of_res show (arr_index_spec evil len Z0 elsz))
            else (m, s) in
          Some (m, s, where ^ ":" ^ (if watched then "watch:" else "") ^ (if Z.leb Z0 n && Z.ltb n len then "in" else "out")))
     | "aidx2", [where; shape; ik; i; j] ->
       let a = if where = "app" then labi_host else lab cfg in
       let (elt, d1, d2) = (match shape with
           | "l23" -> (TInt ILong, 2, 3) | "i32" -> (TInt IInt, 3, 2) | "p24" -> (TPtr, 2, 4)
           | _ -> failwith "shape") in
       let elsz = sizeof a elt in
       let k = kind_of_string ik and i = zs i and j = zs j in
       let rowsz = Z.mul (z_of_int d2) elsz in
       let run idx = bind (idx i (z_of_int d1) Z0 rowsz) (fun r -> idx j (z_of_int d2) r elsz) in
       let show off = "off=" ^ string_of_z off in
       let m = string_of_res show (run (arr_index k)) in
       let s = string_of_res show (run arr_index_spec) in
       Some (m, s, where ^ ":2d")
     | _ -> None)

let show_changed (fp : acc list) : string =
  match List.filter (function WR (_, n) -> n <> Z0 | _ -> false) fp with
  | WR (a, n) :: _ -> "changed=[" ^ string_of_z a ^ "," ^ string_of_z (Z.sub (Z.add a n) (z_of_int 1)) ^ "]#" ^ string_of_z n
  | _ -> "changed=none"

let app_base = shl 5 44

let handle_bulk (toks : string list) : (string * string * string) option =
  match toks with
  | [] -> None
  | op0 :: args ->
    let (op, cfg) = split_op op0 in
    let l = world cfg and tot = total cfg in
    let good_fp fp = List.for_all (fun a -> match a with RD (_, n) | WR (_, n) -> n = Z0 || acc_good l a) fp in
    (* spec for the three mem* routines: carried out exactly iff all ranges are good *)
    let spec_of want fp_if_ok show =
      if want then "OK" ^ show fp_if_ok else "ABORT" in
    (match op, args with
     | "memset", (dest :: _nk :: n :: _) ->
       let dest = zs dest and n = zs n in
       let m = rl_memset guarded l tot dest n in
       let n' = w64 n in
       let want = Z.leb n' tot && range_good l dest n' in
       let show fp = " " ^ show_changed fp in
       let ms = (match m with Ok fp -> "OK" ^ show fp | Abort -> "ABORT" | _ -> "?") in
       let ss = if n' = Z0 then ms else spec_of want [WR (dest, n')] show in
       Some (ms, ss, "memset:" ^ (if want then "ok" else "refuse") ^ (if n' = Z0 then ":empty" else ""))
     | ("memcpy" | "memcmp"), (dest :: src :: _nk :: n :: _) ->
       let dest = zs dest and src = zs src and n = zs n in
       let m = (if op = "memcpy" then rl_memcpy else rl_memcmp) guarded l tot dest src n in
       let n' = w64 n in
       let want = Z.leb n' tot && range_good l dest n' && range_good l src n' in
       let src_app = (region_of l src = None) in
       let show fp = if op = "memcpy" && src_app then " " ^ show_changed fp else "" in
       let ms = (match m with Ok fp -> "OK" ^ show fp | Abort -> "ABORT" | _ -> "?") in
       let ss = if n' = Z0 then ms else spec_of want [WR (dest, n')] show in
       Some (ms, ss, op ^ ":" ^ (if want then "ok" else "refuse") ^ (if src_app then ":app-src" else ":sbx-src"))
     | "vrange", [start; elk; count] ->
       let start = zs start and count = zs count in
       let elsz = sizeof labi_host (ptee_of_string elk) in
       let m = verify_range guarded l start count elsz in
       let show = function Some a -> string_of_z a | None -> "0" in
       let ms = string_of_res show m in
       (* spec: count 0 aborts; null passes through as null; else exactly the good counted ranges *)
       let ss = if count = Z0 then "ABORT" else if start = Z0 then "OK 0"
         else if counted_good l start count elsz then "OK " ^ string_of_z start else "ABORT" in
       let prod = Z.mul count elsz in
       let cls = "vrange" ^ (if ms <> ss && (Z.leb m64 prod || Z.ltb m64 (Z.add start prod)) then ":kf=D6" else "") in
       Some (ms, ss, cls)
     | "deny", [src; elk; num] ->
       (* copy_memory_or_deny_access, copy path: the whole source extent num*sizeof(T) must be a good range
          (inside one sandbox), else abort before anything is copied; a null source with a non-empty extent
          is outside the API contract (not generated) *)
       let src = zs src and num = zs num in
       let elsz = sizeof labi_host (ptee_of_string elk) in
       let ms = (match copy_or_deny guarded l src num elsz with
           | Ok _ -> "OK copy copied" | Abort -> "REFUSED" | Fault -> "FAULT" | Diverge -> "DIVERGE") in
       (* REFUSED: abort, or a null return with nothing copied (the application-side malloc of an absurd size fails first) *)
       let ss = if num = Z0 then "REFUSED" else if counted_good l src num elsz then "OK copy copied" else "REFUSED" in
       Some (ms, ss, "deny:" ^ elk ^ (if ss = "REFUSED" then ":refuse" else ":ok"))
     | "grant", [src; num; ret] ->
       (* copy_memory_or_grant_access (copy path), char buffers: malloc_in_sandbox (back end returns rep [ret]),
          then rlbox::memcpy into it *)
       let src = zs src and num = zs num and ret = zs ret in
       let sa = List.hd l in
       let m = copy_or_grant guarded l sa tot src num (z_of_int 1) ret in
       let ms = (match m with
           | Ok [] -> "OK 0"
           | Ok (WR (p, _) :: _) -> "OK " ^ string_of_z p ^ " copied"
           | Ok _ -> "?" | Abort -> "ABORT" | Fault -> "FAULT" | Diverge -> "DIVERGE") in
       (* what C10 demands: carried out only if the destination [p, p+num) is inside sandbox A and the source range is good *)
       let p = unsandbox sa ret in
       let ss = if num = Z0 then "ABORT"
         else if Z.ltb (z_of_string "4294967295") num then "ABORT"
         else if p = Z0 then "OK 0"
         else if range_inside sa p num && range_good l src num && Z.leb num tot then "OK " ^ string_of_z p ^ " copied" else "ABORT" in
       Some (ms, ss, "grant:" ^ (if ss = "ABORT" then "refuse" else "ok"))
     | "ggrant", [src; num; succ; ans; ret] ->
       (* a back end WITH grant/deny: range check of the source, then the back end is asked, then (declined) the copy path *)
       let src = zs src and num = zs num and ret = zs ret in
       let sa = List.hd l in
       let asked = " asked=1:" ^ string_of_z src ^ ":" ^ string_of_z num in
       let checked = (check_range guarded l src (w64 num) = Ok ()) in
       let ms = (match grant_or_copy guarded l sa tot src num (z_of_int 1) (succ = "1") ret with
           | Ok (true, _) -> "OK " ^ ans ^ asked
           | Ok (false, []) -> "OK 0" ^ asked
           | Ok (false, WR (p, _) :: _) -> "OK " ^ string_of_z p ^ " copied" ^ asked
           | Ok _ -> "?" | Abort -> "ABORT" ^ (if checked then asked else " asked=0") | Fault -> "FAULT" | Diverge -> "DIVERGE") in
       (* C10: the back end is handed only a buffer that is wholly inside one sandbox or wholly outside all *)
       let ss = if num = Z0 || range_good l src num then ms else "ABORT asked=0" in
       Some (ms, ss, "ggrant:" ^ (if succ = "1" then "granted" else "declined") ^ (if ss = "ABORT asked=0" then ":refuse" else ":ok"))
     | "gdeny", [src; num; succ; ans] ->
       let src = zs src and num = zs num in
       let asked = " asked=1:" ^ string_of_z src ^ ":" ^ string_of_z num in
       let checked = (check_range guarded l src (w64 num) = Ok ()) in
       let ms = (match deny_or_copy guarded l src num (z_of_int 1) (succ = "1") with
           | Ok (true, _) -> "OK " ^ ans ^ asked
           | Ok (false, _) -> "OK copy copied" ^ asked
           | Abort -> "ABORT" ^ (if checked then asked else " asked=0") | Fault -> "FAULT" | Diverge -> "DIVERGE") in
       let ss = if num = Z0 || range_good l src num then ms else "ABORT asked=0" in
       Some (ms, ss, "gdeny:" ^ (if succ = "1" then "denied" else "declined") ^ (if ss = "ABORT asked=0" then ":refuse" else ":ok"))
     | "usp", [p; elk; count] ->
       let p = zs p and count = zs count in
       let elsz = sizeof labi_host (ptee_of_string elk) in
       let m = string_of_res string_of_z (usp_because guarded l p count elsz) in
       let ss = if p = Z0 then "OK 0" else if count = Z0 then m
         else if counted_good l p count elsz then "OK " ^ string_of_z p else "ABORT" in
       Some (m, ss, "usp" ^ (if m <> ss then ":kf=D7" else ""))
     | _ -> None)

(* ---------------- C03 chains, C04 translation paths, C02 raw pointer entry points ---------------- *)
let ps_fields = [TInt IInt; TInt ILong; TInt IChar; TInt ILLong; TPtr]
let field_index = function "a" -> 0 | "b" -> 1 | "c" -> 2 | "d" -> 3 | _ -> 4
let app_elsz = function "char" -> 1 | "int" -> 4 | _ -> 40

let parse_pop cfg (tok : string) : pop =
  match String.split_on_char ':' tok with
  | ["a"; sub; n; pt] -> OpArith (sub = "1", zs n, sizeof (lab cfg) (ptee_of_string pt))
  | ["i"; n; pt] -> OpIndex (zs n, sizeof (lab cfg) (ptee_of_string pt))
  | ["pp"; pt] -> OpArith (false, z_of_int 1, sizeof (lab cfg) (ptee_of_string pt))     (* ++q *)
  | ["mm"; pt] -> OpArith (true, z_of_int 1, sizeof (lab cfg) (ptee_of_string pt))      (* --q *)
  | ["f"; x] -> OpField (List.nth (offsets (lab cfg) ps_fields) (field_index x))
  | ["e"; i] -> OpElem (zs i, z_of_int 4, z_of_int 4)
  | ["c"] -> OpCast
  | ["l"; rep] | ["lc"; rep; _] -> OpLoadPtr (zs rep)     (* lc: the cell is read by a sandbox cast applied directly to it; a cast keeps the value *)
  | ["g"; rep] | ["cb"; rep] -> OpFromGuest (zs rep)
  | ["m"; count; elk; ret] -> OpMalloc (zs count, z_of_int (app_elsz elk), zs ret)
  | ["r"; a] | ["u"; a] -> OpAssignRaw (zs a)
  | ["n"] -> OpNull
  | _ -> failwith ("bad chain op " ^ tok)

let inv_ok s q = (q = Z0) || (Z.leb s.rbase q && Z.ltb q (Z.add s.rbase s.rsize))

let handle_chain (toks : string list) : (string * string * string) option =
  match toks with
  | [] -> None
  | op0 :: args ->
    let (op, cfg) = split_op op0 in
    let l = world cfg in
    let sa = List.hd l in
    (match op, args with
     | "chain", (start :: ops) ->
       let start = zs start in
       let pops = List.map (parse_pop cfg) ops in
       let m = run_chain idxchk l sa start pops in
       let safe = fields_safe idxchk l sa start pops in
       let ms = string_of_res string_of_z m in
       let ss = (match m with Ok q when not (inv_ok sa q) -> "ABORT" | _ -> ms) in
       let cls = "chain:len" ^ string_of_int (List.length pops) ^
                 (match m with Ok _ -> ":ok" | Abort -> ":abort" | Fault -> ":fault" | _ -> ":?") ^
                 (if not safe then ":unsafe-field" else "") ^
                 (if ms <> ss && not safe then ":kf=D5" else "") in
       Some (ms, ss, cls)
     | "xlate", (path :: dir :: v :: rest) ->
       let v = zs v in
       let ex = (match rest with [e] -> zs e | _ -> Z0) in
       let toapp = (dir = "toapp") in
       let s = (if ex = Z0 then sa else match region_of l ex with Some r -> r | None -> sa) in
       let psz = (lab cfg).l_ptr in
       let r = (match path with
           | "ctx" -> "OK " ^ string_of_z (if toapp then unsandbox s v else sandbox_ptr s v)
           | "noctx" -> string_of_res string_of_z (if toapp then unsandbox_noctx l v ex else sandbox_ptr_noctx l v ex)
           | "cell" -> string_of_res string_of_z (if toapp then load_ptr_cell l ex v else store_ptr_cell l ex v)
           | "arr" ->
             let cell = Z.add ex (Z.mul (z_of_int 2) psz) in
             string_of_res (fun x -> string_of_z x ^ " e0=0") (if toapp then load_ptr_cell l cell v else store_ptr_cell l cell v)
           | "field" ->
             let cell = Z.add ex (z_of_int 24) in
             if toapp then
               (match load_ptr_cell l ex v, load_ptr_cell l cell v with
                | Ok a, Ok b -> "OK " ^ string_of_z a ^ " field=" ^ string_of_z b
                | _ -> "ABORT")
             else string_of_res string_of_z (store_ptr_cell l ex v)
           | "ret" | "cbarg" -> "OK " ^ string_of_z (unsandbox sa v)
           | "arg" | "cbret" | "free" -> "OK " ^ string_of_z (sandbox_ptr sa v)
           | "malloc" -> string_of_res string_of_z (malloc_in_sandbox l sa true (z_of_int 1) (z_of_int 1) v)
           | "argnull" -> "OK 0"
           | _ -> failwith "xlate path") in
       (* C03 on top of C04: an address obtained from guest bits must be null or inside s *)
       let spec = (if toapp then
                     (match String.split_on_char ' ' r with
                      | "OK" :: a :: _ when not (inv_ok s (zs a)) -> "ABORT"
                      | _ -> r)
                   else r) in
       Some (r, spec, "xlate:" ^ path ^ ":" ^ dir ^ (if v = Z0 then ":null" else ""))
     | "rawptr", [kind; a] ->
       let a = zs a in
       (* a refusal leaves the target as it was: a tainted holds null (its initial value), a cell is unchanged *)
       let refused = (match kind with "tvol" -> "ABORT held=unchanged" | "tainted" | "taintedfn" | "acceptfn" -> "ABORT held=0" | _ -> "ABORT") in
       let m = (match kind with
           | "tvol" -> (match assign_raw_pointer_vol sa a with Ok r -> "OK " ^ string_of_z r | _ -> refused)
           | _ -> (match assign_raw_pointer sa a with Ok r -> "OK " ^ string_of_z r | _ -> refused)) in
       (* address 1 stands for the address of an application function: outside every sandbox *)
       let m = if (kind = "acceptfn" || kind = "taintedfn") && a = z_of_int 1 then refused else m in
       let inside = inv_ok sa a && a <> Z0 in
       let s = if inside then m else refused in
       Some (m, s, "rawptr:" ^ kind ^ (if inside then ":inside" else ":outside"))
     | _ -> None)

(* C15 handlers: token table histories and owner-layer histories *)
open Model
open Util

let pow2 n = Z.pow (z_of_int 2) (z_of_int n)
let zs = z_of_string

(* SPEC for the table: an independent, obviously-correct reference: tokens are the
   smallest-cost description of the property: fresh token in [1,max] not in use, abort iff full.
   The property does not fix WHICH fresh token is issued, so the spec accepts the model's
   choice when it is fresh and in range. *)
let handle (toks : string list) : (string * string * string) option =
  match toks with
  | "amap" :: bits :: max :: ops ->
    let w = pow2 (int_of_string bits) and max = zs max in
    let buf = Buffer.create 64 and sbuf = Buffer.create 64 in
    let add b s = if Buffer.length b > 0 then Buffer.add_char b ','; Buffer.add_string b s in
    let m = ref amap_init in
    let live : (z * z) list ref = ref [] in      (* reference state: token -> pointer *)
    let stop = ref false and nreg = ref 0 and nfull = ref 0 in
    List.iter (fun tok ->
        if not !stop then
          match String.split_on_char ':' tok with
          | ["r"; p] ->
            let p = zs p in
            (match get_app_pointer_idx w max p !m with
             | Ok (i, m') ->
               m := m'; incr nreg;
               add buf ("r=" ^ string_of_z i);
               let fresh = not (List.mem_assoc i !live) && Z.leb (z_of_int 1) i && Z.leb i max in
               let full = (Z.leb max (z_of_int (List.length !live))) in
               if fresh && not full then (live := (i, p) :: !live; add sbuf ("r=" ^ string_of_z i))
               else (add sbuf "r=ABORT"; stop := true)
             | Abort ->
               add buf "r=ABORT"; stop := true; incr nfull;
               let full = (Z.leb max (z_of_int (List.length !live))) in
               add sbuf (if full then "r=ABORT" else "r=SHOULD-SUCCEED")
             | _ -> add buf "r=DIVERGE"; add sbuf "r=DIVERGE"; stop := true)
          | ["x"; i] ->
            let i = zs i in
            (match remove_app_ptr i !m with
             | Ok m' -> m := m'; add buf "x=ok"
             | _ -> add buf "x=ABORT"; stop := true);
            if List.mem_assoc i !live || i = Z0 then (live := List.remove_assoc i !live; add sbuf "x=ok")
            else (add sbuf "x=ABORT")
          | ["l"; i] ->
            let i = zs i in
            (match lookup_index i !m with
             | Ok v -> add buf ("l=" ^ string_of_z v)
             | _ -> add buf "l=ABORT"; stop := true);
            (match List.assoc_opt i !live with
             | Some v -> add sbuf ("l=" ^ string_of_z v)
             | None -> if i = Z0 then add sbuf "l=0" else add sbuf "l=ABORT")
          | _ -> failwith "amap op") ops;
    Some ("SEQ " ^ Buffer.contents buf, "SEQ " ^ Buffer.contents sbuf,
          Printf.sprintf "amap%s:reg%d:full%d" bits !nreg !nfull)
  | "aown" :: ops ->
    let w = pow2 16 and max = Z.sub (pow2 16) (z_of_int 1) in
    let base = Z.mul (z_of_int 6) (pow2 44) in
    let buf = Buffer.create 64 in
    let add s = if Buffer.length buf > 0 then Buffer.add_char buf ','; Buffer.add_string buf s in
    let wd = ref { amapw = amap_init; owners = [None; None; None] } in
    let stop = ref false in
    let n k = nat_of_int (int_of_string k) in
    List.iter (fun tok ->
        if not !stop then
          match String.split_on_char ':' tok with
          | ["g"; k; p] ->
            (match ostep code_overwrite_releases w max !wd (OGet (n k, zs p)) with
             | Ok w' -> wd := w';
               (match owner_at w' (n k) with Some i -> add ("g=" ^ string_of_z i) | None -> add "g=?")
             | _ -> add "g=ABORT"; stop := true)
          | ["m"; a; b] ->
            (match ostep code_overwrite_releases w max !wd (OMove (n a, n b)) with
             | Ok w' -> wd := w'; add "m=ok" | _ -> add "m=ABORT"; stop := true)
          | ["d"; k] ->
            (match ostep code_overwrite_releases w max !wd (ODestroy (n k)) with
             | Ok w' -> wd := w'; add "d=ok" | _ -> add "d=ABORT"; stop := true)
          | ["u"; k] -> add (match owner_at !wd (n k) with None -> "u=1" | Some _ -> "u=0")
          | ["l"; k] ->
            let tok = (match owner_at !wd (n k) with Some i -> i | None -> Z0) in
            (* an inert owner's to_tainted() is null: representation 0 -> entry 0 -> nullptr *)
            (match lookup_index tok !wd.amapw with
             | Ok v -> add ("l=" ^ string_of_z v ^ "@" ^ string_of_z tok)
             | _ -> add "l=ABORT"; stop := true)
          | ["t"; tk] ->
            (match lookup_index (zs tk) !wd.amapw with
             | Ok v -> add ("t=" ^ string_of_z v) | _ -> add "t=ABORT"; stop := true)
          | _ -> failwith "aown op") ops;
    ignore base;
    (* spec for the owner layer = the model with release-on-overwrite (what C15 demands) *)
    let r = "SEQ " ^ Buffer.contents buf in
    Some (r, r, "aown")
  | "aown2" :: ops ->
    (* two live sandboxes, a token table each (coq/AppPtr2.v) *)
    let w = pow2 16 and max = Z.sub (pow2 16) (z_of_int 1) in
    let buf = Buffer.create 64 in
    let add s = if Buffer.length buf > 0 then Buffer.add_char buf ','; Buffer.add_string buf s in
    let wd = ref { maps2 = [amap_init; amap_init]; owners2 = [None; None; None] } in
    let stop = ref false in
    let n k = nat_of_int (int_of_string k) in
    List.iter (fun tok ->
        if not !stop then
          match String.split_on_char ':' tok with
          | ["g"; k; s; p] ->
            (match ostep2 w max !wd (OGet2 (n k, n s, zs p)) with
             | Ok w' -> wd := w';
               (match owner2_at w' (n k) with Some (_, i) -> add ("g=" ^ string_of_z i) | None -> add "g=?")
             | _ -> add "g=ABORT"; stop := true)
          | ["m"; a; b] ->
            (match ostep2 w max !wd (OMove2 (n a, n b)) with
             | Ok w' -> wd := w'; add "m=ok" | _ -> add "m=ABORT"; stop := true)
          | ["d"; k] ->
            (match ostep2 w max !wd (ODestroy2 (n k)) with
             | Ok w' -> wd := w'; add "d=ok" | _ -> add "d=ABORT"; stop := true)
          | ["u"; k] -> add (match owner2_at !wd (n k) with None -> "u=1" | Some _ -> "u=0")
          | ["l"; k] ->
            (* an inert owner's to_tainted() is null: representation 0 -> entry 0 -> nullptr (table of sandbox 0 or of the
               sandbox it last belonged to: entry 0 is nullptr in every table) *)
            let (s, tk) = (match owner2_at !wd (n k) with Some (s, i) -> (s, i) | None -> (nat_of_int 0, Z0)) in
            (match lookup_index tk (map_at !wd s) with
             | Ok v -> add ("l=" ^ string_of_z v ^ "@" ^ string_of_z tk)
             | _ -> add "l=ABORT"; stop := true)
          | ["t"; s; tk] ->
            (match lookup_index (zs tk) (map_at !wd (n s)) with
             | Ok v -> add ("t=" ^ string_of_z v) | _ -> add "t=ABORT"; stop := true)
          | _ -> failwith "aown2 op") ops;
    let r = "SEQ " ^ Buffer.contents buf in
    Some (r, r, "aown2")
  | _ -> None

(* C16 handler: one operator evaluation, or an exhaustive sweep over all 8-bit operand pairs *)
open Model
open Util

let bop_of = function
  | "add" -> OAdd | "sub" -> OSub | "mul" -> OMul | "div" -> ODiv | "rem" -> ORem | "xor" -> OXor | "and" -> OAnd | "or" -> OOr
  | "shl" -> OShl | "shr" -> OShr | "eq" -> OEq | "ne" -> ONe | "lt" -> OLt | "le" -> OLe | "gt" -> OGt | "ge" -> OGe
  | "land" -> OLAnd | "lor" -> OLOr | s -> failwith ("bad op " ^ s)
let wk_of = function "P" -> WPlain | "T" -> WT | "V" -> WV | s -> failwith ("bad wrapper " ^ s)
let a = abi_lp32
let kn = string_of_kind

(* (model string, spec string, numbers of the wrapped side for the checksum); "UB" when undefined *)
let eval1 form op wa ka wb kb va vb : string * string * z list =
  let tv (c, r) = kn c ^ ":" ^ string_of_z r in
  match form with
  | "bin" ->
    let sp = (match cop (bop_of op) ka va kb vb with Some cr -> "W:" ^ tv cr ^ " P:" ^ tv cr | None -> "UB") in
    (match wbin a (bop_of op) wa ka va wb kb vb with
     | Some (Ok (Some (c, r))) -> ("W:" ^ tv (c, r) ^ " P:" ^ tv (c, r), sp, [r])
     | Some (Ok None) -> ("UB", sp, [])
     | Some _ -> ("W:ABORT", sp, []) | None -> ("ILLTYPED", sp, []))
  | "cmpd" ->
    (match cop (bop_of op) ka va kb vb with
     | None -> ("UB", "UB", [])
     | Some (c, r) ->
       let pl = " P:" ^ kn ka ^ ":" ^ string_of_z (wrap ka r) in
       let sp = (match wa with
           | WV -> (match sbx_equiv a ka with
               | Some sk -> if in_range sk r then "W:" ^ kn ka ^ ":" ^ string_of_z r else "W:ABORT"
               | None -> "ILLTYPED")
           | _ -> "W:" ^ kn ka ^ ":" ^ string_of_z (wrap ka r)) ^ pl in
       (match wcompound a (bop_of op) wa ka va wb kb vb with
        | Some (Ok (Some n)) -> ("W:" ^ kn ka ^ ":" ^ string_of_z n ^ pl, sp, [n])
        | Some (Ok None) -> ("UB", sp, [])
        | Some _ -> ("W:ABORT" ^ pl, sp, []) | None -> ("ILLTYPED", sp, [])))
  | "incdec" ->
    let dec = (op = "predec" || op = "postdec") and post = (op = "postinc" || op = "postdec") in
    (match cincdec dec post ka va with
     | None -> ("UB", "UB", [])
     | Some (pv, pn) ->
       let pl = " P:" ^ kn ka ^ ":" ^ string_of_z pv ^ ":" ^ string_of_z pn in
       let sp = (match wa with
           | WV -> (match sbx_equiv a ka with
               | Some sk -> (match cop (if dec then OSub else OAdd) ka va IInt (z_of_int 1) with
                   | Some (_, r) -> if in_range sk r then "W:" ^ kn ka ^ ":" ^ string_of_z pv ^ ":" ^ string_of_z pn else "W:ABORT"
                   | None -> "UB")
               | None -> "ILLTYPED")
           | _ -> "W:" ^ kn ka ^ ":" ^ string_of_z pv ^ ":" ^ string_of_z pn) ^ pl in
       (match wincdec a (not code_postdec_ok) dec post wa ka va with
        | Some (Ok (Some (v, n))) -> ("W:" ^ kn ka ^ ":" ^ string_of_z v ^ ":" ^ string_of_z n ^ pl, sp, [v; n])
        | Some (Ok None) -> ("UB", sp, [])
        | Some _ -> ("W:ABORT" ^ pl, sp, []) | None -> ("ILLTYPED", sp, [])))
  | "un" ->
    (match cuop (if op = "neg" then UNeg else UNot) ka va with
     | Some cr -> let s = "W:" ^ tv cr ^ " P:" ^ tv cr in (s, s, [snd cr])
     | None -> ("UB", "UB", []))
  | _ -> failwith "bad form"

let int64_of_z (x : z) : int64 = Int64.of_string (string_of_z x)

let handle (toks : string list) : (string * string * string) option =
  match toks with
  | op0 :: _local :: form :: op :: wa :: ka :: wb :: kb :: rest when String.length op0 > 3 && String.sub op0 0 3 = "op." ->
    let wa' = wk_of wa and wb' = wk_of wb in
    let ka' = kind_of_string ka and kb' = kind_of_string kb in
    (match rest with
     | ["sweep"] ->
       let n = ref 0 and chk = ref 0L in
       let one = (form = "incdec" || form = "un") in
       let loa = int_of_z (lo ka') and hia = int_of_z (hi ka') in
       let lob = if one then 0 else int_of_z (lo kb') and hib = if one then 0 else int_of_z (hi kb') in
       for x = loa to hia do
         for y = lob to hib do
           let (m, _, nums) = eval1 form op wa' ka' wb' kb' (z_of_int x) (z_of_int y) in
           if m <> "UB" then begin
             incr n;
             let aborted = String.length m >= 7 && String.sub m 0 7 = "W:ABORT" in
             let h = if aborted then 0xAB0FL else List.fold_left (fun h v -> Int64.add (Int64.mul h 31L) (int64_of_z v)) 0L nums in
             chk := Int64.add (Int64.mul !chk 1000003L) h
           end
         done
       done;
       let s = Printf.sprintf "SWEEP n=%d mism=0 chk=%Lu" !n !chk in
       Some (s, s, "sweep:" ^ form ^ ":" ^ op ^ ":" ^ wa ^ wb)
     | [va; vb] ->
       let (m, s, _) = eval1 form op wa' ka' wb' kb' (z_of_string va) (z_of_string vb) in
       Some (m, s, form ^ ":" ^ op ^ ":" ^ wa ^ wb ^ (if m = "UB" then ":ub" else ""))
     | _ -> failwith "bad op case")
  | _ -> None

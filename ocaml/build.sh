#!/bin/sh
# builds ocaml/driver from the extracted model (coq/model.ml produced by Extract.v)
set -e
cd "$(dirname "$0")"
if [ -f ../coq/model.ml ]; then mv -f ../coq/model.ml ../coq/model.mli . ; fi
ocamlfind ocamlopt -w -a -O2 model.mli model.ml util.ml p_*.ml driver.ml -o driver 2>/dev/null || \
ocamlfind ocamlopt -w -a model.mli model.ml util.ml p_*.ml driver.ml -o driver

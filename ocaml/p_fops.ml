(* C16, floating-point family: comparisons / logical operators on float and double operands (bit patterns, exact
   values, NaN unordered) evaluated by the extracted FloatCmp model; arithmetic results are the compiler's plain
   expression (oracle): the model only says "wrapped = plain, of this type" *)
open Model
open Util

let fcop_of = function
  | "eq" -> Some FEq | "ne" -> Some FNe | "lt" -> Some FLt | "le" -> Some FLe | "gt" -> Some FGt | "ge" -> Some FGe | _ -> None
let fw_of = function "P" -> FWPlain | "T" -> FWT | "V" -> FWV | s -> failwith ("bad wrapper " ^ s)
let is_f k = (k = "float" || k = "double")
let decode k v = if k = "float" then fdecode F32 (z_of_string v) else if k = "double" then fdecode F64 (z_of_string v) else fof_int (z_of_string v)
let arith_type ka kb = if ka = "double" || kb = "double" then "double" else if ka = "float" || kb = "float" then "float" else "int"
let b01 b = if b then "1" else "0"

let handle (toks : string list) : (string * string * string) option =
  match toks with
  | op0 :: _local :: form :: op :: wa :: ka :: wb :: kb :: rest when String.length op0 > 4 && String.sub op0 0 4 = "fop." ->
    let cls = "f:" ^ form ^ ":" ^ op ^ ":" ^ wa ^ wb in
    (match form, rest with
     | "bin", [va; vb] ->
       let a = decode ka va and b = decode kb vb in
       let nan = (a = FNaN || b = FNaN) in
       (match fcop_of op with
        | Some c ->
          let r = wfcompare c (fw_of wa) a (fw_of wb) b in
          let s = "W:bool:" ^ b01 r ^ " P:bool:" ^ b01 r in
          Some (s, s, cls ^ (if nan then ":nan" else ""))
        | None ->
          if op = "land" || op = "lor" then
            let r = if op = "land" then ftruth a && ftruth b else ftruth a || ftruth b in
            let s = "W:bool:" ^ b01 r ^ " P:bool:" ^ b01 r in Some (s, s, cls)
          else let s = "W=P:" ^ arith_type ka kb in Some (s, s, cls ^ (if nan then ":nan" else "")))
     | "cmpd", [_; _] -> let s = "W=P:" ^ ka in Some (s, s, cls)
     | "incdec", [_; _] -> let s = "W=P:" ^ ka in Some (s, s, cls)
     | "un", [va; _] ->
       if op = "lnot" then
         let r = not (ftruth (decode ka va)) in
         let s = "W:bool:" ^ b01 r ^ " P:bool:" ^ b01 r in Some (s, s, cls)
       else let s = "W=P:" ^ (if is_f ka then ka else "int") in Some (s, s, cls)
     | _ -> failwith "bad fop case")
  | _ -> None

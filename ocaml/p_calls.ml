(* C12 / C19 (and the multi-instance part of C11) handlers: a register/unregister
   history followed by a call tree *)
open Model
open Util

let ni = nat_of_int
let zi = z_of_int

let rec parse_tree (toks : string list) : node * string list =
  match toks with
  | "N" :: tgt :: fnid :: arg :: ret :: th :: ca :: nk :: rest ->
    let n = int_of_string nk in
    let rec kids i acc rest =
      if i = 0 then (List.rev acc, rest)
      else let (k, rest') = parse_tree rest in kids (i - 1) (k :: acc) rest' in
    let (ks, rest') = kids n [] rest in
    (Node (ni (int_of_string tgt), ni (int_of_string fnid), z_of_string arg, z_of_string ret, th = "1", ca = "1", ks), rest')
  | _ -> failwith "bad tree"

let sn n = string_of_int (int_of_nat n)
let optz = function None -> "v" | Some z -> string_of_z z

let show_ev (lib_of : int -> int) (e : ev) : string =
  match e with
  | EIn (inv, i, s) -> "I:" ^ (if inv then "i:" else "c:") ^ sn i ^ ":@"
  | EOut (inv, i, s) -> "O:" ^ (if inv then "i:" else "c:") ^ sn i ^ ":@"
  | EGuest (sb, f, a) -> "G:" ^ sn sb ^ ":" ^ sn f ^ ":" ^ string_of_int (lib_of (int_of_nat sb)) ^ ":" ^ string_of_z a
  | EInvRes (sb, r) -> "IR:" ^ sn sb ^ ":" ^ optz r
  | ERan (fn, sb, a) -> "R:" ^ sn fn ^ ":" ^ sn sb ^ ":" ^ string_of_z a
  | EGuestGot (sb, r) -> "GG:" ^ sn sb ^ ":" ^ optz r
  | ETrap (sb, slot) -> "X:" ^ sn sb ^ ":" ^ sn slot

(* the state each notification observes: the hooks of the driver advance the state they are handed by 1000
   ([threaded]: through the per-sandbox cells as the code does; otherwise what C19 demands: the k-th notification
   of a sandbox observes its initial state advanced k times) *)
let show_evs (threaded : bool) (lib_of : int -> int) (evs : ev list) : string list =
  let f = (fun x -> nat_of_int (int_of_nat x + 1000)) in
  let sts = ref (if threaded then thread_states f (fun s -> s) evs else expected_states f (fun s -> s) [] evs) in
  List.map (fun e ->
      let s = show_ev lib_of e in
      if String.length s > 0 && s.[String.length s - 1] = '@' then
        (match !sts with
         | st :: tl -> sts := tl; String.sub s 0 (String.length s - 1) ^ sn st
         | [] -> s ^ "?")
      else s) evs

let show_recs (recs : ((nat * bool) * nat) list) : string =
  String.concat " " (List.map (fun i ->
      "T" ^ string_of_int i ^ "=" ^
      String.concat "," (List.filter_map (fun ((sb, inv), id) ->
          if int_of_nat sb = i then Some ((if inv then "i:" else "c:") ^ sn id) else None) recs)) [0; 1; 2])

let rec split_bar acc = function
  | [] -> (List.rev acc, [])
  | "|" :: tl -> (List.rev acc, tl)
  | x :: tl -> split_bar (x :: acc) tl

let handle (toks : string list) : (string * string * string) option =
  match toks with
  | ("calls32" | "callsw" | "callsn" | "callsne" | "callsd" | "callsde" | "calls32h" | "calls32t" | "calls32i" | "calls32o") as op0 :: rest ->
    (* build variants of the verif32 driver: h = hooks only (no timing), t = timing only (no hooks), i / o = only the IN / OUT hook *)
    let variant = if String.length op0 = 8 then String.sub op0 7 1 else "" in
    let op = if variant = "" then op0 else "calls32" in
    let keep_ev e = (match e with
        | EIn _ -> variant <> "t" && variant <> "o"
        | EOut _ -> variant <> "t" && variant <> "i"
        | _ -> true) in
    let timing = variant <> "h" in
    let (a, k, nslots, lib_of) = (match op with
        | "calls32" -> (abi_lp32, ILong, 4, fun s -> s mod 2)
        | "callsw" -> (abi_wide, IInt, 4, fun s -> s mod 2)
        | "callsd" | "callsde" -> (abi_host, ILong, 64, fun s -> s mod 2)
        | _ -> (abi_host, ILong, 64, fun _ -> 0)) in
    let cin v = (match to_sbx a k v with Some r -> r | None -> failwith "no abi map") in
    let cout v = (match to_app a k v with Some r -> r | None -> failwith "no abi map") in
    let (prefix, tree_toks) = split_bar [] rest in
    let w = ref (world_init (ni 3) (ni nslots) (ni 24)) in
    let ok = ref true in
    let step o = if !ok then (match wstep code_move_assign_releases !w o with Ok (w', _) -> w := w' | _ -> ok := false) in
    List.iter (fun i -> step (WCreate (ni i, true))) [0; 1; 2];
    List.iter (fun tok ->
        match String.split_on_char ':' tok with
        | ["r"; s; f] -> step (WRegister (ni (int_of_string s * 8 + int_of_string f), ni (int_of_string s), zi (int_of_string f)))
        | ["u"; s; f] -> step (WUnregister (ni (int_of_string s * 8 + int_of_string f)))
        | _ -> failwith "bad prefix op") prefix;
    if not !ok then Some ("PREFIX-ABORT", "PREFIX-ABORT", op0 ^ ":prefix-abort")
    else begin
      let (tree, _) = parse_tree tree_toks in
      let slot_of = world_slot_of !w in
      let odd n = (int_of_nat n) mod 2 = 1 in
      let t0 = { cur = ni 99; lastcb = O } in
      let (((evs, ab), t'), recs) = run slot_of odd odd cin cout false true t0 tree in
      let m = String.concat " " (show_evs true lib_of (List.filter keep_ev evs)) ^ " | ab=" ^ (if ab then "1" else "0") ^
              " cur=" ^ (if int_of_nat t'.cur = 99 then "ok" else "BAD") ^ " | " ^ (if timing then show_recs recs else "notiming") in
      let (sevs, sab) = spec slot_of odd odd cin cout true (ni 99) tree in
      let s = String.concat " " (show_evs false lib_of (List.filter keep_ev sevs)) ^ " | ab=" ^ (if sab then "1" else "0") ^
              " cur=ok | " ^ (if timing then show_recs (closes sevs) else "notiming") in
      let depth = let rec d (Node (_, _, _, _, _, _, ks)) = 1 + List.fold_left (fun a k -> max a (d k)) 0 ks in d tree in
      let nab = List.length (List.filter (fun e -> match e with ETrap _ -> true | _ -> false) evs) in
      Some (m, s, op0 ^ ":depth" ^ string_of_int depth ^ (if ab then ":abort" else ":ok") ^ (if nab > 0 then ":trap" else ""))
    end
  | _ -> None

(* C12: one guest call of a registered callback whose parameter / result is of a given kind
   (data pointers and integers of every width): the interceptor's conversion of that kind *)
let shl a n = Z.mul (z_of_int a) (Z.pow (z_of_int 2) (z_of_int n))
let handle_cbk (toks : string list) : (string * string * string) option =
  match toks with
  | [("cbk32" | "cbk16" | "cbk64" | "cbkw" | "cbkn") as op; dir; kind; v] ->
    let a = (match op with "cbkw" -> abi_wide | "cbkn" -> abi_host | _ -> abi_lp32) in
    let v = z_of_string v in
    let is_ptr = (kind = "ptr" || kind = "cptr" || kind = "vptr") in
    let (m, sp) =
      if is_ptr then begin
        (* the region: any base; size as the configuration's; the noop back end is the identity on addresses
           (its offsets are reported relative to an application buffer) *)
        let base = shl 1 44 in
        let size = (match op with "cbk16" -> shl 1 16 | _ -> shl 1 32) in
        let s = { rbase = base; rsize = size } in
        if dir = "p" then
          let seen = if op = "cbkn" then (if v = Z0 then Z0 else Z.add base v) else unsandbox s v in
          let show x = if x = Z0 then "R:null runs=1" else "R:off=" ^ string_of_z (Z.sub x base) ^ " runs=1" in
          (show seen, (if v = Z0 then "R:null runs=1" else "R:off=" ^ string_of_z v ^ " runs=1"))
        else
          let addr = if v = Z0 then Z0 else Z.add base v in
          let rep = if op = "cbkn" then v else sandbox_ptr s addr in
          ("GG:" ^ string_of_z rep ^ " runs=1", "GG:" ^ string_of_z v ^ " runs=1")
      end else begin
        let k = kind_of_string kind in
        let gk = (match sbx_equiv a k with Some g -> g | None -> failwith "no guest kind") in
        if dir = "p" then
          let m = (match to_app a k v with Some (Ok x) -> "R:" ^ string_of_z x ^ " runs=1" | Some _ -> "ABORT runs=0" | None -> failwith "no abi map") in
          (m, (if in_range k v then "R:" ^ string_of_z v ^ " runs=1" else "ABORT runs=0"))
        else
          let m = (match to_sbx a k v with Some (Ok x) -> "GG:" ^ string_of_z x ^ " runs=1" | Some _ -> "ABORT runs=1" | None -> failwith "no abi map") in
          (m, (if in_range gk v then "GG:" ^ string_of_z v ^ " runs=1" else "ABORT runs=1"))
      end in
    Some (m, sp, op ^ ":" ^ dir ^ ":" ^ (if is_ptr then "ptr" else "int") ^ (if String.length m >= 5 && String.sub m 0 5 = "ABORT" then ":abort" else ":ok"))
  | _ -> None

(* scope_exit histories *)
let handle_sx (toks : string list) : (string * string * string) option =
  match toks with
  | "sx" :: ops ->
    let parsed = List.map (fun tok -> match String.split_on_char ':' tok with
        | ["m"; j] -> SxMove (ni (int_of_string j)) | ["r"; j] -> SxRelease (ni (int_of_string j))
        | ["d"; j] -> SxDestroy (ni (int_of_string j)) | _ -> failwith "bad sx op") ops in
    let s = sx_run parsed in
    let n = List.length s.objs in
    let s2 = sx_run (parsed @ List.init n (fun j -> SxDestroy (ni j))) in
    let released = int_of_nat s2.cancelled > 0 in
    let m = "fired=" ^ sn s.fired ^ " final=" ^ sn s2.fired in
    (* what C19 demands: exactly once in total unless released while armed, never twice *)
    let sp = "fired=" ^ sn s.fired ^ " final=" ^ (if released then "0" else "1") in
    Some (m, sp, "sx:" ^ (if released then "released" else "fires") ^ ":objs" ^ string_of_int n)
  | _ -> None

(* C07 handler: stores and loads through tainted references, byte level *)
open Model
open Util

let pow2 n = Z.pow (z_of_int 2) (z_of_int n)
let base = pow2 44
let zi = z_of_int

type cfg = { a : abi; rsize : int; committed : int; pw : int; name : string }
let cfg_of (suffix : string) : cfg =
  match suffix with
  | "32" -> { a = abi_lp32; rsize = 1 lsl 32; committed = 1 lsl 20; pw = 4; name = "32" }
  | "16" -> { a = abi_lp32; rsize = 1 lsl 16; committed = 1 lsl 16; pw = 2; name = "16" }
  | "w" -> { a = abi_wide; rsize = 1 lsl 32; committed = 1 lsl 20; pw = 4; name = "w" }
  | _ -> failwith "bad cfg"

let pat (off : int) (seed : int) : int = (off * 131 + seed * 17 + 0x5a) land 255
let mem0 (seed : int) : z -> z = fun a -> zi (pat (int_of_z (Z.sub a base)) seed)

let window (c : cfg) (off : int) : int * int =
  let page = 4096 in
  let lb = if off < c.committed then 0 else c.rsize - page in
  let ub = if off < c.committed then c.committed else c.rsize in
  ((if off >= lb + 16 then off - 16 else lb), (if off + 24 <= ub then off + 24 else ub))

let hex2 (b : int) = Printf.sprintf "%02x" b
let observe (c : cfg) (m : z -> z) (off : int) : string =
  let (lo, hi) = window c off in
  let buf = Buffer.create 80 in
  for i = lo to hi - 1 do Buffer.add_string buf (hex2 (int_of_z (m (Z.add base (zi i))))) done;
  "W " ^ Buffer.contents buf ^ " outside=clean"

let bytes_of_hex (h : string) : z list =
  let n = String.length h / 2 in
  List.init n (fun i -> zi (int_of_string ("0x" ^ String.sub h (2 * i) 2)))

(* ldouble: the 10 value bytes of an x87 long double (loads only: the 6 padding bytes of the 16-byte object are indeterminate) *)
let bits_width = function "enum" | "float" -> 4 | "double" -> 8 | "ldouble" -> 10 | _ -> failwith "not a bits kind"
let is_bits k = (k = "enum" || k = "float" || k = "double" || k = "ldouble")

let show_res f = function Some (Ok v) -> "V " ^ f v | Some Abort -> "ABORT" | Some _ -> "OTHER" | None -> "NOCOMPILE"

(* whole-array store / load of T[6] and T[2][3]: six consecutive guest elements, row-major *)
let handle_arr (toks : string list) : (string * string * string) option =
  match toks with
  | op :: rest when String.length op >= 4 && (String.sub op 0 3 = "sta" || String.sub op 0 3 = "lda") &&
                    List.mem (String.sub op 3 (String.length op - 3)) ["32"; "16"; "w"] ->
    let c = cfg_of (String.sub op 3 (String.length op - 3)) in
    let store = String.sub op 0 3 = "sta" in
    let (variant, kind, shape, off, seed, tl) = (match store, rest with
        | true, k :: sh :: o :: sd :: vs -> ("", k, sh, int_of_string o, int_of_string sd, vs)
        | false, v :: k :: sh :: o :: sd :: vs -> (v, k, sh, int_of_string o, int_of_string sd, vs)
        | _ -> failwith "bad array case") in
    let addr = Z.add base (zi off) in
    let gsize = if is_bits kind then Some (bits_width kind) else (match sbx_equiv c.a (kind_of_string kind) with Some sk -> Some (int_of_z (size sk)) | None -> None) in
    (match gsize with
     | None -> Some ("NOCOMPILE", "NOCOMPILE", op ^ ":nomap")
     | Some gs ->
       let cls = op ^ ":" ^ shape ^ ":" ^ (if variant = "" then "store" else variant) ^
                 (if (not (is_bits kind)) && gs <> int_of_z (size (kind_of_string kind)) then ":resize" else ":same") in
       let dump m = (let buf = Buffer.create 100 in
                     for i = 0 to 6 * gs - 1 do Buffer.add_string buf (hex2 (int_of_z (m (Z.add addr (zi i))))) done;
                     "W " ^ Buffer.contents buf ^ " outside=clean") in
       if store then begin
         let vals = List.map z_of_string tl in
         let rec go m i = function
           | [] -> Some m
           | v :: vs ->
             let a = Z.add addr (zi (i * gs)) in
             if is_bits kind then go (store_bits (zi gs) a v m) (i + 1) vs
             else (match store_int c.a (kind_of_string kind) a v m with
                 | Some (Ok m') -> go m' (i + 1) vs
                 | _ -> None) in
         let r = (match go (mem0 seed) 0 vals with Some m -> dump m | None -> "ABORT") in
         Some (r, r, cls ^ (if r = "ABORT" then ":abort" else ""))
       end else begin
         let m = (match tl with [h] -> write (mem0 seed) addr (bytes_of_hex h) | _ -> mem0 seed) in
         let one i = (let a = Z.add addr (zi (i * gs)) in
                      if is_bits kind then Some (string_of_z (load_bits (zi gs) a m))
                      else (match load_int c.a (kind_of_string kind) a m with Some (Ok v) -> Some (string_of_z v) | _ -> None)) in
         let vs = List.init 6 one in
         let r = if List.for_all (fun x -> x <> None) vs then "V " ^ String.concat "," (List.map (function Some x -> x | None -> "?") vs) else "ABORT" in
         Some (r, r, cls ^ (if r = "ABORT" then ":abort" else ""))
       end)
  | _ -> None

let handle (toks : string list) : (string * string * string) option =
  match toks with
  | op :: rest when String.length op >= 3 && (String.sub op 0 2 = "st" || String.sub op 0 2 = "ld") &&
                    List.mem (String.sub op 2 (String.length op - 2)) ["32"; "16"; "w"] ->
    let c = cfg_of (String.sub op 2 (String.length op - 2)) in
    let region = { rbase = base; rsize = zi c.rsize } in
    if String.sub op 0 2 = "st" then begin
      match rest with
      | [kind; off; v; seed] ->
        let off = int_of_string off and seed = int_of_string seed in
        let addr = Z.add base (zi off) in
        let m0 = mem0 seed in
        if kind = "fnp" then begin
          (* a function pointer is stored as its table index, in the width of a guest pointer *)
          let sp = write m0 addr (bytes_le (nat_of_int c.pw) (z_of_string v)) in
          Some (observe c sp off, observe c sp off, op ^ ":fnp")
        end else if kind = "ptr" then begin
          let tgt = z_of_string v in
          let p = if tgt = Z0 then Z0 else Z.add base tgt in
          let m = store_ptr (zi c.pw) region addr p m0 in
          let sp = write m0 addr (bytes_le (nat_of_int c.pw) tgt) in
          Some (observe c m off, observe c sp off, op ^ ":ptr")
        end else if is_bits kind then begin
          let w = bits_width kind in
          let m = store_bits (zi w) addr (z_of_string v) m0 in
          Some (observe c m off, observe c m off, op ^ ":bits")
        end else begin
          let k = kind_of_string kind in
          let v = z_of_string v in
          let mo = (match store_int c.a k addr v m0 with
              | Some (Ok m) -> observe c m off | Some Abort -> "ABORT" | Some _ -> "OTHER" | None -> "NOCOMPILE") in
          let (sp, cls) = (match sbx_equiv c.a k with
              | None -> ("NOCOMPILE", "nomap")
              | Some sk -> if in_range sk v then (observe c (write m0 addr (encode sk v)) off, if sk = k then "same" else "conv")
                else ("ABORT", "abort")) in
          Some (mo, sp, op ^ ":" ^ cls ^ (if off land 3 <> 0 then ":unaligned" else "") ^ (if off >= c.committed then ":lastpage" else ""))
        end
      | _ -> failwith "bad st case"
    end else begin
      match rest with
      | variant :: kind :: off :: seed :: n :: tl ->
        let off = int_of_string off and seed = int_of_string seed and n = int_of_string n in
        let addr = Z.add base (zi off) in
        let m = (match tl with [h] -> write (mem0 seed) addr (bytes_of_hex h) | _ -> mem0 seed) in
        if kind = "ptr" then begin
          let i = if variant = "idx" then n else 0 in
          let v = load_ptr (zi c.pw) region (Z.add addr (zi (i * c.pw))) m in
          Some ("V " ^ string_of_z v, "V " ^ string_of_z v, op ^ ":" ^ variant ^ ":ptr")
        end else if is_bits kind then begin
          let w = bits_width kind in
          let i = if variant = "idx" then n else 0 in
          let one j = load_bits (zi w) (Z.add addr (zi (j * w))) m in
          let s = (match variant with
              | "cvr" -> "V " ^ String.concat "," (List.init n (fun j -> string_of_z (one j)))
              | _ -> "V " ^ string_of_z (one i)) in
          Some (s, s, op ^ ":" ^ variant ^ ":bits")
        end else begin
          let k = kind_of_string kind in
          match sbx_equiv c.a k with
          | None -> Some ("NOCOMPILE", "NOCOMPILE", op ^ ":nomap")
          | Some sk ->
            let fixed = code_cv_reads_guest_width in
            let cls = op ^ ":" ^ variant ^ (if size sk <> size k then ":resize" else ":same") in
            (match variant with
             | "deref" | "tain" | "cvv" ->
               let r = show_res string_of_z (load_int c.a k addr m) in Some (r, r, cls)
             | "idx" ->
               let r = show_res string_of_z (load_int c.a k (Z.add addr (Z.mul (zi n) (size sk))) m) in Some (r, r, cls)
             | "cvp" ->
               let mo = show_res string_of_z (load_cv_ptr fixed c.a k addr m) in
               let sp = show_res string_of_z (load_int c.a k addr m) in
               Some (mo, sp, cls ^ (if mo <> sp then ":kf=D8" else ""))
             | "cvr" ->
               let run fx =
                 let elsz = if fx then size sk else size k in
                 (match verify_range true [region] addr (zi n) elsz with
                  | Ok _ -> show_res string_of_zlist (load_range fx c.a k addr Z0 (nat_of_int n) m)
                  | _ -> "ABORT") in
               let mo = run fixed and sp = run true in
               Some (mo, sp, cls ^ (if mo <> sp then ":kf=D8" else ""))
             | _ -> failwith "bad variant")
        end
      | _ -> failwith "bad ld case"
    end
  | _ -> None

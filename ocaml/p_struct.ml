(* C08 handler: layout and round trip of generated structs *)
open Model
open Util

let zi = z_of_int
let base = Z.pow (zi 2) (zi 44)
let region = { rbase = base; rsize = Z.pow (zi 2) (zi 32) }

(* descriptor parser: kind | enum | float | double | ptr | fn | arrN(t) | st(t,...) *)
type ty = TyInt of ikind | TyBits of int | TyPtr | TyFn | TyArr of int * ty | TySt of ty list

let parse_desc (s : string) : ty =
  let n = String.length s in
  let pos = ref 0 in
  let ident () =
    let b = !pos in
    while !pos < n && (match s.[!pos] with 'a'..'z' | '0'..'9' -> true | _ -> false) do incr pos done;
    String.sub s b (!pos - b) in
  let expect c = if !pos < n && s.[!pos] = c then incr pos else failwith ("descriptor: expected " ^ String.make 1 c) in
  let rec ty () : ty =
    let id = ident () in
    if id = "st" then begin
      expect '(';
      let fs = ref [ty ()] in
      while !pos < n && s.[!pos] = ',' do incr pos; fs := ty () :: !fs done;
      expect ')'; TySt (List.rev !fs)
    end else if String.length id > 3 && String.sub id 0 3 = "arr" then begin
      let k = int_of_string (String.sub id 3 (String.length id - 3)) in
      expect '('; let e = ty () in expect ')'; TyArr (k, e)
    end else match id with
      | "enum" | "float" -> TyBits 4 | "double" -> TyBits 8 | "ptr" -> TyPtr | "fn" -> TyFn
      | k -> TyInt (kind_of_string k) in
  ty ()

let rec cty_of (t : ty) : cty =
  match t with
  | TyInt k -> TInt k | TyBits 4 -> TFloat | TyBits _ -> TDouble | TyPtr | TyFn -> TPtr
  | TyArr (n, e) -> TArr (zi n, cty_of e) | TySt fs -> TStruct (List.map cty_of fs)

let rec pk_of (t : ty) : pkind =
  match t with
  | TyInt k -> KInt k | TyBits _ -> KBits | TyPtr -> KPtr | TyFn -> KFn
  | TyArr (n, e) -> KStruct (List.init n (fun _ -> pk_of e)) | TySt fs -> KStruct (List.map pk_of fs)

(* consume flat leaf values *)
let rec build (t : ty) (vals : string list ref) : aval =
  let next () = match !vals with v :: tl -> vals := tl; v | [] -> failwith "too few values" in
  match t with
  | TyInt _ | TyBits _ -> VInt (z_of_string (next ()))
  | TyFn -> ignore (next ()); VInt Z0
  | TyPtr -> let off = z_of_string (next ()) in VPtr (if off = Z0 then Z0 else Z.add base off)
  | TyArr (n, e) -> VStruct (List.init n (fun _ -> ()) |> List.map (fun () -> build e vals))
  | TySt fs -> VStruct (List.map (fun f -> build f vals) fs)

let rec show (v : aval) : string =
  match v with
  | VInt z | VPtr z -> string_of_z z
  | VStruct vs -> "(" ^ String.concat "," (List.map show vs) ^ ")"

let handle (toks : string list) : (string * string * string) option =
  match toks with
  | op :: what :: _prog :: d :: vals when String.length op > 4 && (String.sub op 0 4 = "c08l" || String.sub op 0 4 = "c08w" || String.sub op 0 4 = "c08p") ->
    let wide = String.sub op 0 4 = "c08w" in
    let la = if wide then labi_wide else if String.sub op 0 4 = "c08p" then labi_lp32_64 else labi_lp32 in
    let a = if wide then abi_wide else abi_lp32 in
    let t = parse_desc d in
    let fs = (match t with TySt fs -> fs | _ -> failwith "top level must be a struct") in
    let nf = List.length fs in
    if what = "lay" then begin
      let sz = string_of_z (sizeof la (cty_of t)) in
      let offs = String.concat "," (List.map string_of_z (offsets la (List.map cty_of fs))) in
      let s = "size=" ^ sz ^ " offs=" ^ offs ^ " gsize=" ^ sz ^ " goffs=" ^ offs in
      Some (s, s, String.sub op 0 4 ^ ":lay:nf" ^ string_of_int nf)
    end else begin
      let v = build t (ref vals) in
      let p = pk_of t in
      let go conv =
        (match conv a region true p v with
         | Some (Ok g) -> (match conv a region false p g with
             | Some (Ok v') -> (if what = "rt" then "N=ok " else "") ^ "G=" ^ show g ^ " A=" ^ show v' ^ (if what = "rt" then " U=" ^ show v' ^ " C=" ^ show v' else "")
             | Some _ -> "ABORT-BACK" | None -> "ILLTYPED")
         | Some _ -> "ABORT" | None -> "ILLTYPED") in
      let m = go cv and s = go sv in
      Some (m, s, String.sub op 0 4 ^ ":" ^ what ^ ":nf" ^ string_of_int nf ^ (if m = "ABORT" then ":abort" else ""))
    end
  | _ -> None

(* C20 handler *)
open Model
open Util
let zi = z_of_int
let base = Z.pow (zi 2) (zi 44)
let region = { rbase = base; rsize = Z.pow (zi 2) (zi 32) }
let hex_of (l : z list) = String.concat "" (List.map (fun b -> Printf.sprintf "%02x" (int_of_z b)) l)
let abs off = let o = z_of_string off in if o = Z0 then Z0 else Z.add base o

let handle (toks : string list) : (string * string * string) option =
  match toks with
  | ["opq"; k; v] ->
    let v = z_of_string v in
    let img = (match k with
        | "enum" | "float" -> bytes_le (nat_of_int 4) v
        | "double" -> bytes_le (nat_of_int 8) v
        | _ -> image (kind_of_string k) v) in
    let s = "IMG=" ^ hex_of img ^ " OPQ=" ^ hex_of img ^ " BACK=" ^ string_of_z v in
    Some (s, s, "opq:" ^ k)
  | ["opqp"; off] ->
    let a = abs off in
    let img = bytes_le (nat_of_int 8) a in
    let s = "IMG=" ^ hex_of img ^ " OPQ=" ^ hex_of img ^ " BACK=" ^ string_of_z a in
    Some (s, s, "opq:ptr")
  | ["opqs"; a; b; p; c] ->
    let s = "SAMEIMG=1 BACK={" ^ a ^ ";" ^ b ^ ";" ^ string_of_z (abs p) ^ ";" ^ c ^ "}" in
    Some (s, s, "opq:struct")
  | ["opqarg"; w; v] ->
    (* what crosses: from the opaque object's bytes (O) / from the tainted value (T); C20_opaque_crosses_as_tainted says these agree *)
    let v = z_of_string v in
    let crossing = if w = "O" then opaque_to_sbx abi_lp32 ILong (to_opaque_img (image ILong v)) else to_sbx abi_lp32 ILong v in
    let s = (match crossing with
        | Some (Ok x) -> (match to_app abi_lp32 ILong x with
            | Some (Ok r) -> "SAW=" ^ string_of_z x ^ " R=" ^ string_of_z r
            | _ -> "ABORT")
        | _ -> "ABORT") in
    let spec = if Z.leb (z_of_string "-2147483648") v && Z.leb v (z_of_string "2147483647") then "SAW=" ^ string_of_z v ^ " R=" ^ string_of_z v else "ABORT" in
    Some (s, spec, "opq:arg:" ^ w ^ (if s = "ABORT" then ":abort" else ""))
  | ["opqcb"; v] ->
    (* guest long (int32) -> application long -> back *)
    let v = z_of_string v in
    let s = (match to_app abi_lp32 ILong v with
        | Some (Ok x) -> (match to_sbx abi_lp32 ILong x with
            | Some (Ok r) -> "SAW=" ^ string_of_z x ^ " R=" ^ string_of_z r
            | _ -> "ABORT")
        | _ -> "ABORT") in
    Some (s, s, "opq:callback")
  | ["opqcbf"; d; f; l] ->
    (* floating values cross unchanged (bit patterns); the long as in opqcb *)
    let l = z_of_string l in
    let s = (match to_app abi_lp32 ILong l with
        | Some (Ok x) -> "SAW=" ^ d ^ "," ^ f ^ "," ^ string_of_z x ^ " R=" ^ d
        | _ -> "ABORT") in
    Some (s, s, "opq:callback-float")
  | ["scast"; kt; kf; w; v] ->
    let to_ = kind_of_string kt and from = kind_of_string kf and v = z_of_string v in
    (* V: the operand is a cell of sandbox memory: store v through the reference, then cast from the bytes *)
    let cast = if w = "V" then
        (match store_int abi_lp32 from (z_of_string "64") v (fun _ -> z_of_string "165") with
         | Some (Ok m') -> sandbox_static_cast_mem abi_lp32 to_ from (z_of_string "64") m'
         | Some _ -> Some Abort | None -> None)
      else sandbox_static_cast abi_lp32 false to_ from v in
    let m = (match cast with
        | Some (Ok r) -> "V " ^ string_of_z r ^ " P " ^ string_of_z (wrap to_ v)
        | Some _ -> "ABORT" | None -> "NOCOMPILE") in
    let s = "V " ^ string_of_z (wrap to_ v) ^ " P " ^ string_of_z (wrap to_ v) in
    Some (m, s, "scast:" ^ w ^ (if in_range to_ v then ":fits" else ":wraps"))
  | ["retfn"; k] ->
    (* a function-pointer result designates the entry of the function table the guest returned (0: null) *)
    let s = "A " ^ (if k = "0" then "null" else "fn" ^ k) in
    Some (s, s, "retfn")
  | ["pcastfn"; k; w; to_] ->
    (* the cast keeps the designated function: entry k of the table (0: null) *)
    let s = "A " ^ (if k = "0" then "null" else "fn" ^ k) in
    Some (s, s, "pcastfn:" ^ to_ ^ ":" ^ w)
  | ["pcast"; which; w; off] ->
    let a = abs off in
    let stored = if w = "V" then sandbox_ptr region a else a in
    let r = if w = "V" then
        sandbox_ptr_cast_mem (z_of_string "4") region (z_of_string "64") (store_ptr (z_of_string "4") region (z_of_string "64") a (fun _ -> z_of_string "165"))
      else sandbox_ptr_cast false region stored in
    let m = "A " ^ string_of_z r and s = "A " ^ string_of_z a in
    Some (m, s, "pcast:" ^ which ^ ":" ^ w ^ (if a = Z0 then ":null" else ""))
  | _ -> None

// verif_sandbox.hpp — RLBox plug-ins used by the correspondence drivers.
//
// rlbox_verif_sandbox<Cfg> is an *isolating* back end with a foreign ABI whose
// behaviour is exactly the Coq instance `verif` of Backend.v:
//   * region = [base, base + Cfg::region_size), reserved with mmap, guard pages
//     on both sides, the first Cfg::committed bytes (and the last page) RW;
//   * data pointer representation rep = address - base (Cfg::rep_t), every rep
//     translates to an address inside the region (region_size == 2^bits(rep));
//   * function pointers go through a per-instance table;
//   * impl_is_in_same_sandbox(a,b)  <=>  a and b lie in the same live region, or
//     both in none (decided against this file's own registry of live regions,
//     NOT against RLBox's sandbox_list);
//   * the _no_ctx translations go through RLBox's finder with the example
//     pointer, so RLBox's sandbox_list is observable through them;
//   * invoke / callbacks / by-name lookup are supported (guest code is native
//     code written against the guest ABI).
#pragma once
#include <sys/mman.h>
#include <cstdint>
#include <cstdio>
#include <cstdlib>
#include <cstring>
#include <map>
#include <mutex>
#include <string>
#include <utility>
#include <vector>

namespace rlbox {

// set by a driver that wants to act when the back end is consulted (see impl_is_in_same_sandbox)
inline void (*verif_backend_hook)(const char*) = nullptr;

struct verif_region
{
  uintptr_t base;
  size_t size;
  void* owner;
};

inline std::vector<verif_region>& verif_live_regions()
{
  static std::vector<verif_region> regions;
  return regions;
}

// the harness's own registry is shared by all instances: its accesses are serialised (C18 drives
// distinct instances from distinct threads)
inline std::mutex& verif_regions_mutex()
{
  static std::mutex m;
  return m;
}

// identity of the live region containing p: its base address (0: in no live region).  (Not the index in the
// registry: other threads create and destroy their instances between two look-ups.)
inline uintptr_t verif_region_of(const void* p)
{
  auto a = reinterpret_cast<uintptr_t>(p);
  std::lock_guard<std::mutex> g(verif_regions_mutex());
  auto& rs = verif_live_regions();
  for (size_t i = 0; i < rs.size(); i++) {
    if (a >= rs[i].base && a - rs[i].base < rs[i].size) {
      return rs[i].base;
    }
  }
  return 0;
}

// a "library": symbol name -> native guest function (guest ABI signature)
using verif_lib = std::map<std::string, void*>;

struct verif_thread_data
{
  void* sandbox;
  uint32_t last_callback_invoked;
};
inline thread_local verif_thread_data verif_tls{ nullptr, 0 };

struct verif_cfg32
{
  using rep_t = uint32_t;
  using short_t = int16_t;
  using int_t = int32_t;
  using long_t = int32_t;
  using llong_t = int64_t;
  static constexpr size_t region_size = size_t(1) << 32;
  static constexpr size_t committed = size_t(1) << 20;
  static constexpr uint32_t cb_slots = 4;
};

struct verif_cfg16
{
  using rep_t = uint16_t;
  using short_t = int16_t;
  using int_t = int32_t;
  using long_t = int32_t;
  using llong_t = int64_t;
  static constexpr size_t region_size = size_t(1) << 16;
  static constexpr size_t committed = size_t(1) << 16;
  static constexpr uint32_t cb_slots = 4;
};

// LP32-like integers but a pointer representation as wide as the host's (region-relative
// offsets in a uint64_t): same-width-but-not-identity pointer translation
struct verif_cfg64
{
  using rep_t = uint64_t;
  using short_t = int16_t;
  using int_t = int32_t;
  using long_t = int32_t;
  using llong_t = int64_t;
  static constexpr size_t region_size = size_t(1) << 32;
  static constexpr size_t committed = size_t(1) << 20;
  static constexpr uint32_t cb_slots = 4;
};

// guest short=int32, int=long=long long=int64: makes the narrowing-on-load and
// widening-on-store branches reachable through the API
struct verif_cfgwide
{
  using rep_t = uint32_t;
  using short_t = int32_t;
  using int_t = int64_t;
  using long_t = int64_t;
  using llong_t = int64_t;
  static constexpr size_t region_size = size_t(1) << 32;
  static constexpr size_t committed = size_t(1) << 20;
  static constexpr uint32_t cb_slots = 4;
};

// verif32 with the grant / deny primitives (copy_memory_or_grant_access / copy_memory_or_deny_access ask the back end first)
struct verif_cfg32g : verif_cfg32
{
  static constexpr bool can_grant = true;
};
struct verif_grant_yes { using can_grant_deny_access = void; };
struct verif_grant_no {};
template<typename Cfg, typename = void> struct verif_grant_base { using type = verif_grant_no; };
template<typename Cfg> struct verif_grant_base<Cfg, std::enable_if_t<Cfg::can_grant>> { using type = verif_grant_yes; };

// verif32 whose same-sandbox test is built on RLBox's own finder (the 3-parameter form of impl_is_in_same_sandbox, for
// back ends whose memory is not aligned to its size): who owns an address is then decided by RLBox's sandbox_list
struct verif_cfg32f : verif_cfg32
{
  static constexpr bool same_by_finder = true;
};
template<typename Cfg, typename Derived, typename = void>
struct verif_same_base
{
  static inline bool impl_is_in_same_sandbox(const void* p1, const void* p2)
  {
    // (C09: the moment RLBox consults the back end in the middle of a range check is a moment at which the
    //  adversary may rewrite sandbox memory)
    if (verif_backend_hook) verif_backend_hook("be.same");
    return verif_region_of(p1) == verif_region_of(p2);
  }
};
template<typename Cfg, typename Derived>
struct verif_same_base<Cfg, Derived, std::enable_if_t<Cfg::same_by_finder>>
{
  static inline bool impl_is_in_same_sandbox(const void* p1, const void* p2, Derived* (*finder)(const void*))
  {
    if (verif_backend_hook) verif_backend_hook("be.same");
    return finder(p1) == finder(p2);
  }
};

template<typename Cfg>
class rlbox_verif_sandbox : public verif_grant_base<Cfg>::type, public verif_same_base<Cfg, rlbox_verif_sandbox<Cfg>>
{
public:
  using T_LongLongType = typename Cfg::llong_t;
  using T_LongType = typename Cfg::long_t;
  using T_IntType = typename Cfg::int_t;
  using T_PointerType = typename Cfg::rep_t;
  using T_ShortType = typename Cfg::short_t;

  static constexpr size_t PAGE = 4096;
  static constexpr uint32_t MAX_CALLBACKS = Cfg::cb_slots;
  // function-pointer representations: 1.. = function table, CB_BASE.. = callback slots
  static constexpr uint32_t CB_BASE = 0x4000;

  // ---- state (public so that drivers can inspect/inject; RLBox never looks) ----
  uintptr_t map_start = 0;
  size_t map_len = 0;
  uintptr_t base = 0;
  size_t bump = 16;
  bool fail_create = false;           // injected: impl_create_sandbox returns false
  bool malloc_override = false;       // injected: next malloc returns this rep
  T_PointerType malloc_override_val = 0;
  std::vector<T_PointerType> freed;   // log of impl_free_in_sandbox
  const verif_lib* lib = nullptr;
  mutable std::vector<const void*> function_table{ nullptr };
  void* callback_unique_keys[MAX_CALLBACKS]{ nullptr };
  void* callbacks[MAX_CALLBACKS]{ nullptr };
  int lookups = 0;                    // number of impl_lookup_symbol calls
  // drivers set this before create_sandbox so that the region base is a known
  // constant (the Coq model computes with absolute addresses, mod 2^64)
  static inline thread_local uintptr_t fixed_base_hint = 0;

  uintptr_t region_base() const { return base; }

protected:
  // a_fail: 0 = succeed; 1 = fail at once; 2 = fail LATE: the region was already reserved and its base recorded when the
  // failure happens; the reservation is given back but the record of the base stays (a back end is not obliged to
  // clean up what RLBox must not look at: the instance never became a created sandbox)
  inline bool impl_create_sandbox(const verif_lib* a_lib = nullptr, int a_fail = 0)
  {
    if (a_fail == 1 || fail_create) {
      return false;
    }
    if (a_fail == 2) {
      base = fixed_base_hint;
      fixed_base_hint = 0;
      return false;
    }
    lib = a_lib;
    map_len = Cfg::region_size + 2 * PAGE;
    void* m;
    if (fixed_base_hint != 0) {
      m = mmap(reinterpret_cast<void*>(fixed_base_hint - PAGE), map_len, PROT_NONE,
               MAP_PRIVATE | MAP_ANONYMOUS | MAP_NORESERVE | MAP_FIXED_NOREPLACE, -1, 0);
      fixed_base_hint = 0;
    } else {
      m = mmap(nullptr, map_len, PROT_NONE,
               MAP_PRIVATE | MAP_ANONYMOUS | MAP_NORESERVE, -1, 0);
    }
    if (m == MAP_FAILED) {
      std::fprintf(stderr, "verif: mmap failed\n");
      std::abort();
    }
    map_start = reinterpret_cast<uintptr_t>(m);
    base = map_start + PAGE;
    mprotect(reinterpret_cast<void*>(base), Cfg::committed, PROT_READ | PROT_WRITE);
    // last page committed too, so that objects ending at the last byte exist
    mprotect(reinterpret_cast<void*>(base + Cfg::region_size - PAGE), PAGE,
             PROT_READ | PROT_WRITE);
    bump = 16;
    {
      std::lock_guard<std::mutex> g(verif_regions_mutex());
      verif_live_regions().push_back(verif_region{ base, Cfg::region_size, this });
    }
    return true;
  }

  inline void impl_destroy_sandbox()
  {
    {
      std::lock_guard<std::mutex> g(verif_regions_mutex());
      auto& rs = verif_live_regions();
      for (size_t i = 0; i < rs.size(); i++) {
        if (rs[i].owner == this) {
          rs.erase(rs.begin() + static_cast<long>(i));
          break;
        }
      }
    }
    munmap(reinterpret_cast<void*>(map_start), map_len);
    base = 0;
    map_start = 0;
  }

  template<typename T>
  inline void* impl_get_unsandboxed_pointer(T_PointerType p) const
  {
    if constexpr (std::is_function_v<std::remove_pointer_t<T>>) {
      if (p >= CB_BASE) {
        // callback entry points have no application address of their own
        return reinterpret_cast<void*>(static_cast<uintptr_t>(p));
      }
      if (p >= function_table.size()) {
        return nullptr;
      }
      return const_cast<void*>(function_table[p]);
    } else {
      // every representation designates a byte of the region (a representation wider than the region is masked)
      return reinterpret_cast<void*>(base + (static_cast<uintptr_t>(p) & (Cfg::region_size - 1)));
    }
  }

  template<typename T>
  inline T_PointerType impl_get_sandboxed_pointer(const void* p) const
  {
    if constexpr (std::is_function_v<std::remove_pointer_t<T>>) {
      for (size_t i = 1; i < function_table.size(); i++) {
        if (function_table[i] == p) {
          return static_cast<T_PointerType>(i);
        }
      }
      function_table.push_back(p);
      return static_cast<T_PointerType>(function_table.size() - 1);
    } else {
      return static_cast<T_PointerType>(reinterpret_cast<uintptr_t>(p) - base);
    }
  }

  template<typename T>
  static inline void* impl_get_unsandboxed_pointer_no_ctx(
    T_PointerType p,
    const void* example_unsandboxed_ptr,
    rlbox_verif_sandbox* (*expensive_sandbox_finder)(const void*))
  {
    // (a pointer representation has just been fetched from sandbox memory: a moment at which the adversary may act)
    if (verif_backend_hook) verif_backend_hook("be.xlate");
    auto sandbox = expensive_sandbox_finder(example_unsandboxed_ptr);
    detail::dynamic_check(sandbox != nullptr, "verif: example pointer is in no live sandbox");
    return sandbox->template impl_get_unsandboxed_pointer<T>(p);
  }

  template<typename T>
  static inline T_PointerType impl_get_sandboxed_pointer_no_ctx(
    const void* p,
    const void* example_unsandboxed_ptr,
    rlbox_verif_sandbox* (*expensive_sandbox_finder)(const void*))
  {
    auto sandbox = expensive_sandbox_finder(example_unsandboxed_ptr);
    detail::dynamic_check(sandbox != nullptr, "verif: example pointer is in no live sandbox");
    return sandbox->template impl_get_sandboxed_pointer<T>(p);
  }

  inline T_PointerType impl_malloc_in_sandbox(size_t size)
  {
    if (malloc_override) {
      malloc_override = false;
      return malloc_override_val;
    }
    size_t rounded = (size + 15) & ~size_t(15);
    if (bump + rounded > Cfg::committed - PAGE) {
      return 0;
    }
    auto ret = static_cast<T_PointerType>(bump);
    bump += rounded;
    return ret;
  }

  inline void impl_free_in_sandbox(T_PointerType p) { freed.push_back(p); }

public:
  // grant / deny (only reachable when Cfg::can_grant): what a real back end does by remapping pages is injected here -
  // whether it succeeds and which address it answers with; the calls are counted with the range they were given
  bool grant_succeeds = false;
  uintptr_t grant_answer = 0;
  int grant_calls = 0, deny_calls = 0;
  int unregister_calls = 0;      // how often the front end asked the back end to release an entry point
  uintptr_t last_transfer_start = 0;
  size_t last_transfer_num = 0;
protected:
  template<typename T>
  inline T* impl_grant_access(T* src, size_t num, bool& success)
  {
    grant_calls++; last_transfer_start = reinterpret_cast<uintptr_t>(src); last_transfer_num = num;
    success = grant_succeeds;
    return reinterpret_cast<T*>(grant_answer);
  }
  template<typename T>
  inline T* impl_deny_access(T* src, size_t num, bool& success)
  {
    deny_calls++; last_transfer_start = reinterpret_cast<uintptr_t>(src); last_transfer_num = num;
    success = grant_succeeds;
    return reinterpret_cast<T*>(grant_answer);
  }

  using verif_same_base<Cfg, rlbox_verif_sandbox<Cfg>>::impl_is_in_same_sandbox;

  inline bool impl_is_pointer_in_sandbox_memory(const void* p)
  {
    auto a = reinterpret_cast<uintptr_t>(p);
    return base != 0 && a >= base && a - base < Cfg::region_size;
  }

  inline bool impl_is_pointer_in_app_memory(const void* p)
  {
    return !impl_is_pointer_in_sandbox_memory(p);
  }

  inline size_t impl_get_total_memory() { return Cfg::region_size; }

  inline void* impl_get_memory_location() { return reinterpret_cast<void*>(base); }

  void* impl_lookup_symbol(const char* func_name)
  {
    lookups++;
    detail::dynamic_check(lib != nullptr, "verif: sandbox has no library");
    auto it = lib->find(func_name);
    detail::dynamic_check(it != lib->end(), "verif: symbol not found");
    return it->second;
  }

  template<typename T, typename T_Converted, typename... T_Args>
  auto impl_invoke_with_func_ptr(T_Converted* func_ptr, T_Args&&... params)
  {
    auto old_sandbox = verif_tls.sandbox;
    verif_tls.sandbox = this;
    auto on_exit = detail::make_scope_exit([&] { verif_tls.sandbox = old_sandbox; });
    return (*func_ptr)(params...);
  }

  template<typename T_Ret, typename... T_Args>
  inline T_PointerType impl_register_callback(void* key, void* callback)
  {
    for (uint32_t i = 0; i < MAX_CALLBACKS; i++) {
      if (callback_unique_keys[i] == nullptr) {
        callback_unique_keys[i] = key;
        callbacks[i] = callback;
        return static_cast<T_PointerType>(CB_BASE + i);
      }
    }
    detail::dynamic_check(false, "verif: no free callback entry point");
    return 0;
  }

  static inline std::pair<rlbox_verif_sandbox*, void*>
  impl_get_executed_callback_sandbox_and_key()
  {
    auto sandbox = reinterpret_cast<rlbox_verif_sandbox*>(verif_tls.sandbox);
    void* key = sandbox->callback_unique_keys[verif_tls.last_callback_invoked];
    return std::make_pair(sandbox, key);
  }

  template<typename T_Ret, typename... T_Args>
  inline void impl_unregister_callback(void* key)
  {
    unregister_calls++;
    // (C13: the moment the back end is asked to release an entry point is a moment at which another thread may try to
    //  register the same function)
    if (verif_backend_hook) verif_backend_hook("be.unreg");
    for (uint32_t i = 0; i < MAX_CALLBACKS; i++) {
      if (callback_unique_keys[i] == key) {
        callback_unique_keys[i] = nullptr;
        callbacks[i] = nullptr;
        break;
      }
    }
  }

public:
  // What guest code does when it calls through a function-pointer value it
  // holds: index the (callback part of the) function table.
  template<typename T_Ret, typename... T_Args>
  static T_Ret guest_call_callback(T_PointerType rep, T_Args... args)
  {
    auto sandbox = reinterpret_cast<rlbox_verif_sandbox*>(verif_tls.sandbox);
    uint32_t slot = static_cast<uint32_t>(rep) - CB_BASE;
    if (sandbox == nullptr || slot >= MAX_CALLBACKS || sandbox->callbacks[slot] == nullptr) {
      throw std::runtime_error("GUEST-TRAP: call through a dead entry point");
    }
    verif_tls.last_callback_invoked = slot;
    using T_Func = T_Ret (*)(T_Args...);
    auto func = reinterpret_cast<T_Func>(sandbox->callbacks[slot]);
    return func(args...);
  }
};

using rlbox_verif32_sandbox = rlbox_verif_sandbox<verif_cfg32>;
using rlbox_verif16_sandbox = rlbox_verif_sandbox<verif_cfg16>;
using rlbox_verifwide_sandbox = rlbox_verif_sandbox<verif_cfgwide>;
using rlbox_verif64_sandbox = rlbox_verif_sandbox<verif_cfg64>;

}

"""M3 — translator from clang's AST of the INSTANTIATED convert_type_fundamental<T_To, T_From>
(every ordered pair of the 15 integer types) to programs of the language of coq/ConvAst.v, one
generated lemma per instantiated function: forall v in range of T_From, crun prog v = conv_spec T_To v.
Unknown AST shapes make the translator fail loudly."""
import json
import os
import subprocess

KINDS = {"bool": "bool", "char": "char", "schar": "signed char", "uchar": "unsigned char", "short": "short", "ushort": "unsigned short",
         "int": "int", "uint": "unsigned int", "long": "long", "ulong": "unsigned long", "llong": "long long", "ullong": "unsigned long long",
         "char16": "char16_t", "char32": "char32_t", "wchar": "wchar_t"}
COQK = {"bool": "IBool", "char": "IChar", "schar": "ISChar", "uchar": "IUChar", "short": "IShort", "ushort": "IUShort", "int": "IInt", "uint": "IUInt",
        "long": "ILong", "ulong": "IULong", "llong": "ILLong", "ullong": "IULLong", "char16": "IChar16", "char32": "IChar32", "wchar": "IWChar"}
BYTYPE = {v: k for k, v in KINDS.items()}
N2 = {("bool", "char"), ("bool", "schar"), ("bool", "uchar")}


class Unknown(Exception):
    pass


def kind_of_type(q):
    q = q.replace("const ", "").replace("volatile ", "").replace("&", "").strip()
    if q in BYTYPE:
        return BYTYPE[q]
    raise Unknown("type " + q)


def dump_ast(include, workdir, compiler="clang++"):
    tu = os.path.join(workdir, "m3_tu.cpp")
    with open(tu, "w") as f:
        f.write('#define RLBOX_SINGLE_THREADED_INVOCATIONS\n#include "rlbox.hpp"\nnamespace rlbox::detail {\n')
        for a in KINDS.values():
            for b in KINDS.values():
                f.write("template void convert_type_fundamental<%s, %s>(%s&, const volatile %s&);\n" % (a, b, a, b))
        f.write("}\n")
    # the filter keeps every declaration of namespace rlbox::detail: the instantiated functions AND any helper they call
    r = subprocess.run([compiler, "-std=c++17", "-w", "-I" + include, "-fsyntax-only", "-Xclang", "-ast-dump=json",
                        "-Xclang", "-ast-dump-filter=rlbox::detail", tu], stdout=subprocess.PIPE, stderr=subprocess.PIPE, text=True)
    if r.returncode != 0:
        raise Unknown("clang failed on the instantiation TU: " + r.stderr[-1500:])
    txt = r.stdout
    dec = json.JSONDecoder()
    docs, i = [], 0
    while i < len(txt):
        while i < len(txt) and txt[i].isspace():
            i += 1
        if i >= len(txt):
            break
        d, i = dec.raw_decode(txt, i)
        docs.append(d)
    flat = []

    def walk(d):
        if d.get("kind") == "NamespaceDecl":
            for c in d.get("inner", []):
                walk(c)
        else:
            flat.append(d)
    for d in docs:
        walk(d)
    docs = flat
    fts = [d for d in docs if d.get("kind") == "FunctionTemplateDecl" and d.get("name") == "convert_type_fundamental"]
    if not fts:
        raise Unknown("convert_type_fundamental not found in the AST dump")
    FUNCS.clear()
    for d in docs:
        if d.get("kind") == "FunctionTemplateDecl":
            for c in d.get("inner", []):
                if c.get("kind") in ("FunctionDecl", "CXXMethodDecl"):
                    FUNCS[c.get("id")] = c
        elif d.get("kind") in ("FunctionDecl", "CXXMethodDecl"):
            FUNCS[d.get("id")] = d
    return [c for c in fts[0]["inner"] if c["kind"] == "FunctionDecl"]


FUNCS = {}   # id -> FunctionDecl (with body when defined) of this clang run: helpers are inlined through it
NEG = {"<": ">=", "<=": ">", ">": "<=", ">=": "<"}


class Tr:
    """one instantiated body -> list of statements"""
    def __init__(self):
        self.vars = {}
        self.out = []
        self.assigned = False
        self.depth = 0

    def stmt(self, n):
        k = n.get("kind")
        if k == "CompoundStmt":
            for c in n.get("inner", []):
                if self.assigned:
                    raise Unknown("statement after the assignment")
                self.stmt(c)
        elif k == "IfStmt":
            inner = list(n.get("inner", []))
            if n.get("hasInit"):
                self.stmt(inner.pop(0))
            cond = inner.pop(0)
            if cond.get("kind") != "ConstantExpr" or "value" not in cond:
                raise Unknown("run-time if statement")
            val = cond["value"]
            if val not in ("true", "false"):
                raise Unknown("if-constexpr value " + str(val))
            then = inner.pop(0) if inner else None
            els = inner.pop(0) if inner else None
            if val == "true":
                if then is not None:
                    self.stmt(then)
            elif els is not None:
                self.stmt(els)
        elif k == "DeclStmt":
            for c in n.get("inner", []):
                ck = c.get("kind")
                if ck in ("UsingDirectiveDecl", "StaticAssertDecl", "TypeAliasDecl", "TypedefDecl", "UsingDecl"):
                    continue
                if ck == "VarDecl":
                    name = c.get("name")
                    init = [x for x in c.get("inner", [])]
                    try:
                        if len(init) != 1:
                            raise Unknown("variable without a single initialiser: " + str(name))
                        self.vars[name] = self.expr(init[0])
                    except Unknown as ex:
                        # compile-time flags, message strings...: an error only if the value is used
                        self.vars[name] = ("poison", "%s: %s" % (name, ex))
                else:
                    raise Unknown("declaration " + str(ck))
        elif k in ("NullStmt",):
            pass
        elif k == "CStyleCastExpr" and n.get("castKind") == "ToVoid":
            pass
        elif k == "CallExpr":
            callee = self.callee_name(n)
            if callee != "dynamic_check":
                self.inline(n, callee)
                return
            args = n["inner"][1:]
            c = self.strip(args[0])
            neg = False
            while c.get("kind") == "UnaryOperator" and c.get("opcode") == "!":
                neg = not neg
                c = self.strip(c["inner"][0])
            if c.get("kind") != "BinaryOperator" or c.get("opcode") not in ("<=", ">=", "<", ">"):
                raise Unknown("dynamic_check condition " + str(c.get("kind")) + " " + str(c.get("opcode")))
            a, b = c["inner"]
            op = NEG[c["opcode"]] if neg else c["opcode"]      # integers: !(a < b) is a >= b
            self.out.append(("check", op, self.expr(a), self.expr(b)))
        elif k == "BinaryOperator" and n.get("opcode") == "=":
            lhs, rhs = n["inner"]
            if self.ref_name(lhs) != "to":
                raise Unknown("assignment to something else than `to`")
            self.out.append(("assign", self.expr(rhs)))
            self.assigned = True
        else:
            raise Unknown("statement kind " + str(k))

    def inline(self, n, callee):
        """a call to a helper whose body is in the AST: its checks are taken over, parameters bound to the arguments"""
        c = n["inner"][0]
        while c.get("kind") == "ImplicitCastExpr":
            c = c["inner"][0]
        c = self.strip(c)
        fid = c.get("referencedDecl", {}).get("id") if c.get("kind") == "DeclRefExpr" else None
        h = FUNCS.get(fid)
        body = [y for y in (h or {}).get("inner", []) if y.get("kind") == "CompoundStmt"]
        if not body or self.depth > 4:
            raise Unknown("call to " + str(callee))
        params = [p for p in h.get("inner", []) if p.get("kind") == "ParmVarDecl"]
        args = n["inner"][1:]
        if len(params) != len(args):
            raise Unknown("helper arity: " + str(callee))
        sub = Tr()
        sub.depth = self.depth + 1
        for p, a in zip(params, args):
            try:
                sub.vars[p.get("name")] = self.expr(a)
            except Unknown as ex:
                sub.vars[p.get("name")] = ("poison", "%s: %s" % (p.get("name"), ex))
        sub.stmt(body[0])
        if sub.assigned:
            raise Unknown("helper assigns the result: " + str(callee))
        self.out += sub.out

    def strip(self, n):
        while n.get("kind") in ("ParenExpr", "ExprWithCleanups"):
            n = n["inner"][0]
        return n

    def ref_name(self, n):
        n = self.strip(n)
        if n.get("kind") == "DeclRefExpr":
            return n.get("referencedDecl", {}).get("name")
        return None

    def callee_name(self, n):
        c = n["inner"][0]
        while c.get("kind") == "ImplicitCastExpr":
            c = c["inner"][0]
        return self.ref_name(c)

    def expr(self, n):
        n = self.strip(n)
        k = n.get("kind")
        if k == "ImplicitCastExpr" or k == "CXXStaticCastExpr" or k == "CStyleCastExpr" or k == "CXXFunctionalCastExpr":
            ck = n.get("castKind")
            inner = self.expr(n["inner"][0])
            if ck in ("LValueToRValue", "NoOp"):
                return inner
            if ck in ("IntegralCast", "IntegralToBoolean"):
                return ("cast", kind_of_type(n["type"]["qualType"]), inner)
            raise Unknown("cast kind " + str(ck))
        if k == "DeclRefExpr":
            name = n.get("referencedDecl", {}).get("name")
            if name in self.vars:
                v = self.vars[name]
                if v[0] == "poison":
                    raise Unknown("use of untranslated variable " + v[1])
                return v
            if name == "from":
                return ("var",)
            raise Unknown("reference to " + str(name))
        if k == "IntegerLiteral":
            return ("lit", int(n["value"]))
        if k == "CXXBoolLiteralExpr":
            return ("lit", 1 if n.get("value") else 0)
        if k == "CallExpr":
            callee = self.callee_name(n)
            if callee in ("max", "min") and len(n["inner"]) == 1:
                return ("limit", kind_of_type(n["type"]["qualType"]), callee == "max")
            raise Unknown("call in expression: " + str(callee))
        raise Unknown("expression kind " + str(k))


def coq_expr(e):
    if e[0] == "var":
        return "EVar"
    if e[0] == "lit":
        return "(ELit (%d))" % e[1]
    if e[0] == "limit":
        return "(ELimit %s %s)" % (COQK[e[1]], "true" if e[2] else "false")
    if e[0] == "cast":
        return "(ECast %s %s)" % (COQK[e[1]], coq_expr(e[2]))
    raise Unknown("expr " + str(e))


CMP = {"<=": "CLe", ">=": "CGe", "<": "CLt", ">": "CGt"}


def translate(include, workdir):
    """returns (list of (to, from, statements), text of the generated Coq files by shard)"""
    specs = dump_ast(include, workdir)
    progs = {}
    for s in specs:
        q = s.get("type", {}).get("qualType", "")
        # void (T_To &, const volatile T_From &)
        if not q.startswith("void (") or "&" not in q:
            continue
        a, b = q[len("void ("):-1].split(",")
        try:
            kt, kf = kind_of_type(a), kind_of_type(b)
        except Unknown:
            continue
        body = [c for c in s.get("inner", []) if c.get("kind") == "CompoundStmt"]
        if not body:
            continue
        t = Tr()
        # the source is the second parameter, whatever it is called (a local initialised from it is an alias: the
        # translated program reads the source once per occurrence, which for a pure model is the same thing)
        ps = [c for c in s.get("inner", []) if c.get("kind") == "ParmVarDecl"]
        if len(ps) >= 2 and ps[1].get("name"):
            t.vars[ps[1]["name"]] = ("var",)
        t.stmt(body[0])
        if not t.assigned:
            raise Unknown("no assignment to `to` in convert_type_fundamental<%s,%s>" % (kt, kf))
        progs[(kt, kf)] = t.out
    missing = [(a, b) for a in KINDS for b in KINDS if (a, b) not in progs]
    if missing:
        raise Unknown("instantiations missing from the AST: " + str(missing[:5]))
    return progs


def emit(progs, nshards=5):
    keys = sorted(progs)
    shards = []
    for sh in range(nshards):
        lines = ["(* generated by harness/m3_ast.py from clang's AST of the instantiated convert_type_fundamental — do not edit *)",
                 "From RLBoxV Require Import ConvAst.", "Local Open Scope Z_scope.", ""]
        for (kt, kf) in keys[sh::nshards]:
            stmts = []
            for st in progs[(kt, kf)]:
                if st[0] == "check":
                    stmts.append("SCheck %s %s %s" % (CMP[st[1]], coq_expr(st[2]), coq_expr(st[3])))
                else:
                    stmts.append("SAssign %s" % coq_expr(st[1]))
            name = "prog_%s_%s" % (kt, kf)
            lines.append("Definition %s : list cstmt := [%s]." % (name, "; ".join(stmts)))
            if (kt, kf) in N2:
                lines.append("(* N2 pair (bool from another 1-byte type): outside C06's quantifier, no lemma *)")
            else:
                lines.append("Lemma %s_ok : forall v, in_range %s v = true -> crun %s v = conv_spec %s v." % (name, COQK[kf], name, COQK[kt]))
                lines.append("Proof. unfold %s. conv_ast_tac. Qed." % name)
            lines.append("")
        shards.append("\n".join(lines) + "\n")
    return shards

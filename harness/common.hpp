// common.hpp — shared by all correspondence drivers: case-file loop, tokens,
// integer-kind dispatch, canonical printing.
#pragma once
#include <csetjmp>
#include <csignal>
#include <cstdint>
#include <cstdio>
#include <cstdlib>
#include <cstring>
#include <fstream>
#include <iostream>
#include <sstream>
#include <stdexcept>
#include <string>
#include <type_traits>
#include <vector>
#include <unistd.h>

namespace vh {

using toks_t = std::vector<std::string>;

inline toks_t split(const std::string& s, char sep = ' ')
{
  toks_t out;
  std::string cur;
  for (char c : s) {
    if (c == sep) {
      if (!cur.empty() || sep != ' ') out.push_back(cur);
      cur.clear();
    } else {
      cur.push_back(c);
    }
  }
  if (!cur.empty() || (sep != ' ' && !s.empty())) out.push_back(cur);
  return out;
}

template<typename T>
struct tag
{
  using type = T;
};

// integer kinds, names as in ocaml/util.ml
template<typename F>
inline bool with_kind(const std::string& n, F&& f)
{
  if (n == "bool") { f(tag<bool>{}); return true; }
  if (n == "char") { f(tag<char>{}); return true; }
  if (n == "schar") { f(tag<signed char>{}); return true; }
  if (n == "uchar") { f(tag<unsigned char>{}); return true; }
  if (n == "short") { f(tag<short>{}); return true; }
  if (n == "ushort") { f(tag<unsigned short>{}); return true; }
  if (n == "int") { f(tag<int>{}); return true; }
  if (n == "uint") { f(tag<unsigned int>{}); return true; }
  if (n == "long") { f(tag<long>{}); return true; }
  if (n == "ulong") { f(tag<unsigned long>{}); return true; }
  if (n == "llong") { f(tag<long long>{}); return true; }
  if (n == "ullong") { f(tag<unsigned long long>{}); return true; }
  if (n == "char16") { f(tag<char16_t>{}); return true; }
  if (n == "char32") { f(tag<char32_t>{}); return true; }
  if (n == "wchar") { f(tag<wchar_t>{}); return true; }
  return false;
}

template<typename T>
inline T parse_int(const std::string& s)
{
  if constexpr (std::is_signed_v<T>) {
    return static_cast<T>(std::strtoll(s.c_str(), nullptr, 10));
  } else {
    return static_cast<T>(std::strtoull(s.c_str(), nullptr, 10));
  }
}

inline unsigned long long parse_u64(const std::string& s)
{
  return std::strtoull(s.c_str(), nullptr, 10);
}
inline long long parse_i64(const std::string& s)
{
  return std::strtoll(s.c_str(), nullptr, 10);
}

template<typename T>
inline std::string show_int(T v)
{
  if constexpr (std::is_same_v<T, bool>) {
    return v ? "1" : "0";
  } else if constexpr (std::is_signed_v<T>) {
    return std::to_string(static_cast<long long>(v));
  } else {
    return std::to_string(static_cast<unsigned long long>(v));
  }
}

template<typename T>
inline std::vector<T> parse_list(const std::string& s)
{
  std::vector<T> out;
  if (s == "-" || s.empty()) return out;
  for (auto& t : split(s, ',')) out.push_back(parse_int<T>(t));
  return out;
}

// a hardware fault (null / guard page access) inside a case is an outcome, not
// the end of the run: recover with siglongjmp and report FAULT
inline sigjmp_buf g_fault_jmp;
inline volatile sig_atomic_t g_in_case = 0;
inline void fault_handler(int sig)
{
  if (g_in_case) siglongjmp(g_fault_jmp, sig);
  if (sig == SIGALRM) return;
  std::signal(sig, SIG_DFL);
  std::raise(sig);
}
inline void install_fault_handler()
{
  static char altstack[1 << 16];
  stack_t ss;
  ss.ss_sp = altstack; ss.ss_size = sizeof(altstack); ss.ss_flags = 0;
  sigaltstack(&ss, nullptr);
  struct sigaction sa;
  std::memset(&sa, 0, sizeof(sa));
  sa.sa_handler = fault_handler;
  sa.sa_flags = SA_NODEFER | SA_ONSTACK;
  sigaction(SIGSEGV, &sa, nullptr);
  sigaction(SIGBUS, &sa, nullptr);
  sigaction(SIGALRM, &sa, nullptr);   // a case that does not terminate is an outcome too (TIMEOUT)
}
inline unsigned case_timeout()
{
  const char* e = std::getenv("VERIF_CASE_TIMEOUT");
  return e ? unsigned(std::atoi(e)) : 20u;
}

// main loop: argv[1] = case file, argv[2] = number of leading cases to skip
// (used by the runner to resume after a crash).  One result line per case.
template<typename F>
inline int case_loop(int argc, char** argv, F&& run_case)
{
  if (argc < 2) {
    std::fprintf(stderr, "usage: %s <cases> [skip]\n", argv[0]);
    return 2;
  }
  std::ifstream in(argv[1]);
  long skip = argc > 2 ? std::atol(argv[2]) : 0;
  std::string line;
  long n = 0;
  install_fault_handler();
  while (std::getline(in, line)) {
    if (n++ < skip) continue;
    toks_t toks = split(line);
    std::string out;
    int sig = sigsetjmp(g_fault_jmp, 1);
    if (sig != 0) {
      g_in_case = 0;
      alarm(0);
      std::fputs(sig == SIGALRM ? "TIMEOUT\n" : "FAULT\n", stdout);
      std::fflush(stdout);
      if (sig == SIGALRM) _exit(4);   // state after an interrupted case is unknown: the runner restarts us at the next case
      continue;
    }
    g_in_case = 1;
    alarm(case_timeout());
    try {
      out = run_case(toks);
    } catch (const std::runtime_error& e) {
      if (std::strncmp(e.what(), "GUEST-TRAP", 10) == 0) out = "TRAP";
      else if (std::strncmp(e.what(), "HARNESS", 7) == 0) out = std::string("HARNESS-ERROR ") + e.what();
      else out = "ABORT";
    } catch (...) {
      out = "EXC";
    }
    g_in_case = 0;
    alarm(0);
    std::fputs(out.c_str(), stdout);
    std::fputc('\n', stdout);
    std::fflush(stdout);
  }
  return 0;
}

}

"""C03 — every tainted data pointer is null or points into its own sandbox."""
import itertools
from harness.props.ptrcommon import *
PROP = "C03"
COQ_FILES = ["Machine.v", "Ptr.v", "Ptr_proofs.v"]
DRIVERS = drivers("CHAIN", ["chain", "xlate"], CFG_XL) + drivers("CHAIN", ["chain"], CFG_F) + \
    [dict(name="ptr_grant_32", src="ptr.cpp", defines=["VERIF_CFG=verif_cfg32g", "PART_BULK", "PTR_GRANT"], ops=["ggrant32"])]   # back end WITH grant/deny


def alphabet(cfg, c):
    A, Bb = c["bases"]
    size = c["size"]
    mx = size - 1
    return ["a:2:1:long", "a:2:3:ps", "a:0:1:int", "a:1:1:int", "a:0:%d:char" % (size - 200), "a:0:-1:llong", "a:0:1:ps", "a:1:2:ps",
            "a:0:%d:int" % (1 << 30), "a:1:%d:char" % 64, "pp:int", "mm:ps", "pp:char", "i:0:int", "i:1:ps", "i:-1:int", "i:3:larr3", "i:%d:char" % (size - 1),
            "f:a", "f:d", "f:e", "e:3", "e:4", "e:4294967299", "e:18446744073709551615", "c", "l:0", "l:16", "l:%d" % mx, "l:%d" % (size - 4), "lc:16:r", "lc:%d:c" % (size - 4), "g:0", "g:%d" % mx, "g:64",
            "m:1:char:64", "m:2:ps:%d" % (size - 40), "m:1:int:%d" % mx, "m:3:int:0", "r:%d" % (A + 128), "r:%d" % (Bb + 128),
            "r:%d" % APP_BASE, "u:%d" % (A + size - 1), "n"]


def gen_cases(tier, rng):
    cases = []
    for cfg, c in CFG_XL.items():
        A, Bb = c["bases"]
        size = c["size"]
        alpha = alphabet(cfg, c)
        starts = [0, A, A + size - 1, A + 4096, A + size - 4096 + 8, A + 64]
        # every position a guest pointer representation can occupy
        reps = {0, 1, 2, 3, 4, 15, 16, size - 1, size - 2, size - 4, size - 8, size // 2, size // 2 - 1, 4095, 4096, 4097}
        if cfg == "16" and tier == "thorough":
            reps.update(range(0, 65536))
        else:
            for _ in range(150 if tier == "quick" else 3000):
                reps.add(rng.randrange(0, size))
        for r in sorted(reps):
            cases.append("chain%s 0 g:%d" % (cfg, r))
            cases.append("chain%s 0 cb:%d" % (cfg, r))
            cases.append("chain%s %d l:%d" % (cfg, A + 64, r))
            cases.append("chain%s %d l:%d" % (cfg, A + size - 16, r))
            # the same cell read by a sandbox cast applied directly to the tainted_volatile (reinterpret / const / static)
            cases.append("chain%s %d lc:%d:%s" % (cfg, A + 64, r, "rcs"[r % 3]))
            cases.append("xlate%s arr toapp %d %d" % (cfg, r, A + 128))
            cases.append("xlate%s field toapp %d %d" % (cfg, r, A + 256))
            cases.append("xlate%s cell toapp %d %d" % (cfg, r, Bb + 64))
            cases.append("xlate%s ret toapp %d" % (cfg, r))
            cases.append("xlate%s cbarg toapp %d" % (cfg, r))
        # chains: exhaustive to depth 2 (quick) / 3 (thorough), random deeper
        depth = 2 if tier == "quick" else 3
        for st in starts:
            for d in range(1, depth + 1):
                if d == 3:
                    combos = itertools.product(alpha, repeat=3)
                    combos = [x for x in combos if rng.random() < 0.25]
                else:
                    combos = itertools.product(alpha, repeat=d)
                for ops in combos:
                    cases.append("chain%s %d %s" % (cfg, st, " ".join(ops)))
        for _ in range(3000 if tier == "quick" else 30000):
            st = rng.choice(starts)
            n = rng.randrange(3, 12)
            ops = [rng.choice(alpha) for _ in range(n)]
            cases.append("chain%s %d %s" % (cfg, st, " ".join(ops)))
    # the back end whose same-sandbox test is built on RLBox's finder, with ONE sandbox alive
    for cfg, c in CFG_F.items():
        A = c["bases"][0]
        size = c["size"]
        alpha = alphabet(cfg, c)
        for st in [0, A, A + size - 1, A + 4096, A + 64]:
            for d in (1, 2):
                for ops in itertools.product(alpha, repeat=d):
                    cases.append("chain%s %d %s" % (cfg, st, " ".join(ops)))
        for _ in range(1000 if tier == "quick" else 10000):
            st = rng.choice([0, A, A + size - 1, A + 4096, A + 64])
            ops = [rng.choice(alpha) for _ in range(rng.randrange(3, 10))]
            cases.append("chain%s %d %s" % (cfg, st, " ".join(ops)))
    # cb must be last in a chain (the driver reports the callback's argument and stops): already true (only used alone)
    # granting access (a back end that can grant): the tainted pointer handed back is the back end's answer only when the back end
    # SAID it succeeded; a declined request (whatever pointer it hands back, typically the source itself) falls through to the copy
    c32 = CFG_XL["32"]
    A = c32["bases"][0]
    for num in (1, 16, 4096):
        for src in (APP_BASE + 64, APP_BASE + 4096):
            cases.append("ggrant32 %d %d 1 %d %d" % (src, num, A + 8192, 4096))          # accepted: answer inside the sandbox
            cases.append("ggrant32 %d %d 0 %d %d" % (src, num, src, 4096))               # declined, hands the source back
            cases.append("ggrant32 %d %d 0 %d %d" % (src, num, A + 8192, 4096))          # declined, some other non-null pointer
            cases.append("ggrant32 %d %d 0 %d %d" % (src, num, 0, 4096))                 # declined, null
    return cases


canon = canon


def NONTRIVIAL(case, model, cls):
    return True


RULE = ("two live sandboxes (verif16: whole 2^16 representation space; verif32). (1) guest representations {0,1,..,size-1 boundaries, random; all 65536 on verif16 thorough} "
        "in every position: call result, callback argument, pointer cell (first/last bytes), array element, struct field (whole-struct and field load), cell in the other sandbox; "
        "(2) chains of pointer producers over an alphabet of 37 concrete operations (+,-,[] with strides of 5 pointee types, field/element address, casts/opaque, load of an "
        "adversarial pointer cell, guest results, malloc with arbitrary back-end return, assign_raw_pointer/UNSAFE_accept_pointer, null) from {null, first byte, last byte, interior}: "
        "exhaustive to depth 2 (quick)/3 (thorough, sampled 25%), random to depth 11. Each produced pointer is read with UNSAFE_unverified and compared with the model; "
        "the oracle is ptr_inv (null or inside sandbox A).")
TRUSTED = ["model coq/Ptr.v (run_chain, step_pop, translation) hand-written; tied by differential correspondence with absolute addresses"]
ASSUMPTIONS = ["back end satisfies world_ok and translates every representation into its region (rsize = 2^bits(rep)); shown necessary by C03_needs_total_translation",
               "function pointers are outside this property"]

"""C08 — struct marshalling follows the sandbox ABI layout and round-trips every field.

Generated programs: per run a family of structs is drawn from a grammar covering every field
kind (each integer width/signedness, bool, enum, float/double, object pointer, function
pointer, char arrays, integer arrays, arrays of pointers, nested registered struct) in random
order; for each the generator emits the struct, an independently declared guest-image struct
with fixed-width types, the sandbox_fields_reflection macros and a driver."""
import os
import random
from . import c06, c11

PROP = "C08"
COQ_FILES = ["Machine.v", "Conv.v", "Conv_proofs.v", "Ptr.v", "Ptr_proofs.v", "Layout.v", "Layout_proofs.v", "Invoke.v", "Invoke_proofs.v"]
DRIVERS = []
PROGRAMS = []    # list of (name, type) top-level structs; type = ("st", name, fields)
SHARD = 6

INTK = c11.INTK
CT = c11.CTYPE


def rand_leaf(rng):
    r = rng.random()
    if r < 0.62:
        return ("int", rng.choice(INTK))
    if r < 0.70:
        return ("enum",)
    if r < 0.76:
        return ("float",)
    if r < 0.82:
        return ("double",)
    if r < 0.95:
        return ("ptr",)
    return ("fn",)


def rand_field(rng, inner):
    r = rng.random()
    if r < 0.6:
        return rand_leaf(rng)
    if r < 0.7:
        return ("arr", rng.randrange(1, 10), ("int", "char"))
    if r < 0.8:
        return ("arr", rng.randrange(2, 5), ("int", rng.choice(INTK)))
    if r < 0.87:
        return ("arr", rng.randrange(2, 4), ("ptr",))
    if r < 0.93:
        # arrays of rank two (and, rarely, three) of any integer kind: whole-object transfer in both directions
        inner = ("arr", rng.randrange(2, 4), ("int", rng.choice(INTK)))
        if rng.random() < 0.2:
            inner = ("arr", 2, inner)
        return ("arr", rng.randrange(2, 4), inner)
    if inner:
        return rng.choice(inner)
    return rand_leaf(rng)


def gen_structs(rng, n):
    """returns (all struct types in declaration order, top-level programs)"""
    decls = []
    progs = []
    k = 0
    for i in range(n):
        inner = []
        if rng.random() < 0.5:
            nm = "J%d" % k
            k += 1
            t = ("st", nm, [rand_field(rng, []) for _ in range(rng.randrange(1, 5))])
            decls.append(t)
            inner.append(t)
        nm = "Q%d" % i
        nf = rng.choice([1, 2, 3, 4, 5, 6, 8, 10])
        t = ("st", nm, [rand_field(rng, inner) for _ in range(nf)])
        if i == 0:
            # always present: arrays of rank two whose element changes width between the ABIs, and whose does not
            t = ("st", nm, [("arr", 2, ("arr", 3, ("int", "long"))), ("int", "char"), ("arr", 3, ("arr", 2, ("int", "ushort"))),
                            ("arr", 2, ("arr", 2, ("int", "ullong")))] + t[2][:2])
        decls.append(t)
        progs.append(t)
    return decls, progs


def desc(t):
    if t[0] == "int":
        return t[1]
    if t[0] == "arr":
        return "arr%d(%s)" % (t[1], desc(t[2]))
    if t[0] == "st":
        return "st(%s)" % ",".join(desc(f) for f in t[2])
    return t[0]


def ctype(t, guest):
    """(prefix, suffix) of a C declarator"""
    if t[0] == "int":
        return ("g_t<%s>" % CT[t[1]] if guest else CT[t[1]], "")
    if t[0] == "enum":
        return ("En", "")
    if t[0] in ("float", "double"):
        return (t[0], "")
    if t[0] == "ptr":
        return ("rep_t" if guest else "int*", "")
    if t[0] == "fn":
        return ("rep_t" if guest else "fn_t", "")
    if t[0] == "arr":
        p, s = ctype(t[2], guest)
        return (p, "[%d]%s" % (t[1], s))
    if t[0] == "st":
        return (("G" + t[1]) if guest else t[1], "")
    raise ValueError(t)


def refl_type(t):
    if t[0] == "arr":
        p, sfx = ctype(t, False)
        return p + sfx
    return ctype(t, False)[0]


def leaves(t):
    if t[0] == "arr":
        out = []
        for _ in range(t[1]):
            out += leaves(t[2])
        return out
    if t[0] == "st":
        out = []
        for f in t[2]:
            out += leaves(f)
        return out
    return [t]


def emit_set(t, lv, lines):
    """statements that set tainted lvalue lv from v.at(n++)"""
    if t[0] == "int":
        lines.append("%s = parse_val<%s>(v.at(n++));" % (lv, CT[t[1]]))
    elif t[0] == "enum":
        lines.append("%s = parse_val<En>(v.at(n++));" % lv)
    elif t[0] in ("float", "double"):
        lines.append("%s = parse_val<%s>(v.at(n++));" % (lv, t[0]))
    elif t[0] == "ptr":
        lines.append("%s = mk_tptr<int*>(sb, v.at(n++));" % lv)
    elif t[0] == "fn":
        lines.append("%s = nullptr; n++;" % lv)
    elif t[0] == "arr":
        for j in range(t[1]):
            emit_set(t[2], "%s[%d]" % (lv, j), lines)
    elif t[0] == "st":
        for j, f in enumerate(t[2]):
            emit_set(f, "%s.f%d" % (lv, j), lines)


def show_expr(t, lv, guest):
    """C++ expression (std::string) printing lvalue lv: guest=True native guest struct, False tainted application struct,
    "plain" unwrapped application struct"""
    if t[0] in ("int", "enum", "float", "double"):
        return "show_val(%s)" % (lv if guest else lv + ".UNSAFE_unverified()")
    if t[0] in ("ptr", "fn"):
        if guest == "plain":
            return "std::to_string(reinterpret_cast<uintptr_t>(%s))" % lv
        return "show_val(%s)" % lv if guest else "std::to_string(reinterpret_cast<uintptr_t>(%s.UNSAFE_unverified()))" % lv
    if t[0] == "arr":
        return 'std::string("(") + ' + ' + "," + '.join(show_expr(t[2], "%s[%d]" % (lv, j), guest) for j in range(t[1])) + ' + ")"'
    if t[0] == "st":
        return 'std::string("(") + ' + ' + "," + '.join(show_expr(f, "%s.f%d" % (lv, j), guest) for j, f in enumerate(t[2])) + ' + ")"'


def first_leaf_path(t, lv):
    if t[0] == "arr":
        return first_leaf_path(t[2], lv + "[0]")
    if t[0] == "st":
        return first_leaf_path(t[2][0], lv + ".f0")
    return lv


def emit(decls, progs, cfg):
    out = ["// generated by harness/props/c08.py — do not edit", "#define INV_CFG %s" % cfg, "#define INV_STATIC",
           '#include <cstddef>', '#include "inv_common.hpp"', "using fn_t = void (*)(long);"]
    for t in decls:
        nm = t[1]
        out.append("struct %s { %s };" % (nm, " ".join("%s f%d%s;" % (ctype(f, False)[0], j, ctype(f, False)[1]) for j, f in enumerate(t[2]))))
        out.append("struct G%s { %s };" % (nm, " ".join("%s f%d%s;" % (ctype(f, True)[0], j, ctype(f, True)[1]) for j, f in enumerate(t[2]))))
        out.append("#define sandbox_fields_reflection_gen_class_%s(f, g, ...) \\\n%s" % (
            nm, " \\\n".join("  f(%s, f%d, FIELD_NORMAL, ##__VA_ARGS__) g()" % (refl_type(f), j) for j, f in enumerate(t[2]))))
    out.append("#define sandbox_fields_reflection_gen_allClasses(f, ...) \\\n%s" % " \\\n".join("  f(%s, gen, ##__VA_ARGS__)" % t[1] for t in decls))
    out.append("rlbox_load_structs_from_library(gen);")
    for i, t in enumerate(progs):
        nm = t[1]
        lines = []
        emit_set(t, "t", lines)
        out.append("static void set_%d(sandbox_t& sb, rlbox::tainted<%s, Sbx>& t, const toks_t& v) {\n  size_t n = 0;\n  %s\n}" % (i, nm, "\n  ".join(lines)))
        out.append("static std::string show_app_%d(rlbox::tainted<%s, Sbx>& t) { return %s; }" % (i, nm, show_expr(t, "t", False)))
        out.append("static std::string show_guest_%d(const G%s& t) { return %s; }" % (i, nm, show_expr(t, "t", True)))
        out.append("static std::string show_plain_%d(const %s& t) { return %s; }" % (i, nm, show_expr(t, "t", "plain")))
        out.append("%s echo%d(%s);" % (nm, i, nm))
        out.append("static G%s guest_echo%d(G%s s) { g_calls++; g_glog = show_guest_%d(s); return s; }" % (nm, i, nm, i))
        offs = ' + "," + '.join("std::to_string(reinterpret_cast<uintptr_t>((&(%s)).UNSAFE_unverified()) - b)" % first_leaf_path(f, "p->f%d" % j)
                                for j, f in enumerate(t[2]))
        goffs = ' + "," + '.join("std::to_string(offsetof(G%s, f%d))" % (nm, j) for j in range(len(t[2])))
        out.append("""static std::string prog_%d(sandbox_t& sb, const std::string& op, const toks_t& v) {
  if (op == "lay") {
    auto p = sb.malloc_in_sandbox<%s>();
    auto b = reinterpret_cast<uintptr_t>(p.UNSAFE_unverified());
    return "size=" + std::to_string(sizeof(rlbox::tainted_volatile<%s, Sbx>)) + " offs=" + %s +
           " gsize=" + std::to_string(sizeof(G%s)) + " goffs=" + %s;
  }
  rlbox::tainted<%s, Sbx> t;
  set_%d(sb, t, v);
  if (op == "rt") {
    // the struct is written into the MIDDLE element of an array of three whose bytes are all 0xA5: the images before
    // and behind it must keep every byte
    auto p0 = sb.malloc_in_sandbox<%s>(3);
    const size_t isz = sizeof(rlbox::tainted_volatile<%s, Sbx>);
    auto raw0 = reinterpret_cast<uint8_t*>(p0.UNSAFE_unverified());
    std::memset(raw0, 0xA5, 3 * isz);
    auto p = p0 + 1;
    *p = t;
    size_t bad = SIZE_MAX;
    for (size_t k = 0; k < 3 * isz; k++) if ((k < isz || k >= 2 * isz) && raw0[k] != 0xA5) { bad = k; break; }
    auto g = reinterpret_cast<const G%s*>(p.UNSAFE_unverified());
    std::string out = (bad == SIZE_MAX ? std::string("N=ok") : "N=bad@" + std::to_string(bad)) + " G=" + show_guest_%d(*g);
    rlbox::tainted<%s, Sbx> back = *p;
    out += " A=" + show_app_%d(back);
    // the other whole-struct read-back paths: unwrap of the dereferenced struct, copy_and_verify on the pointer
    auto raw = (*p).UNSAFE_unverified();
    out += " U=" + show_plain_%d(raw);
    out += " C=" + p.copy_and_verify([](std::unique_ptr<rlbox::tainted<%s, Sbx>> v) { return show_app_%d(*v); });
    return out;
  }
  auto r = sb.invoke_sandbox_function(echo%d, t);
  return "G=" + g_glog + " A=" + show_app_%d(r);
}""" % (i, nm, nm, offs, nm, goffs, nm, i, nm, nm, nm, i, nm, i, i, nm, i, i, i))
    out.append("using sprog_fn = std::string (*)(sandbox_t&, const std::string&, const toks_t&);")
    out.append("static sprog_fn g_sprogs[] = {%s};" % ", ".join("prog_%d" % i for i in range(len(progs))))
    out.append(r'''
static std::string run_case(const toks_t& t)
{
  // t[0]=op-with-shard t[1]=lay|rt|byv t[2]=prog t[3]=descriptor t[4..]=leaf values
  toks_t vals(t.begin() + 4, t.end());
  g_calls = 0; g_glog.clear();
  auto sb = std::make_unique<sandbox_t>();
  Sbx::fixed_base_hint = uintptr_t(1) << 44;
  sb->create_sandbox(nullptr, false);
  g_base = sb->get_sandbox_impl()->region_base();
  std::string out;
  try {
    out = g_sprogs[std::stoul(t.at(2))](*sb, t.at(1), vals);
  } catch (const std::runtime_error& e) {
    if (std::strncmp(e.what(), "HARNESS", 7) == 0) throw;
    out = "ABORT";
  }
  try { sb->destroy_sandbox(); } catch (...) { out += " CLEANUP-ABORT"; }
  return out;
}
static void on_terminate() { std::puts("ABORT"); std::fflush(stdout); _exit(5); }
int main(int argc, char** argv) { std::set_terminate(on_terminate); return case_loop(argc, argv, run_case); }
''')
    return "\n".join(out) + "\n"


def pre_generate(ctx):
    global PROGRAMS
    del DRIVERS[:]
    n = 18 if ctx.tier == "quick" else 120
    prng = random.Random(ctx.seed * 104729 + 5)
    PROGRAMS = []
    for s in range(0, n, SHARD):
        decls, progs = gen_structs(prng, min(SHARD, n - s))
        sid = s // SHARD
        for cfg, opn in (("verif_cfg32", "c08l"), ("verif_cfgwide", "c08w"), ("verif_cfg64", "c08p")):
            path = os.path.join(ctx.build, "st_%s_%d.cpp" % (opn, sid))
            with open(path, "w") as f:
                f.write(emit(decls, progs, cfg))
            DRIVERS.append(dict(name="st_%s_%d" % (opn, sid), src=path, defines=[], ops=["%s.%d" % (opn, sid)]))
        for local, t in enumerate(progs):
            PROGRAMS.append((sid, local, t))
    ctx.coverage["programs"] = len(PROGRAMS)


def leaf_value(t, rng, abi, bad):
    if t[0] == "int":
        return c11.one_value(t[1], rng, abi, False, bad)
    if t[0] in ("enum", "float", "double"):
        return c11.one_value(t[0], rng, abi, False)
    if t[0] == "ptr":
        return c11.one_value("ptr", rng, abi, False)
    return "0"


def gen_cases(tier, rng):
    cases = []
    per = 30 if tier == "quick" else 80
    for sid, local, t in PROGRAMS:
        d = desc(t)
        lv = leaves(t)
        for opn, abi in (("c08l", "lp32"), ("c08w", "wide"), ("c08p", "lp32")):
            cases.append("%s.%d lay %d %s" % (opn, sid, local, d))
            for n in range(per):
                bad = rng.randrange(len(lv)) if rng.random() < 0.2 else None
                vals = [leaf_value(x, rng, abi, bad == j) for j, x in enumerate(lv)]
                cases.append("%s.%d %s %d %s %s" % (opn, sid, "rt" if n % 2 == 0 else "byv", local, d, " ".join(vals)))
    return cases


def NONTRIVIAL(case, model, cls):
    return True     # every generated struct has a guest image that differs from the application's in size, offsets or field encoding, or the copy aborts


RULE = ("generated programs: per run N structs (quick 18, thorough 120; half of them containing a nested registered struct) of 1..10 fields drawn in random order from {14 integer kinds, "
        "enum, float, double, object pointer, function pointer, char[1..9], integer arrays [2..4], arrays of pointers [2..3], nested struct}; compiled for the LP32-like guest ABI (4-byte pointers), the wide guest ABI, and the LP32-like ABI with an 8-byte non-identity pointer representation. "
        " Per struct: (lay) sizeof(tainted_volatile<S>) and the offset of every field obtained through tainted pointers, against the model's layout and against sizeof/offsetof of an "
        "independently declared fixed-width guest struct; (rt) a tainted<S> filled with boundary/random values (a fifth with one unrepresentable leaf) copied into sandbox memory, the guest "
        "image read through the independent guest struct, copied back; (byv) the same value passed by value to a guest function that logs its fields and returns it by value.")
TRUSTED = ["model coq/Layout.v + coq/Invoke.v hand-written; generated C++ (harness/props/c08.py) compiled from /repo's headers on every run is the tie",
           "the compiler's layout of the independently declared guest struct (System V x86-64) is the layout oracle"]
ASSUMPTIONS = ["const fields and the address of a nested struct field do not compile in RLBox and are not in the family (recorded in DESIGN.md)",
               "function-pointer fields are laid out and copied as null only (a callback cannot be stored in application memory)"]

"""C02 — application pointers and foreign-sandbox data cannot enter a sandbox unchecked.
Compile-time half: mechanism M2 (sinks x operands, compiler verdicts, regenerated Gallina table).
Run-time half: assign_raw_pointer / UNSAFE_accept_pointer for every address class (M1, ptr driver)."""
import os
from harness import vlib
from harness.props.ptrcommon import *
from . import m2common as m2

PROP = "C02"
COQ_FILES = ["Typing.v", "Typing_proofs.v", "Machine.v", "Ptr.v", "Ptr_proofs.v"]
KNOWN_D14 = "D14"


def programs():
    """(form, operand (kind,type), statement, expectation).  Operand kinds here: Plain raw pointers / arrays of raw
    pointers / raw function pointers ("forbidden"), wrappers of another sandbox type (kind Foreign), callback
    candidates with a non-conforming signature (kind BadSig), and conforming operands (must be accepted)."""
    P = []

    def add(form, arg, stmt, expect, note=""):
        P.append(m2.Program(form, [arg], stmt, None, sink=True, expect=expect, note=note))
    RAW = [("pint", "e.p_pint"), ("pcchar", "e.p_pcchar"), ("pvoid", "e.p_pvoid"), ("pst", "e.p_pst")]
    # --- storing into tainted (application memory) ---
    for ty, ex in RAW:
        tt = m2.PLAIN_T[ty]
        add("T_init_copy", ("Plain", ty), "T_<%s> x = %s; (void)x;" % (tt, ex), "reject")
        add("T_init_direct", ("Plain", ty), "T_<%s> x(%s); (void)x;" % (tt, ex), "reject")
        add("T_init_brace", ("Plain", ty), "T_<%s> x{%s}; (void)x;" % (tt, ex), "reject")
        add("T_assign", ("Plain", ty), "e.t_%s = %s;" % (ty, ex), "reject")
        add("TV_assign", ("Plain", ty), "e.v_%s = %s;" % (ty, ex), "reject")
    add("T_assign", ("Plain", "fn"), "e.t_fn = e.p_fn;", "reject")
    add("TV_assign", ("Plain", "fn"), "e.v_fn = e.p_fn;", "reject")
    add("T_init_copy", ("Plain", "fn"), "T_<Fn> x = e.p_fn; (void)x;", "reject")
    add("TV_assign", ("Plain", "parr"), "e.v_parr = e.p_parr;", "reject", "array of raw pointers")
    add("TV_assign", ("Plain", "sarr"), "e.v_parr = e.p_sarr;", "reject", "std::array of raw pointers")
    add("TV_deref_assign", ("Plain", "pint"), "*e.t_ppint = e.p_pint;", "reject")
    add("TV_index_assign", ("Plain", "pint"), "e.t_ppint[0] = e.p_pint;", "reject")
    add("TV_field_assign", ("Plain", "pint"), "e.t_pst->p = e.p_pint;", "reject")
    add("T_field_assign", ("Plain", "pint"), "e.t_st.p = e.p_pint;", "reject")
    # conforming stores (the table must not be vacuously all-rejected)
    add("T_assign", ("Plain", "nullptr"), "e.t_pint = nullptr;", "accept")
    add("TV_assign", ("Plain", "nullptr"), "e.v_pint = nullptr;", "accept")
    add("T_assign", ("T", "pint"), "e.t_pint = e.t_pint;", "accept")
    add("TV_assign", ("T", "pint"), "e.v_pint = e.t_pint;", "accept")
    add("TV_assign", ("TV", "pint"), "e.v_pint = e.v_pint;", "accept")
    add("T_assign", ("Plain", "int"), "e.t_int = e.p_int;", "accept")
    add("TV_assign", ("Plain", "int"), "e.v_int = e.p_int;", "accept")
    add("TV_assign", ("Cb", "fn"), "e.v_fn = e.cb;", "accept", "callback of matching type into a function-pointer cell")
    # pointer / function-pointer type must match
    add("TV_assign", ("Cb", "fn2"), "e.v_fn = e.cb2;", "reject", "callback of another function type")
    add("T_assign", ("Cb", "fn"), "e.t_fn = e.cb;", "reject", "a callback cannot be stored in application memory")
    # a callback goes into a cell of ITS function-pointer type only: never into an integer, enum, data-pointer or void* cell
    add("TV_assign", ("Cb", "long"), "e.v_long = e.cb;", "reject", "callback into an integer cell")
    add("TV_assign", ("Cb", "ullong"), "e.v_ullong = e.cb;", "reject", "callback into an integer cell")
    add("TV_assign", ("Cb", "enum"), "e.v_enum = e.cb;", "reject", "callback into an enum cell")
    add("TV_assign", ("Cb", "bool"), "e.v_bool = e.cb;", "reject", "callback into a bool cell")
    add("TV_assign", ("Cb", "pint"), "e.v_pint = e.cb;", "reject", "callback into a data-pointer cell")
    add("TV_assign", ("Cb", "pvoid"), "e.v_pvoid = e.cb;", "reject", "callback into a void* cell")
    add("TV_deref_assign", ("Cb", "pint"), "*e.t_ppint = e.cb;", "reject", "callback into a data-pointer cell")
    # the same for a sandbox function address held in a tainted
    add("TV_assign", ("T", "fn>bool"), "e.v_bool = e.t_fn;", "reject", "sandbox function address into a bool cell")
    add("TV_assign", ("T", "fn>ullong"), "e.v_ullong = e.t_fn;", "reject", "sandbox function address into an integer cell")
    add("TV_assign", ("T", "fn>pvoid"), "e.v_pvoid = e.t_fn;", "reject", "sandbox function address into a void* cell")
    add("T_assign", ("T", "fn>bool"), "e.t_bool = e.t_fn;", "reject", "sandbox function address into a tainted bool")
    add("T_assign", ("T", "fn>ullong"), "e.t_ullong = e.t_fn;", "reject", "sandbox function address into a tainted integer")
    add("T_assign", ("T", "fn>fn2"), "e.t_fn2 = e.t_fn;", "reject", "sandbox function address into a tainted of another function type")
    add("TV_field_assign", ("Cb", "long"), "e.t_pst->b = e.cb;", "reject", "callback into an integer field")
    add("T_init_copy", ("Cb", "fn"), "T_<Fn> x = e.cb; (void)x;", "reject")
    add("T_assign", ("T", "pcchar"), "e.t_pint = e.t_pcchar;", "reject", "tainted<int*> = tainted<const char*>")
    add("TV_assign", ("T", "pchar"), "e.v_pint = e.t_pchar;", "reject", "fixed D14: tainted_volatile<int*> = tainted<char*>")
    add("TV_assign", ("T", "fn2"), "e.v_fn = e.t_fn2;", "reject", "fixed D14: mismatched function-pointer types")
    add("TV_assign", ("T", "long"), "e.v_pint = e.t_long;", "reject", "fixed D14: an integer into a pointer cell")
    # arrays of pointers: the element types must match as for single pointers
    add("TV_assign", ("T", "parr"), "e.v_parr = e.t_parr;", "accept", "array of tainted pointers of the matching type")
    add("TV_assign", ("T", "fnarr"), "e.v_fnarr = e.t_fnarr;", "accept", "array of tainted function pointers of the matching type")
    add("TV_assign", ("T", "fn2arr"), "e.v_fnarr = e.t_fn2arr;", "reject", "array of function pointers of another function type")
    add("TV_assign", ("T", "pchararr"), "e.v_parr = e.t_pchararr;", "reject", "tainted_volatile<int*[2]> = tainted<char*[2]>")
    # the same when the value comes from another cell of sandbox memory
    add("TV_assign", ("TV", "fn2"), "e.v_fn = e.v_fn2;", "reject", "tainted_volatile function pointer of another function type")
    add("TV_assign", ("TV", "pcchar"), "e.v_pint = e.v_pcchar;", "reject", "tainted_volatile<int*> = tainted_volatile<const char*>")
    add("TV_assign", ("TV", "fn>bool"), "e.v_bool = e.v_fn;", "reject", "sandbox function address (in a cell) into a bool cell")
    add("TV_assign", ("TV", "fn"), "e.v_fn = e.v_fn;", "accept", "matching function-pointer cells")
    # number + raw application pointer must not yield a tainted pointer
    add("T_plus_raw", ("Plain", "pint"), "auto x = e.t_int + e.p_pint; (void)x;", "reject", "tainted<int> + raw application pointer")
    add("T_plus_raw", ("Plain", "parr"), "auto x = e.t_int + e.p_arr; (void)x;", "reject", "tainted<int> + raw array")
    add("TV_plus_raw", ("Plain", "pint"), "auto x = e.v_int + e.p_pint; (void)x;", "reject", "tainted_volatile<int> + raw application pointer")
    add("T_minus_raw", ("Plain", "pint"), "auto x = e.t_int - e.p_pint; (void)x;", "reject")
    add("T_plus_raw", ("Plain", "convp"), "auto x = e.t_int + e.p_convp; (void)x;", "reject", "tainted<int> + an object that converts implicitly to a raw pointer")
    add("TV_plus_raw", ("Plain", "convp"), "auto x = e.v_int + e.p_convp; (void)x;", "reject", "tainted_volatile<int> + an object that converts implicitly to a raw pointer")
    # foreign-sandbox wrappers
    add("T_assign", ("Foreign", "int"), "e.t_int = e.x_int;", "reject")
    add("TV_assign", ("Foreign", "int"), "e.v_int = e.x_int;", "reject")
    add("TV_assign", ("Foreign", "pint"), "e.v_pint = e.x_pint;", "reject")
    add("TV_assign", ("Foreign", "fn"), "e.v_fn = e.x_cb;", "reject")
    # --- arguments of sandbox calls ---
    add("invoke_arg", ("Plain", "pint"), "e.sb.invoke_sandbox_function(lib_pint, e.p_pint);", "reject")
    add("invoke_arg", ("Plain", "pcchar"), "e.sb.invoke_sandbox_function(lib_pcchar, e.p_pcchar);", "reject")
    add("invoke_arg", ("Plain", "fn"), "e.sb.invoke_sandbox_function(lib_fn, e.p_fn);", "reject")
    add("invoke_arg", ("Plain", "st"), "e.sb.invoke_sandbox_function(lib_st, e.p_st);", "reject", "plain struct by value")
    add("invoke_arg", ("Plain", "parr"), "e.sb.invoke_sandbox_function(lib_pint, e.p_arr);", "reject", "array decays to a raw pointer")
    add("invoke_arg", ("Foreign", "int"), "e.sb.invoke_sandbox_function(lib_int, e.x_int);", "reject")
    add("invoke_arg", ("Foreign", "pint"), "e.sb.invoke_sandbox_function(lib_pint, e.x_pint);", "reject")
    add("invoke_arg", ("Foreign", "fn"), "e.sb.invoke_sandbox_function(lib_fn, e.x_cb);", "reject")
    add("invoke_arg", ("Cb", "fn2"), "e.sb.invoke_sandbox_function(lib_fn, e.cb2);", "reject", "callback of another function type")
    add("invoke_arg", ("Cb", "int"), "e.sb.invoke_sandbox_function(lib_int, e.cb);", "reject", "callback passed for an integer parameter")
    add("invoke_arg", ("Cb", "pint"), "e.sb.invoke_sandbox_function(lib_pint, e.cb);", "reject", "callback passed for a data-pointer parameter")
    add("invoke_arg", ("T", "fn>int"), "e.sb.invoke_sandbox_function(lib_int, e.t_fn);", "reject", "sandbox function address passed for an integer parameter")
    add("invoke_arg", ("T", "fn>fn2"), "e.sb.invoke_sandbox_function(lib_fn2, e.t_fn);", "reject", "sandbox function address passed for another function type")
    add("invoke_arg", ("T", "fn>pint"), "e.sb.invoke_sandbox_function(lib_pint, e.t_fn);", "reject", "sandbox function address passed for a data-pointer parameter")
    add("invoke_arg", ("T", "fn"), "e.sb.invoke_sandbox_function(lib_fn, e.t_fn);", "accept")
    add("invoke_arg", ("Plain", "int"), "e.sb.invoke_sandbox_function(lib_int, e.p_int);", "accept")
    add("invoke_arg", ("Plain", "nullptr"), "e.sb.invoke_sandbox_function(lib_pint, nullptr);", "accept")
    add("invoke_arg", ("T", "pint"), "e.sb.invoke_sandbox_function(lib_pint, e.t_pint);", "accept")
    add("invoke_arg", ("TV", "int"), "e.sb.invoke_sandbox_function(lib_int, e.v_int);", "accept")
    add("invoke_arg", ("Opaque", "int"), "e.sb.invoke_sandbox_function(lib_int, e.o_int);", "accept")
    add("invoke_arg", ("Cb", "fn"), "e.sb.invoke_sandbox_function(lib_fn, e.cb);", "accept")
    add("invoke_arg", ("T", "st"), "e.sb.invoke_sandbox_function(lib_st, e.t_st);", "accept")
    # --- callback registration: the signature conditions ---
    for name, expect in (("cbf_ok", "accept"), ("cbf_ok_void", "accept"), ("cbf_ok_opaque", "accept"), ("cbf_ok_retptr", "accept"),
                         ("cbf_nosbx", "reject"), ("cbf_first_not_sbx", "reject"), ("cbf_plain_param", "reject"), ("cbf_plain_ptr_param", "reject"),
                         ("cbf_plain_ret", "reject"), ("cbf_rawptr_ret", "reject"), ("cbf_arr_param", "reject"), ("cbf_vol_param", "reject"),
                         ("cbf_othersbx_param", "reject"), ("cbf_othersbx_opaque_param", "reject"), ("cbf_othersbx_opaque_ret", "reject"),
                         ("cbf_othersbx_ret", "reject")):
        add("register_callback", ("BadSig" if expect == "reject" else "GoodSig", name), "auto c = e.sb.register_callback(%s); (void)c;" % name, expect)
    # --- other routes ---
    add("free_in_sandbox", ("Plain", "pint"), "e.sb.free_in_sandbox(e.p_pint);", "reject")
    add("memcpy_dest", ("Plain", "pint"), "rlbox::memcpy(e.sb, e.p_pint, e.t_pint, 4);", "reject", "raw destination of rlbox::memcpy")
    add("memset_dest", ("Plain", "pint"), "rlbox::memset(e.sb, e.p_pint, 0, 4);", "reject")
    add("get_app_pointer", ("Plain", "pint"), "auto a = e.sb.get_app_pointer(e.p_pint); (void)a;", "accept", "the sanctioned route for application addresses: a token, not the address")
    add("assign_raw_pointer", ("Plain", "pint"), "e.t_pint.assign_raw_pointer(e.sb, e.p_pint);", "accept", "checked entry point")
    add("assign_raw_pointer_vol", ("Plain", "pint"), "e.v_pint.assign_raw_pointer(e.sb, e.p_pint);", "accept", "checked entry point")
    add("UNSAFE_accept_pointer", ("Plain", "pint"), "auto x = e.sb.UNSAFE_accept_pointer(e.p_pint); (void)x;", "accept", "checked entry point")
    return P


FAMILIES = ["noop", "verif", "verif64"]
CHECKED = ["assign_raw_pointer", "assign_raw_pointer_vol", "UNSAFE_accept_pointer", "get_app_pointer"]
D14_NOTES = ("D14",)


def runtime_cases(tier, rng):
    cases = []
    for cfg, c in CFG.items():
        A, Bb = c["bases"]
        size = c["size"]
        addrs = {0, 1, 4096, A - 1, A, A + 1, A + 7, A + size // 2, A + size - 1, A + size, A + size + 1, Bb - 1, Bb, Bb + 5, Bb + size - 1, Bb + size,
                 APP_BASE, APP_BASE + 100, (1 << 47) - 1, (1 << 63), (1 << 64) - 1}
        if cfg == "16":
            step = 1 if tier == "thorough" else 97
            addrs.update(range(A - 4096, A + size + 4096, step))
        for _ in range(200 if tier == "quick" else 4000):
            addrs.add(rng.randrange(A, A + size))
            addrs.add(rng.randrange(0, 1 << 48))
        for a in sorted(addrs):
            cases.append("rawptr%s tainted %d" % (cfg, a))
            cases.append("rawptr%s tvol %d" % (cfg, a))
            cases.append("rawptr%s accept %d" % (cfg, a))
        # the same entry points with a function-pointer type (1 = the address of an application function)
        for a in [1, 0, A, A + 64, A + size - 1, A + size, Bb + 5, APP_BASE, (1 << 47) - 1] + [rng.randrange(A, A + size) for _ in range(20)]:
            cases.append("rawptr%s acceptfn %d" % (cfg, a))
            cases.append("rawptr%s taintedfn %d" % (cfg, a))
    # the third route that takes a raw application pointer: copy_memory_or_grant_access on a back end that can grant. The
    # tainted pointer handed back is the back end's answer only when the back end SAID it succeeded; a declined request
    # (whatever it hands back, typically the application pointer itself) falls through to the copy
    A = CFG["32"]["bases"][0]
    for num in (1, 16, 4096):
        for src in (APP_BASE + 64, APP_BASE + 4096):
            cases.append("ggrant32 %d %d 1 %d %d" % (src, num, A + 8192, 4096))
            cases.append("ggrant32 %d %d 0 %d %d" % (src, num, src, 4096))
            cases.append("ggrant32 %d %d 0 %d %d" % (src, num, A + 8192, 4096))
            cases.append("ggrant32 %d %d 0 %d %d" % (src, num, 0, 4096))
    return cases


RT_DRIVERS = drivers("CHAIN", ["rawptr"]) + \
    [dict(name="ptr_grant_32", src="ptr.cpp", defines=["VERIF_CFG=verif_cfg32g", "PART_BULK", "PTR_GRANT"], ops=["ggrant32"])]   # back end WITH grant/deny


def run(tier, seed, replay):
    ctx = vlib.Ctx(PROP, tier, seed)
    ok, out = vlib.ensure_framework()
    if not ok:
        ctx.notes.append("framework build problem:\n" + out[-2000:])
    progs = programs()
    try:
        m2.judge(ctx, progs, FAMILIES)
    except RuntimeError as ex:
        ctx.violations.append({"kind": "broken-correspondence", "case": "m2 environment", "what": str(ex)[:3000], "impl": "", "model": "", "spec": "", "class": ""})
        return vlib.finish(ctx, trusted=TRUSTED + vlib.COMMON_TRUSTED, assumptions=ASSUMPTIONS, rule=RULE)
    ids = m2.Ids()
    known = {k["id"]: k for k in vlib.load_known()["known"] if k["property"] == PROP}
    bad, known_seen, vacuous = [], [], []
    for fam in FAMILIES:
        for p in progs:
            v = p.verdict[fam]
            if p.expect == "reject" and v is not None:
                if p.note.startswith("D14") and KNOWN_D14 in known:
                    known_seen.append((fam, p))
                else:
                    bad.append((fam, p))
            if p.expect == "accept" and v is None:
                vacuous.append((fam, p))
    # ---- generated Coq table: forbidden operands are encoded by kind: Plain pointer-like types, Foreign, BadSig ----
    m2.KIND_COQ.update({"Foreign": "KAppPtr", "BadSig": "KIntHint", "GoodSig": "KBoolHint"})   # only tags inside this table
    ptrish = ["pint", "pcchar", "pvoid", "pst", "fn", "parr", "st", "sarr", "convp"]
    lines = ["(* generated by harness/props/c02.py from the compiler's verdicts on /repo's headers — do not edit *)",
             "From RLBoxV Require Import Typing Typing_proofs.", "Local Open Scope nat_scope.", "",
             "(* encoding of operand classes in this table: Plain + pointer-like type = raw application pointer / array of raw pointers /",
             "   raw function pointer / plain struct; KAppPtr = wrapper of ANOTHER sandbox type; KIntHint = non-conforming callback signature;",
             "   KBoolHint = conforming callback signature; mismatched pointer/function types are marked by the type id *)"]
    for fam in FAMILIES:
        rows = []
        for p in progs:
            if p.note.startswith("D14") and p.verdict[fam] is not None and KNOWN_D14 in known:
                continue     # recorded finding: excluded from the obligation, reported separately
            v = p.verdict[fam]
            kind, ty = p.args[0]
            mism = p.expect == "reject" and kind in ("T", "TV", "Cb")
            tyname = ("mismatch:" + ty) if mism else ty
            rows.append("  {| form := %d; args := [%s]; verdict := %s |}" % (
                ids.form(p.form), m2.wt(ids, kind, tyname), "None" if v is None else "Some {| wk := Plain; wty := 0 |}"))
        lines.append("Definition table_%s : list entry := [\n%s\n]." % (fam, ";\n".join(rows)))
    raw_types = [ids.ty(m2.CANON_TYPES.get(t, t)) for t in ptrish]
    mism_types = [ids.ty(t) for t in list(ids.types) if t.startswith("mismatch:")]
    lines += ["",
              "Definition memb (x : nat) (l : list nat) : bool := existsb (Nat.eqb x) l.",
              "Definition raw_types : list nat := %s.       (* pointer-like / aggregate types: forbidden when the operand is PLAIN *)" % m2.nat_list(raw_types),
              "Definition mismatch_types : list nat := %s.  (* wrappers whose pointer / function type does not match the sink *)" % m2.nat_list(mism_types),
              "Definition checked_forms : list nat := %s." % m2.nat_list([ids.form(f) for f in CHECKED]),
              "Definition is_sink (f : nat) : bool := true.   (* every form of this table is a route into sandbox-visible state *)",
              "Definition forbidden (w : wt) : bool :=",
              "  (kind_eqb (wk w) Plain && memb (wty w) raw_types) || kind_eqb (wk w) KAppPtr || kind_eqb (wk w) KIntHint || memb (wty w) mismatch_types.",
              "Definition checked_entry (f : nat) : bool := memb f checked_forms.",
              ""]
    for fam in FAMILIES:
        lines += ["Theorem table_%s_ok : forallb (sink_ok is_sink forbidden checked_entry) table_%s = true." % (fam, fam),
                  "Proof. vm_compute. reflexivity. Qed.",
                  "Theorem C02_current_tree_%s : forall e w, ty table_%s e = Some w -> sinks_clean is_sink forbidden checked_entry table_%s e = true." % (fam, fam, fam),
                  "Proof. exact (composition_sinks is_sink forbidden checked_entry table_%s table_%s_ok). Qed." % (fam, fam),
                  "Print Assumptions C02_current_tree_%s." % fam, ""]
    gen = os.path.join(vlib.COQ, "Gen_Rules_C02.v")
    lock = vlib.coq_lock()
    try:
        with open(gen, "w") as f:
            f.write("\n".join(lines) + "\n")
        rc, cout = vlib.sh(["timeout", "900", "coqc", "-Q", ".", "RLBoxV", "Gen_Rules_C02.v"], cwd=vlib.COQ, timeout=1000)
    finally:
        lock.close()
    thm_ok, thm_out = vlib.check_theorems(ctx, PROP, COQ_FILES)
    n_entries = len(FAMILIES) * len(progs)
    ctx.coverage["obligations"] = ctx.coverage.get("obligations", 0) + 2 * len(FAMILIES) + n_entries
    ctx.coverage["discharged"] = ctx.coverage.get("discharged", 0) + (2 * len(FAMILIES) + n_entries if rc == 0 else 0)
    ctx.coverage["programs"] = n_entries
    # ---- run-time half (M1) ----
    exes, errs = vlib.compile_drivers(ctx, RT_DRIVERS)
    for name, o in errs:
        ctx.violations.append({"kind": "broken-correspondence", "case": "compile " + name, "what": "driver no longer compiles against /repo/code/include",
                               "impl": o[-3000:], "model": "", "spec": "", "class": ""})
    cases = runtime_cases(tier, ctx.rng)
    by = {}
    for d in RT_DRIVERS:
        for op in d["ops"]:
            by[op] = d["name"]
    impl = [None] * len(cases)
    groups = {}
    for i, c in enumerate(cases):
        groups.setdefault(by.get(c.split(" ", 1)[0]), []).append(i)
    for dn, idxs in groups.items():
        res = vlib.run_impl(exes[dn], [cases[i] for i in idxs], ctx.build, dn) if dn in exes else ["NODRIVER"] * len(idxs)
        for i, r in zip(idxs, res):
            impl[i] = canon(cases[i], r)
    model = vlib.run_model(cases, ctx.build, "c02")
    vlib.compare(ctx, PROP, cases, impl, model, lambda c, m, cls: True)
    ctx.coverage["evaluations"] = ctx.coverage.get("evaluations", 0) + n_entries
    ctx.coverage["distinct_nontrivial"] = ctx.coverage.get("distinct_nontrivial", 0) + len(progs)
    ctx.coverage["checker_cmd"] = "clang++ -fsyntax-only per program; coqc Gen_Rules_C02.v (vm_compute over the regenerated table); coqc Properties_C02.v; run-time half: ptr driver vs extracted model"
    ctx.coverage["compile_table"] = {"programs": len(progs), "accepted_noop": sum(1 for p in progs if p.verdict["noop"] is not None),
                                     "accepted_verif": sum(1 for p in progs if p.verdict["verif"] is not None)}
    ctx.coverage.setdefault("samples", [])
    ctx.coverage["samples"] = [{"program": p.stmt, "expect": p.expect, "noop": "accepted" if p.verdict["noop"] else "rejected", "verif": "accepted" if p.verdict["verif"] else "rejected", "verif64": "accepted" if p.verdict["verif64"] else "rejected",
                                "diagnostic": p.diag.get("noop", "")[:120]} for p in progs[::9]] + ctx.coverage["samples"][:6]
    # ---- verdict ----
    if KNOWN_D14 in known:
        if known_seen:
            fam, p = known_seen[0]
            ctx.known_lines.append("KNOWN-FINDING: property=%s %s %s (e.g. program [%s family]: %s; %d table entries this run)" %
                                   (PROP, KNOWN_D14, known[KNOWN_D14]["what"], fam, p.stmt, len(known_seen)))
        else:
            ctx.violations.append({"kind": "broken-correspondence", "case": known[KNOWN_D14].get("witness_case", ""), "impl": "", "model": "", "spec": "", "class": "",
                                   "what": "known finding D14: the recorded witness program no longer compiles; known_findings.json stale"})
    for fam, p in bad[:20]:
        ctx.violations.append({"kind": "counterexample", "case": "%s: %s" % (fam, p.stmt), "impl": "compiles", "model": "", "spec": "must not compile (%s)" % (p.note or "forbidden operand in a sink"),
                               "class": p.form, "program": m2.text_of(p), "family": fam})
    for fam, p in vacuous[:10]:
        ctx.violations.append({"kind": "broken-correspondence", "case": "%s: %s" % (fam, p.stmt), "impl": "does not compile: " + p.diag.get(fam, ""), "model": "", "spec": "",
                               "class": p.form, "what": "a conforming program is rejected: the table would be vacuous (or the corpus is stale)"})
    if rc != 0 and not bad:
        ctx.violations.append({"kind": "broken-proof", "case": "Gen_Rules_C02.v", "what": "the kernel does not accept the per-run obligation over the regenerated rule table",
                               "impl": "", "model": cout[-3000:], "spec": "", "class": ""})
    if not thm_ok:
        ctx.violations.append({"kind": "broken-proof", "case": "Properties_C02.v", "what": "coqc no longer accepts the property theorems", "impl": "", "model": thm_out[-3000:], "spec": "", "class": ""})
    return vlib.finish(ctx, trusted=TRUSTED + vlib.COMMON_TRUSTED, assumptions=ASSUMPTIONS, rule=RULE)


RULE = ("compile-time half: regenerated table of ~90 one-statement programs x 3 sandbox-type families (no-op: void* representation; verif: 32-bit integer representation; verif64: integer representation as wide as a host pointer): every store/initialisation/"
        "assignment shape into tainted and tainted_volatile (scalar, dereference, index, struct field), sandbox-call arguments, callback registrations (4 conforming signatures, 9 signatures "
        "each violating one condition), rlbox::memcpy/memset destinations and free_in_sandbox, with operands {raw data pointers of 4 types, raw function pointer, array of raw pointers, plain "
        "struct, wrappers and callbacks of another sandbox type, callbacks / pointers of mismatching type} plus the conforming operands (must be accepted: non-vacuity). Run-time half: "
        "assign_raw_pointer on tainted and tainted_volatile and UNSAFE_accept_pointer at {null, first/last byte, base-1, base+size, other live sandbox, application buffer, extremes, random; "
        "exhaustive sweep around the 64 KiB region on verif16 in thorough} against the model, with the stored representation compared.")
TRUSTED = ["translator: harness/props/m2common.py + c02.py (program list, compiler-verdict reader, Gallina table writer); clang++ 14 as the judge of what compiles",
           "run-time half: model coq/Ptr.v assign_raw_pointer hand-written, tied by differential correspondence"]
ASSUMPTIONS = ["the sink list is the enumerated one (the routes found by reading the headers); a route not in the list is not covered",
               "D14 and D15 (mismatching pointer types / another sandbox type accepted by tainted_volatile::operator=) were found by this check and fixed in /repo; their programs stay in the table"]

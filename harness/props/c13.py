"""C13 — callback registrations have exactly one owner and end when that owner does."""
import itertools
PROP = "C13"
COQ_FILES = ["Machine.v", "World.v", "World_proofs.v", "World_owner_proofs.v"]
DRIVERS = [
    dict(name="life_verif32", src="life.cpp", defines=["LIFE_VERIF"], ops=["life32"]),
    dict(name="life_noop", src="life.cpp", defines=["LIFE_NOOP"], ops=["lifen"]),
    dict(name="life_dylib", src="life.cpp", defines=["LIFE_DYLIB"], ops=["lifed"]),      # rlbox_dylib_sandbox (bound to libc.so.6)
]
ALPHA13 = ["r:0:0:1", "r:0:0:2", "r:1:0:1", "r:1:0:2", "r:2:0:3", "u:0", "u:1", "ur:0", "ma:0:1", "ma:1:0", "ma:0:0", "ma:2:0", "mc:2:0", "mc:2:1", "mc:0:2",
           "q:0", "q:1", "occ:0", "gs:0:0", "gs:0:1", "gs:0:3", "go:0:0", "go:1:0", "go:2:0", "fill:0:2", "fill:0:3", "d:0", "c:0:1", "r:0:1:1", "c:1:1"]


def gen_cases(tier, rng):
    cases = []
    depth = 3 if tier == "quick" else 4
    for d in range(1, depth + 1):
        for ops in itertools.product(ALPHA13, repeat=d):
            cases.append("life32 c:0:1 " + " ".join(ops))
    for _ in range(6000 if tier == "quick" else 60000):
        n = rng.randrange(4, 25)
        cases.append("life32 c:0:1 " + " ".join(rng.choice(ALPHA13) for _ in range(n)))
    # histories in which EVERY abort is recoverable ('!' prefix): whatever was refused leaves no trace (World.wrun_rec)
    ralpha = ["!" + a for a in ALPHA13 if not a.startswith(("ur", "gs", "go", "d:", "c:"))] + ["gs:0:0", "gs:0:1", "go:0:0", "go:1:0", "occ:0", "q:0", "q:1"]
    for d in range(1, 3):
        for ops in itertools.product(ralpha, repeat=d):
            cases.append("life32 c:0:1 " + " ".join(ops))
    for _ in range(3000 if tier == "quick" else 30000):
        cases.append("life32 c:0:1 " + " ".join(rng.choice(ralpha) for _ in range(rng.randrange(4, 20))))
    # pools larger than the back end's table: verif 4 slots, no-op 64 slots
    for pre in (["fill:0:4"], ["fill:0:3", "r:0:0:1"], ["fill:0:3", "r:0:0:1", "u:0"], ["r:0:0:1", "fill:0:3", "ma:0:1"], ["fill:0:5"]):
        for tail in (["r:1:0:2"], ["r:1:0:2", "q:1"], ["u:0", "r:1:0:2", "go:1:0"], ["gs:0:0", "gs:0:3", "r:1:0:2"]):
            cases.append("life32 c:0:1 " + " ".join(pre + tail))
    for pre in (["fill:0:64"], ["fill:0:63", "r:0:0:1"], ["fill:0:63", "r:0:0:1", "u:0"], ["fill:0:62", "r:0:0:1", "r:1:0:2", "ma:0:1"], ["fill:0:65"]):
        for tail in (["r:1:0:2"], ["r:1:0:2", "q:1", "go:1:0"], ["u:0", "r:1:0:2", "go:1:0"], ["r:2:0:3", "go:2:0"]):
            cases.append("lifen c:0:1 " + " ".join(pre + tail))
    # a registration REFUSED (recoverable abort: `rx`) because the function is already registered, or because every entry point
    # of the back end is taken, leaves no trace: the set of registered functions is what it was, and once a slot is free the
    # same function registers (D24)
    for drv, n in (("life32", 3), ("life32", 2), ("lifen", 63), ("lifen", 62)):
        for tail in (["rx:0:0:1", "u:1", "rx:0:0:1", "go:0:0"], ["rx:0:0:1", "rx:0:0:1", "u:1", "rx:2:0:1", "rx:0:0:3"], ["rx:0:0:2", "u:1", "rx:0:0:2", "q:0", "q:1"],
                     ["rx:0:0:1", "rx:2:0:3", "u:1", "rx:2:0:3", "rx:0:0:1", "u:2", "rx:0:0:1"]):
            cases.append("%s c:0:1 r:1:0:2 fill:0:%d %s" % (drv, n, " ".join(tail)))
    # releases in an order other than last-registered-first leave holes in the back end's table
    for rel in (["u:0", "u:1"], ["u:0", "occ:0", "u:1", "occ:0"], ["u:0", "u:1", "u:2", "occ:0"], ["u:1", "u:0", "occ:0"], ["u:0", "r:0:0:3", "occ:0", "u:1", "u:0", "occ:0"]):
        cases.append("lifen c:0:1 r:0:0:1 r:1:0:2 r:2:0:4 " + " ".join(rel) + " occ:0 r:0:0:5 occ:0")
        cases.append("life32 c:0:1 r:0:0:1 r:1:0:2 r:2:0:4 " + " ".join(rel) + " occ:0 r:0:0:5 occ:0")
    for c in list(cases[::5]):
        if c.startswith("life32"):
            cases.append("lifen " + c.split(" ", 1)[1].replace("ur:", "u:"))     # (the shipped back ends have no hook for "ur")
    # the other shipped back end has its own slot table and trampolines: every no-op history runs on it too
    for c in list(cases):
        if c.startswith("lifen"):
            cases.append("lifed " + c.split(" ", 1)[1])
    return cases


def NONTRIVIAL(case, model, cls):
    return True


RULE = ("histories on a pool of 8 (+170 filler) application functions and 3 owner variables over {register f_k into owner j, unregister, move-assign (onto empty, onto live, self, from inert), "
        "move-construct, is_unregistered, guest call of a raw entry-point slot, guest call through the entry point an owner holds, fill n slots, destroy sandbox, re-create}: exhaustive to "
        "depth 3 (quick)/4 (thorough) over 29 operations after create, random to length 24; pools larger than the table (verif: 4 slots; rlbox_noop_sandbox and rlbox_dylib_sandbox: 64 slots, 65th registration; every history of the no-op back end also runs on rlbox_dylib_sandbox). "
        "After every step: outcome, slot index issued, which function a guest call reaches.")
TRUSTED = ["model coq/World.v hand-written; tied by differential correspondence of whole histories"]
ASSUMPTIONS = ["abort is terminal", "the owner/key/slot agreement is proved for all histories without sandbox destruction; histories with destroy + re-create meet known finding D12 and are decided by the correspondence"]

"""C09 — verified copies are application-memory snapshots: no check/use window."""
import itertools
PROP = "C09"
COQ_FILES = ["Machine.v", "Verify.v", "Verify_proofs.v"]
DRIVERS = [dict(name="verify32", src="verify.cpp", defines=[], ops=["cv09"])]


def hexs(bs):
    return "".join("%02x" % b for b in bs)


def string_windows(rng, tier):
    """windows holding a C string at offset off; the rest of the window varies"""
    out = []
    for n in range(0, 9):
        for tail in (0, 1, 3):
            s = [65 + (i % 26) for i in range(n)]
            w = s + [0] + [0x58] * tail            # string, NUL, then non-NUL bytes up to the end of memory
            out.append((0, w))
            out.append((2, [0x7a, 0x7a] + w))
    # no terminator before the end of memory
    out.append((0, [65, 66, 67]))
    out.append((1, [0, 65, 66]))
    return out


def mutations(w, off):
    """adversary moves: lengthen (remove a terminator), shorten (insert one), flip"""
    ms = []
    for i in range(len(w)):
        if w[i] == 0:
            ms.append((i, 0x21))
        else:
            ms.append((i, 0))
            ms.append((i, w[i] ^ 0x20))
    return ms


def gen_cases(tier, rng):
    q = tier == "quick"
    cases = []
    # strings: every single-mutation schedule at every interleave point; thorough: all double-mutation schedules
    for variant in ("stru", "strs"):
        for off, w in string_windows(rng, tier):
            maxt = len(w) + 8
            cases.append("cv09 %s %d 0 0 %s -" % (variant, off, hexs(w)))
            ms = mutations(w, off)
            for t in range(0, maxt):
                for (i, v) in ms:
                    cases.append("cv09 %s %d 0 0 %s %d:%d:%d" % (variant, off, hexs(w), t, i, v))
            pairs = 150 if q else 3000
            for _ in range(pairs):
                k = rng.choice([2, 2, 3, 4])
                sched = ",".join("%d:%d:%d" % ((rng.randrange(maxt),) + rng.choice(ms)) for _ in range(k))
                cases.append("cv09 %s %d 0 0 %s %s" % (variant, off, hexs(w), sched))
    # values, pointers, ranges, byte buffers
    for elsz in (1, 2, 4, 8):
        for rep in range(3 if q else 12):
            wl = rng.choice([elsz, elsz + 1, 2 * elsz + 3, 24])
            w = [rng.randrange(256) for _ in range(wl)]
            off = rng.choice([0, wl - elsz])
            for variant, nt in (("val", 2), ("ptr", 3)):
                cases.append("cv09 %s %d %d 0 %s -" % (variant, off, elsz, hexs(w)))
                for t in range(nt + 1):
                    for i in range(off, min(wl, off + elsz)):
                        cases.append("cv09 %s %d %d 0 %s %d:%d:%d" % (variant, off, elsz, hexs(w), t, i, w[i] ^ 0xff))
            for count in (0, 1, 2, 3, 5):
                need = count * elsz
                wl2 = rng.choice([need, need + 1, need + elsz, max(1, need - 1)]) or 1
                w2 = [rng.randrange(256) for _ in range(wl2)]
                off2 = rng.choice([0, max(0, wl2 - need)])
                cases.append("cv09 range %d %d %d %s -" % (off2, elsz, count, hexs(w2)))
                for t in range(count + 3):
                    i = rng.randrange(wl2)
                    cases.append("cv09 range %d %d %d %s %d:%d:%d" % (off2, elsz, count, hexs(w2), t, i, w2[i] ^ 0xff))
                for _ in range(4 if q else 30):
                    sched = ",".join("%d:%d:%d" % (rng.randrange(count + 3), rng.randrange(wl2), rng.randrange(256)) for _ in range(rng.randrange(2, 6)))
                    cases.append("cv09 range %d %d %d %s %s" % (off2, elsz, count, hexs(w2), sched))
    for num in (0, 1, 2, 7, 16):
        for wl in (max(1, num), num + 1, max(1, num - 1), num + 9):
            w = [rng.randrange(256) for _ in range(wl)]
            for off in sorted(set([0, max(0, wl - num)])):
                cases.append("cv09 cmda %d %d 0 %s -" % (off, num, hexs(w)))
                for t in range(5):
                    i = rng.randrange(wl)
                    cases.append("cv09 cmda %d %d 0 %s %d:%d:%d" % (off, num, hexs(w), t, i, w[i] ^ 0xff))
    # address verifiers on a pointer cell that lies in sandbox memory: the cell (4 bytes at off) holds a representation; the
    # adversary rewrites it at range.fetch (tick 0) and at the moment the back end is consulted inside the range check (tick 1)
    TOT = 1 << 32

    def le4(v):
        return [(v >> (8 * i)) & 255 for i in range(4)]
    for size in (0, 1, 16, 64, 4096):
        for rep in (0, 1, 16, TOT - 4096, TOT - size, TOT - size + 1 if size else TOT - 1, TOT - 1, rng.randrange(1, TOT)):
            rep %= TOT
            for off in (0, 3):
                w = [rng.randrange(256) for _ in range(off)] + le4(rep) + [rng.randrange(256) for _ in range(2)]
                cases.append("cv09 cvba %d %d 0 %s -" % (off, size, hexs(w)))
                cases.append("cv09 cva %d 0 0 %s -" % (off, hexs(w)))
                for new in (0, 16, TOT - 1, TOT - size + 1 if size > 1 else TOT - 2, TOT - 16, rng.randrange(1, TOT)):
                    nb = le4(new % TOT)
                    for t in (0, 1, 2):
                        sched = ",".join("%d:%d:%d" % (t, off + i, nb[i]) for i in range(4))
                        cases.append("cv09 cvba %d %d 0 %s %s" % (off, size, hexs(w), sched))
                    cases.append("cv09 cvba %d %d 0 %s %s" % (off, size, hexs(w), "0:%d:%d,1:%d:%d" % (off, nb[0], off + 3, nb[3])))
    # copy_and_verify by value on a registered struct in sandbox memory, verifier with a deduced parameter type
    for rep in range(4 if q else 20):
        wl = rng.choice([8, 9, 16, 24])
        w = [rng.randrange(256) for _ in range(wl)]
        off = rng.choice([0, wl - 8])
        cases.append("cv09 structv %d 0 0 %s -" % (off, hexs(w)))
        for t in range(3):
            for i in range(off, off + 8):
                cases.append("cv09 structv %d 0 0 %s %d:%d:%d" % (off, hexs(w), t, i, w[i] ^ 0xff))
    # copy_and_verify on a pointer cell in sandbox memory: the cell (4 bytes at 0) designates object A (at 8) or B (at 16) of the
    # window; the adversary redirects or nulls the cell before the fetch, between fetch and read, and afterwards
    for elsz in (1, 2, 4, 8):
        wl = 24
        for rep in range(2 if q else 8):
            body = [rng.randrange(256) for _ in range(wl)]
            for tgt in (8, 16):
                w = le4(TOT - wl + tgt) + body[4:]
                cases.append("cv09 ptrc 0 %d 0 %s -" % (elsz, hexs(w)))
                for new in (TOT - wl + (24 - tgt), 0):
                    nb = le4(new)
                    for t in (0, 1, 2):
                        sched = ",".join("%d:%d:%d" % (t, i, nb[i]) for i in range(4))
                        cases.append("cv09 ptrc 0 %d 0 %s %s" % (elsz, hexs(w), sched))
                # the object itself rewritten between fetch and read (allowed: the snapshot is taken at the read)
                cases.append("cv09 ptrc 0 %d 0 %s 1:%d:%d" % (elsz, hexs(w), tgt, body[tgt] ^ 0xff))
    # copy_and_verify_string / copy_and_verify_range on a pointer CELL of sandbox memory (a tainted_volatile<T*>): the cell
    # (4 bytes at 0) designates string / range A (at 8) or B (at 16) of a 24-byte window; the adversary redirects the cell
    # to the other one, to the last byte of memory, or nulls it, at every interleave point; bytes of A are flipped as well
    wl = 24
    for rep in range(2 if q else 10):
        la = rng.choice([0, 1, 2, 3, 5])
        lb = rng.choice([0, 1, 2, 4])
        A_ = [rng.randrange(1, 256) for _ in range(la)] + [0] + [rng.randrange(1, 256) for _ in range(7 - la)]
        B_ = [rng.randrange(1, 256) for _ in range(lb)] + [0] + [rng.randrange(1, 256) for _ in range(7 - lb)]
        for tgt in (8, 16):
            w = le4(TOT - wl + tgt) + [rng.randrange(256) for _ in range(4)] + A_ + B_
            other = 24 - tgt
            for variant, extra in (("strsc", "0 0"), ("struc", "0 0")) + tuple(("rangec", "%d %d" % (e, c)) for e, c in ((1, 3), (2, 2), (4, 1), (1, 8), (8, 1), (4, 3))):
                cases.append("cv09 %s 0 %s %s -" % (variant, extra, hexs(w)))
                for new in (TOT - wl + other, 0, TOT - 1, TOT - wl + tgt + 1):
                    nb = le4(new)
                    for t in range(0, 10):
                        sched = ",".join("%d:%d:%d" % (t, i, nb[i]) for i in range(4))
                        cases.append("cv09 %s 0 %s %s %s" % (variant, extra, hexs(w), sched))
                for t in range(0, 10):
                    i = tgt + rng.randrange(0, 4)
                    cases.append("cv09 %s 0 %s %s %d:%d:%d" % (variant, extra, hexs(w), t, i, 0 if w[i] else 0x41))
    # copy_and_verify on a fixed-size array in sandbox memory (4 elements of 1 / 2 / 4 / 8 bytes: char, short, float, double),
    # verifier taking the array by const reference: an object in application memory that sandbox writes cannot reach
    for elsz in (1, 2, 4, 8):
        n = 4 * elsz
        for rep in range(2 if q else 6):
            w = [rng.randrange(1, 120) for _ in range(n + rng.choice([0, 3]))]
            off = len(w) - n
            cases.append("cv09 arrv %d %d 0 %s -" % (off, elsz, hexs(w)))
            for t in range(3):
                i = off + rng.randrange(n)
                cases.append("cv09 arrv %d %d 0 %s %d:%d:%d" % (off, elsz, hexs(w), t, i, w[i] ^ 0x55))
    # copy_and_verify on a pointer-to-STRUCT cell: the cell (4 bytes at 0) designates struct A (at 8) or B (at 16); the schedule
    # is indexed by the interleave points AND the read notifications of the cell in program order (0 = cv.struct.read,
    # 1 = the fetch of the cell, 2 = cv.struct.verifier): a second fetch of the cell would be a further point
    for rep in range(2 if q else 8):
        body = [rng.randrange(256) for _ in range(wl)]
        for tgt in (8, 16):
            w = le4(TOT - wl + tgt) + body[4:]
            cases.append("cv09 ptrsw 0 0 0 %s -" % hexs(w))
            for new in (TOT - wl + (24 - tgt), 0):
                nb = le4(new)
                for t in (0, 1, 2, 3):
                    cases.append("cv09 ptrsw 0 0 0 %s %s" % (hexs(w), ",".join("%d:%d:%d" % (t, i, nb[i]) for i in range(4))))
            for t in (0, 1, 2, 3):
                cases.append("cv09 ptrsw 0 0 0 %s %d:%d:%d" % (hexs(w), t, tgt + rng.randrange(8), rng.randrange(256)))
    return cases


def NONTRIVIAL(case, model, cls):
    return "muts0" not in cls      # the adversary moves at least once


RULE = ("the window is the last w bytes of sandbox memory (so RLBox's range check is 'off + n <= w' and an unterminated scan runs into the guard page). Strings of length 0..8 at two offsets "
        "with 0/1/3 trailing bytes, plus unterminated ones, for both verifier flavours of copy_and_verify_string: EVERY single-mutation schedule (remove a terminator, insert one, flip a byte, "
        "at every byte of the window) at EVERY interleave point, plus random schedules of 2-4 moves (150 quick / 3000 thorough per window); copy_and_verify on values and on pointers, "
        "copy_and_verify_range (counts 0..5, element sizes 1/2/4/8, ranges ending at / overshooting the end of memory) and copy_memory_or_deny_access with moves at every point. Compared: bytes "
        "the verifier received, size of the application buffer (observed through operator new[]), that the object is in application memory and does not alias sandbox memory (the verifier "
        "overwrites the whole window and looks again), number of interleave points. Non-trivial: the adversary moves at least once.")
TRUSTED = ["model coq/Verify.v hand-written; interleave points are the RLBOX_VERIF_INTERLEAVE sites of the guarded hook commit in /repo"]
ASSUMPTIONS = ["PARTIAL: the adversary moves between RLBox-level reads, not inside one load or inside std::strlen / memcpy",
               "receivers are tainted pointers held in application memory (a tainted_volatile pointer receiver re-reads the pointer cell per element: note N3 in DESIGN.md)"]

"""C17 — indexing a tainted fixed-size array is bounds-checked for every index type."""
from harness.props.ptrcommon import *
PROP = "C17"
COQ_FILES = ["Machine.v", "Ptr.v", "Ptr_proofs.v", "Layout.v"]
DRIVERS = drivers("AIDX", ["aidx", "aidx2"])
ELKS = ["char", "short", "int", "long", "ullong", "ptr"]
LENS = [1, 2, 3, 4, 7, 16]


def gen_cases(tier, rng):
    cases = []
    for cfg in CFG:
        for where in ("app", "sbx"):
            for elk in ELKS:
                for ln in LENS:
                    for ik in IDX_KINDS:
                        vals = {-1, 0, 1, ln - 1, ln, ln + 1, 2 * ln - 1, 2 * ln, lo(ik), hi(ik), lo(ik) + 1, hi(ik) - 1,
                                ln + 256, ln - 1 + 256, 256, ln - 1 + 65536, 65536, (1 << 32) + ln - 1, 1 << 32,
                                (1 << 32) + ln, (1 << 63) + ln - 1, -ln, -256 + ln - 1}
                        if tier == "thorough":
                            vals.update(range(-2, 2 * ln + 2))
                        for n in sorted(vals):
                            if fits(ik, n):
                                cases.append("aidx%s %s %s %d %s %d" % (cfg, where, elk, ln, ik, n))
                                if ik in ("int", "ullong", "schar") and n in (-1, 0, ln - 1, ln, (1 << 32) + ln - 1):
                                    cases.append("aidx%s %s %s %d %s %d tainted" % (cfg, where, elk, ln, ik, n))
            for shape, (d1, d2) in {"l23": (2, 3), "i32": (3, 2), "p24": (2, 4)}.items():
                for ik in ("int", "uint", "long", "ullong", "schar", "uchar"):
                    for i in (-1, 0, d1 - 1, d1, 2 * d1 - 1, hi(ik)):
                        for j in (-1, 0, d2 - 1, d2, 2 * d2 - 1, d2 + 256, hi(ik)):
                            if fits(ik, i) and fits(ik, j):
                                cases.append("aidx2%s %s %s %s %d %d" % (cfg, where, shape, ik, i, j))
    if tier == "quick" and len(cases) > 40000:
        rng.shuffle(cases)
        cases = cases[:40000]
    return cases


canon = canon


def NONTRIVIAL(case, model, cls):
    return True


RULE = ("{application-memory array, sandbox-memory array} x element types {char short int long ullong pointer} x lengths {1,2,3,4,7,16} x "
        "11 index kinds (+ tainted indices) x n in {-1,0,1,len-1,len,len+1,2len-1,2len,type min/max, len-1+2^8, len-1+2^16, len-1+2^32, 2^63+len-1,...}; "
        "2-D shapes long[2][3], int[3][2], int*[2][4]; reported: element offset under the layout of the memory the array lives in")
TRUSTED = ["model coq/Ptr.v arr_index hand-written; tied by differential correspondence"]
ASSUMPTIONS = ["bool is not an index type (make_unsigned_t<bool> does not compile)"]

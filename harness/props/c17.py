"""C17 — indexing a tainted fixed-size array is bounds-checked for every index type."""
from harness import vlib, m3_ast, m3_ptr
from harness.props.ptrcommon import *
PROP = "C17"
COQ_FILES = ["Machine.v", "Ptr.v", "Ptr_proofs.v", "Layout.v", "PtrAst.v"]
M3 = {}


def pre_generate(ctx):
    """M3 for the fixed-size-array branch of operator[]: clang's AST of the instantiated tainted<double[7]>::operator[]<K&> and
    tainted_volatile<double[9]>::operator[]<K&> (14 index types K) is translated into programs of coq/PtrAst.v; the kernel proves
    each equal to Ptr.arr_index K for EVERY index value of K, array length, start address and element size"""
    M3.clear()
    try:
        progs = m3_ptr.translate(vlib.INCLUDE, ctx.build)
    except m3_ast.Unknown as ex:
        M3["untranslated"] = str(ex)
        return
    m3_ptr.run_generated(ctx, M3, "Gen_ArrPrograms.v", m3_ptr.emit_arrays(progs))
    M3["sample"] = {"%s<%s>" % k: str(v) for k, v in sorted(progs.items()) if k[0] in ("arrT", "arrV") and k[1] in ("schar", "ullong")}


def extra_checks(ctx, exes):
    m3_ptr.report(ctx, M3, "C17", "array operator[]", "Gen_ArrPrograms", "Ptr.arr_index")
DRIVERS = drivers("AIDX", ["aidx", "aidx2"])
ELKS = ["char", "short", "int", "long", "ullong", "ptr"]
LENS = [1, 2, 3, 4, 7, 16]


def gen_cases(tier, rng):
    cases = []
    for cfg in CFG:
        for where in ("app", "sbx"):
            for elk in ELKS:
                for ln in LENS:
                    for ik in IDX_KINDS:
                        vals = {-1, 0, 1, ln - 1, ln, ln + 1, 2 * ln - 1, 2 * ln, lo(ik), hi(ik), lo(ik) + 1, hi(ik) - 1,
                                ln + 256, ln - 1 + 256, 256, ln - 1 + 65536, 65536, (1 << 32) + ln - 1, 1 << 32,
                                (1 << 32) + ln, (1 << 63) + ln - 1, -ln, -256 + ln - 1}
                        if tier == "thorough":
                            vals.update(range(-2, 2 * ln + 2))
                        for n in sorted(vals):
                            if fits(ik, n):
                                cases.append("aidx%s %s %s %d %s %d" % (cfg, where, elk, ln, ik, n))
                                if ik in ("int", "ullong", "schar") and n in (-1, 0, ln - 1, ln, (1 << 32) + ln - 1):
                                    cases.append("aidx%s %s %s %d %s %d tainted" % (cfg, where, elk, ln, ik, n))
                                # the index is an integer in sandbox memory (table[hdr->idx]); with watch:<evil> the sandbox
                                # rewrites it to <evil> before any second read of it (read-notification hook): the bounds
                                # check and the element address must come from ONE fetch
                                if ik in ("int", "uint", "ullong", "short", "uchar") and n in (-1, 0, ln - 1, ln):
                                    cases.append("aidx%s %s %s %d %s %d cell" % (cfg, where, elk, ln, ik, n))
                                    for evil in (ln + 4, 0, hi(ik)):
                                        if evil != n and fits(ik, evil):
                                            cases.append("aidx%s %s %s %d %s %d watch:%d" % (cfg, where, elk, ln, ik, n, evil))
            for shape, (d1, d2) in {"l23": (2, 3), "i32": (3, 2), "p24": (2, 4)}.items():
                for ik in ("int", "uint", "long", "ullong", "schar", "uchar"):
                    for i in (-1, 0, d1 - 1, d1, 2 * d1 - 1, hi(ik)):
                        for j in (-1, 0, d2 - 1, d2, 2 * d2 - 1, d2 + 256, hi(ik)):
                            if fits(ik, i) and fits(ik, j):
                                cases.append("aidx2%s %s %s %s %d %d" % (cfg, where, shape, ik, i, j))
    if tier == "quick" and len(cases) > 40000:
        rng.shuffle(cases)
        cases = cases[:40000]
    return cases


canon = canon


def NONTRIVIAL(case, model, cls):
    return True


RULE = ("{application-memory array, sandbox-memory array} x element types {char short int long ullong pointer} x lengths {1,2,3,4,7,16} x "
        "11 index kinds (+ tainted indices, + indices held in sandbox memory with an adversary that rewrites the cell before any second read) x n in {-1,0,1,len-1,len,len+1,2len-1,2len,type min/max, len-1+2^8, len-1+2^16, len-1+2^32, 2^63+len-1,...}; "
        "2-D shapes long[2][3], int[3][2], int*[2][4]; reported: element offset under the layout of the memory the array lives in")
TRUSTED = ["model coq/Ptr.v arr_index hand-written; tied by differential correspondence",
           "M3 (array operator[]): harness/m3_ptr.py translator from clang 14's JSON AST; assumed of the nodes it treats as transparent: detail::unwrap_value of a plain integer is that integer, "
           "get_raw_value_ref()/get_sandbox_value_ref() is the array held, std::array::operator[](i) / a[i] designates start + i * element size of the memory the array lives in (checked by the "
           "address cases of this same run), std::extent_v is the declared length, remove_volatile_from_ptr_cast and pointer casts keep the address"]
ASSUMPTIONS = ["bool is not an index type (make_unsigned_t<bool> does not compile)"]

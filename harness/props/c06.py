"""C06 — integers crossing the ABI boundary keep their value or abort."""
PROP = "C06"
COQ_FILES = ["Machine.v", "Conv.v", "Conv_proofs.v"]
KINDS = ["bool", "char", "schar", "uchar", "short", "ushort", "int", "uint",
         "long", "ulong", "llong", "ullong", "char16", "char32", "wchar"]
SIGNED = {"char", "schar", "short", "int", "long", "llong", "wchar"}
SIZE = {"bool": 1, "char": 1, "schar": 1, "uchar": 1, "short": 2, "ushort": 2, "char16": 2,
        "int": 4, "uint": 4, "char32": 4, "wchar": 4, "long": 8, "ulong": 8, "llong": 8, "ullong": 8}

DRIVERS = [
    dict(name="c06_conv", src="c06_kernel.cpp", defines=["OP_CONV"], ops=["conv"]),
    dict(name="c06_conva", src="c06_kernel.cpp", defines=["OP_CONVA"], ops=["conva"]),
    dict(name="c06_sweep", src="c06_kernel.cpp", defines=["OP_SWEEP"], ops=["convsweep"], opt="-O2"),
    dict(name="c06_path_lp32", src="c06_path.cpp", defines=["VERIF_CFG=verif_cfg32"], ops=["store", "load", "arg", "ret", "cbarg", "cbret", "equiv", "storemix"]),
    dict(name="c06_path_wide", src="c06_path.cpp", defines=["VERIF_CFG=verif_cfgwide"], ops=["wstore", "wload", "warg", "wret", "wcbarg", "wcbret", "wequiv", "wstoremix"]),
]


def lo(k):
    return -(1 << (8 * SIZE[k] - 1)) if k in SIGNED else 0


def hi(k):
    if k == "bool":
        return 1
    return (1 << (8 * SIZE[k] - 1)) - 1 if k in SIGNED else (1 << (8 * SIZE[k])) - 1


def boundary_values(rng, n_random):
    vals = set()
    for k in KINDS:
        for b in (lo(k), hi(k)):
            vals.update([b - 1, b, b + 1])
    for e in range(0, 65):
        for d in (-1, 0, 1):
            vals.add((1 << e) + d)
            vals.add(-(1 << e) + d)
    for _ in range(n_random):
        e = rng.randrange(1, 65)
        vals.add(rng.randrange(-(1 << (e - 1)), 1 << e))
    return sorted(vals)


def in_range(k, v):
    return lo(k) <= v <= hi(k)


# guest kinds of the two foreign ABIs (only used to pick in-range guest values for load paths)
def guest_kind(abi, k):
    m = {"lp32": {"short": "short", "int": "int", "long": "int", "llong": "long"},
         "wide": {"short": "int", "int": "long", "long": "long", "llong": "long"}}[abi]
    uns = {"short": "ushort", "int": "uint", "long": "ulong"}
    if k in m:
        return m[k]
    base = {"ushort": "short", "char16": "short", "uint": "int", "char32": "int", "ulong": "long", "ullong": "llong"}
    if k in base:
        return uns[m[base[k]]]
    if k == "uchar":
        return "uchar"
    return k


def gen_cases(tier, rng):
    cases = []
    vals = boundary_values(rng, 40 if tier == "quick" else 400)
    # kernel: every ordered pair at every boundary value representable in the source
    for t in KINDS:
        for f in KINDS:
            vs = [v for v in vals if in_range(f, v)]
            if tier == "quick" and len(vs) > 60:
                keep = [v for v in vs if any(abs(v - b) <= 1 for k in KINDS for b in (lo(k), hi(k)))]
                vs = sorted(set(keep + rng.sample(vs, 25)))
            for v in vs:
                cases.append("conv %s %s %d" % (t, f, v))
    # exhaustive sweeps: all 8-bit sources (quick), all 16-bit sources (quick too: cheap), 24-bit windows of wider
    for t in KINDS:
        for f in KINDS:
            if SIZE[f] <= 2:
                cases.append("convsweep %s %s %d %d" % (t, f, lo(f), hi(f)))
            elif tier == "thorough":
                for centre in {lo(t), hi(t), 0}:
                    a = max(lo(f), centre - 40000)
                    b = min(hi(f), centre + 40000)
                    if a <= b and -(1 << 62) < a and b < (1 << 62):
                        cases.append("convsweep %s %s %d %d" % (t, f, a, b))
    # arrays: one bad element at each index, memcpy and element-wise pairs
    for t in KINDS:
        for f in KINDS:
            good = [v for v in (0, 1, hi(f), lo(f)) if in_range(t, v) and in_range(f, v)]
            bad = [v for v in vals if in_range(f, v) and not in_range(t, v)]
            if not good or (t == "bool" and f in ("char", "schar", "uchar")):
                continue   # N2 pair on the memcpy path: observing the copied byte as bool is UB; outside the property
            for n in (1, 3, 4):
                cases.append("conva %s %s %s" % (t, f, ",".join(str(good[i % len(good)]) for i in range(n))))
                if bad:
                    for pos in range(n):
                        b = bad[rng.randrange(len(bad))]
                        arr = [good[i % len(good)] for i in range(n)]
                        arr[pos] = b
                        cases.append("conva %s %s %s" % (t, f, ",".join(map(str, arr))))
    # path level
    for abi, pre in (("lp32", ""), ("wide", "w")):
        for k in KINDS:
            cases.append("%sequiv %s %s" % (pre, abi, k))
            if k == "wchar":
                continue
            g = guest_kind(abi, k)
            app_vals = [v for v in vals if in_range(k, v)]
            guest_vals = [v for v in vals if in_range(g, v)]
            if tier == "quick":
                app_vals = [v for v in app_vals if any(abs(v - b) <= 1 for kk in (k, g) for b in (lo(kk), hi(kk)))] + rng.sample(app_vals, min(6, len(app_vals)))
                guest_vals = [v for v in guest_vals if any(abs(v - b) <= 1 for kk in (k, g) for b in (lo(kk), hi(kk)))] + rng.sample(guest_vals, min(6, len(guest_vals)))
            for v in sorted(set(app_vals)):
                for op in ("store", "arg", "cbret"):
                    cases.append("%s%s %s %s %d" % (pre, op, abi, k, v))
            for v in sorted(set(guest_vals)):
                for op in ("load", "ret", "cbarg"):
                    cases.append("%s%s %s %s %d" % (pre, op, abi, k, v))
        # a plain value of one integer type stored through a tainted pointer to another type (every ordered pair)
        for k in KINDS:
            for f in KINDS:
                if "wchar" in (k, f) or (k == "bool" and f in ("char", "schar", "uchar")):
                    continue
                g = guest_kind(abi, k)
                vs = [v for v in vals if in_range(f, v)]
                near = [v for v in vs if any(abs(v - b) <= 1 for kk in (k, g, f) for b in (lo(kk), hi(kk)))]
                pick = sorted(set(near + rng.sample(vs, min(len(vs), 3 if tier == "quick" else 20))))
                for v in pick:
                    cases.append("%sstoremix %s %s %s %d" % (pre, abi, k, f, v))
    return cases


def NONTRIVIAL(case, model, cls):
    # non-trivial: reaches a checking branch, or crosses with a different width/signedness
    return "same-widen" not in cls or case.startswith(("w", "store", "load", "arg", "ret", "cb"))


RULE = ("cases: every ordered pair of the 15 integer kinds x boundary values (limits +-1 of every kind, +-2^k, +-2^k+-1, random) "
        "representable in the source; exhaustive sweeps of every <=16-bit source against every target (summarised as runs); "
        "arrays of length 1,3,4 with one unrepresentable element at each index; path level (store/load/arg/ret/cbarg/cbret) on "
        "verif32 (LP32-like) and verifwide through the real API. non-trivial = reaches a branch with a dynamic check, or any path-level/sweep case; "
        "distinct = distinct case line")
TRUSTED = ["model of convert_type_fundamental hand-written in coq/Conv.v, tied by differential correspondence (this run)"]
ASSUMPTIONS = ["application ABI is x86-64 LP64 (sizes/signedness in coq/Machine.v probed against the compiler by the 'equiv' cases)",
               "N2: bool as target of another 1-byte type is outside the property (unreachable through convert_base_types_t); proved excluded, kept as C06_scalar_full_refuted"]

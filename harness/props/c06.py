"""C06 — integers crossing the ABI boundary keep their value or abort."""
import concurrent.futures
import os
import re
from harness import vlib, m3_ast
PROP = "C06"
COQ_FILES = ["Machine.v", "Conv.v", "Conv_proofs.v", "ConvAst.v"]
M3 = {}


def pre_generate(ctx):
    """M3: translate clang's AST of the 225 instantiated convert_type_fundamental functions into programs of
    coq/ConvAst.v and let the kernel prove, for each, that it equals the specification on EVERY source value"""
    M3.clear()
    try:
        progs = m3_ast.translate(vlib.INCLUDE, ctx.build)
    except m3_ast.Unknown as ex:
        M3["error"] = "translator: " + str(ex)
        return
    shards = m3_ast.emit(progs, 5)
    lock = vlib.coq_lock()
    try:
        for i, sh in enumerate(shards):
            with open(os.path.join(vlib.COQ, "Gen_ConvPrograms_%d.v" % i), "w") as f:
                f.write(sh)

        def one(i):
            return i, vlib.sh(["timeout", "600", "coqc", "-Q", ".", "RLBoxV", "Gen_ConvPrograms_%d.v" % i], cwd=vlib.COQ, timeout=700)
        with concurrent.futures.ThreadPoolExecutor(max_workers=5) as ex:
            res = list(ex.map(one, range(len(shards))))
    finally:
        lock.close()
    M3["programs"] = len(progs)
    M3["lemmas"] = sum(sh.count("Lemma ") for sh in shards)
    M3["failed"] = []
    for i, (rc, out) in res:
        if rc != 0:
            m = re.search(r'line (\d+)', out)
            name = "?"
            if m:
                lines = shards[i].splitlines()
                ln = int(m.group(1))
                for k in range(min(ln, len(lines)) - 1, -1, -1):
                    if lines[k].startswith("Lemma ") or lines[k].startswith("Definition "):
                        name = lines[k].split()[1]
                        break
            M3["failed"].append((name, out[-1500:]))
    M3["sample"] = {"%s<-%s" % k: str(v) for k, v in list(progs.items())[7::50]}


def extra_checks(ctx, exes):
    if "error" in M3:
        # the translator is an ADDITIONAL tie for the conversion kernel; when it cannot follow the source's shape the kernel
        # stays tied by the differential correspondence of this same run (every ordered pair at every boundary value and the
        # exhaustive 8/16-bit sweeps) — said in the evidence, not an alarm
        ctx.coverage["m3_status"] = "NOT TRANSLATED this run (tie falls back to the differential correspondence): " + M3["error"]
        print("NOTE C06: convert_type_fundamental AST not translated (%s); tie = differential correspondence only" % M3["error"][:160])
        return
    ctx.coverage["m3_status"] = "translated"
    n = M3.get("lemmas", 0)
    ctx.coverage["obligations"] = ctx.coverage.get("obligations", 0) + n
    ctx.coverage["discharged"] = ctx.coverage.get("discharged", 0) + (n if not M3["failed"] else 0)
    ctx.coverage["m3_ast_programs"] = M3.get("programs", 0)
    ctx.coverage["m3_generated_lemmas_proved_for_all_values"] = n if not M3["failed"] else 0
    ctx.coverage["m3_samples"] = M3.get("sample", {})
    for name, out in M3["failed"][:3]:
        ctx.violations.append({"kind": "broken-proof", "case": "Gen_ConvPrograms: " + name, "impl": "", "model": out, "spec": "", "class": "m3",
                               "what": "the program translated from the AST of this instantiation is no longer provably equal to 'value preserved iff representable, else abort' for all source values"})
KINDS = ["bool", "char", "schar", "uchar", "short", "ushort", "int", "uint",
         "long", "ulong", "llong", "ullong", "char16", "char32", "wchar"]
SIGNED = {"char", "schar", "short", "int", "long", "llong", "wchar"}
SIZE = {"bool": 1, "char": 1, "schar": 1, "uchar": 1, "short": 2, "ushort": 2, "char16": 2,
        "int": 4, "uint": 4, "char32": 4, "wchar": 4, "long": 8, "ulong": 8, "llong": 8, "ullong": 8}

DRIVERS = [
    dict(name="c06_conv", src="c06_kernel.cpp", defines=["OP_CONV"], ops=["conv"]),
    dict(name="c06_conva", src="c06_kernel.cpp", defines=["OP_CONVA"], ops=["conva"]),
    dict(name="c06_sweep", src="c06_kernel.cpp", defines=["OP_SWEEP"], ops=["convsweep"], opt="-O2"),
    dict(name="c06_path_lp32", src="c06_path.cpp", defines=["VERIF_CFG=verif_cfg32"], ops=["store", "load", "loadw", "loadcv", "loadcvp", "loadidx", "loadcvr", "arg", "ret", "cbarg", "cbret", "equiv", "storemix"]),
    # LP32-like integers behind a pointer representation as wide as the host's (pointer width says nothing about integers)
    dict(name="c06_path_lp32p64", src="c06_path.cpp", defines=["VERIF_CFG=verif_cfg64"], ops=["xstore", "xload", "xloadw", "xloadcv", "xloadcvp", "xloadidx", "xloadcvr", "xarg", "xret", "xcbarg", "xcbret", "xequiv", "xstoremix"]),
    dict(name="c06_path_wide", src="c06_path.cpp", defines=["VERIF_CFG=verif_cfgwide"], ops=["wstore", "wload", "wloadw", "wloadcv", "wloadcvp", "wloadidx", "wloadcvr", "warg", "wret", "wcbarg", "wcbret", "wequiv", "wstoremix"]),
]


def lo(k):
    return -(1 << (8 * SIZE[k] - 1)) if k in SIGNED else 0


def hi(k):
    if k == "bool":
        return 1
    return (1 << (8 * SIZE[k] - 1)) - 1 if k in SIGNED else (1 << (8 * SIZE[k])) - 1


def boundary_values(rng, n_random):
    vals = set()
    for k in KINDS:
        for b in (lo(k), hi(k)):
            vals.update([b - 1, b, b + 1])
    for e in range(0, 65):
        for d in (-1, 0, 1):
            vals.add((1 << e) + d)
            vals.add(-(1 << e) + d)
    for _ in range(n_random):
        e = rng.randrange(1, 65)
        vals.add(rng.randrange(-(1 << (e - 1)), 1 << e))
    return sorted(vals)


def in_range(k, v):
    return lo(k) <= v <= hi(k)


# guest kinds of the two foreign ABIs (only used to pick in-range guest values for load paths)
def guest_kind(abi, k):
    m = {"lp32": {"short": "short", "int": "int", "long": "int", "llong": "long"},
         "wide": {"short": "int", "int": "long", "long": "long", "llong": "long"}}[abi]
    uns = {"short": "ushort", "int": "uint", "long": "ulong"}
    if k in m:
        return m[k]
    base = {"ushort": "short", "char16": "short", "uint": "int", "char32": "int", "ulong": "long", "ullong": "llong"}
    if k in base:
        return uns[m[base[k]]]
    if k == "uchar":
        return "uchar"
    return k


def gen_cases(tier, rng):
    cases = []
    vals = boundary_values(rng, 40 if tier == "quick" else 400)
    # kernel: every ordered pair at every boundary value representable in the source
    for t in KINDS:
        for f in KINDS:
            vs = [v for v in vals if in_range(f, v)]
            if tier == "quick" and len(vs) > 60:
                keep = [v for v in vs if any(abs(v - b) <= 1 for k in KINDS for b in (lo(k), hi(k)))]
                vs = sorted(set(keep + rng.sample(vs, 25)))
            for v in vs:
                cases.append("conv %s %s %d" % (t, f, v))
    # exhaustive sweeps: all 8-bit sources (quick), all 16-bit sources (quick too: cheap), 24-bit windows of wider
    for t in KINDS:
        for f in KINDS:
            if SIZE[f] <= 2:
                cases.append("convsweep %s %s %d %d" % (t, f, lo(f), hi(f)))
            elif tier == "thorough":
                for centre in {lo(t), hi(t), 0}:
                    a = max(lo(f), centre - 40000)
                    b = min(hi(f), centre + 40000)
                    if a <= b and -(1 << 62) < a and b < (1 << 62):
                        cases.append("convsweep %s %s %d %d" % (t, f, a, b))
    # arrays: one bad element at each index, memcpy and element-wise pairs
    for t in KINDS:
        for f in KINDS:
            good = [v for v in (0, 1, hi(f), lo(f)) if in_range(t, v) and in_range(f, v)]
            bad = [v for v in vals if in_range(f, v) and not in_range(t, v)]
            if not good or (t == "bool" and f in ("char", "schar", "uchar")):
                continue   # N2 pair on the memcpy path: observing the copied byte as bool is UB; outside the property
            for n in (1, 3, 4):
                cases.append("conva %s %s %s" % (t, f, ",".join(str(good[i % len(good)]) for i in range(n))))
                if bad:
                    for pos in range(n):
                        b = bad[rng.randrange(len(bad))]
                        arr = [good[i % len(good)] for i in range(n)]
                        arr[pos] = b
                        cases.append("conva %s %s %s" % (t, f, ",".join(map(str, arr))))
    # path level
    for abi, pre in (("lp32", ""), ("wide", "w"), ("lp32", "x")):
        for k in KINDS:
            cases.append("%sequiv %s %s" % (pre, abi, k))
            if k == "wchar":
                continue
            g = guest_kind(abi, k)
            app_vals = [v for v in vals if in_range(k, v)]
            guest_vals = [v for v in vals if in_range(g, v)]
            if tier == "quick":
                app_vals = [v for v in app_vals if any(abs(v - b) <= 1 for kk in (k, g) for b in (lo(kk), hi(kk)))] + rng.sample(app_vals, min(6, len(app_vals)))
                guest_vals = [v for v in guest_vals if any(abs(v - b) <= 1 for kk in (k, g) for b in (lo(kk), hi(kk)))] + rng.sample(guest_vals, min(6, len(guest_vals)))
            for v in sorted(set(app_vals)):
                for op in ("store", "arg", "cbret"):
                    cases.append("%s%s %s %s %d" % (pre, op, abi, k, v))
            for v in sorted(set(guest_vals)):
                for op in ("load", "ret", "cbarg", "loadcv", "loadcvp", "loadidx", "loadcvr"):
                    if k == "bool" and op != "load" and op != "ret" and op != "cbarg":
                        continue      # (std::unique_ptr<bool[]> / a guest bool other than 0/1: left to the scalar paths)
                    cases.append("%s%s %s %s %d" % (pre, op, abi, k, v))
        # the cell is rewritten by the sandbox right before the nth read of it (nth = 2..5): whatever the number of range
        # checks of the branch, the value checked must be the value converted
        for k in KINDS:
            if k in ("wchar", "bool"):
                continue
            g = guest_kind(abi, k)
            inr = [v for v in (0, 1, hi(k), lo(k), hi(k) - 1) if in_range(g, v) and in_range(k, v)]
            outr = [v for v in (hi(k) + 1, lo(k) - 1, hi(g), lo(g), hi(k) + 256) if in_range(g, v) and not in_range(k, v)]
            for v in sorted(set(inr)):
                for ev in sorted(set(outr + [x for x in inr if x != v][:1])):
                    for nth in (2, 3, 4, 5):
                        cases.append("%sloadw %s %s %d %d %d" % (pre, abi, k, v, ev, nth))
        # a plain value of one integer type stored through a tainted pointer to another type (every ordered pair)
        for k in KINDS:
            for f in KINDS:
                if "wchar" in (k, f) or (k == "bool" and f in ("char", "schar", "uchar")):
                    continue
                g = guest_kind(abi, k)
                vs = [v for v in vals if in_range(f, v)]
                near = [v for v in vs if any(abs(v - b) <= 1 for kk in (k, g, f) for b in (lo(kk), hi(kk)))]
                pick = sorted(set(near + rng.sample(vs, min(len(vs), 3 if tier == "quick" else 20))))
                for v in pick:
                    cases.append("%sstoremix %s %s %s %d" % (pre, abi, k, f, v))
    return cases


def NONTRIVIAL(case, model, cls):
    # non-trivial: reaches a checking branch, or crosses with a different width/signedness
    return "same-widen" not in cls or case.startswith(("w", "x", "store", "load", "arg", "ret", "cb"))


RULE = ("cases: every ordered pair of the 15 integer kinds x boundary values (limits +-1 of every kind, +-2^k, +-2^k+-1, random) "
        "representable in the source; exhaustive sweeps of every <=16-bit source against every target (summarised as runs); "
        "arrays of length 1,3,4 with one unrepresentable element at each index; path level (store/load/arg/ret/cbarg/cbret) on "
        "verif32 (LP32-like) and verifwide through the real API. non-trivial = reaches a branch with a dynamic check, or any path-level/sweep case; "
        "distinct = distinct case line")
TRUSTED = ["model of convert_type_fundamental hand-written in coq/Conv.v, tied by differential correspondence (this run)"]
ASSUMPTIONS = ["application ABI is x86-64 LP64 (sizes/signedness in coq/Machine.v probed against the compiler by the 'equiv' cases)",
               "N2: bool as target of another 1-byte type is outside the property (unreachable through convert_base_types_t); proved excluded, kept as C06_scalar_full_refuted"]

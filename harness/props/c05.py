"""C05 — tainted pointer arithmetic stays in the sandbox and uses the sandbox stride."""
import os
import re
from harness import vlib, m3_ast, m3_ptr
from harness.props.ptrcommon import *
PROP = "C05"
COQ_FILES = ["Machine.v", "Ptr.v", "Ptr_proofs.v", "Layout.v", "PtrAst.v"]
M3 = {}


def pre_generate(ctx):
    """M3 for the pointer operators: clang's AST of the instantiated tainted<double*>::operator+<K>, operator-<K>,
    operator[]<K&> (15 integer K) is translated into programs of coq/PtrAst.v; the kernel proves each equal to
    Ptr.ptr_arith / Ptr.ptr_index_gen for EVERY region list, stride, pointer and operand"""
    M3.clear()
    try:
        progs = m3_ptr.translate(vlib.INCLUDE, ctx.build)
    except m3_ast.Unknown as ex:
        M3["untranslated"] = str(ex)
        return
    text = m3_ptr.emit(progs)
    lock = vlib.coq_lock()
    try:
        with open(os.path.join(vlib.COQ, "Gen_PtrPrograms.v"), "w") as f:
            f.write(text)
        rc, out = vlib.sh(["timeout", "600", "coqc", "-Q", ".", "RLBoxV", "Gen_PtrPrograms.v"], cwd=vlib.COQ, timeout=700)
    finally:
        lock.close()
    M3["lemmas"] = text.count("Lemma ")
    M3["failed"] = []
    if rc != 0:
        m = re.search(r'line (\d+)', out)
        name = "?"
        if m:
            lines = text.splitlines()
            for k in range(min(int(m.group(1)), len(lines)) - 1, -1, -1):
                if lines[k].startswith("Lemma ") or lines[k].startswith("Definition "):
                    name = lines[k].split()[1]
                    break
        M3["failed"].append((name, out[-1500:]))
    M3["sample"] = {"%s<%s>" % k: str(v) for k, v in list(sorted(progs.items()))[3::17]}


def extra_checks(ctx, exes):
    if "untranslated" in M3:
        # the translator is an ADDITIONAL tie for the arithmetic kernel; when it cannot follow the source's shape the
        # kernel stays tied by the differential correspondence of this same run (every arith case above) — said in the evidence
        ctx.coverage["m3_ptr_status"] = "NOT TRANSLATED this run (tie falls back to the differential correspondence): " + M3["untranslated"]
        print("NOTE C05: pointer-operator AST not translated (%s); tie = differential correspondence only" % M3["untranslated"][:160])
        return
    n = M3.get("lemmas", 0)
    ctx.coverage["obligations"] = ctx.coverage.get("obligations", 0) + n
    ctx.coverage["discharged"] = ctx.coverage.get("discharged", 0) + (n if not M3["failed"] else 0)
    ctx.coverage["m3_ptr_status"] = "translated"
    ctx.coverage["m3_ptr_generated_lemmas_proved_for_all_inputs"] = n if not M3["failed"] else 0
    ctx.coverage["m3_ptr_samples"] = M3.get("sample", {})
    for name, out in M3["failed"][:3]:
        ctx.violations.append({"kind": "broken-proof", "case": "Gen_PtrPrograms: " + name, "impl": "", "model": out, "spec": "", "class": "m3",
                               "what": "the program translated from the AST of this instantiated pointer operator is no longer provably equal to Ptr.ptr_arith / ptr_index_gen for all inputs"})
DRIVERS = drivers("ARITH", ["arith", "stride"]) + drivers("ARITH", ["arith"], CFG_F)
PTEES = {"char": (1, 1), "short": (2, 2), "int": (4, 4), "long": (4, 4), "ulong": (4, 4), "llong": (8, 8), "cllong": (8, 8), "clong": (4, 4), "double": (8, 8),
         "ptr": (4, 2), "arr4": (16, 16), "larr3": (12, 12), "llarr3": (24, 24), "ullarr2x2": (32, 32), "sarr5": (10, 10), "ps": (32, 32)}   # guest stride under (cfg32, cfg16)


def gen_cases(tier, rng):
    cases = []
    for cfg, c in CFG.items():
        for pt in PTEES:
            cases.append("stride%s %s" % (cfg, pt))
        base, size = c["bases"][0], c["size"]
        for pt, strides in PTEES.items():
            st = strides[0] if cfg == "32" else strides[1]
            nelem = size // st
            starts = [("first", base), ("second", base + st), ("last", base + (nelem - 1) * st),
                      ("interior", base + (rng.randrange(2, nelem - 2)) * st), ("null", 0),
                      ("otherbox", c["bases"][1] + 5 * st)]
            for sname, p in starts:
                idx = (p - (c["bases"][1] if sname == "otherbox" else base)) // st if p else 0
                to_end = nelem - 1 - idx
                nvals = {0, 1, -1, 2, to_end, to_end + 1, to_end - 1, -idx, -idx - 1, -idx + 1, idx, idx + 1,
                         nelem, nelem - 1, -nelem, 1 << 31, -(1 << 31), (1 << 31) - 1, 1 << 32, (1 << 32) + 1, -(1 << 32),
                         1 << 62, (1 << 62) + 1, 1 << 63, (1 << 63) - 1, -(1 << 63), (1 << 64) - 1,
                         (1 << 64) // st, (1 << 64) // st + 1, 255, 256, 127, 128, -128, 65535, 65536, 32767}
                for k in IDX_KINDS:
                    nvals.update([lo(k), hi(k)])
                for _ in range(3 if tier == "quick" else 12):
                    nvals.add(rng.randrange(-(1 << 20), 1 << 20))
                    nvals.add(rng.randrange(-(1 << 63), 1 << 64))
                forms = ["add", "sub", "index", "radd"]
                kinds = IDX_KINDS if tier == "thorough" or pt in ("int", "ps", "long", "char", "cllong") else ["int", "ulong", "llong", "schar", "ushort"]
                for form in forms:
                    for k in kinds:
                        for n in sorted(nvals):
                            if fits(k, n):
                                cases.append("arith%s %s %s %d %s %d" % (cfg, pt, form, p, k, n))
                for form in ("addeq", "subeq"):
                    for k in ("int", "ulong", "llong"):
                        for n in (0, 1, -1, to_end, to_end + 1, -idx, -idx - 1, 1 << 62):
                            if fits(k, n):
                                cases.append("arith%s %s %s %d %s %d" % (cfg, pt, form, p, k, n))
                # the pointer operand itself lives in sandbox memory and is rewritten right after its first fetch
                if sname in ("second", "last", "interior"):      # (a cell cannot hold the base itself: its representation is the null one)
                    for wrapk in ("pcell0", "pcellm"):
                        for n in (0, 1, 2, to_end, to_end + 1, -idx, -idx - 1):
                            for form in ("add", "sub", "index"):
                                cases.append("arith%s %s %s %d llong %d %s" % (cfg, pt, form, p, n, wrapk))
                for form in ("preinc", "postinc", "predec", "postdec"):
                    cases.append("arith%s %s %s %d int 1" % (cfg, pt, form, p))
                # tainted / tainted_volatile operands
                # (wcell: a tainted_volatile operand whose cell the sandbox rewrites, to n + 3, before any second read of it:
                #  the bounds check and the address must come from ONE fetch — read-notification hook of /repo)
                for wrapk in ("tainted", "tvol", "wcell"):
                    for k in ("int", "uint", "long", "ulong"):
                        for n in (0, 1, -1, to_end, to_end + 1, -idx - 1, 1 << 31, (1 << 32) + 1, 1 << 62):
                            # (the four kinds are 32 bits wide in the guest: the rewritten value n + 3 must be representable there)
                            if fits(k, n) and (wrapk != "wcell" or fits("int" if k in ("int", "long") else "uint", n + 3)):
                                for form in ("add", "sub", "index", "radd"):
                                    cases.append("arith%s %s %s %d %s %d %s" % (cfg, pt, form, p, k, n, wrapk))
    # the same operators on the back end whose same-sandbox test is built on RLBox's finder, with ONE sandbox alive: the
    # containment check must still be exact (every address outside the single sandbox is refused)
    for cfg, c in CFG_F.items():
        base, size = c["bases"][0], c["size"]
        for pt in ("char", "int", "ps"):
            st = PTEES[pt][0]
            nelem = size // st
            for p in (base, base + st, base + (nelem - 1) * st, base + 4096 * st):
                idx = (p - base) // st
                to_end = nelem - 1 - idx
                for form in ("add", "sub", "index", "radd"):
                    for k in ("int", "llong"):
                        for n in (0, 1, -1, to_end, to_end + 1, -idx, -idx - 1, 1 << 20, -(1 << 20), 1 << 30, (1 << 40) + 1, -(1 << 40)):
                            if fits(k, n):
                                cases.append("arith%s %s %s %d %s %d" % (cfg, pt, form, p, k, n))
    if tier == "quick" and len(cases) > 60000:
        keep = [c for c in cases if c.startswith("stride") or "pcell" in c or "wcell" in c or c.startswith("arith3f")]
        rest = [c for c in cases if not (c.startswith("stride") or "pcell" in c or "wcell" in c or c.startswith("arith3f"))]
        rng.shuffle(rest)
        cases = keep + rest[:max(0, 60000 - len(keep))]
    return cases


canon = canon


def NONTRIVIAL(case, model, cls):
    return not case.startswith("stride")


RULE = ("per configuration (verif32: 4 GiB regions, 32-bit rep; verif16: 64 KiB regions, 16-bit rep; two live sandboxes at fixed bases): "
        "11 pointee types x bases {first, second, last element, interior, null, other sandbox} x forms {+ - += -= ++p p++ --p p-- &p[n]} x index kinds "
        "x n in {0, +-1, distance to each end +-1, +-nelem, type limits, +-2^31, 2^32(+1), 2^62(+1), 2^63, 2^64-1, 2^64/stride(+1), random}, "
        "plain/tainted/tainted_volatile operands; stride probed as sizeof(tainted_volatile<T>) and &p[1]-&p[0]. distinct = distinct case line; non-trivial = every arith case")
TRUSTED = ["models coq/Ptr.v (arith_form, ptr_arith) and coq/Layout.v (sizeof) hand-written; tied by differential correspondence with absolute addresses",
           "M3 (pointer operators): harness/m3_ptr.py translator from clang 14's JSON AST; assumed of the nodes it treats as transparent: detail::unwrap_value of a plain integer is that integer, "
           "impl().get_raw_value() is the address held, tainted<T*>::internal_factory(a) designates a, *wrapper designates the address the wrapper holds, "
           "sizeof(tainted_volatile<T>) is the guest-ABI size of T (checked by the stride cases of this same run), pointer<->integer casts are the identity (64-bit host)"]
ASSUMPTIONS = ["back end honours the isolating contract world_ok (regions disjoint, non-null, below 2^64); verif16/verif32 are instances"]

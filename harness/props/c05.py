"""C05 — tainted pointer arithmetic stays in the sandbox and uses the sandbox stride."""
from harness.props.ptrcommon import *
PROP = "C05"
COQ_FILES = ["Machine.v", "Ptr.v", "Ptr_proofs.v", "Layout.v"]
DRIVERS = drivers("ARITH", ["arith", "stride"])
PTEES = {"char": (1, 1), "short": (2, 2), "int": (4, 4), "long": (4, 4), "ulong": (4, 4), "llong": (8, 8), "double": (8, 8),
         "ptr": (4, 2), "arr4": (16, 16), "larr3": (12, 12), "ps": (32, 32)}   # guest stride under (cfg32, cfg16)


def gen_cases(tier, rng):
    cases = []
    for cfg, c in CFG.items():
        for pt in PTEES:
            cases.append("stride%s %s" % (cfg, pt))
        base, size = c["bases"][0], c["size"]
        for pt, strides in PTEES.items():
            st = strides[0] if cfg == "32" else strides[1]
            nelem = size // st
            starts = [("first", base), ("second", base + st), ("last", base + (nelem - 1) * st),
                      ("interior", base + (rng.randrange(2, nelem - 2)) * st), ("null", 0),
                      ("otherbox", c["bases"][1] + 5 * st)]
            for sname, p in starts:
                idx = (p - (c["bases"][1] if sname == "otherbox" else base)) // st if p else 0
                to_end = nelem - 1 - idx
                nvals = {0, 1, -1, 2, to_end, to_end + 1, to_end - 1, -idx, -idx - 1, -idx + 1, idx, idx + 1,
                         nelem, nelem - 1, -nelem, 1 << 31, -(1 << 31), (1 << 31) - 1, 1 << 32, (1 << 32) + 1, -(1 << 32),
                         1 << 62, (1 << 62) + 1, 1 << 63, (1 << 63) - 1, -(1 << 63), (1 << 64) - 1,
                         (1 << 64) // st, (1 << 64) // st + 1, 255, 256, 127, 128, -128, 65535, 65536, 32767}
                for k in IDX_KINDS:
                    nvals.update([lo(k), hi(k)])
                for _ in range(3 if tier == "quick" else 12):
                    nvals.add(rng.randrange(-(1 << 20), 1 << 20))
                    nvals.add(rng.randrange(-(1 << 63), 1 << 64))
                forms = ["add", "sub", "index"]
                kinds = IDX_KINDS if tier == "thorough" or pt in ("int", "ps", "long", "char") else ["int", "ulong", "llong", "schar", "ushort"]
                for form in forms:
                    for k in kinds:
                        for n in sorted(nvals):
                            if fits(k, n):
                                cases.append("arith%s %s %s %d %s %d" % (cfg, pt, form, p, k, n))
                for form in ("addeq", "subeq"):
                    for k in ("int", "ulong", "llong"):
                        for n in (0, 1, -1, to_end, to_end + 1, -idx, -idx - 1, 1 << 62):
                            if fits(k, n):
                                cases.append("arith%s %s %s %d %s %d" % (cfg, pt, form, p, k, n))
                for form in ("preinc", "postinc", "predec", "postdec"):
                    cases.append("arith%s %s %s %d int 1" % (cfg, pt, form, p))
                # tainted / tainted_volatile operands
                for wrapk in ("tainted", "tvol"):
                    for k in ("int", "uint", "long", "ulong"):
                        for n in (0, 1, -1, to_end, to_end + 1, -idx - 1, 1 << 31, (1 << 32) + 1, 1 << 62):
                            if fits(k, n):
                                for form in ("add", "sub", "index"):
                                    cases.append("arith%s %s %s %d %s %d %s" % (cfg, pt, form, p, k, n, wrapk))
    if tier == "quick" and len(cases) > 60000:
        keep = [c for c in cases if c.startswith("stride")]
        rest = [c for c in cases if not c.startswith("stride")]
        rng.shuffle(rest)
        cases = keep + rest[:60000]
    return cases


canon = canon


def NONTRIVIAL(case, model, cls):
    return not case.startswith("stride")


RULE = ("per configuration (verif32: 4 GiB regions, 32-bit rep; verif16: 64 KiB regions, 16-bit rep; two live sandboxes at fixed bases): "
        "11 pointee types x bases {first, second, last element, interior, null, other sandbox} x forms {+ - += -= ++p p++ --p p-- &p[n]} x index kinds "
        "x n in {0, +-1, distance to each end +-1, +-nelem, type limits, +-2^31, 2^32(+1), 2^62(+1), 2^63, 2^64-1, 2^64/stride(+1), random}, "
        "plain/tainted/tainted_volatile operands; stride probed as sizeof(tainted_volatile<T>) and &p[1]-&p[0]. distinct = distinct case line; non-trivial = every arith case")
TRUSTED = ["models coq/Ptr.v (arith_form, ptr_arith) and coq/Layout.v (sizeof) hand-written; tied by differential correspondence with absolute addresses"]
ASSUMPTIONS = ["back end honours the isolating contract world_ok (regions disjoint, non-null, below 2^64); verif16/verif32 are instances"]

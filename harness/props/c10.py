"""C10 — bulk memory operations never straddle or leave the sandbox."""
import os
from harness import vlib, m3_ast, m3_ptr
from harness.props.ptrcommon import *
PROP = "C10"
COQ_FILES = ["Machine.v", "Ptr.v", "Ptr_proofs.v", "Bulk.v", "Bulk_proofs.v", "PtrAst.v"]
M3 = {}


def pre_generate(ctx):
    """M3 for the range check: clang's AST of the instantiated detail::check_range_doesnt_cross_app_sbx_boundary is translated
    into a check-only program of coq/PtrAst.v; the kernel proves it equal to Ptr.check_range for EVERY region list, start, size"""
    M3.clear()
    try:
        prog = m3_ptr.translate_range(vlib.INCLUDE, ctx.build)
    except m3_ast.Unknown as ex:
        M3["untranslated"] = str(ex)
        return
    text = m3_ptr.emit_range(prog)
    lock = vlib.coq_lock()
    try:
        with open(os.path.join(vlib.COQ, "Gen_RangeProgram.v"), "w") as f:
            f.write(text)
        rc, out = vlib.sh(["timeout", "300", "coqc", "-Q", ".", "RLBoxV", "Gen_RangeProgram.v"], cwd=vlib.COQ, timeout=400)
    finally:
        lock.close()
    M3["program"] = [l for l in text.splitlines() if l.startswith("Definition")][0]
    M3["failed"] = None if rc == 0 else out[-1500:]


def extra_checks(ctx, exes):
    if "untranslated" in M3:
        ctx.coverage["m3_range_status"] = "NOT TRANSLATED this run (tie falls back to the differential correspondence): " + M3["untranslated"]
        print("NOTE C10: range-check AST not translated (%s); tie = differential correspondence only" % M3["untranslated"][:160])
        return
    ctx.coverage["obligations"] = ctx.coverage.get("obligations", 0) + 1
    ctx.coverage["discharged"] = ctx.coverage.get("discharged", 0) + (0 if M3["failed"] else 1)
    ctx.coverage["m3_range_status"] = "translated"
    ctx.coverage["m3_range_program"] = M3["program"]
    if M3["failed"]:
        ctx.violations.append({"kind": "broken-proof", "case": "Gen_RangeProgram: rprog_check_range_ok", "impl": M3["program"], "model": M3["failed"], "spec": "", "class": "m3",
                               "what": "the program translated from the AST of check_range_doesnt_cross_app_sbx_boundary is no longer provably equal to Ptr.check_range for all inputs"})
DRIVERS = drivers("BULK", ["memset", "memcpy", "memcmp", "vrange", "usp", "deny", "grant"]) + \
    [dict(name="verify", src="verify.cpp", defines=[], ops=["cv09"])] + \
    [dict(name="ptr_grant_32", src="ptr.cpp", defines=["VERIF_CFG=verif_cfg32g", "PART_BULK", "PTR_GRANT"], ops=["ggrant32", "gdeny32"])]   # back end WITH grant/deny
M64 = 1 << 64


def gen_cases(tier, rng):
    cases = []
    for cfg, c in CFG.items():
        A, Bb = c["bases"]
        size, win = c["size"], c["window"]
        starts = [A, A + 1, A + 7, A + 4096, A + win - 64, A + size - 4096, A + size - 100, A + size - 1, A + size - 8,
                  Bb + 16, Bb + size - 1, A + rng.randrange(16, win - 5000)]
        def extents(p, base):
            to_end = base + size - p
            e = {0, 1, 2, 3, 8, 64, 4095, 4096, 4097, to_end - 1, to_end, to_end + 1, to_end + 2, size - 1, size, size + 1,
                 (1 << 16) - 1, 1 << 16, (1 << 16) + 1, (1 << 31) - 1, 1 << 31, (1 << 32) - 1, 1 << 32, (1 << 32) + 1,
                 1 << 63, (1 << 63) - 1, M64 - 1, M64 - 8, M64 - (p - base) - 1, M64 - (p - base), M64 - (p - base) + 1}
            for _ in range(6 if tier == "quick" else 60):
                e.add(rng.randrange(1, max(2, to_end + 10)))
            return sorted(x for x in e if 0 <= x < M64)

        def observable(p, n, base):
            # an accepted request is only issued when its footprint lies in committed, observed memory
            if n == 0:
                return True
            if p + n > base + size:
                return True   # expected to abort
            return (p + n <= base + win) or (p >= base + size - 4096)
        for p in starts:
            base = A if p < Bb else Bb
            for n in extents(p, base):
                if not observable(p, n, base):
                    continue
                for nk in ("ulong", "int", "long", "uint", "ushort", "llong"):
                    vals = [n] if fits(nk, n) else []
                    if nk in ("int", "long", "llong") and 0 < M64 - n <= -lo(nk):
                        vals.append(n - M64)      # negative size operands
                    for v in vals:
                        cases.append("memset%s %d %s %d" % (cfg, p, nk, v))
                        if nk in ("ulong", "int"):
                            cases.append("memset%s %d %s %d tainted" % (cfg, p, nk, v))
                # memcpy / memcmp: sources in app buffer, app buffer end, other sandbox, same sandbox
                for src in (APP_BASE + 64, APP_BASE + APP_SIZE - 16, Bb + 64 if base == A else A + 64, A + 2048, Bb + size - 8, 0):
                    sb = A if A <= src < A + size else Bb if Bb <= src < Bb + size else None
                    if sb is None and src and src + n > APP_BASE + APP_SIZE and n <= size:
                        continue   # would read unmapped application memory: not a valid request
                    if sb is not None and not observable(src, n, sb):
                        continue
                    for nk in ("ulong", "int"):
                        if fits(nk, n):
                            cases.append("memcpy%s %d %d %s %d" % (cfg, p, src, nk, n))
                            cases.append("memcmp%s %d %d %s %d" % (cfg, p, src, nk, n))
            # counted variants
            for elk, es in (("char", 1), ("short", 2), ("int", 4), ("long", 8), ("llong", 8)):
                to_end = (A if p < Bb else Bb) + size - p
                counts = {0, 1, 2, to_end // es - 1, to_end // es, to_end // es + 1, size // es, size // es + 1, 1 << 31, 1 << 32,
                          (1 << 62) + 1, (1 << 61) + 1, (1 << 63) + 1, M64 - 1, M64 // es, M64 // es + 1, M64 // es - 1,
                          (M64 - 8) // es, 4000}
                for cnt in sorted(x for x in counts if 0 <= x < M64):
                    cases.append("vrange%s %d %s %d" % (cfg, p, elk, cnt))
                    cases.append("usp%s %d %s %d" % (cfg, p, elk, cnt))
        # copy_memory_or_deny_access (copy path): element kinds it accepts x counts incl. those whose byte extent wraps
        for p in starts:
            base = A if p < Bb else Bb
            to_end = base + size - p
            for elk, es in (("char", 1), ("short", 2), ("float", 4), ("double", 8)):
                counts = {0, 1, 2, 16, to_end // es - 1, to_end // es, to_end // es + 1, size // es + 1, 1 << 32,
                          (1 << 62) + 2, (1 << 61) + 1, (1 << 63) + 1, M64 // es, M64 // es + 1, M64 // es + 2, M64 - 1}
                for cnt in sorted(x for x in counts if 0 <= x < M64):
                    n = cnt * es
                    if n < M64 and p + n <= base + size and not observable(p, n, base):
                        continue
                    cases.append("deny%s %d %s %d" % (cfg, p, elk, cnt))
        # copy_memory_or_grant_access (copy path): application source, injected allocator results (start, interior,
        # last bytes, just short of the end, null), counts around what fits
        for ret in (0, 16, 4096, win - 64, size - 4096, size - 64, size - 8, size - 1):
            for num in (0, 1, 7, 8, 9, 63, 64, 65, 4096, (1 << 32) - 1, 1 << 32):
                p = A + ret
                if num and ret and p + num <= A + size and not observable(p, num, A):
                    continue
                if num > APP_SIZE - 64 and num < (1 << 32) and ret and (ret + num <= size):
                    continue     # would read past the application buffer: not a valid request
                cases.append("grant%s %d %d %d" % (cfg, APP_BASE + 64, num, ret))
        if cfg == "32":
            # a back end that can grant / deny access: the source is range-checked BEFORE the back end is asked
            for src in (0, A + 16, A + size - 64, A + size - 8, A + size - 1, A - 8, A - 1, Bb + 32, Bb - 4, APP_BASE + 64, APP_BASE + APP_SIZE - 4096):
                for num in (0, 1, 8, 16, 64, 4096):
                    if src and src >= APP_BASE and src + num > APP_BASE + APP_SIZE - 64:
                        continue
                    in_app = APP_BASE <= src and src + num <= APP_BASE + APP_SIZE
                    in_a = A <= src and src + num <= A + size and observable(src, max(num, 1), A)
                    outside = all(src + num <= b or src >= b + size for b in (A, Bb))
                    inside = any(b <= src and src + num <= b + size for b in (A, Bb))
                    straddles = src != 0 and num > 0 and not outside and not inside      # refused by the range check before anything is read
                    # the back end accepts: nothing is read or written, every source may be tried
                    cases.append("ggrant32 %d %d 1 %d %d" % (src, num, A + 8192, 4096))
                    in_sbx = src == 0 or A <= src < A + size or Bb <= src < Bb + size     # a tainted pointer cannot hold anything else
                    if in_sbx:
                        cases.append("gdeny32 %d %d 1 %d" % (src, num, APP_BASE + 128))
                    # the back end declines: the copy path runs, so the source must be a real buffer (or be refused before)
                    if in_app or src == 0 or straddles:
                        cases.append("ggrant32 %d %d 0 %d %d" % (src, num, A + 8192, 4096))
                    if in_sbx and (in_a or src == 0 or straddles):
                        cases.append("gdeny32 %d %d 0 %d" % (src, num, APP_BASE + 128))
        if cfg == "32":
            # unverified_safe_pointer_because on a pointer CELL in sandbox memory, rewritten while the range check runs
            TOT = 1 << 32

            def le4(v):
                return [(v >> (8 * i)) & 255 for i in range(4)]
            for cnt in (0, 1, 16, 4096):
                for rep in (0, 16, TOT - 4096, (TOT - cnt) % TOT, (TOT - cnt + 1) % TOT, TOT - 1):
                    w = le4(rep) + [0x33, 0x44]
                    hx = "".join("%02x" % b for b in w)
                    cases.append("cv09 uspc 0 %d 0 %s -" % (cnt, hx))
                    for new in (0, 16, TOT - 1, TOT - 16):
                        nb = le4(new)
                        for t in (0, 1):
                            cases.append("cv09 uspc 0 %d 0 %s %s" % (cnt, hx, ",".join("%d:%d:%d" % (t, i, nb[i]) for i in range(4))))
            # copy_and_verify_string / copy_and_verify_range at the very end of sandbox memory with a sandbox that lengthens
            # the string or flips bytes at every interleave point: only the bytes of the range that was checked are touched
            # (the C09 driver and model: here the strings that end on the last byte, both verifier flavours)
            from . import c09 as _c09
            for variant in ("stru", "strs"):
                for n in (0, 1, 3, 6):
                    sbytes = [65 + (i % 26) for i in range(n)] + [0]
                    for off, w in ((0, sbytes), (2, [0x7a, 0x7a] + sbytes)):
                        hx = _c09.hexs(w)
                        cases.append("cv09 %s %d 0 0 %s -" % (variant, off, hx))
                        for t in range(0, len(w) + 8):
                            cases.append("cv09 %s %d 0 0 %s %d:%d:%d" % (variant, off, hx, t, len(w) - 1, 0x21))     # terminator removed
                            if n:
                                cases.append("cv09 %s %d 0 0 %s %d:%d:%d" % (variant, off, hx, t, off, 0))             # shortened
            for elsz, count in ((1, 4), (4, 2), (8, 1)):
                w = [rng.randrange(256) for _ in range(elsz * count)]
                for t in range(count + 3):
                    cases.append("cv09 range 0 %d %d %s %d:%d:%d" % (elsz, count, _c09.hexs(w), t, len(w) - 1, w[-1] ^ 0xff))
        for elk in ("char", "int"):
            for cnt in (0, 1, 5):
                cases.append("vrange%s 0 %s %d" % (cfg, elk, cnt))
                cases.append("usp%s 0 %s %d" % (cfg, elk, cnt))
    return cases


_canon0 = canon


def canon(case, r):
    r = _canon0(case, r)
    if case.startswith("deny") and r in ("ABORT", "OK null"):
        return "REFUSED"
    return r


def NONTRIVIAL(case, model, cls):
    return ":empty" not in cls


RULE = ("verif16 and verif32, two live sandboxes + an application buffer at fixed addresses; starts {first byte, +1, +7, page, end of observed window, "
        "last page, last 100/8/1 bytes, other sandbox, random interior} x extents {0..3, 8, 64, page+-1, distance to region end -1/0/+1/+2, size-1/size/size+1, "
        "2^16+-1, 2^31, 2^32+-1, 2^63, 2^64-8, 2^64-1, values wrapping back to the start, random} as plain/tainted operands of six integer kinds incl. "
        "negative values; memcpy/memcmp sources in app memory, other sandbox, same sandbox, null; element-counted variants x 5 element sizes x counts incl. "
        "2^61+1, 2^62+1, 2^64/size+-1. Writes observed by byte-diff of the observed windows (whole region on verif16).")
TRUSTED = ["models coq/Bulk.v and coq/Ptr.v check_range hand-written; tied by differential correspondence",
           "M3 (range check): harness/m3_ptr.py translate_range from clang 14's JSON AST; pointer<->integer casts are the identity (64-bit host); is_in_same_sandbox is Ptr.same_sbx (tied by the vrange/memset cases)"]
ASSUMPTIONS = ["application-side ranges do not wrap the address space (p + n <= 2^64) — proved unnecessary for sandbox-side ranges",
               "all live sandboxes of one back-end type have the same total memory (uniform)"]

"""shared generator for call-tree cases (C12, C19, part of C11): a register/unregister
history, then a tree of nested invocations and callbacks"""
import itertools

CFG = {
    # op: (application value range, guest value range, slots, dead slots allowed)
    "calls32": ((-(1 << 63), (1 << 63) - 1), (-(1 << 31), (1 << 31) - 1), 4),
    "calls32h": ((-(1 << 63), (1 << 63) - 1), (-(1 << 31), (1 << 31) - 1), 4),
    "calls32t": ((-(1 << 63), (1 << 63) - 1), (-(1 << 31), (1 << 31) - 1), 4),
    "calls32i": ((-(1 << 63), (1 << 63) - 1), (-(1 << 31), (1 << 31) - 1), 4),
    "calls32o": ((-(1 << 63), (1 << 63) - 1), (-(1 << 31), (1 << 31) - 1), 4),
    "callsw": ((-(1 << 31), (1 << 31) - 1), (-(1 << 63), (1 << 63) - 1), 4),
    "callsn": ((-(1 << 63), (1 << 63) - 1), (-(1 << 63), (1 << 63) - 1), 64),
    "callsne": ((-(1 << 63), (1 << 63) - 1), (-(1 << 63), (1 << 63) - 1), 64),
    "callsd": ((-(1 << 63), (1 << 63) - 1), (-(1 << 63), (1 << 63) - 1), 64),
    "callsde": ((-(1 << 63), (1 << 63) - 1), (-(1 << 63), (1 << 63) - 1), 64),
}
NSB, NFN = 3, 8


class Reg:
    """mirror of 'first free slot' only to aim the trees at live / dead entry points"""
    def __init__(self, nslots):
        self.slots = [[None] * nslots for _ in range(NSB)]
        self.ops = []
        self.abort = False

    def reg(self, s, f):
        self.ops.append("r:%d:%d" % (s, f))
        if f in self.slots[s] or None not in self.slots[s]:
            self.abort = True
            return
        self.slots[s][self.slots[s].index(None)] = f

    def unreg(self, s, f):
        self.ops.append("u:%d:%d" % (s, f))
        if f in self.slots[s]:
            self.slots[s][self.slots[s].index(f)] = None

    def live(self, s):
        return [i for i, f in enumerate(self.slots[s]) if f is not None]


def prefixes(op, rng, n_random):
    nslots = CFG[op][2]
    out = []
    # a fixed set: plain, full table, reuse after unregistration (function/slot mapping permuted)
    fixed = [
        [("r", 0, 0), ("r", 0, 1), ("r", 1, 0), ("r", 1, 1), ("r", 2, 2), ("r", 2, 3)],
        [("r", 0, 0), ("r", 0, 1), ("r", 0, 2), ("r", 0, 3), ("r", 1, 4), ("r", 1, 5), ("r", 2, 6), ("r", 2, 7)],
        [("r", 0, 0), ("r", 0, 1), ("r", 0, 2), ("u", 0, 1), ("r", 0, 5), ("u", 0, 0), ("r", 0, 6), ("r", 0, 1),
         ("r", 1, 3), ("r", 1, 2), ("u", 1, 3), ("r", 1, 7), ("r", 2, 0)],
        [("r", 0, 2), ("r", 0, 4), ("u", 0, 2), ("r", 1, 2), ("r", 1, 4), ("r", 2, 1), ("r", 2, 3), ("u", 2, 1), ("r", 2, 5), ("r", 2, 1)],
    ]
    for ops in fixed:
        r = Reg(nslots)
        for k, s, f in ops:
            (r.reg if k == "r" else r.unreg)(s, f)
        out.append(r)
    for _ in range(n_random):
        r = Reg(nslots)
        for _ in range(rng.randrange(3, 16)):
            s = rng.randrange(NSB)
            f = rng.randrange(NFN)
            if f in r.slots[s]:
                if rng.random() < 0.8:
                    r.unreg(s, f)
            elif None in r.slots[s] or rng.random() < 0.03:
                r.reg(s, f)
        # make sure every sandbox has something to call
        for s in range(NSB):
            if not r.live(s) and not r.abort:
                r.reg(s, rng.randrange(NFN))
        out.append(r)
    return out


def val(rng, rng_range, bad_for=None):
    """a value inside rng_range; if bad_for is given, outside bad_for when possible"""
    lo, hi = rng_range
    if bad_for is not None:
        blo, bhi = bad_for
        cands = [x for x in (bhi + 1, bhi + 2, blo - 1, blo - 2, 1 << 40, -(1 << 40), hi, lo) if lo <= x <= hi and not (blo <= x <= bhi)]
        if cands:
            return rng.choice(cands)
    good = (max(lo, bad_for[0]), min(hi, bad_for[1])) if False else None
    choices = [0, 1, -1, 7, 100, 12345]
    return rng.choice([c for c in choices if lo <= c <= hi])


def val_ok(rng, a, b):
    """a value representable in both ranges, sometimes at a boundary"""
    lo, hi = max(a[0], b[0]), min(a[1], b[1])
    return rng.choice([0, 1, -1, 7, 100, 12345, lo, hi, rng.randrange(lo, hi + 1)])


class TreeGen:
    def __init__(self, op, reg, rng):
        self.op = op
        self.app, self.guest, self.nslots = CFG[op]
        self.reg = reg
        self.rng = rng

    def node(self, is_invoke, cur, shape, fault_at, counter, catches, dead_p=0.0):
        """shape: nested lists (children shapes); fault_at: (index, kind) in preorder numbering"""
        rng = self.rng
        me = counter[0]
        counter[0] += 1
        fk = fault_at[1] if fault_at and fault_at[0] == me else None
        if is_invoke:
            tgt = rng.randrange(NSB)
            fnid = rng.randrange(2)
            if fk == "ret":
                fnid = 0
            arg = val(rng, self.app, self.guest) if fk == "arg" else val_ok(rng, self.app, self.guest)
            ret = val(rng, self.guest, self.app) if fk == "ret" else val_ok(rng, self.app, self.guest)
            throws = 0
            c = 0
            nxt = tgt
        else:
            live = self.reg.live(cur)
            if live and rng.random() >= dead_p:
                tgt = rng.choice(live)
            else:
                tgt = rng.randrange(min(self.nslots, 6))
            f = self.reg.slots[cur][tgt] if tgt < self.nslots else None
            if fk == "ret" and (f is None or f % 2 == 1):
                # need a non-void callback for a result fault
                nv = [i for i in live if self.reg.slots[cur][i] % 2 == 0]
                if nv:
                    tgt = rng.choice(nv)
            fnid = 0
            arg = val(rng, self.guest, self.app) if fk == "arg" else val_ok(rng, self.app, self.guest)
            ret = val(rng, self.app, self.guest) if fk == "ret" else val_ok(rng, self.app, self.guest)
            throws = 1 if fk == "body" else 0
            c = 1 if catches else 0
            nxt = cur
        toks = ["N", str(tgt), str(fnid), str(arg), str(ret), str(throws), str(c), str(len(shape))]
        for sh in shape:
            toks += self.node(not is_invoke, nxt, sh, fault_at, counter, catches, dead_p)
        return toks


def shapes(depth, width):
    """all trees of the given maximal depth and width, as nested tuples"""
    if depth == 0:
        return [()]
    sub = shapes(depth - 1, width)
    out = [()]
    for k in range(1, width + 1):
        for combo in itertools.product(sub, repeat=k):
            out.append(tuple(combo))
    return out


def count_nodes(shape):
    return 1 + sum(count_nodes(s) for s in shape)


def random_shape(rng, depth, width):
    if depth == 0:
        return ()
    return tuple(random_shape(rng, depth - 1, width) for _ in range(rng.randrange(0, width + 1)))


def gen(op, tier, rng, enum_depth, n_random, rand_depth, rand_width=3):
    cases = []
    pres = prefixes(op, rng, 6 if tier == "quick" else 40)
    good = [p for p in pres if not p.abort]
    for p in pres:
        if p.abort:
            cases.append("%s %s | N 0 0 1 1 0 0 0" % (op, " ".join(p.ops)))
    # enumerated shapes x a fault at every node x every fault kind
    shp = shapes(enum_depth - 1, 2)
    for si, sh in enumerate(shp):
        n = count_nodes(sh)
        for pos in [None] + list(range(n)):
            for kind in ([None] if pos is None else ["arg", "ret", "body"]):
                for catches in (False, True):
                    p = good[(si + (pos or 0)) % len(good)]
                    g = TreeGen(op, p, rng)
                    toks = g.node(True, 99, sh, (pos, kind) if pos is not None else None, [0], catches)
                    cases.append("%s %s | %s" % (op, " ".join(p.ops), " ".join(toks)))
    for _ in range(n_random):
        p = rng.choice(good)
        g = TreeGen(op, p, rng)
        sh = random_shape(rng, rand_depth - 1, rand_width)
        n = count_nodes(sh)
        fa = None
        if rng.random() < 0.6:
            fa = (rng.randrange(n), rng.choice(["arg", "ret", "body"]))
        toks = g.node(True, 99, sh, fa, [0], rng.random() < 0.5, dead_p=0.05)
        cases.append("%s %s | %s" % (op, " ".join(p.ops), " ".join(toks)))
    return cases

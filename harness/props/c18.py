"""C18 — distinct sandboxes can be used from distinct threads without interference."""
import os
import subprocess
from harness import vlib
PROP = "C18"
COQ_FILES = ["Machine.v", "World.v", "World_proofs.v", "Ptr.v", "Threads.v", "Threads_proofs.v"]
TSAN = ["-fsanitize=thread", "-g"]
DRIVERS = [
    dict(name="mt_verif32", src="mt.cpp", defines=["LIFE_VERIF"], ops=["mt32"]),
    dict(name="mt_noop", src="mt.cpp", defines=["LIFE_NOOP"], ops=["mtn"]),
    dict(name="mt_noop_etls", src="mt.cpp", defines=["LIFE_NOOP", "RLBOX_EMBEDDER_PROVIDES_TLS_STATIC_VARIABLES"], ops=["mtne"]),     # embedder-provided TLS
    dict(name="mt_dylib", src="mt.cpp", defines=["LIFE_DYLIB"], ops=["mtd"]),
    dict(name="mt_verif32_tsan", src="mt.cpp", defines=["LIFE_VERIF", "LIFE_VERIF16", "LIFE_NO_FIXED_BASE"], ops=["tsan-mt32"], flags=TSAN),
    dict(name="mt_noop_tsan", src="mt.cpp", defines=["LIFE_NOOP", "LIFE_NO_FIXED_BASE"], ops=["tsan-mtn"], flags=TSAN),
]
# operations a thread performs on its own objects 0..2 (no destroyed-and-recreated registrations: that is D12, C14's finding)
ALPHA = ["c:0:1", "d:0", "m:0", "f:0", "x:0:64", "x:0:4095", "r:0:0:1", "r:1:0:2", "u:0", "u:1", "go:0", "go:1", "gs:0:0", "l:0:5", "il:0:5", "lb:0:6", "q:0",
         "c:1:1", "d:1", "x:1:128", "m:1", "r:2:1:3", "go:2", "c:0:0"]


def history(rng, n):
    ops = []
    created = set()
    had_state = set()
    for _ in range(n):
        o = rng.choice(ALPHA)
        f = o.split(":")
        # avoid re-creating an object that carried registrations / cached symbols (known finding D12 of C14)
        if f[0] == "c" and int(f[1]) in had_state:
            continue
        if f[0] in ("r", "l", "il", "lb"):
            had_state.add(int(f[2]) if f[0] == "r" else int(f[1]))
        ops.append(o)
    return ops


def gen_cases(tier, rng):
    q = tier == "quick"
    cases = []
    for op, reps in (("mt32", 20 if q else 100), ("mtn", 20 if q else 100), ("mtne", 20 if q else 100), ("mtd", 20 if q else 100)):
        for nth in (2, 3, 4, 8, 16):
            for _ in range(16 if q else 200):
                hs = [" ".join(history(rng, rng.randrange(4, 18))) for _ in range(nth)]
                cases.append("%s %d | %s" % (op, reps, " | ".join(hs)))
        # every thread hammers create / example lookup / destroy: overlapping list updates and scans
        for nth in (2, 4, 16):
            hs = [" ".join(["c:0:1", "x:0:64", "d:0"] * 12) for _ in range(nth)]
            cases.append("%s %d | %s" % (op, reps, " | ".join(hs)))
        # every thread is inside its own sandbox and takes callbacks while the others do the same: the back end's
        # per-thread record (current sandbox, last entry point) must be per thread
        for nth in (2, 4, 8):
            hs = [" ".join(["c:0:1", "r:0:0:%d" % (1 + k % 3), "r:1:0:%d" % (4 + k % 3)] + ["go:0", "go:1"] * 10) for k in range(nth)]
            cases.append("%s %d | %s" % (op, reps, " | ".join(hs)))
    return cases


def extra_checks(ctx, exes):
    """the same experiments under ThreadSanitizer: any reported data race is a violation"""
    n_run = 0
    for name, op in (("mt_verif32_tsan", "mt32"), ("mt_noop_tsan", "mtn")):
        if name not in exes:
            continue
        cases = [c for c in gen_cases(ctx.tier, ctx.rng) if c.startswith(op + " ")][::3]
        # ThreadSanitizer slows every access down 10-20x: fewer repetitions per experiment than the plain runs
        treps = "10" if ctx.tier == "quick" else "25"
        cases = [" ".join([c.split(" ")[0], treps] + c.split(" ")[2:]) for c in cases]
        cf = os.path.join(ctx.build, "tsan_%s.txt" % op)
        with open(cf, "w") as f:
            for c in cases:
                f.write(c.replace(op + " ", op + " ", 1) + "\n")
        logp = os.path.join(ctx.build, "tsanlog_%s" % op)
        env = dict(os.environ, TSAN_OPTIONS="exitcode=0 log_path=%s halt_on_error=0 report_signal_unsafe=0" % logp)
        p = subprocess.run([exes[name], cf], stdout=subprocess.PIPE, stderr=subprocess.PIPE, text=True, env=env, timeout=3000)
        n_run += len(p.stdout.splitlines())
        reports = []
        for fn in os.listdir(ctx.build):
            if fn.startswith("tsanlog_%s" % op):
                txt = open(os.path.join(ctx.build, fn)).read()
                if "ThreadSanitizer" in txt:
                    reports.append(txt)
        for r in reports[:2]:
            # a race inside the harness's own code would be the harness's fault: name the frames
            ctx.violations.append({"kind": "counterexample", "case": "ThreadSanitizer %s" % name, "impl": r[:6000], "model": "", "spec": "no data race on state shared between instances",
                                   "class": "tsan", "what": "ThreadSanitizer reported a data race while distinct threads used distinct sandbox instances"})
    ctx.coverage["tsan_experiments"] = n_run


def NONTRIVIAL(case, model, cls):
    return True


RULE = ("2, 3, 4, 8 and 16 threads, each running its own random history (4..17 operations from: create with and without injected failure, destroy, malloc, free, example-based pointer "
        "translation into its own regions, callback registration/unregistration, guest calls through registered entry points and raw slots, by-name and internal symbol lookups, owner queries) "
        "on its own three sandbox objects of verif32 (real regions, finder-based translation) and of rlbox_noop_sandbox; all threads start together and yield/spin pseudo-randomly between "
        "operations; every experiment is repeated 20 (quick) / 100 (thorough) times and must give the same per-thread outcomes every time, equal to the SOLO run of each thread's history in the "
        "sequential model; plus create/lookup/destroy hammering by 2/4/16 threads. A third of the experiments are re-run under ThreadSanitizer (10 / 25 repetitions each); any race report is a violation.")
TRUSTED = ["model coq/Threads.v hand-written; its sequential action semantics is the World model of C14 (tied there); schedules are explored by the OS scheduler plus injected yields, not enumerated",
           "ThreadSanitizer (g++ 12) for the atomicity assumption", "the harness back end's own registry of live regions is mutex-protected harness code"]
ASSUMPTIONS = ["PARTIAL: absence of data races is supported by ThreadSanitizer, not proved; the theorem assumes the action granularity of coq/Threads.v",
               "threads never share a sandbox instance; the allocator gives distinct instances disjoint regions",
               "histories that re-create an object which held registrations are excluded here (known finding D12, reported under C13/C14)"]

"""C04 — pointer representation conversion is faithful, null-preserving and per-sandbox."""
from harness.props.ptrcommon import *
from harness.props import c14
PROP = "C04"
COQ_FILES = ["Machine.v", "Ptr.v", "Ptr_proofs.v", "World.v", "World_proofs.v"]
DRIVERS = drivers("CHAIN", ["xlate"], CFG_XL) + [dict(name="life_verif32", src="life.cpp", defines=["LIFE_VERIF"], ops=["life32"])]


def gen_cases(tier, rng):
    cases = []
    for cfg, c in CFG_XL.items():
        A, Bb = c["bases"]
        size = c["size"]
        offs = {0, 1, 2, 3, 4, 7, 8, 15, 16, 4095, 4096, 4097, size // 2 - 1, size // 2, size // 2 + 1, size - 8, size - 4, size - 2, size - 1}
        if cfg == "16" and tier == "thorough":
            offs.update(range(0, 65536))
        else:
            for _ in range(300 if tier == "quick" else 5000):
                offs.add(rng.randrange(0, size))
        cells = [A + 64, A + 4096, Bb + 64, Bb + 1024, A + size - 64, Bb + size - 128]
        for o in sorted(offs):
            for base in (A, Bb):
                cases.append("xlate%s ctx toapp %d %d" % (cfg, o, base + 64))
                cases.append("xlate%s ctx tosbx %d %d" % (cfg, base + o if o else 0, base + 64))
                cases.append("xlate%s noctx toapp %d %d" % (cfg, o, base + 64 + (o % 1000)))
                cases.append("xlate%s noctx tosbx %d %d" % (cfg, base + o if o else 0, base + size - 1))
            for cell in cells:
                own = A if cell < Bb else Bb
                cases.append("xlate%s cell toapp %d %d" % (cfg, o, cell))
                cases.append("xlate%s cell tosbx %d %d" % (cfg, own + o if o else 0, cell))
            cell = rng.choice(cells)
            own = A if cell < Bb else Bb
            for path in ("arr", "field"):
                cases.append("xlate%s %s toapp %d %d" % (cfg, path, o, cell))
                cases.append("xlate%s %s tosbx %d %d" % (cfg, path, own + o if o else 0, cell))
            cases.append("xlate%s ret toapp %d" % (cfg, o))
            cases.append("xlate%s malloc toapp %d" % (cfg, o))      # the allocator's answer (0 = failed allocation: null)
            cases.append("xlate%s cbarg toapp %d" % (cfg, o))
            cases.append("xlate%s arg tosbx %d" % (cfg, A + o if o else 0))
            cases.append("xlate%s cbret tosbx %d" % (cfg, A + o if o else 0))
            cases.append("xlate%s free tosbx %d" % (cfg, A + o if o else 0))
        cases.append("xlate%s argnull tosbx 0" % cfg)
        # example addresses that are in no live sandbox
        for ex in (APP_BASE + 8, A - 1, A + size, 4096):
            cases.append("xlate%s noctx toapp 64 %d" % (cfg, ex))
            cases.append("xlate%s noctx tosbx %d %d" % (cfg, A + 64, ex))
    # per-sandbox after any history: create/destroy histories over three sandbox objects with example-based translations in between
    cases += c14.gen_life(tier, rng, translation_heavy=True)
    return cases


canon = canon


def NONTRIVIAL(case, model, cls):
    return ":null" not in cls


RULE = ("two live sandboxes per configuration; offsets {0..4, 7, 8, 15, 16, page+-1, size/2+-1, size-8..size-1, random; all 65536 on verif16 thorough} x both translation paths "
        "(with sandbox context / from an example address anywhere in the owning sandbox) x both directions x every pointer-carrying position (scalar pointer cell in A and in B incl. "
        "last bytes, element 2 of an array of pointers, struct field through whole-struct and field access, call argument, call result, callback argument, callback result, free); "
        "example addresses in no live sandbox; plus create/destroy histories over 3 sandbox objects with example-based translations in between (life32 cases shared with C14).")
TRUSTED = ["model coq/Ptr.v translation functions hand-written; tied by differential correspondence"]
ASSUMPTIONS = ["representation = offset from region base; offset 0 is the guest's null (first byte of the region has no non-null representation)"]

"""C16 — operators on tainted numbers compute exactly what the plain operators compute.

Generated programs: (operator form, operand wrappers, operand types) combinations are drawn per
run; each program evaluates the wrapped expression next to the plain one and prints the C++
type and value of both (and the operand object after the operation).  Single evaluations on
boundary/random values of all widths, and exhaustive sweeps over all 8-bit x 8-bit operand
pairs with a checksum that the Coq operator semantics (coq/Ops.v) must reproduce."""
import os
import random
from harness import vlib
from . import c06

PROP = "C16"
COQ_FILES = ["Machine.v", "Conv.v", "Conv_proofs.v", "Ops.v", "Ops_proofs.v"]
DRIVERS = []
PROGS = []       # dicts: form, op, wa, ka, wb, kb, sweep
SHARD = 40

CT = {"bool": "bool", "char": "char", "schar": "signed char", "uchar": "unsigned char", "short": "short", "ushort": "unsigned short",
      "int": "int", "uint": "unsigned int", "long": "long", "ulong": "unsigned long", "llong": "long long", "ullong": "unsigned long long"}
KINDS = list(CT)
K8 = ["char", "schar", "uchar"]
BIN = {"add": "+", "sub": "-", "mul": "*", "div": "/", "rem": "%", "xor": "^", "and": "&", "or": "|", "shl": "<<", "shr": ">>",
       "eq": "==", "ne": "!=", "lt": "<", "le": "<=", "gt": ">", "ge": ">=", "land": "&&", "lor": "||"}
ARITH = ["add", "sub", "mul", "div", "rem", "xor", "and", "or", "shl", "shr"]
COMBOS = [("T", "T"), ("T", "P"), ("T", "V"), ("V", "T"), ("V", "P"), ("V", "V"), ("P", "T"), ("P", "V")]


RANK = {"int": 1, "uint": 1, "long": 2, "ulong": 2, "llong": 3, "ullong": 3}
UNS = {"int": "uint", "long": "ulong", "llong": "ullong"}


def promote(k):
    return k if k in RANK else "int"


def common(a, b):
    a, b = promote(a), promote(b)
    if a == b:
        return a
    sa, sb = a in UNS, b in UNS          # signed?
    if sa == sb:
        return a if RANK[a] >= RANK[b] else b
    u, s_ = (b, a) if sa else (a, b)
    if RANK[s_] <= RANK[u]:
        return u
    if c06.SIZE[u] < c06.SIZE[s_]:
        return s_
    return UNS[s_]


def restype(op, ka, kb):
    return promote(ka) if op in ("shl", "shr") else common(ka, kb)


def pick_closed(rng, op):
    """operand kinds for which  tainted<ka> op= kb  compiles: decltype(ka op kb) must be ka"""
    while True:
        ka, kb = rng.choice(list(RANK)), rng.choice(KINDS)
        if restype(op, ka, kb) == ka:
            return ka, kb


def draw_programs(rng, n_single, n_sweep):
    progs = []

    def add(form, op, wa, ka, wb, kb, sweep):
        if op == "and" and wb == "V" and wa == "V":
            return      # does not compile: the binary & forwarded from tainted_volatile takes its operand by value (private copy constructor)
        progs.append(dict(form=form, op=op, wa=wa, ka=ka, wb=wb, kb=kb, sweep=sweep))
    # singles: every (binary op, combo) at least twice, compound/incdec/unary for both wrapped kinds
    for rep in range(max(1, n_single // 400)):
        for op in BIN:
            for wa, wb in COMBOS:
                ka, kb = rng.choice(KINDS), rng.choice(KINDS)
                add("bin", op, wa, ka, wb, kb, False)
        for op in ARITH:
            for wb in ("T", "P", "V"):
                ka, kb = pick_closed(rng, op)          # tainted target: only closed type pairs compile
                add("cmpd", op, "T", ka, wb, kb, False)
                add("cmpd", op, "V", rng.choice(KINDS), wb, rng.choice(KINDS), False)
        for op in ("preinc", "predec", "postinc", "postdec"):
            for _ in range(3):
                add("incdec", op, "T", rng.choice(list(RANK)), "P", "int", False)
                if op.startswith("pre"):               # post forms do not compile on tainted_volatile (private copy constructor)
                    add("incdec", op, "V", rng.choice([k for k in KINDS if k != "bool"]), "P", "int", False)
        for op in ("neg", "not"):
            for wa in ("T", "V"):
                for _ in range(3):
                    add("un", op, wa, rng.choice(KINDS), "P", "int", False)
                if rep == 0:
                    # operand kinds whose promotion matters, always present: bool and the narrow kinds
                    for k in ("bool", "uchar", "schar", "ushort", "uint"):
                        add("un", op, wa, k, "P", "int", False)
    # 8-bit exhaustive sweeps
    pool = []
    for op in BIN:
        for wa, wb in COMBOS:
            for ka in K8:
                for kb in K8:
                    if not (op == "and" and wa == "V" and wb == "V"):
                        pool.append(("bin", op, wa, ka, wb, kb))
    # (targets in sandbox memory may legitimately abort where the plain form wraps: singles cover them)
    # (8-bit tainted targets do not compile: decltype is int; targets in sandbox memory abort where the
    #  result does not fit the stored type: the sweep checks value-or-abort against the model's checksum)
    for op in ARITH:
        for wb in ("T", "P", "V"):
            for ka in K8:
                for kb in K8:
                    if not (op == "and" and wb == "V"):
                        pool.append(("cmpd", op, "V", ka, wb, kb))
    for op in ("preinc", "predec"):
        for ka in K8:
            pool.append(("incdec", op, "V", ka, "P", "int"))
    rng.shuffle(pool)
    # always keep the decrement forms and one of each operator
    must = [p for p in pool if p[0] == "incdec" and p[3] == "schar"]
    seen = set()
    for p in pool:
        if (p[0], p[1]) not in seen:
            seen.add((p[0], p[1]))
            must.append(p)
    chosen = must + [p for p in pool if p not in must][:max(0, n_sweep - len(must))]
    for form, op, wa, ka, wb, kb in chosen:
        add(form, op, wa, ka, wb, kb, True)
    return progs


# ---------- floating-point family ----------
FCT = {"float": "float", "double": "double", "int": "int", "uchar": "unsigned char", "llong": "long long"}
FBIN = {"add": "+", "sub": "-", "mul": "*", "div": "/", "eq": "==", "ne": "!=", "lt": "<", "le": "<=", "gt": ">", "ge": ">=", "land": "&&", "lor": "||"}
FARITH = ["add", "sub", "mul", "div"]
FPROGS = []
F32_SPECIAL = [0x00000000, 0x80000000, 0x00000001, 0x80000001, 0x007fffff, 0x00800000, 0x3f800000, 0xbf800000, 0x3fc00000, 0x40000000,
               0x4b7fffff, 0x7f7fffff, 0xff7fffff, 0x7f800000, 0xff800000, 0x7fc00000, 0xffc00000, 0x7fc00001]
F64_SPECIAL = [0x0000000000000000, 0x8000000000000000, 0x0000000000000001, 0x8000000000000001, 0x000fffffffffffff, 0x0010000000000000,
               0x3ff0000000000000, 0xbff0000000000000, 0x3ff8000000000000, 0x4000000000000000, 0x416fffffe0000000, 0x7fefffffffffffff,
               0xffefffffffffffff, 0x7ff0000000000000, 0xfff0000000000000, 0x7ff8000000000000, 0xfff8000000000000, 0x7ff8000000000001,
               0x3810000000000000, 0x36a0000000000000, 0x47efffffe0000000]   # last three: float's min normal, min denormal, max as doubles


def fdraw_programs(rng, per_combo):
    progs = []
    fk = ["float", "double"]
    allk = list(FCT)

    def pair():
        while True:
            ka, kb = rng.choice(allk), rng.choice(allk)
            if ka in fk or kb in fk:
                return ka, kb
    for _ in range(per_combo):
        for op in FBIN:
            for wa, wb in COMBOS:
                ka, kb = pair()
                if op in ("land", "lor"):      # the right operand of && / || must be integral (static_assert); a floating left operand compiles
                    ka, kb = rng.choice(fk), rng.choice(["int", "uchar", "llong"])
                progs.append(dict(form="bin", op=op, wa=wa, ka=ka, wb=wb, kb=kb))
    for op in FARITH:
        for wb in ("T", "P", "V"):
            ka = rng.choice(fk)
            kb = rng.choice(allk if ka == "double" else ["float", "int", "uchar", "llong"])   # tainted target: decltype(ka op kb) must be ka
            progs.append(dict(form="cmpd", op=op, wa="T", ka=ka, wb=wb, kb=kb))
            progs.append(dict(form="cmpd", op=op, wa="V", ka=rng.choice(fk), wb=wb, kb=rng.choice(allk)))
    for op in ("preinc", "predec", "postinc", "postdec"):
        for ka in fk:
            progs.append(dict(form="incdec", op=op, wa="T", ka=ka, wb="P", kb="int"))
            if op.startswith("pre"):
                progs.append(dict(form="incdec", op=op, wa="V", ka=ka, wb="P", kb="int"))
    for ka in fk:
        for wa in ("T", "V"):
            progs.append(dict(form="un", op="neg", wa=wa, ka=ka, wb="P", kb="int"))
    return progs


def foperand(w, k, name, init):
    if w == "P":
        return "%s %s = %s;" % (FCT[k], name, init), name
    if w == "T":
        return "rlbox::tainted<%s, Sbx> %s = %s;" % (FCT[k], name, init), name
    return "auto c_%s = cell<%s>(%d); *c_%s = %s; auto& %s = *c_%s;" % (name, FCT[k], 0 if name == "xa" else 1, name, init, name, name), name


def fbody(p):
    ka, kb = p["ka"], p["kb"]
    da, xa = foperand(p["wa"], ka, "xa", "a0")
    db, xb = foperand(p["wb"], kb, "xb", "b0")
    f = p["form"]
    if f == "bin":
        o = FBIN[p["op"]]
        return ("auto pr = a0 %s b0;" % o, "fres(pr)", "%s %s auto wr = unwrap_res(xa %s xb);" % (da, db, o), "fres(wr)")
    if f == "cmpd":
        o = FBIN[p["op"]]
        return ("%s pa = a0; pa %s= b0;" % (FCT[ka], o), "fres(pa)",
                "%s %s auto&& rr = (xa %s= xb); bool refok = (std::addressof(rr) == std::addressof(xa));" % (da, db, o),
                'fres(unwrap_res(xa)) + (refok ? "" : " NOT-THE-OPERAND")')
    if f == "incdec":
        pre = p["op"].startswith("pre")
        o = "++" if p["op"].endswith("inc") else "--"
        e_w = "%sxa" % o if pre else "xa%s" % o
        e_p = "%spa" % o if pre else "pa%s" % o
        if pre:
            return ("%s pa = a0; auto pr = %s;" % (FCT[ka], e_p), 'fres(pr) + ":" + fres(pa)',
                    "%s auto&& rr = %s; bool refok = (std::addressof(rr) == std::addressof(xa)); auto wr = unwrap_res(rr);" % (da, e_w),
                    'fres(wr) + ":" + fres(unwrap_res(xa)) + (refok ? "" : " NOT-THE-OPERAND")')
        return ("%s pa = a0; auto pr = %s;" % (FCT[ka], e_p), 'fres(pr) + ":" + fres(pa)',
                "%s auto wr = unwrap_res(%s);" % (da, e_w), 'fres(wr) + ":" + fres(unwrap_res(xa))')
    if f == "un":
        o = "-" if p["op"] == "neg" else "!"
        return ("auto pr = %sa0;" % o, "fres(pr)", "%s auto wr = unwrap_res(%sxa);" % (da, o), "fres(wr)")
    raise ValueError(f)


def femit(progs):
    out = ['// generated by harness/props/c16.py (floating-point family) — do not edit', '#include "ops_common.hpp"']
    for i, p in enumerate(progs):
        ka, kb = FCT[p["ka"]], FCT[p["kb"]]
        ps, pe, ws, we = fbody(p)
        out.append("""static std::string prog_%d(const toks_t& v) {
  %s a0 = parse_num<%s>(v.at(0)); %s b0 = parse_num<%s>(v.at(1)); (void)b0;
  std::string pls, wls;
  { %s pls = %s; }
  try { %s wls = %s; }
  catch (const std::runtime_error& e) { if (std::strncmp(e.what(), "HARNESS", 7) == 0) throw; wls = "ABORT"; }
  return "W:" + wls + " P:" + pls;
}""" % (i, ka, ka, kb, kb, ps, pe, ws, we))
    out.append("static prog_fn g_progs[] = {%s};" % ", ".join("prog_%d" % i for i in range(len(progs))))
    out.append("int main(int argc, char** argv) { return ops_main(argc, argv, g_progs, %d); }" % len(progs))
    return "\n".join(out) + "\n"


def fvals(k, rng, n):
    if k == "float":
        pool = F32_SPECIAL + [rng.randrange(0, 1 << 32) for _ in range(6)]
        pool = [v for v in pool if not ((v & 0x7f800000) == 0x7f800000 and (v & 0x007fffff) and not (v & 0x00400000))]   # quiet NaNs only
    elif k == "double":
        pool = F64_SPECIAL + [rng.randrange(0, 1 << 64) for _ in range(6)]
        pool = [v for v in pool if not ((v >> 52) & 0x7ff == 0x7ff and (v & ((1 << 52) - 1)) and not (v & (1 << 51)))]
    elif k == "uchar":
        pool = [0, 1, 2, 127, 128, 255]
    else:
        pool = [0, 1, -1, 2, -2, 3, 16777215, -16777215, 16777214, 65536, rng.randrange(-(1 << 24) + 1, 1 << 24)]
    return [rng.choice(pool) for _ in range(n)]


def fzero(k, v):
    if k == "float":
        return (v & 0x7fffffff) == 0
    if k == "double":
        return (v & ((1 << 63) - 1)) == 0
    return v == 0


def canon(case, impl):
    """floating-point arithmetic forms: the compiler's plain expression is the oracle — the model only says W = P"""
    if not case.startswith("fop."):
        return impl
    t = case.split()
    form, op = t[2], t[3]
    if form == "bin" and op not in FARITH:
        return impl
    if form == "un" and op == "lnot":
        return impl
    if impl.startswith("W:") and " P:" in impl:
        w, pl = impl[2:].split(" P:", 1)
        if w == pl:
            return "W=P:" + w.split(":")[0]
    return impl


def operand(w, k, name, init):
    """declaration of operand `name` of wrapper kind w holding init"""
    if w == "P":
        return "%s %s = %s;" % (CT[k], name, init), name
    if w == "T":
        return "rlbox::tainted<%s, Sbx> %s = %s;" % (CT[k], name, init), name
    return "auto c_%s = cell<%s>(%d); *c_%s = %s; auto& %s = *c_%s;" % (name, CT[k], 0 if name == "xa" else 1, name, init, name, name), name


def body(p, a0, b0):
    """(plain statements, plain result expr, wrapped statements, wrapped result expr) from plain values a0 : KA, b0 : KB"""
    ka, kb = p["ka"], p["kb"]
    da, xa = operand(p["wa"], ka, "xa", a0)
    db, xb = operand(p["wb"], kb, "xb", b0)
    f = p["form"]
    if f == "bin":
        o = BIN[p["op"]]
        return ("auto pr = %s %s %s;" % (a0, o, b0), "res2(pr)",
                "%s %s auto wr = unwrap_res(xa %s xb);" % (da, db, o), "res2(wr)")
    if f == "cmpd":
        o = BIN[p["op"]]
        # the plain compound assignment is an lvalue designating its left operand: so must the wrapped one be
        return ("%s pa = %s; pa %s= %s;" % (CT[ka], a0, o, b0), "res2(pa)",
                "%s %s auto&& rr = (xa %s= xb); bool refok = (std::addressof(rr) == std::addressof(xa));" % (da, db, o),
                'res2(unwrap_res(xa)) + (refok ? "" : " NOT-THE-OPERAND")')
    if f == "incdec":
        pre = p["op"].startswith("pre")
        o = "++" if p["op"].endswith("inc") else "--"
        e_w = "%sxa" % o if pre else "xa%s" % o
        e_p = "%spa" % o if pre else "pa%s" % o
        if pre:      # ++x / --x is an lvalue designating x
            return ("%s pa = %s; auto pr = %s;" % (CT[ka], a0, e_p), 'res2(pr) + ":" + show_int(pa)',
                    "%s auto&& rr = %s; bool refok = (std::addressof(rr) == std::addressof(xa)); auto wr = unwrap_res(rr);" % (da, e_w),
                    'res2(wr) + ":" + show_int(unwrap_res(xa)) + (refok ? "" : " NOT-THE-OPERAND")')
        return ("%s pa = %s; auto pr = %s;" % (CT[ka], a0, e_p), 'res2(pr) + ":" + show_int(pa)',
                "%s auto wr = unwrap_res(%s);" % (da, e_w), 'res2(wr) + ":" + show_int(unwrap_res(xa))')
    if f == "un":
        o = "-" if p["op"] == "neg" else "~"
        return ("auto pr = %s%s;" % (o, a0), "res2(pr)", "%s auto wr = unwrap_res(%sxa);" % (da, o), "res2(wr)")
    raise ValueError(f)


def emit(progs):
    out = ['// generated by harness/props/c16.py — do not edit', '#include "ops_common.hpp"']
    for i, p in enumerate(progs):
        ka, kb = CT[p["ka"]], CT[p["kb"]]
        ps, pe, ws, we = body(p, "a0", "b0")
        if not p["sweep"]:
            out.append("""static std::string prog_%d(const toks_t& v) {
  %s a0 = parse_int<%s>(v.at(0)); %s b0 = parse_int<%s>(v.at(1)); (void)b0;
  std::string pls, wls;
  { %s pls = %s; }
  try { %s wls = %s; }
  catch (const std::runtime_error& e) { if (std::strncmp(e.what(), "HARNESS", 7) == 0) throw; wls = "ABORT"; }
  return "W:" + wls + " P:" + pls;
}""" % (i, ka, ka, kb, kb, ps, pe, ws, we))
        else:
            filt = {"div": "if (y == 0) continue;", "rem": "if (y == 0) continue;",
                    "shl": "if (y < 0 || y >= 32 || x < 0 || ((long long)x << y) > 2147483647LL) continue;",
                    "shr": "if (y < 0 || y >= 32) continue;"}.get(p["op"] if p["form"] in ("bin", "cmpd") else "", "")
            one = p["form"] in ("incdec", "un")
            out.append("""static std::string prog_%d(const toks_t&) {
  uint64_t n = 0, mism = 0, chk = 0; std::string first;
  for (int x = std::numeric_limits<%s>::min(); x <= std::numeric_limits<%s>::max(); x++)
  for (int y = %s; y <= %s; y++) {
    %s
    %s a0 = (%s)x; %s b0 = (%s)y; (void)b0;
    std::string pls, wls;
    { %s pls = %s; }
    try { %s wls = %s; } catch (const std::runtime_error&) { wls = "ABORT"; }
    n++;
    if (wls != pls && wls != "ABORT") { mism++; if (first.empty()) first = std::to_string(x) + "," + std::to_string(y) + ":" + wls + "/" + pls; }
    chk = chk * 1000003u + fold(wls);
  }
  return "SWEEP n=" + std::to_string(n) + " mism=" + std::to_string(mism) + " chk=" + std::to_string(chk) + (first.empty() ? "" : " first=" + first);
}""" % (i, ka, ka,
        "0" if one else "std::numeric_limits<%s>::min()" % kb, "0" if one else "std::numeric_limits<%s>::max()" % kb,
        filt, ka, ka, kb, kb, ps, pe, ws, we))
    out.append("static prog_fn g_progs[] = {%s};" % ", ".join("prog_%d" % i for i in range(len(progs))))
    out.append("int main(int argc, char** argv) { return ops_main(argc, argv, g_progs, %d); }" % len(progs))
    return "\n".join(out) + "\n"


def pre_generate(ctx):
    global PROGS
    del DRIVERS[:]
    q = ctx.tier == "quick"
    prng = random.Random(ctx.seed * 31337 + 3)
    PROGS = draw_programs(prng, 400 if q else 4000, 48 if q else 700)
    for s in range(0, len(PROGS), SHARD):
        sid = s // SHARD
        path = os.path.join(ctx.build, "ops_%d.cpp" % sid)
        with open(path, "w") as f:
            f.write(emit(PROGS[s:s + SHARD]))
        DRIVERS.append(dict(name="ops_%d" % sid, src=path, defines=[], ops=["op.%d" % sid]))
    global FPROGS
    FPROGS = fdraw_programs(prng, 1 if q else 6)
    for s in range(0, len(FPROGS), SHARD):
        sid = s // SHARD
        path = os.path.join(ctx.build, "fops_%d.cpp" % sid)
        with open(path, "w") as f:
            f.write(femit(FPROGS[s:s + SHARD]))
        DRIVERS.append(dict(name="fops_%d" % sid, src=path, defines=[], ops=["fop.%d" % sid]))
    ctx.coverage["float_programs"] = len(FPROGS)
    ctx.coverage["programs"] = len(PROGS)
    ctx.coverage["exhaustive"] = True


GUEST = {"short": "short", "ushort": "ushort", "int": "int", "uint": "uint", "long": "int", "ulong": "uint", "llong": "long", "ullong": "ulong"}


def vals_for(k, w, rng, n):
    rk = GUEST.get(k, k) if w == "V" else k      # a tainted_volatile holds the sandbox type's range
    vs = [v for v in c06.boundary_values(rng, 6) if c06.in_range(rk, v) and c06.in_range(k, v)]
    near = [v for v in vs if any(abs(v - b) <= 1 for kk in c06.KINDS for b in (c06.lo(kk), c06.hi(kk)))] + [0, 1, 2, 31, 32, 63, 64]
    near = [v for v in near if c06.in_range(rk, v) and c06.in_range(k, v)]
    return [rng.choice(near) if rng.random() < 0.7 else rng.choice(vs) for _ in range(n)]


def gen_cases(tier, rng):
    per = 24 if tier == "quick" else 60
    cand = []
    for i, p in enumerate(PROGS):
        sid, local = i // SHARD, i % SHARD
        head = "op.%d %d %s %s %s %s %s %s" % (sid, local, p["form"], p["op"], p["wa"], p["ka"], p["wb"], p["kb"])
        if p["sweep"]:
            cand.append(head + " sweep")
        else:
            va = vals_for(p["ka"], p["wa"], rng, per)
            vb = vals_for(p["kb"], p["wb"], rng, per)
            for a, b in zip(va, vb):
                cand.append("%s %d %d" % (head, a, b))
    # drop the cases whose plain expression has undefined behaviour (decided by the Coq semantics)
    os.makedirs(os.path.join(vlib.VERIF, "_build"), exist_ok=True)
    res = vlib.run_model(cand, os.path.join(vlib.VERIF, "_build"), "c16filter_%d" % os.getpid())
    try:
        os.remove(os.path.join(vlib.VERIF, "_build", "mcases_c16filter_%d.txt" % os.getpid()))
    except OSError:
        pass
    global UB_DROPPED
    UB_DROPPED = sum(1 for (m, s, c) in res if m == "UB")
    cases = [c for c, (m, s, cl) in zip(cand, res) if m != "UB"]
    fper = 16 if tier == "quick" else 48
    for i, p in enumerate(FPROGS):
        sid, local = i // SHARD, i % SHARD
        head = "fop.%d %d %s %s %s %s %s %s" % (sid, local, p["form"], p["op"], p["wa"], p["ka"], p["wb"], p["kb"])
        for a, b in zip(fvals(p["ka"], rng, fper), fvals(p["kb"], rng, fper)):
            if p["op"] == "div" and fzero(p["kb"], b):
                continue      # division by zero: not defined behaviour of the plain expression in ISO C++
            cases.append("%s %d %d" % (head, a, b))
    return cases


UB_DROPPED = 0


def extra_checks(ctx, exes):
    ctx.coverage["undefined_behaviour_cases_dropped"] = UB_DROPPED


def NONTRIVIAL(case, model, cls):
    return True   # every case evaluates an operator; identity-like cases do not exist here


RULE = ("generated programs: per run ~400 (quick) / ~4000 (thorough) single-evaluation programs covering every binary, comparison and logical operator under all 8 operand-wrapper "
        "combinations {tainted, tainted_volatile, plain}^2 (at least one wrapped), every compound assignment with a tainted and a tainted_volatile target, pre/post increment and decrement, "
        "unary - and ~, over operand type pairs drawn from 12 integer kinds; 24/60 operand value pairs each from type limits +-1, powers of two +-1, shift-count boundaries and random values, "
        "after dropping pairs for which the plain expression has undefined behaviour (decided by the Coq semantics; count recorded). Plus 48 (quick) / 700 (thorough) EXHAUSTIVE sweeps over all "
        "8-bit x 8-bit operand pairs (char, signed char, unsigned char) of one (operator form, wrapper combination): wrapped vs plain compared inside the driver (type and value and the operand "
        "object afterwards), and the count of defined pairs and a checksum over all results compared with the Coq semantics. verif32 back end (guest long = 32 bit).")
TRUSTED = ["model coq/Ops.v is our reading of the C++17 standard for LP64 + g++'s implementation-defined choices (modulo conversion to narrower signed types, arithmetic right shift); "
           "it is cross-checked against the compiler's plain expressions by every case", "generated C++ programs rebuilt from /repo's headers on every run"]
ASSUMPTIONS = ["floating-point operands (float, double; mixed with int, unsigned char, long long operands of magnitude < 2^24): comparisons, &&, ||, ! are decided by the Coq model "
               "(coq/FloatCmp.v: exact values of the bit patterns, NaN unordered); for +, -, *, /, unary -, compound assignment and ++/-- the compiler's plain expression is the oracle "
               "(wrapped result must have the same type and bits; any NaN counts as NaN); signalling NaNs, long double and division by zero are not exercised", "operands of a tainted_volatile hold values representable in the sandbox type",
               "compound assignment onto a tainted_volatile may abort where the plain form would wrap (allowed by the property)"]

"""C20 — opaque wrappers and sandbox casts preserve bits, designation and taint."""
from . import c06, c11
PROP = "C20"
COQ_FILES = ["Machine.v", "Conv.v", "Conv_proofs.v", "Mem.v", "Mem_proofs.v", "Casts.v", "Casts_proofs.v"]
DRIVERS = [dict(name="casts32", src="casts.cpp", defines=[], ops=["opq", "opqp", "opqs", "opqarg", "opqcb", "opqcbf", "scast", "pcast", "pcastfn"])]
KINDS = [k for k in c06.KINDS if k != "wchar"]
GUEST = {"short": "short", "ushort": "ushort", "int": "int", "uint": "uint", "long": "int", "ulong": "uint", "llong": "long", "ullong": "ulong"}


def gen_cases(tier, rng):
    q = tier == "quick"
    cases = []
    bv = c06.boundary_values(rng, 20 if q else 200)
    for k in KINDS:
        vs = [v for v in bv if c06.in_range(k, v)]
        for v in (vs if not q else rng.sample(vs, min(len(vs), 40))):
            cases.append("opq %s %d" % (k, v))
    for k, w in (("enum", 32), ("float", 32), ("double", 64)):
        for v in [0, 1, (1 << w) - 1, 1 << (w - 1), 0x7fc00001 if w == 32 else 0x7ff8000000000001] + [rng.randrange(1 << w) for _ in range(20 if q else 200)]:
            cases.append("opq %s %d" % (k, v))
    offs = [0, 1, 4, 16, 4096, (1 << 20) - 8, (1 << 32) - 8, (1 << 32) - 1] + [rng.randrange(1, 1 << 32) for _ in range(30 if q else 300)]
    for o in offs:
        cases.append("opqp %d" % o)
        for which in ("reinterpret", "reinterpret2", "const", "static"):
            for w in ("T", "V"):
                cases.append("pcast %s %s %d" % (which, w, o))
    for _ in range(40 if q else 400):
        cases.append("opqs %s" % c11.one_value("s1", rng, "lp32", False).replace(";", " "))
    for v in [0, 1, -1, (1 << 31) - 1, -(1 << 31)] + [rng.randrange(-(1 << 31), 1 << 31) for _ in range(20 if q else 200)]:
        cases.append("opqcb %d" % v)
    # the same value as a tainted and as an opaque ARGUMENT of a sandbox function, incl. values the guest long cannot hold
    for v in [0, 1, -1, (1 << 31) - 1, -(1 << 31), 1 << 31, -(1 << 31) - 1, (1 << 32) + 5, -(1 << 32), (1 << 63) - 1, -(1 << 63)] + [rng.randrange(-(1 << 33), 1 << 33) for _ in range(20 if q else 200)]:
        for w in ("T", "O"):
            cases.append("opqarg %s %d" % (w, v))
    # opaque floating-point and integer parameters / result of a callback (quiet NaNs only: a signalling NaN may be quieted in transit)
    fb = [0, 0x80000000, 0x3f800000, 0x7f7fffff, 0x7f800000, 0x7fc00000, 1] + [rng.randrange(0, 0x7f800000) for _ in range(10 if q else 100)]
    db = [0, 1 << 63, 0x3ff0000000000000, 0x7fefffffffffffff, 0x7ff0000000000000, 0x7ff8000000000000, 1] + [rng.randrange(0, 0x7ff0000000000000) for _ in range(10 if q else 100)]
    for _ in range(40 if q else 400):
        cases.append("opqcbf %d %d %d" % (rng.choice(db), rng.choice(fb), rng.choice([0, 1, -1, (1 << 31) - 1, -(1 << 31), rng.randrange(-(1 << 31), 1 << 31)])))
    # function pointers cast across the function / data boundary and to another function type
    for k in (0, 1, 2, 3):
        for w in ("T", "V"):
            for to in ("void", "char", "fn2"):
                cases.append("pcastfn %d %s %s" % (k, w, to))
    # every source/target pair of the integer static cast, both wrappers
    for kt in KINDS:
        for kf in KINDS:
            for w in ("T", "V"):
                src_range = GUEST.get(kf, kf) if w == "V" else kf
                vs = [v for v in bv if c06.in_range(kf, v) and c06.in_range(src_range, v)]
                near = [v for v in vs if any(abs(v - b) <= 1 for kk in (kt, kf) for b in (c06.lo(kk), c06.hi(kk)))]
                pick = sorted(set(near + rng.sample(vs, min(len(vs), 4 if q else 25))))
                for v in pick:
                    cases.append("scast %s %s %s %d" % (kt, kf, w, v))
    return cases


def NONTRIVIAL(case, model, cls):
    return not cls.endswith(":null") and ":fits" not in cls or case.startswith("opq")


RULE = ("verif32 back end. Opaque: byte images (memcpy of the wrapper objects) of tainted<T> and of its to_opaque(), and the value after from_opaque, for 14 integer kinds at type limits +-1 / "
        "powers of two / random values, enum/float/double bit patterns incl. NaN payloads, pointers (null, first/last bytes, random), a registered struct field by field; a callback taking and "
        "returning tainted_opaque<long>, and one taking tainted_opaque<double>, <float>, <long> and returning tainted_opaque<double>, called from guest code. Casts: sandbox_static_cast over ALL 14x14 integer source/target pairs from a tainted and from a tainted_volatile operand, at the limits of "
        "both types, compared with the plain static_cast evaluated next to it; sandbox_reinterpret_cast (two target types), sandbox_const_cast, sandbox_static_cast<void*> on pointers held in "
        "application memory and in a sandbox pointer cell: the designated absolute address before and after. Result wrapper types are checked by static_assert in the driver.")
TRUSTED = ["model coq/Casts.v hand-written (thin: the casts are load + C++ cast + wrap); byte images observed through memcpy of the wrapper objects"]
ASSUMPTIONS = ["opaque values as invocation arguments: tainted_opaque<long> here (values inside and outside the guest range), the other types under C11 (form 'o' of the generated programs)", "arrays as opaque values are not exercised"]

"""M2 — the compile-verdict corpus shared by C01 and C02.

A finite table of one-statement programs (form x operands) is generated; each program is compiled
on its own (pre-compiled header of rlbox.hpp + harness/m2_env.hpp, compile checks ON) under two
sandbox-type families (no-op: host ABI, void* pointer representation; verif32: LP32-like ABI, integer
pointer representation); the accepted expression programs are then compiled together with a type
classifier and run, which yields for each the wrapper kind and the underlying C++ type of the
expression.  The verdicts are written as a Gallina rule table (coq/Gen_Rules_<prop>.v) whose
per-entry obligation is checked by the kernel (vm_compute) and to which the composition theorem
(coq/Typing_proofs.v, proved once for all tables) is applied."""
import concurrent.futures
import os
import re
import subprocess
from harness import vlib

ENV = os.path.join(vlib.VERIF, "harness", "m2_env.hpp")

T_TYPES = [("int", "int"), ("bool", "bool int"), ("uchar", "int"), ("long", "int"), ("ullong", "int"), ("enum", "enum"), ("float", "fp"), ("double", "fp"),
           ("pint", "ptr dptr"), ("pcchar", "ptr dptr"), ("ppint", "ptr dptr"), ("pvoid", "ptr"), ("fn", "ptr fn"), ("arr", "arr"), ("st", "struct"), ("pst", "ptr dptr pstruct")]
PLAIN_T = {"int": "int", "bool": "bool", "uchar": "unsigned char", "long": "long", "ullong": "unsigned long long", "enum": "En", "float": "float", "double": "double",
           "pint": "int*", "pcchar": "const char*", "ppint": "int**", "pvoid": "void*", "fn": "Fn", "st": "St", "pst": "St*", "arr": None, "pchar": "char*", "fn2": "Fn2"}
TAKE = {"int": "take_int", "bool": "take_bool", "uchar": "take_uchar", "long": "take_long", "ullong": "take_ullong", "enum": "take_en", "float": "take_float",
        "double": "take_double", "pint": "take_pint", "pcchar": "take_pcchar", "ppint": "take_ppint", "pvoid": "take_pvoid", "fn": "take_fn", "st": "take_st", "pst": "take_pst"}


class Operand:
    def __init__(self, name, kind, ty, tags):
        self.name, self.kind, self.ty, self.tags = name, kind, ty, set(tags.split())
        self.expr = "e." + name

    def has(self, *tags):
        return all(t in self.tags for t in tags)


def wrapped_operands():
    ops = []
    for ty, tags in T_TYPES:
        ops.append(Operand("t_" + ty, "T", ty, tags))
    for ty, tags in T_TYPES:
        ops.append(Operand("v_" + ty, "TV", ty, tags))
    ops += [Operand("o_int", "Opaque", "int", "opaque"), Operand("o_pint", "Opaque", "pint", "opaque"),
            Operand("cb", "Cb", "fn", "cbk"), Operand("ap", "AppPtr", "pint", "apptr"),
            Operand("bh", "BoolHint", "bool", "hint"), Operand("ih", "IntHint", "int", "hint")]
    return ops


class Program:
    def __init__(self, form, args, stmt, expr=None, sink=False, expect=None, note=""):
        self.form = form          # form name
        self.args = args          # list of (kind, type-name) of the operands that matter
        self.stmt = stmt          # statement compiled in phase 1
        self.expr = expr          # expression classified in phase 2 (None: statement form)
        self.sink = sink
        self.expect = expect      # for C02: "reject" / "accept" / None
        self.note = note
        self.verdict = {}         # family -> None (rejected) | (kind, type)
        self.diag = {}


def text_of(p):
    return '#include "m2_env.hpp"\nvoid prog(Env& e) { %s }\n' % p.stmt


def _sh(cmd, cwd=None):
    r = subprocess.run(cmd, cwd=cwd, stdout=subprocess.PIPE, stderr=subprocess.STDOUT, text=True)
    return r.returncode, r.stdout


def judge(ctx, programs, families, compiler="clang++"):
    """phase 1: accept/reject per program and family; phase 2: type of accepted expression programs"""
    inc = ["-std=c++17", "-w", "-D" + vlib.GUARD, "-I" + vlib.INCLUDE, "-I" + os.path.join(vlib.VERIF, "harness")]
    work = os.path.join(ctx.build, "m2")
    os.makedirs(work, exist_ok=True)
    for fam in families:
        fd = os.path.join(work, fam)
        os.makedirs(fd, exist_ok=True)
        defs = {"verif": ["-DM2_VERIF"], "verif64": ["-DM2_VERIF", "-DM2_VERIF64"]}.get(fam, [])
        hdr = os.path.join(fd, "pch.hpp")
        with open(hdr, "w") as f:
            f.write('#include "%s"\n' % ENV)
        rc, out = _sh([compiler] + inc + defs + ["-x", "c++-header", hdr, "-o", hdr + ".pch"])
        if rc != 0:
            raise RuntimeError("m2: environment header does not compile (%s):\n%s" % (fam, out[-3000:]))

        def one(i):
            p = programs[i]
            src = os.path.join(fd, "p%d.cpp" % i)
            with open(src, "w") as f:
                f.write("void prog(Env& e) { %s }\n" % p.stmt)
            rc, out = _sh([compiler] + inc + defs + ["-include-pch", hdr + ".pch", "-fsyntax-only", "-ferror-limit=3", src])
            os.remove(src)
            m = re.search(r"error: (.*)", out)
            return i, rc == 0, (m.group(1)[:160] if m else "")
        with concurrent.futures.ThreadPoolExecutor(max_workers=16) as ex:
            for i, ok, diag in ex.map(one, range(len(programs))):
                # an accepted conversion context let the value reach a plain object of type [sink]; other statement forms yield nothing
                programs[i].verdict[fam] = (("Plain", programs[i].sink) if isinstance(programs[i].sink, str) else ("Plain", "void")) if ok else None
                programs[i].diag[fam] = diag
        # phase 2
        acc = [i for i, p in enumerate(programs) if p.verdict[fam] is not None and p.expr is not None]
        shards = [acc[k::16] for k in range(16)]

        def classify(sh):
            if not sh[1]:
                return {}
            k, idxs = sh
            src = os.path.join(fd, "cls%d.cpp" % k)
            with open(src, "w") as f:
                f.write('#define M2_CLASSIFY\n#include "%s"\n' % ENV)
                for i in idxs:
                    p = programs[i]
                    if "[" in p.expr and "](" in p.expr:      # a lambda cannot appear in decltype: evaluate (never executed)
                        f.write("void c%d(Env& e) { if (false) { auto&& r = (%s); (void)r; (void)Reg<%d, decltype(r)>::dummy; } }\n" % (i, p.expr, i))
                    else:
                        f.write("void c%d(Env& e) { (void)Reg<%d, decltype(%s)>::dummy; }\n" % (i, i, p.expr))
                f.write('int main() { for (auto& kv : rows()) std::printf("%d\\t%s\\t%s\\n", kv.first, kv.second.kind, kv.second.type.c_str()); }\n')
            exe = src[:-4]
            rc, out = _sh([compiler] + inc + defs + ["-O0", src, "-o", exe])
            if rc != 0:
                raise RuntimeError("m2: classifier does not compile (%s shard %d):\n%s" % (fam, k, out[-3000:]))
            rc, out = _sh([exe])
            res = {}
            for ln in out.splitlines():
                a = ln.split("\t")
                if len(a) == 3:
                    res[int(a[0])] = (a[1], a[2])
            os.remove(exe)
            return res
        with concurrent.futures.ThreadPoolExecutor(max_workers=16) as ex:
            for res in ex.map(classify, list(enumerate(shards))):
                for i, kt in res.items():
                    programs[i].verdict[fam] = kt
        for i in acc:
            if programs[i].verdict[fam] == ("Plain", "void") and programs[i].expr is not None:
                # classification produced nothing for it: keep "accepted, void"
                pass


KIND_COQ = {"Plain": "Plain", "T": "KT", "TV": "KTV", "Opaque": "KOpaque", "Cb": "KCb", "AppPtr": "KAppPtr", "BoolHint": "KBoolHint", "IntHint": "KIntHint"}


class Ids:
    def __init__(self):
        self.types = {"void": 0}
        self.forms = {}

    def ty(self, name):
        name = " ".join(name.split())
        if name not in self.types:
            self.types[name] = len(self.types)
        return self.types[name]

    def form(self, name):
        if name not in self.forms:
            self.forms[name] = len(self.forms)
        return self.forms[name]


CANON_TYPES = {"int": "int", "bool": "bool", "uchar": "unsigned char", "long": "long", "ullong": "unsigned long long", "enum": "En", "float": "float",
               "double": "double", "pint": "int *", "pcchar": "const char *", "ppint": "int **", "pvoid": "void *", "fn": "int (*)(int)", "arr": "int[4]",
               "st": "St", "pst": "St *", "pchar": "char *", "fn2": "void (*)(char *, long)", "parr": "int *[2]", "sarr": "std::array<int *, 2>"}


def wt(ids, kind, ty):
    return "{| wk := %s; wty := %d |}" % (KIND_COQ[kind], ids.ty(CANON_TYPES.get(ty, ty)))


def coq_entries(ids, programs, fam):
    rows = []
    for p in programs:
        v = p.verdict[fam]
        vs = "None" if v is None else "Some (%s)" % wt(ids, v[0], v[1])
        rows.append("  {| form := %d; args := [%s]; verdict := %s |}" % (ids.form(p.form), "; ".join(wt(ids, k, t) for k, t in p.args), vs))
    return rows


def nat_list(xs):
    return "[" + "; ".join("%d%%nat" % x for x in sorted(set(xs))) + "]"

"""C01 — sandbox data cannot lose its taint implicitly (mechanism M2, see m2common.py)."""
import json
import os
from harness import vlib
from . import m2common as m2

PROP = "C01"
COQ_FILES = ["Typing.v", "Typing_proofs.v"]

# explicitly named unwrapping calls (the property's list) — result may be plain
# queries about the ownership state of an application-created handle (sandbox_callback / app_pointer): the
# boolean they return is application bookkeeping, not sandbox data (false alarm of an earlier version of this check)
OWNER_STATE = ["is_unregistered"]
DECLASS = ["UNSAFE_unverified", "UNSAFE_sandboxed", "copy_and_verify", "copy_and_verify_range", "copy_and_verify_string",
           "copy_and_verify_address", "copy_and_verify_buffer_address", "unverified_safe_because", "unverified_safe_pointer_because",
           "lookup_app_ptr"]
# conditions: allowed only as the null test of a tainted pointer
NULLTEST = ["if", "while", "for", "ternary", "not", "to_bool", "explicit_bool", "eq_nullptr", "ne_nullptr", "nullptr_eq", "land_true", "true_land", "lor_false"]
# accepted although they unwrap and are not in the property's list: recorded finding D13
KNOWN = {"INTERNAL_unverified_safe": "D13"}
ARITH = ["+", "-", "*", "/", "%", "^", "&", "|", "<<", ">>"]
ARITH_ALL = ["+", "<<", "&", "/"]         # for every operand; the rest on int operands only
CMP = ["==", "!=", "<", "<=", ">", ">="]
CMP_ALL = ["==", "<"]
OPN = {"+": "add", "-": "sub", "*": "mul", "/": "div", "%": "rem", "^": "xor", "&": "and", "|": "or", "<<": "shl", ">>": "shr",
       "==": "eq", "!=": "ne", "<": "lt", "<=": "le", ">": "gt", ">=": "ge"}


def programs():
    P = []
    ops = m2.wrapped_operands()

    def add(form, op, stmt, expr=None, extra=(), reached=None):
        # [reached]: for a conversion context (a statement form) the plain type the value reaches when the statement is accepted
        P.append(m2.Program(form, [(op.kind, op.ty)] + list(extra), stmt, expr, sink=reached))
    for op in ops:
        W = op.expr
        pt = m2.PLAIN_T.get(op.ty)
        # ---- conversion contexts (statement forms: accepted means the value reached a plain context) ----
        if pt:
            add("init_copy", op, "%s x = %s; (void)x;" % (pt, W), reached=pt)
            add("init_direct", op, "%s x(%s); (void)x;" % (pt, W), reached=pt)
            add("init_brace", op, "%s x{%s}; (void)x;" % (pt, W), reached=pt)
            add("static_cast", op, "auto x = static_cast<%s>(%s); (void)x;" % (pt, W), reached=pt)
            add("c_cast", op, "auto x = (%s)(%s); (void)x;" % (pt, W), reached=pt)
            add("assign", op, "%s x{}; x = %s; (void)x;" % (pt, W), reached=pt)
            add("arg", op, "%s(%s);" % (m2.TAKE[op.ty], W), reached=pt)
            add("return", op, "auto f = [&]() -> %s { return %s; }; (void)f;" % (pt, W), reached=pt)
        add("to_bool", op, "bool x = %s; (void)x;" % W, reached="bool")
        add("to_int", op, "int x = %s; (void)x;" % W, reached="int")
        add("to_long", op, "long x = %s; (void)x;" % W, reached="long")
        add("to_double", op, "double x = %s; (void)x;" % W, reached="double")
        add("to_voidp", op, "const void* x = %s; (void)x;" % W, reached="const void *")
        add("explicit_bool", op, "auto x = static_cast<bool>(%s); (void)x;" % W, reached="bool")
        add("if", op, "if (%s) {}" % W, reached="bool")
        add("while", op, "while (%s) { break; }" % W, reached="bool")
        add("for", op, "for (; %s;) { break; }" % W, reached="bool")
        add("ternary", op, "int x = %s ? 1 : 2; (void)x;" % W, reached="bool")
        add("switch", op, "switch (%s) { default: break; }" % W, reached="int")
        add("subscript_plain", op, "int x = e.p_arr[%s]; (void)x;" % W, reached="long")
        add("ptrarith_plain", op, "auto x = e.p_pint + %s; (void)x;" % W, reached="long")
        # ---- expression forms: the type of the result is classified ----
        def val(form, expr, extra=()):
            add(form, op, "(void)(%s);" % expr, expr, extra)
        isint = op.has("int") and op.ty == "int"
        for o in ARITH:
            if o in ARITH_ALL or isint:
                val(OPN[o] + "_plain", "%s %s 1" % (W, o))
                val("plain_" + OPN[o], "1 %s %s" % (o, W))
                val(OPN[o] + "_T", "%s %s e.t_int" % (W, o), [("T", "int")])
                if o in ("+", "<<"):
                    val(OPN[o] + "_TV", "%s %s e.v_int" % (W, o), [("TV", "int")])
                # a hint as the second operand of an arithmetic / bitwise operator: must not come out as a verifiable value
                val(OPN[o] + "_bhint", "%s %s e.bh" % (W, o), [("BoolHint", "bool")])
                val(OPN[o] + "_ihint", "%s %s e.ih" % (W, o), [("IntHint", "int")])
        for o in CMP:
            if o in CMP_ALL or isint:
                val(OPN[o] + "_plain", "%s %s 1" % (W, o))
                val("plain_" + OPN[o], "1 %s %s" % (o, W))
                val(OPN[o] + "_T", "%s %s e.t_int" % (W, o), [("T", "int")])
                val(OPN[o] + "_TV", "%s %s e.v_int" % (W, o), [("TV", "int")])
                val(OPN[o] + "_self", "%s %s %s" % (W, o, W), [(op.kind, op.ty)])
                # a hint (the result of an earlier comparison with sandbox memory) as the second operand
                val(OPN[o] + "_bhint", "%s %s e.bh" % (W, o), [("BoolHint", "bool")])
                val(OPN[o] + "_ihint", "%s %s e.ih" % (W, o), [("IntHint", "int")])
        val("eq_nullptr", "%s == nullptr" % W)
        val("ne_nullptr", "%s != nullptr" % W)
        val("nullptr_eq", "nullptr == %s" % W)
        val("land_true", "%s && true" % W)
        val("true_land", "true && %s" % W)
        val("lor_false", "%s || false" % W)
        val("land_bhint", "%s && e.bh" % W, [("BoolHint", "bool")])
        val("lor_bhint", "%s || e.bh" % W, [("BoolHint", "bool")])
        val("land_ihint", "%s && e.ih" % W, [("IntHint", "int")])
        val("not", "!%s" % W)
        val("neg", "-%s" % W)
        val("bitnot", "~%s" % W)
        val("deref", "*%s" % W)
        val("addrof", "&%s" % W)
        val("index0", "%s[0]" % W)
        val("index_T", "%s[e.t_int]" % W, [("T", "int")])
        # (a boolean hint is accepted as an index - p[hint], arr[hint] compile - and the element designated is an ordinary
        #  wrapped object: the property's clause about hints speaks of the hint itself, which still reaches no verifier;
        #  not among the forms: recorded as note N7 in DESIGN.md)
        val("arrow_a", "%s->a" % W)
        val("dot_a", "%s.a" % W)
        val("preinc", "++%s" % W)
        val("postinc", "%s++" % W)
        val("predec", "--%s" % W)
        val("addeq", "%s += 1" % W)
        val("addeq_T", "%s += e.t_int" % W, [("T", "int")])
        # rlbox::memcmp compares the POINTEES, which are in sandbox memory wherever the pointer itself lives: only a hint comes out
        val("memcmp_T", "rlbox::memcmp(e.sb, %s, e.t_pcchar, 4)" % W, [("T", "pcchar")])
        val("memcmp_rT", "rlbox::memcmp(e.sb, e.t_pcchar, %s, 4)" % W, [("T", "pcchar")])
        val("memcmp_plain", "rlbox::memcmp(e.sb, %s, e.p_pcchar, 4)" % W, [("Plain", "pcchar")])
        val("memcmp_numT", "rlbox::memcmp(e.sb, %s, e.t_pcchar, e.t_int)" % W, [("T", "pcchar"), ("T", "int")])
        val("memcpy_T", "rlbox::memcpy(e.sb, %s, e.t_pcchar, 4)" % W, [("T", "pcchar")])
        val("memset_4", "rlbox::memset(e.sb, %s, 0, 4)" % W)
        val("reinterpret_cast", "rlbox::sandbox_reinterpret_cast<long*>(%s)" % W)
        val("const_cast", "rlbox::sandbox_const_cast<const int*>(%s)" % W)
        val("sstatic_cast", "rlbox::sandbox_static_cast<long>(%s)" % W)
        # ---- member functions of the wrappers ----
        val("UNSAFE_unverified", "%s.UNSAFE_unverified()" % W)
        val("UNSAFE_sandboxed", "%s.UNSAFE_sandboxed(e.sb)" % W)
        val("unverified_safe_because", '%s.unverified_safe_because("r")' % W)
        val("unverified_safe_pointer_because", '%s.unverified_safe_pointer_because(1, "r")' % W)
        val("INTERNAL_unverified_safe", "%s.INTERNAL_unverified_safe()" % W)
        val("copy_and_verify", "%s.copy_and_verify([](auto v) { return 0; })" % W)
        val("copy_and_verify_range", "%s.copy_and_verify_range([](auto v) { return 0; }, 1)" % W)
        val("copy_and_verify_string", "%s.copy_and_verify_string([](std::string v) { return 0; })" % W)
        val("copy_and_verify_address", "%s.copy_and_verify_address([](uintptr_t v) { return 0; })" % W)
        val("copy_and_verify_buffer_address", "%s.copy_and_verify_buffer_address([](uintptr_t v) { return 0; }, 4)" % W)
        val("to_opaque", "%s.to_opaque()" % W)
        val("from_opaque", "rlbox::from_opaque(%s)" % W)
        val("set_zero", "%s.set_zero()" % W)
        val("get_raw_value", "%s.get_raw_value()" % W)
        val("get_raw_sandbox_value", "%s.get_raw_sandbox_value(e.sb)" % W)
        val("get_raw_value_ref", "%s.get_raw_value_ref()" % W)
        val("get_sandbox_value_ref", "%s.get_sandbox_value_ref()" % W)
        val("data_member", "%s.data" % W)
        val("is_unregistered", "%s.is_unregistered()" % W)
        val("to_tainted", "%s.to_tainted()" % W)
        val("lookup_app_ptr", "e.sb.lookup_app_ptr(%s)" % W)
        val("free_in_sandbox", "e.sb.free_in_sandbox(%s)" % W)
        val("invoke_arg", "e.sb.invoke_sandbox_function(lib_int, %s)" % W)
    return P


def run(tier, seed, replay):
    ctx = vlib.Ctx(PROP, tier, seed)
    ok, out = vlib.ensure_framework()
    if not ok:
        ctx.notes.append("framework build problem:\n" + out[-2000:])
    progs = programs()
    families = ["noop", "verif"]
    if tier == "quick":
        # quick: the full table under the no-op family, every third program under the verif family
        pass
    try:
        m2.judge(ctx, progs, ["noop"])
        sub = progs if tier != "quick" else progs[::3]
        m2.judge(ctx, sub, ["verif"])
    except RuntimeError as ex:
        ctx.violations.append({"kind": "broken-correspondence", "case": "m2 environment", "what": str(ex)[:3000], "impl": "", "model": "", "spec": "", "class": ""})
        return vlib.finish(ctx, trusted=TRUSTED + vlib.COMMON_TRUSTED, assumptions=ASSUMPTIONS, rule=RULE)
    ids = m2.Ids()
    tables = {"noop": progs, "verif": sub}
    # the same decisions in python, to name the offending programs (the kernel's verdict is what counts)
    ptr_types = {"pint", "pcchar", "ppint", "pvoid", "fn", "pst", "pchar", "fn2"}

    def declass(p):
        if p.form in DECLASS or p.form in KNOWN or p.form in OWNER_STATE:
            return True
        return p.form in NULLTEST and p.args[0][0] == "T" and p.args[0][1] in ptr_types and all(a[0] == "Plain" for a in p.args[1:])

    def rule_ok(p, fam):
        v = p.verdict[fam]
        if declass(p) or v is None:
            return True
        return v[0] != "Plain" or v[1] == "void"

    def hint_ok(p, fam):
        v = p.verdict[fam]
        if v is None:
            return True
        cmpf = p.form.split("_")[0] in ("eq", "ne", "lt", "le", "gt", "ge") and not p.form.endswith("nullptr")
        involves_mem = any(k in ("TV", "BoolHint", "IntHint") for k, _ in p.args)
        if cmpf and involves_mem and v[0] not in ("BoolHint", "IntHint"):
            return False
        if p.args[0][0] in ("BoolHint", "IntHint") and p.form.startswith("copy_and_verify"):
            return False
        if p.form.startswith("memcmp") and v[0] not in ("BoolHint", "IntHint"):
            return False
        # a hint among the operands: whatever comes out is again a hint (or nothing), unless the form is a named unwrapping call
        if any(k in ("BoolHint", "IntHint") for k, _ in p.args) and not declass(p) and v[0] not in ("BoolHint", "IntHint") and v[1] != "void":
            return False
        return True
    bad = []
    known_seen = {}
    for fam, tb in tables.items():
        for p in tb:
            if not rule_ok(p, fam) or not hint_ok(p, fam):
                bad.append((fam, p))
            if p.form in KNOWN and p.verdict[fam] is not None and p.verdict[fam][0] == "Plain" and p.verdict[fam][1] != "void":
                known_seen.setdefault(KNOWN[p.form], []).append((fam, p))
    # ---- generated Coq file: the tables, the per-run obligation, the composition instance ----
    lines = ["(* generated by harness/props/c01.py from the compiler's verdicts on /repo's headers — do not edit *)",
             "From RLBoxV Require Import Typing Typing_proofs.", "Local Open Scope nat_scope.", ""]
    for fam, tb in tables.items():
        rows = m2.coq_entries(ids, tb, fam)
        lines.append("Definition table_%s : list entry := [\n%s\n]." % (fam, ";\n".join(rows)))
    dfs = [ids.form(f) for f in DECLASS] + [ids.form(f) for f in KNOWN] + [ids.form(f) for f in OWNER_STATE]
    nfs = [ids.form(f) for f in NULLTEST]
    ptys = [ids.ty(m2.CANON_TYPES[t]) for t in sorted(ptr_types)]
    cmps = [ids.form(f) for f in ids.forms if f.split("_")[0] in ("eq", "ne", "lt", "le", "gt", "ge") and not f.endswith("nullptr")]
    cavs = [ids.form(f) for f in ids.forms if f.startswith("copy_and_verify")]
    mcs = [ids.form(f) for f in ids.forms if f.startswith("memcmp")]
    lines += ["",
              "Definition declass_forms : list nat := %s." % m2.nat_list(dfs),
              "Definition nulltest_forms : list nat := %s." % m2.nat_list(nfs),
              "Definition pointer_types : list nat := %s." % m2.nat_list(ptys),
              "Definition compare_forms : list nat := %s." % m2.nat_list(cmps),
              "Definition verifier_forms : list nat := %s." % m2.nat_list(cavs),
              "Definition memcmp_forms : list nat := %s.   (* compare the pointees: sandbox memory whatever the operand wrappers *)" % m2.nat_list(mcs),
              "Definition memb (x : nat) (l : list nat) : bool := existsb (Nat.eqb x) l.",
              "(* the explicitly named unwrapping calls (and recorded finding D13), or a null test of a tainted pointer *)",
              "Definition declass (f : nat) (ts : list wt) : bool :=",
              "  memb f declass_forms ||",
              "  (memb f nulltest_forms && match ts with",
              "     | t :: rest => kind_eqb (wk t) KT && memb (wty t) pointer_types && forallb (fun a => negb (wrapped a)) rest",
              "     | [] => false end).",
              "(* comparisons involving data still in sandbox memory yield only hints; hints refuse every verifier *)",
              "Definition is_hint (w : wt) : bool := kind_eqb (wk w) KBoolHint || kind_eqb (wk w) KIntHint.",
              "Definition hint_ok (en : entry) : bool :=",
              "  match verdict en with",
              "  | None => true",
              "  | Some w =>",
              "    negb (memb (form en) compare_forms && existsb (fun a => kind_eqb (wk a) KTV || is_hint a) (args en) && negb (is_hint w)) &&",
              "    negb (memb (form en) verifier_forms && match args en with a :: _ => is_hint a | [] => false end) &&",
              "    negb (memb (form en) memcmp_forms && negb (is_hint w)) &&",
              "    (* a hint among the operands never comes out as a verifiable (non-hint) value, except through a named unwrapping call *)",
              "    negb (existsb is_hint (args en) && negb (declass (form en) (args en)) && negb (is_hint w) && negb (is_void w))",
              "  end.",
              ""]
    for fam in tables:
        lines += ["Theorem table_%s_ok : table_ok declass table_%s = true /\\ forallb hint_ok table_%s = true." % (fam, fam, fam),
                  "Proof. split; vm_compute; reflexivity. Qed.",
                  "(* every expression over the table whose value is a plain application value has all its sandbox-originated",
                  "   leaves underneath an explicit unwrapping call or a null test of a tainted pointer *)",
                  "Theorem C01_current_tree_%s : forall e w, wf e = true -> ty table_%s e = Some w -> wrapped w = false -> is_void w = false ->" % (fam, fam),
                  "  exposed_in declass table_%s e = false." % fam,
                  "Proof. exact (plain_result_is_declassified declass table_%s (proj1 table_%s_ok)). Qed." % (fam, fam),
                  "Print Assumptions C01_current_tree_%s." % fam, ""]
    gen = os.path.join(vlib.COQ, "Gen_Rules_C01.v")
    lock = vlib.coq_lock()
    try:
        with open(gen, "w") as f:
            f.write("\n".join(lines) + "\n")
        rc, cout = vlib.sh(["timeout", "900", "coqc", "-Q", ".", "RLBoxV", "Gen_Rules_C01.v"], cwd=vlib.COQ, timeout=1000)
    finally:
        lock.close()
    thm_ok, thm_out = vlib.check_theorems(ctx, PROP, COQ_FILES)
    n_entries = sum(len(t) for t in tables.values())
    ctx.coverage["obligations"] = ctx.coverage.get("obligations", 0) + 2 * len(tables) + n_entries
    ctx.coverage["discharged"] = ctx.coverage.get("discharged", 0) + (2 * len(tables) + n_entries if rc == 0 else 0)
    ctx.coverage["programs"] = n_entries
    ctx.coverage["evaluations"] = n_entries
    acc = sum(1 for fam, tb in tables.items() for p in tb if p.verdict[fam] is not None)
    ctx.coverage["distinct_nontrivial"] = len(set((p.form, tuple(p.args)) for tb in tables.values() for p in tb))
    ctx.coverage["accepted"] = acc
    ctx.coverage["rejected"] = n_entries - acc
    ctx.coverage["exhaustive"] = True
    ctx.coverage["checker_cmd"] = "clang++ -fsyntax-only per program (pre-compiled header); coqc Gen_Rules_C01.v (vm_compute over the regenerated table) ; coqc Properties_C01.v"
    hist = {}
    for fam, tb in tables.items():
        for p in tb:
            v = p.verdict[fam]
            key = "%s|%s|%s" % (fam, p.args[0][0], "rejected" if v is None else v[0])
            hist[key] = hist.get(key, 0) + 1
    ctx.coverage["input_distribution"] = hist
    ctx.coverage["samples"] = [{"program": p.stmt, "form": p.form, "operands": p.args, "verdict_noop": p.verdict.get("noop"), "verdict_verif": p.verdict.get("verif"),
                                "first_diagnostic": p.diag.get("noop", "")} for p in progs[5::max(1, len(progs) // 14)]][:14]
    # ---- verdict ----
    known = [k for k in vlib.load_known()["known"] if k["property"] == PROP]
    for k in known:
        if k["id"] in known_seen:
            fam, p = known_seen[k["id"]][0]
            ctx.known_lines.append("KNOWN-FINDING: property=%s %s %s (e.g. program: %s; %d table entries this run)" % (PROP, k["id"], k["what"], p.stmt, len(known_seen[k["id"]])))
        else:
            ctx.violations.append({"kind": "broken-correspondence", "case": k.get("witness_case", ""), "impl": "", "model": "", "spec": "", "class": "",
                                   "what": "known finding %s: the recorded witness program is no longer accepted with a plain result; known_findings.json / model stale" % k["id"]})
    for fam, p in bad[:20]:
        ctx.violations.append({"kind": "counterexample", "case": "%s: %s" % (fam, p.stmt), "impl": "compiles; type of the expression: %s %s" % p.verdict[fam],
                               "model": "", "spec": "must not compile, or must yield a wrapped value (a hint for comparisons involving sandbox memory)",
                               "class": p.form, "program": m2.text_of(p), "family": fam})
    if rc != 0 and not bad:
        ctx.violations.append({"kind": "broken-proof", "case": "Gen_Rules_C01.v", "what": "the kernel does not accept the per-run obligation over the regenerated rule table",
                               "impl": "", "model": cout[-3000:], "spec": "", "class": ""})
    if not thm_ok:
        ctx.violations.append({"kind": "broken-proof", "case": "Properties_C01.v", "what": "coqc no longer accepts the property theorems", "impl": "", "model": thm_out[-3000:], "spec": "", "class": ""})
    return vlib.finish(ctx, trusted=TRUSTED + vlib.COMMON_TRUSTED, assumptions=ASSUMPTIONS, rule=RULE)


RULE = ("regenerated rule table: one-statement programs = {38 wrapped operands: tainted and tainted_volatile of int, bool, unsigned char, long, unsigned long long, enum, float, double, "
        "int*, const char*, int**, void*, function pointer, int[4], registered struct, struct pointer; tainted_opaque of int and int*; sandbox_callback; app_pointer; both hints} x "
        "{~110 forms: every conversion context (copy/direct/brace initialisation, static_cast, C cast, assignment, argument, return, to bool/int/long/double/void*, if/while/for/?:/switch, "
        "subscript of and arithmetic on plain pointers), every operator form with plain / tainted / tainted_volatile second operands, unary forms, dereference, address-of, indexing, member "
        "access, increments, compound assignment, the three sandbox casts, and every public member function incl. the private accessors}. Each program is compiled on its own with compile "
        "checks ON; accepted expression programs are type-classified by a compiled classifier. Families: no-op sandbox type (full table) and LP32-like verif sandbox type (every third program "
        "in quick, full in thorough). Non-trivial/distinct: distinct (form, operand types).")
TRUSTED = ["translator: harness/props/m2common.py + c01.py (program generator, compiler-verdict reader, classifier harness/m2_env.hpp, Gallina table writer); clang++ 14 as the judge of what compiles",
           "the obligation over the regenerated table and the composition instance are checked by the Coq kernel on every run (coq/Gen_Rules_C01.v)"]
ASSUMPTIONS = ["the theorem covers expressions built from the enumerated forms and representative types (pointer depth <= 2, array rank 1); escape hatches that are not the RLBox API "
               "(reinterpret_cast of the wrapper object, memcpy out of it, #define private public) are outside",
               "known finding D13: INTERNAL_unverified_safe() is public on every wrapper and both hints"]

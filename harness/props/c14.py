"""C14 — sandbox lifecycle is a strict state machine; the live-sandbox registry is exact."""
import itertools
PROP = "C14"
COQ_FILES = ["Machine.v", "World.v", "World_proofs.v"]
DRIVERS = [
    dict(name="life_verif32", src="life.cpp", defines=["LIFE_VERIF"], ops=["life32"]),
    dict(name="life_noop", src="life.cpp", defines=["LIFE_NOOP"], ops=["lifen"]),
    dict(name="life_dylib", src="life.cpp", defines=["LIFE_DYLIB"], ops=["lifed"]),
]
ALPHA14 = ["c:0:1", "c:0:0", "c:0:2", "d:0", "m:0", "f:0", "fo:0", "fv:0:1", "fv:0:0", "fv:1:0", "r:0:0:1", "u:0", "l:0:5", "il:0:5", "lb:0:5", "lb:0:6", "ilb:0:6", "lb:1:5", "fa:0:5", "fa:0:6", "x:0:64", "gs:0:0",
           "rx:0:0:1", "rx:1:0:1", "c:1:1", "d:1", "x:1:4096", "r:1:1:1", "r:1:0:1", "m:1", "c:2:1", "d:2", "x:2:0", "q:0"]


def gen_life(tier, rng, translation_heavy=False):
    cases = []
    depth = 3 if tier == "quick" else 4
    alpha = ALPHA14 if not translation_heavy else ["c:0:1", "d:0", "c:1:1", "d:1", "c:2:1", "d:2", "x:0:64", "x:1:4095", "x:2:0", "c:0:0", "c:0:2", "c:1:2"]
    if translation_heavy:
        depth = 4 if tier == "quick" else 6
    for d in range(1, depth + 1):
        for ops in itertools.product(alpha, repeat=d):
            cases.append("life32 " + " ".join(ops))
    # a creation that fails LATE (the back end had recorded a base already): the instance must not be consulted for translations
    for pre in (["c:0:2"], ["c:0:1", "d:0", "c:0:2"], ["c:1:1", "c:0:2"], ["c:0:2", "c:1:1"]):
        for tail in (["x:0:64"], ["x:0:64", "x:1:64"], ["m:0"], ["d:0"], ["c:0:1"]):
            cases.append("life32 " + " ".join(pre + tail))
    if not translation_heavy:
        # outside the created window in each of its forms: never created, destroyed, stuck after a failed create
        for pre in (["c:0:1", "r:0:0:1", "d:0", "c:0:0"], ["c:0:1", "r:0:0:1", "d:0"], ["c:0:0"], []):
            for tail in (["u:0"], ["f:0"], ["fo:0"], ["fv:0:1"], ["m:0"], ["r:1:0:2"], ["u:0", "q:0"], ["c:1:1", "fv:0:1", "u:0"]):
                cases.append("life32 " + " ".join(pre + tail))
        # a registration refused outside the window (recoverable abort) leaves no trace: the same function registers inside the next window
        for pre in ([], ["c:0:1", "d:0"], ["c:0:0"], ["c:0:1", "r:0:0:1"]):
            for mid in (["rx:0:0:1"], ["rx:1:0:1"], ["rx:0:0:1", "rx:0:0:1"]):
                for tail in (["c:0:1", "r:0:0:1"], ["c:0:1", "r:1:0:1", "go:0"], ["c:0:1", "rx:0:0:1", "u:0", "r:0:0:1"], ["d:0", "c:0:1", "r:1:0:1"]):
                    cases.append("life32 " + " ".join(pre + mid + tail))
        # a registration refused because every entry point of the back end is taken leaves no trace either: once one is
        # released the same function registers
        for drv, n in (("life32", 3), ("life32", 4), ("lifen", 63), ("lifen", 64)):
            cases.append("%s c:0:1 r:1:0:2 fill:0:%d rx:0:0:1 u:1 rx:0:0:1 go:0" % (drv, n))
            cases.append("%s c:0:1 r:1:0:2 fill:0:%d rx:0:0:1 rx:0:0:1 u:1 rx:2:0:1 rx:0:0:3" % (drv, n))
        # histories in which EVERY abort is recoverable: a refused operation of any kind leaves no trace
        ralpha = ["!" + a for a in ("c:0:1", "c:0:0", "d:0", "m:0", "f:0", "r:0:0:1", "r:1:0:1", "r:1:0:2", "u:0", "u:1", "c:1:1", "d:1", "r:2:1:1", "q:0", "x:0:64")]
        for d in range(1, 4):
            for ops in itertools.product(ralpha, repeat=d):
                cases.append("life32 " + " ".join(ops))
        for _ in range(1500 if tier == "quick" else 15000):
            cases.append("life32 " + " ".join(rng.choice(ralpha) for _ in range(rng.randrange(4, 14))))
    for _ in range(4000 if tier == "quick" else 40000):
        n = rng.randrange(4, 16)
        cases.append("life32 " + " ".join(rng.choice(alpha) for _ in range(n)))
    return cases


def gen_cases(tier, rng):
    cases = gen_life(tier, rng)
    # the shipped no-op back end: same histories without failure injection / translation
    for c in list(cases[::7]):
        cases.append("lifen " + c.split(" ", 1)[1])
    for c in list(cases[::11]):
        if c.startswith("life32"):
            cases.append("lifed " + c.split(" ", 1)[1])      # rlbox_dylib_sandbox
    return cases


def NONTRIVIAL(case, model, cls):
    return True


RULE = ("histories over 3 sandbox objects of verif32 (create with injected failure, destroy, malloc, free, register, unregister, by-name lookup and internal lookup (back end asked or "
        "served from cache), guest call of a raw entry-point slot, example-based pointer translation into each object's region): exhaustive to depth 3 (quick)/4 (thorough) over an alphabet "
        "of 34 operations (incl. registrations whose abort is recoverable: a refused registration leaves no trace), random to length 15; every seventh history also on rlbox_noop_sandbox. Histories in which every abort is recoverable (prefix !): exhaustive to depth 3 over 15 operations + random; a refused operation leaves no trace. Every outcome of every step is compared; an abort ends the history.")
TRUSTED = ["model coq/World.v hand-written; tied by differential correspondence of whole histories"]
ASSUMPTIONS = ["abort is terminal (the history ends at the first failed dynamic_check) except for the recoverable registration op rx", "single thread (C18 covers threads)"]

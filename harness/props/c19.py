"""C19 — transition notifications bracket every boundary crossing and stay balanced."""
from . import callscommon
PROP = "C19"
COQ_FILES = ["Machine.v", "Calls.v", "Calls_proofs.v", "ScopeExit.v", "ScopeExit_proofs.v"]
DRIVERS = [
    dict(name="calls_verif32", src="calls.cpp", defines=["CALLS_VERIF32"], ops=["calls32"]),
    dict(name="calls_wide", src="calls.cpp", defines=["CALLS_WIDE"], ops=["callsw"]),
    dict(name="calls_noop", src="calls.cpp", defines=["CALLS_NOOP"], ops=["callsn"]),
    dict(name="calls_dylib", src="calls.cpp", defines=["CALLS_DYLIB"], ops=["callsd"], flags=["-rdynamic"],
         prebuild=[("calls_guestlib.cpp", "libcalls0.so", ["LIB=0"]), ("calls_guestlib.cpp", "libcalls1.so", ["LIB=1"])]),
    # the configurations of the property's "hooks OR timing": hooks without timing, timing without hooks, one hook only
    dict(name="calls_verif32_h", src="calls.cpp", defines=["CALLS_VERIF32", "CALLS_HOOKS_ONLY"], ops=["calls32h"]),
    dict(name="calls_verif32_t", src="calls.cpp", defines=["CALLS_VERIF32", "CALLS_TIMING_ONLY"], ops=["calls32t"]),
    dict(name="calls_verif32_i", src="calls.cpp", defines=["CALLS_VERIF32", "CALLS_IN_ONLY"], ops=["calls32i"]),
    dict(name="calls_verif32_o", src="calls.cpp", defines=["CALLS_VERIF32", "CALLS_OUT_ONLY"], ops=["calls32o"]),
    dict(name="sx", src="sx.cpp", defines=[], ops=["sx"]),
]


def gen_cases(tier, rng):
    q = tier == "quick"
    cases = []
    cases += callscommon.gen("calls32", tier, rng, 3 if q else 4, 1500 if q else 20000, 5 if q else 6)
    cases += callscommon.gen("callsw", tier, rng, 3 if q else 4, 1500 if q else 20000, 5 if q else 6)
    cases += callscommon.gen("callsn", tier, rng, 3, 600 if q else 6000, 5)
    cases += callscommon.gen("callsd", tier, rng, 3, 800 if q else 8000, 6)
    for v in "htio":
        cases += callscommon.gen("calls32" + v, tier, rng, 3, 500 if q else 5000, 5)
    # scope_exit: every history to depth 4 (quick) / 5 (thorough) over move/release/destroy of the first four objects, random longer
    import itertools
    alpha = ["m:0", "m:1", "m:2", "r:0", "r:1", "r:2", "d:0", "d:1", "d:2", "m:3", "d:3", "r:3"]
    for d in range(0, (4 if q else 5) + 1):
        for ops in itertools.product(alpha, repeat=d):
            cases.append("sx " + " ".join(ops))
    for _ in range(2000 if q else 20000):
        n = rng.randrange(5, 25)
        cases.append("sx " + " ".join("%s:%d" % (rng.choice("mmrdd"), rng.randrange(0, 8)) for _ in range(n)))
    return cases


def NONTRIVIAL(case, model, cls):
    # non-trivial: at least one callback crossing inside the invocation (nesting) or an abort
    return " O:c:" in model or "ab=1" in model


RULE = ("register/unregister history over 3 sandbox instances and 8 application functions (slot reuse, full tables), then a call tree: every tree shape to depth 3 (quick) / 4 (thorough) "
        "and width 2 with a fault (unrepresentable argument, unrepresentable result, throwing callback body) at every node position, with catching and non-catching callback bodies, plus "
        "random trees to depth 5/6 and width 3; on verif32 (guest long = int32: argument faults on invoke, result faults on callbacks), verifwide (guest int = int64: the opposite two) and "
        "rlbox_noop_sandbox (body faults). Compared per case: the full sequence of hook calls with kind, function identity and transition state, guest entries, callback runs, crossing values, "
        "abort flag, the back end's thread record after the tree, and the per-sandbox timing vectors. Non-trivial: the tree contains a callback crossing or ends by an abort.")
TRUSTED = ["model coq/Calls.v hand-written; tied by differential correspondence of whole call trees with hooks and timers enabled"]
ASSUMPTIONS = ["an abort surfaces as a C++ exception (RLBOX_USE_EXCEPTIONS, the configuration the repository's tests use)",
               "guest frames never catch; the clock value of a timing record is not compared",
               "scope_exit itself is also driven directly (sx.cpp): histories of move construction / release / destruction"]

"""shared by the address-level properties (C03 C04 C05 C10 C17 C02)"""
B44 = 1 << 44
CFG = {
    "32": dict(bases=[1 * B44, 2 * B44], size=1 << 32, committed=(1 << 20) - 8192, window=1 << 17, define="verif_cfg32", ptr=4),
    "16": dict(bases=[6 * B44, 7 * B44], size=1 << 16, committed=1 << 16, window=1 << 16, define="verif_cfg16", ptr=2),
}
# a pointer representation as wide as the host's but not the identity (region-relative offsets in 64 bits):
# only the translation-level properties (C03, C04) run on it
CFG64 = {
    "64": dict(bases=[1 * B44, 2 * B44], size=1 << 32, committed=(1 << 20) - 8192, window=1 << 17, define="verif_cfg64", ptr=8),
}
CFG_XL = dict(CFG, **CFG64)
# verif32 whose same-sandbox test is built on RLBox's finder (3-parameter impl_is_in_same_sandbox), with exactly ONE
# sandbox alive: who owns an address is decided by RLBox's list of live sandboxes (C03, C05)
CFG_F = {
    "3f": dict(bases=[1 * B44, 2 * B44], size=1 << 32, committed=(1 << 20) - 8192, window=1 << 17, define="verif_cfg32f", ptr=4),
}
APP_BASE = 5 * B44
APP_SIZE = 1 << 17
IDX_KINDS = ["char", "schar", "uchar", "short", "ushort", "int", "uint", "long", "ulong", "llong", "ullong"]
SIGNED = {"char", "schar", "short", "int", "long", "llong"}
SIZE = {"char": 1, "schar": 1, "uchar": 1, "short": 2, "ushort": 2, "int": 4, "uint": 4, "long": 8, "ulong": 8, "llong": 8, "ullong": 8}


def lo(k):
    return -(1 << (8 * SIZE[k] - 1)) if k in SIGNED else 0


def hi(k):
    return (1 << (8 * SIZE[k] - 1)) - 1 if k in SIGNED else (1 << (8 * SIZE[k])) - 1


def fits(k, v):
    return lo(k) <= v <= hi(k)


def drivers(part, ops, cfgs=None):
    out = []
    for cfg, c in (cfgs or CFG).items():
        out.append(dict(name="ptr_%s_%s" % (part.lower(), cfg), src="ptr.cpp",
                        defines=["VERIF_CFG=" + c["define"], "PART_" + part] + (["PTR_SINGLE"] if cfg == "3f" else []),
                        ops=[o + cfg for o in ops]))
    return out


def canon(case, r):
    if r == "UNCOMMITTED":
        return None
    if r.startswith("CRASH(signal 11)") or r.startswith("CRASH(signal 7)"):
        return "FAULT"
    return r

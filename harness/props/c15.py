"""C15 — app-pointer tokens are non-zero, bounded, unique and resolve to their pointer."""
import itertools
PROP = "C15"
COQ_FILES = ["Machine.v", "AppPtr.v", "AppPtr_proofs.v", "AppPtr_owner_proofs.v", "AppPtr2.v", "AppPtr2_proofs.v"]
DRIVERS = [dict(name="appptr", src="appptr.cpp", ops=["amap", "aown", "aown2"])]


def gen_cases(tier, rng):
    cases = []
    # exhaustive histories on the 8-bit table
    depth = 5 if tier == "quick" else 6
    for mx in ((1, 2, 3) if tier == "quick" else (1, 2, 3, 5)):
        # (token 0 is reserved and never issued: releasing it is outside the API contract and not generated;
        #  an earlier version of the thorough generator did, which raised a false alarm)
        alpha = ["r:7"] + ["x:%d" % i for i in range(1, mx + 2)] + ["l:%d" % i for i in range(0, mx + 2)]
        if tier == "quick":
            alpha = ["r:7"] + ["x:%d" % i for i in range(1, mx + 2)] + ["l:%d" % i for i in range(1, mx + 1)]
        alpha.append("r:5555")      # the SAME application pointer registered again: every registration gets a token of its own
        for d in range(1, depth + 1):
            for ops in itertools.product(alpha, repeat=d):
                # keep histories that register at least once (others are trivial)
                if "r:7" in ops or ops.count("r:5555") >= 2:
                    ptrs = []
                    n = 0
                    out = []
                    for o in ops:
                        if o == "r:7":
                            n += 1
                            out.append("r:%d" % (1000 + n))
                        else:
                            out.append(o)
                    cases.append("amap 8 %d %s" % (mx, " ".join(out)))
    # register / release only, deeper (the cursor wraps around and comes back to tokens that are still live), then every token
    # looked up: depth 7 for limits 1 and 2, depth 6 for limit 3 (quick); one more in thorough
    for mx in (1, 2, 3):
        alpha2 = ["r:7"] + ["x:%d" % i for i in range(1, mx + 1)]
        dmax = (7 if mx <= 2 else 6) + (0 if tier == "quick" else 1)
        tail = " ".join("l:%d" % i for i in range(1, mx + 1))
        for d in range(depth + 1, dmax + 1):
            for ops in itertools.product(alpha2, repeat=d):
                if ops.count("r:7") < 3:
                    continue
                n = 0
                out = []
                for o in ops:
                    if o == "r:7":
                        n += 1
                        out.append("r:%d" % (1000 + n))
                    else:
                        out.append(o)
                cases.append("amap 8 %d %s %s" % (mx, " ".join(out), tail))
    # fill to exhaustion for every limit of the 8-bit table, then one more; release+re-register around the cursor
    for mx in range(1, 255):
        fill = ["r:%d" % (100 + i) for i in range(mx)]
        cases.append("amap 8 %d %s r:9999" % (mx, " ".join(fill)))
        k = rng.randrange(1, mx + 1)
        cases.append("amap 8 %d %s x:%d r:7777 l:%d r:8888" % (mx, " ".join(fill), k, k))
        cases.append("amap 8 %d %s x:%d x:1 r:7777 r:7778 r:7779 l:1 l:%d" % (mx, " ".join(fill), mx, mx))
    # type-maximum limit (N1) without filling the table: cyclic scan
    cases.append("amap 8 255 " + " ".join(["r:%d" % (100 + i) for i in range(250)]) + " x:3 r:1 r:2 r:3 r:4 r:5 r:6 l:3 l:255")
    # random long histories on wider tables
    for bits in (16, 32, 64):
        for _ in range(30 if tier == "quick" else 300):
            mx = rng.choice([1, 2, 5, 17, 200, 1000, (1 << bits) - 2, (1 << bits) - 1, (1 << (bits - 1))])
            live = []
            ops = []
            n = rng.randrange(20, 400)
            for i in range(n):
                r = rng.random()
                if r < 0.5 or not live:
                    ops.append("r:%d" % (5000 + i))
                    live.append(None)
                elif r < 0.8:
                    ops.append("x:%d" % rng.randrange(1, min(mx, len(live) + 3) + 1))
                else:
                    ops.append("l:%d" % rng.randrange(0, min(mx, len(live) + 3) + 1))
            cases.append("amap %d %d %s" % (bits, mx, " ".join(ops)))
    # owner layer: exhaustive histories
    # g:1:0 registers the NULL application pointer: it gets a fresh non-zero token of its own like any other pointer
    oalpha = ["g:0:P", "g:1:P", "g:1:0", "m:0:1", "m:1:0", "m:0:0", "m:2:0", "d:0", "d:1", "l:0", "l:1", "u:0", "u:1", "t:1", "t:2", "t:3"]
    od = 4 if tier == "quick" else 5
    for d in range(1, od + 1):
        for ops in itertools.product(oalpha, repeat=d):
            if not any(o.startswith("g") for o in ops):
                continue
            out = []
            n = 0
            for o in ops:
                if o.endswith(":P"):
                    n += 1
                    out.append(o[:-1] + str(4096 * n))
                else:
                    out.append(o)
            cases.append("aown " + " ".join(out))
    for _ in range(200 if tier == "quick" else 3000):
        n = rng.randrange(5, 40)
        out = []
        for i in range(n):
            o = rng.choice(oalpha)
            out.append(o[:-1] + str(4096 * (i + 1)) if o.endswith(":P") else o)
        cases.append("aown " + " ".join(out))
    # owner layer over TWO live sandboxes (each table issues from 1: owners of different sandboxes hold EQUAL tokens):
    # exhaustive histories, then random ones
    o2 = ["g:0:0:P", "g:1:1:P", "g:0:1:P", "g:2:0:P", "m:0:1", "m:1:0", "m:0:2", "m:1:1", "d:0", "d:1", "u:0", "u:1", "l:0", "l:1", "t:0:1", "t:1:1", "t:0:2", "t:1:2"]
    od2 = 4      # (depth 5 would be ~10^6 histories of two sandbox creations each: the thorough tier adds random histories instead)
    for d in range(2, od2 + 1):
        for ops in itertools.product(o2, repeat=d):
            if sum(1 for o in ops if o.startswith("g")) < 2 or not any(o.startswith("m") for o in ops):
                continue
            cases.append("aown2 " + " ".join(o[:-1] + str(4096 * (i + 1)) if o.endswith(":P") else o for i, o in enumerate(ops)))
    for _ in range(300 if tier == "quick" else 4000):
        n = rng.randrange(5, 40)
        cases.append("aown2 " + " ".join(o[:-1] + str(4096 * (i + 1)) if o.endswith(":P") else o for i, o in enumerate(rng.choice(o2) for _ in range(n))))
    return cases


def NONTRIVIAL(case, model, cls):
    return True


RULE = ("token table app_pointer_map<uint8_t>: every history up to depth 5 (quick)/6 (thorough) over {register, release i, lookup i} for limits 1,2,3(,5); register/release-only histories to depth 7 (limits 1,2) / 6 (limit 3) followed by a lookup of every token; fill-to-exhaustion + one more, "
        "release/re-register around the parked cursor, for every limit 1..254; type-maximum limit without a full table; random histories of length 20..400 on 16/32/64-bit tables with "
        "limits from 1 to the type maximum; owner layer through rlbox_sandbox<verif16>: every history up to depth 4/5 over {get into slot (incl. the null application pointer), move-assign (incl. self and from inert), "
        "unregister, lookup through the owner, is_unregistered, lookup of raw tokens} + random. The spec column is an independent reference (fresh token in [1,max], abort iff full, lookup = "
        "registered pointer until release). distinct = distinct history")
TRUSTED = ["model coq/AppPtr.v hand-written; tied by differential correspondence on full histories (token values included)"]
ASSUMPTIONS = ["limit below the token type's maximum (1 <= max < 2^w - 1) for the theorems; max = 2^w-1 with a full table diverges (N1, proved, outside the property)",
               "owner layer: proved for every history with slot numbers in range (C15_owners_all_histories); tied by exhaustive correspondence of histories"]

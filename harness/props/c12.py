"""C12 — a callback call runs exactly the registered function with faithful arguments."""
from . import callscommon
PROP = "C12"
COQ_FILES = ["Machine.v", "Calls.v", "Calls_proofs.v", "World.v", "World_proofs.v"]
DRIVERS = [
    dict(name="calls_verif32", src="calls.cpp", defines=["CALLS_VERIF32"], ops=["calls32"]),
    dict(name="calls_wide", src="calls.cpp", defines=["CALLS_WIDE"], ops=["callsw"]),
    dict(name="calls_noop", src="calls.cpp", defines=["CALLS_NOOP"], ops=["callsn"]),
    dict(name="calls_dylib", src="calls.cpp", defines=["CALLS_DYLIB"], ops=["callsd"], flags=["-rdynamic"],
         prebuild=[("calls_guestlib.cpp", "libcalls0.so", ["LIB=0"]), ("calls_guestlib.cpp", "libcalls1.so", ["LIB=1"])]),
    dict(name="calls_dylib_etls", src="calls.cpp", defines=["CALLS_DYLIB", "RLBOX_EMBEDDER_PROVIDES_TLS_STATIC_VARIABLES"], ops=["callsde"], flags=["-rdynamic"],
         prebuild=[("calls_guestlib.cpp", "libcalls0.so", ["LIB=0"]), ("calls_guestlib.cpp", "libcalls1.so", ["LIB=1"])]),
    dict(name="cbk_32", src="cbk.cpp", defines=["VERIF_CFG=verif_cfg32"], ops=["cbk32"]),
    dict(name="cbk_16", src="cbk.cpp", defines=["VERIF_CFG=verif_cfg16"], ops=["cbk16"]),
    dict(name="cbk_64", src="cbk.cpp", defines=["VERIF_CFG=verif_cfg64"], ops=["cbk64"]),
    dict(name="cbk_wide", src="cbk.cpp", defines=["VERIF_CFG=verif_cfgwide"], ops=["cbkw"]),
    dict(name="cbk_noop", src="cbk.cpp", defines=["CBK_NOOP"], ops=["cbkn"]),
    dict(name="calls_noop_etls", src="calls.cpp", defines=["CALLS_NOOP", "RLBOX_EMBEDDER_PROVIDES_TLS_STATIC_VARIABLES"], ops=["callsne"]),
]


def gen_cases(tier, rng):
    q = tier == "quick"
    cases = []
    cases += callscommon.gen("calls32", tier, rng, 3, 3000 if q else 30000, 6 if q else 7)
    cases += callscommon.gen("callsw", tier, rng, 3, 1500 if q else 15000, 6)
    cases += callscommon.gen("callsn", tier, rng, 3, 1500 if q else 15000, 6)
    cases += callscommon.gen("callsne", tier, rng, 3, 1500 if q else 15000, 6)
    cases += callscommon.gen("callsd", tier, rng, 3, 800 if q else 8000, 6)
    cases += callscommon.gen("callsde", tier, rng, 3, 800 if q else 8000, 6)
    cases += cbk_cases()
    return cases


INT_KINDS = {"schar": (1, True), "uchar": (1, False), "short": (2, True), "ushort": (2, False), "int": (4, True), "uint": (4, False),
             "long": (8, True), "ulong": (8, False), "llong": (8, True), "ullong": (8, False)}
# guest width of each application kind per configuration (rlbox ABI parameters of the harness back ends)
GUEST_SIZE = {
    "lp32": {"schar": 1, "uchar": 1, "short": 2, "ushort": 2, "int": 4, "uint": 4, "long": 4, "ulong": 4, "llong": 8, "ullong": 8},
    "wide": {"schar": 1, "uchar": 1, "short": 4, "ushort": 4, "int": 8, "uint": 8, "long": 8, "ulong": 8, "llong": 8, "ullong": 8},
    "host": {k: v[0] for k, v in INT_KINDS.items()},
}


def rng_of(size, signed):
    return (-(1 << (8 * size - 1)), (1 << (8 * size - 1)) - 1) if signed else (0, (1 << (8 * size)) - 1)


def cbk_cases():
    """one guest call per case: the callback's parameter / result is a data pointer (null, first bytes, far end of the sandbox)
    or an integer of every width and signedness, at the boundaries of both the application's and the guest's type"""
    out = []
    for op, abi, far in (("cbk32", "lp32", (1 << 32) - 4), ("cbk16", "lp32", (1 << 16) - 4), ("cbk64", "lp32", (1 << 32) - 4),
                         ("cbkw", "wide", (1 << 32) - 4), ("cbkn", "host", (1 << 16) - 4)):
        for pk in ("ptr", "cptr", "vptr"):
            for off in (0, 4, 8, 4096, 65532 if far > 65532 else 1024, far):
                out.append("%s p %s %d" % (op, pk, off))
                out.append("%s r %s %d" % (op, pk, off))
        for k, (asz, sg) in INT_KINDS.items():
            gsz = GUEST_SIZE[abi][k]
            alo, ahi = rng_of(asz, sg)
            glo, ghi = rng_of(gsz, sg)
            vals = {0, 1, 7, alo, ahi, glo, ghi}
            if sg:
                vals.add(-1)
            for v in sorted(vals):
                for d in (-1, 0, 1):
                    x = v + d
                    if glo <= x <= ghi:        # what guest code can pass
                        out.append("%s p %s %d" % (op, k, x))
                    if alo <= x <= ahi:        # what the application function can return
                        out.append("%s r %s %d" % (op, k, x))
    return sorted(set(out))


def NONTRIVIAL(case, model, cls):
    return " R:" in model or model.startswith("R:") or model.startswith("GG:")


RULE = ("register/unregister history over 3 sandbox instances and a pool of 8 application functions of two signatures (4 returning a value, 4 void; identical signatures share "
        "trampolines on the shipped back end), slot reuse after unregistration, full tables; then guest calls of entry points inside call trees (every shape to depth 3, random to depth 6/7, "
        "width 3, nesting across the three instances, dead entry points with probability 0.05), argument/result values at the representability boundaries; back ends verif32, verifwide, "
        "rlbox_noop_sandbox with library TLS and with embedder-provided TLS; plus single guest calls of a callback whose parameter / result is a data pointer "
        "(null, first bytes, far end; int*, const char*, void*) or an integer of every width and signedness at the boundaries of the application's and the guest's type, "
        "on verif32/16/64/wide and rlbox_noop_sandbox. Compared: which function ran, which sandbox reference it was given, the argument it saw, the value guest code got "
        "back, abort flag, thread record afterwards. Non-trivial: at least one application callback ran.")
TRUSTED = ["model coq/Calls.v + coq/World.v hand-written; tied by differential correspondence of whole call trees"]
ASSUMPTIONS = ["registrations do not change while a tree is running (histories precede the tree)", "rlbox_dylib_sandbox is driven with two real shared objects exporting the same names (built at check time)",
               "single thread per tree (C18 covers threads)"]

"""C12 — a callback call runs exactly the registered function with faithful arguments."""
from . import callscommon
PROP = "C12"
COQ_FILES = ["Machine.v", "Calls.v", "Calls_proofs.v", "World.v", "World_proofs.v"]
DRIVERS = [
    dict(name="calls_verif32", src="calls.cpp", defines=["CALLS_VERIF32"], ops=["calls32"]),
    dict(name="calls_wide", src="calls.cpp", defines=["CALLS_WIDE"], ops=["callsw"]),
    dict(name="calls_noop", src="calls.cpp", defines=["CALLS_NOOP"], ops=["callsn"]),
    dict(name="calls_dylib", src="calls.cpp", defines=["CALLS_DYLIB"], ops=["callsd"], flags=["-rdynamic"],
         prebuild=[("calls_guestlib.cpp", "libcalls0.so", ["LIB=0"]), ("calls_guestlib.cpp", "libcalls1.so", ["LIB=1"])]),
    dict(name="calls_dylib_etls", src="calls.cpp", defines=["CALLS_DYLIB", "RLBOX_EMBEDDER_PROVIDES_TLS_STATIC_VARIABLES"], ops=["callsde"], flags=["-rdynamic"],
         prebuild=[("calls_guestlib.cpp", "libcalls0.so", ["LIB=0"]), ("calls_guestlib.cpp", "libcalls1.so", ["LIB=1"])]),
    dict(name="calls_noop_etls", src="calls.cpp", defines=["CALLS_NOOP", "RLBOX_EMBEDDER_PROVIDES_TLS_STATIC_VARIABLES"], ops=["callsne"]),
]


def gen_cases(tier, rng):
    q = tier == "quick"
    cases = []
    cases += callscommon.gen("calls32", tier, rng, 3, 3000 if q else 30000, 6 if q else 7)
    cases += callscommon.gen("callsw", tier, rng, 3, 1500 if q else 15000, 6)
    cases += callscommon.gen("callsn", tier, rng, 3, 1500 if q else 15000, 6)
    cases += callscommon.gen("callsne", tier, rng, 3, 1500 if q else 15000, 6)
    cases += callscommon.gen("callsd", tier, rng, 3, 800 if q else 8000, 6)
    cases += callscommon.gen("callsde", tier, rng, 3, 800 if q else 8000, 6)
    return cases


def NONTRIVIAL(case, model, cls):
    return " R:" in model


RULE = ("register/unregister history over 3 sandbox instances and a pool of 8 application functions of two signatures (4 returning a value, 4 void; identical signatures share "
        "trampolines on the shipped back end), slot reuse after unregistration, full tables; then guest calls of entry points inside call trees (every shape to depth 3, random to depth 6/7, "
        "width 3, nesting across the three instances, dead entry points with probability 0.05), argument/result values at the representability boundaries; back ends verif32, verifwide, "
        "rlbox_noop_sandbox with library TLS and with embedder-provided TLS. Compared: which function ran, which sandbox reference it was given, the argument it saw, the value guest code got "
        "back, abort flag, thread record afterwards. Non-trivial: at least one application callback ran.")
TRUSTED = ["model coq/Calls.v + coq/World.v hand-written; tied by differential correspondence of whole call trees"]
ASSUMPTIONS = ["registrations do not change while a tree is running (histories precede the tree)", "rlbox_dylib_sandbox is driven with two real shared objects exporting the same names (built at check time)",
               "single thread per tree (C18 covers threads)"]

"""C07 — sandbox-memory accesses use exactly the bytes and encoding of the sandbox ABI."""
from . import c06, c08
PROP = "C07"
COQ_FILES = ["Machine.v", "Conv.v", "Conv_proofs.v", "Ptr.v", "Mem.v", "Mem_proofs.v"]
STATIC_DRIVERS = [
    dict(name="mem32", src="mem.cpp", defines=["VERIF_CFG=verif_cfg32"], ops=["st32", "ld32", "sta32", "lda32"]),
    dict(name="mem16", src="mem.cpp", defines=["VERIF_CFG=verif_cfg16"], ops=["st16", "ld16", "sta16", "lda16"]),
    dict(name="memw", src="mem.cpp", defines=["VERIF_CFG=verif_cfgwide"], ops=["stw", "ldw", "staw", "ldaw"]),
]
DRIVERS = []


def pre_generate(ctx):
    # struct-field and whole-struct accesses go through the same store/load paths at the field offsets:
    # the generated struct programs of C08 (layout, copy in, guest image, three read-back paths) run here too
    c08.pre_generate(ctx)
    del DRIVERS[:]
    DRIVERS.extend(STATIC_DRIVERS + c08.DRIVERS)


CFGS = {"32": dict(abi="lp32", rsize=1 << 32, committed=1 << 20, pw=4),
        "16": dict(abi="lp32", rsize=1 << 16, committed=1 << 16, pw=2),
        "w": dict(abi="wide", rsize=1 << 32, committed=1 << 20, pw=4)}
INTK = [k for k in c06.KINDS if k != "wchar"]
BITS = {"enum": 4, "float": 4, "double": 8}


def gsize(cfg, k):
    if k in BITS:
        return BITS[k]
    if k == "ptr":
        return CFGS[cfg]["pw"]
    return c06.SIZE[c06.guest_kind(CFGS[cfg]["abi"], k)]


def asize(k):
    if k in BITS:
        return BITS[k]
    if k == "ptr":
        return 8
    return c06.SIZE[k]


def offsets(cfg, k, rng, n_random):
    c = CFGS[cfg]
    g = gsize(cfg, k)
    offs = [64 + a for a in range(16)] + [1, 2, 3, 5, 8, 4096 - g, 4096 - 1, 4095]
    # objects ending at the last byte of sandbox memory, and just before it
    offs += [c["rsize"] - g, c["rsize"] - g - 1, c["rsize"] - g - 3, c["rsize"] - 4096, c["rsize"] - 4096 + 1]
    if c["committed"] < c["rsize"]:
        offs += [c["committed"] - 4096 - g, c["committed"] - 8192 + 7]
    for _ in range(n_random):
        offs.append(rng.randrange(1, c["committed"] - 4096 - 64))
    return [o for o in offs if o >= 1]


def values(k, rng, n):
    if k in BITS:
        w = BITS[k] * 8
        return [0, 1, (1 << w) - 1, 1 << (w - 1), 0x3f800000 if w == 32 else 0x3ff0000000000000, 0x7fc00001 if w == 32 else 0x7ff8000000000001] + \
               [rng.randrange(1 << w) for _ in range(n)]
    vs = [v for v in c06.boundary_values(rng, 6) if c06.in_range(k, v)]
    near = [v for v in vs if any(abs(v - b) <= 1 for kk in c06.KINDS for b in (c06.lo(kk), c06.hi(kk)))]
    return sorted(set(near + rng.sample(vs, min(len(vs), n))))


def hexbytes(rng, k, n):
    """explicit guest bytes for a load: valid for bool, boundary patterns otherwise"""
    if k == "bool":
        return "".join(rng.choice(["00", "01"]) for _ in range(n))
    pats = ["ff" * n, "00" * n, "7f" + "ff" * (n - 1), "ff" * (n - 1) + "7f", "00" * (n - 1) + "80", "80" + "00" * (n - 1), "01" + "00" * (n - 1)]
    return rng.choice(pats + ["".join("%02x" % rng.randrange(256) for _ in range(n))] * 3)


def gen_cases(tier, rng):
    q = tier == "quick"
    cases = []
    for cfg in ("32", "16", "w"):
        c = CFGS[cfg]
        kinds = INTK + ["enum", "float", "double", "ptr"]
        for k in kinds:
            offs = offsets(cfg, k, rng, 2 if q else 12)
            # stores
            if k == "ptr":
                vals = [0, 1, 16, 4096, c["rsize"] - 4, c["rsize"] - 1, c["committed"] // 2] + [rng.randrange(1, c["rsize"]) for _ in range(4)]
            else:
                vals = values(k, rng, 3 if q else 10)
            for off in offs:
                vsel = vals if (off in (64, 65, 67) or not q) else rng.sample(vals, min(len(vals), 4))
                for v in vsel:
                    cases.append("st%s %s %d %d %d" % (cfg, k, off, v, rng.randrange(256)))
            # loads
            g = gsize(cfg, k)
            variants = ["deref", "tain", "idx"] if k == "ptr" else ["deref", "tain", "cvv", "idx", "cvp", "cvr"]
            for off in offs:
                for variant in variants:
                    for rep in range(1 if q else 3):
                        n = 0
                        if variant == "idx":
                            n = rng.choice([0, 1, 2, 5])
                        if variant == "cvr":
                            n = rng.choice([1, 2, 3, 4, 7])
                        span = (n + 1) * g if variant == "idx" else max(1, n) * g
                        # keep the guest footprint inside committed memory of the same area
                        area_end = c["committed"] if off < c["committed"] else c["rsize"]
                        o = off
                        if o + span > area_end:
                            o = area_end - span
                        if o < 1 or (o < c["committed"] <= o + span):
                            continue
                        hb = []
                        if k == "bool" or rng.random() < 0.5:
                            hb = [hexbytes(rng, k, span if k == "bool" else g)]
                        cases.append(" ".join(["ld%s" % cfg, variant, k, str(o), str(rng.randrange(256)), str(n)] + hb))
        # long double loads (the 10 value bytes of the x87 format; the value keeps every bit of its 64-bit mantissa): 1 + 2^-63,
        # the largest finite value / 4, a denormal, pi, -0.0
        for img in ("0100000000000080ff3f", "ffffffffffffffbffc7f", "01000000000000000000", "35c26821a2da0fc90040", "00000000000000000080"):
            for variant in ("deref", "tain", "cvv", "cvp"):
                for o in (128, 4096 - 16):
                    cases.append("ld%s %s ldouble %d %d 0 %s" % (cfg, variant, o, rng.randrange(256), img))
        # function pointers stored through *p: the cell receives the function-table index
        for off in (128, 131, 4096 - c["pw"], 8192):
            for k in (0, 1, 2, 3):
                cases.append("st%s fnp %d %d %d" % (cfg, off, k, rng.randrange(256)))
        # whole-array stores and loads: T[6] and T[2][3] (six consecutive guest elements, row-major)
        for k in [kk for kk in INTK if kk != "bool"] + ["enum", "float", "double"]:
            g = gsize(cfg, k)
            for shape in ("6", "2x3"):
                for rep in range(2 if q else 8):
                    off = rng.choice([64, 65, 128, 4096 - 6 * g, 4096 - 3 * g, rng.randrange(64, c["committed"] - 8192)])
                    vals = values(k, rng, 6)
                    vs = [rng.choice(vals) for _ in range(6)]
                    cases.append("sta%s %s %s %d %d %s" % (cfg, k, shape, off, rng.randrange(256), " ".join(str(v) for v in vs)))
                    for variant in ("tain", "unv"):
                        hb = "".join(hexbytes(rng, k, g) for _ in range(6))
                        cases.append("lda%s %s %s %s %d %d %s" % (cfg, variant, k, shape, off, rng.randrange(256), hb))
    cases += [c for c in c08.gen_cases(tier, rng) if " byv " not in c]
    return cases


def NONTRIVIAL(case, model, cls):
    # the guest footprint differs from the application's, or the access is unaligned / at the edge of memory
    return any(x in cls for x in ("conv", "resize", "ptr", "unaligned", "lastpage", "abort"))


RULE = ("per guest ABI configuration (verif32: LP32-like, 4-byte pointers; verif16: 2-byte pointers, 64 KiB region; verifwide: wider guest integers) and per type (14 integer kinds, enum, float, "
        "double, data pointer): stores through a tainted reference at every alignment 0..15, at the first bytes of the region, ending at the last byte of sandbox memory and at random offsets, "
        "with boundary/random values, over a seeded byte pattern filling all committed memory: the bytes around the object are compared and every other committed byte is checked unchanged; "
        "loads through dereference, conversion to tainted, copy_and_verify on the value, indexing, copy_and_verify on the pointer and copy_and_verify_range at the same positions, over the seeded "
        "pattern or explicit boundary bit patterns, compared with the model's decoding of the guest bytes. Non-trivial: guest and application footprints differ, or the access is unaligned or "
        "ends at the edge of memory, or the store aborts.")
TRUSTED = ["model coq/Mem.v hand-written; x86-64 little-endian object representation of the compiler is observed, not proved"]
ASSUMPTIONS = ["struct fields: through the generated struct programs shared with C08 (guest image read through an independently declared guest struct)", "bool objects in sandbox memory hold 0 or 1 (anything else is undefined behaviour in C++ before RLBox is involved)",
]

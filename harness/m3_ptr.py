"""M3 (pointer arithmetic) — translator from clang's AST of the INSTANTIATED pointer branches of
tainted_base_impl<tainted, double*, rlbox_noop_sandbox>::operator+<K>, operator-<K>, operator[]<K&> (K over the 15
integer types) to programs of the language of coq/PtrAst.v, one generated lemma per instantiated function:
forall regions, strides, pointers p and operands n in range of K,  prun prog = Ptr.ptr_arith / Ptr.ptr_index_gen.
Unknown AST shapes make the translator fail loudly (harness.m3_ast.Unknown)."""
import json
import os
import subprocess
from harness.m3_ast import KINDS, COQK, Unknown, kind_of_type

EXTRA_TYPES = {"uintptr_t": "ulong", "size_t": "ulong", "std::size_t": "ulong", "std::uintptr_t": "ulong", "ptrdiff_t": "long", "std::ptrdiff_t": "long"}
OPS = {"operator+": "add", "operator-": "sub", "operator[]": "idx"}
CMP = {"==": "KEq", "!=": "KNe", "<": "KLt", "<=": "KLe", ">": "KGt", ">=": "KGe"}
BOP = {"+": "BAdd", "-": "BSub", "*": "BMul"}
TRANSPARENT = ("ParenExpr", "ExprWithCleanups", "MaterializeTemporaryExpr", "CXXBindTemporaryExpr", "ConstantExpr")
ID_CASTS = ("LValueToRValue", "NoOp", "PointerToIntegral", "IntegralToPointer", "BitCast", "UncheckedDerivedToBase", "DerivedToBase",
            "FunctionToPointerDecay", "ConstructorConversion")


def tkind(t):
    q = t.get("desugaredQualType") or t.get("qualType", "")
    q = q.replace("const ", "").replace("volatile ", "").replace("&", "").strip()
    if q in EXTRA_TYPES:
        return EXTRA_TYPES[q]
    try:
        return kind_of_type(q)
    except Unknown:
        q2 = t.get("qualType", "").replace("const ", "").replace("&", "").strip()
        if q2 in EXTRA_TYPES:
            return EXTRA_TYPES[q2]
        return kind_of_type(q2)


def dump(include, workdir, compiler="clang++"):
    tu = os.path.join(workdir, "m3p_tu.cpp")
    with open(tu, "w") as f:
        f.write('#define RLBOX_USE_STATIC_CALLS() rlbox_noop_sandbox_lookup_symbol\n#define RLBOX_SINGLE_THREADED_INVOCATIONS\n'
                '#include "rlbox_noop_sandbox.hpp"\n#include "rlbox.hpp"\nusing S = rlbox::rlbox_noop_sandbox;\n')
        for name, ty in KINDS.items():
            f.write("void use_%s(const rlbox::tainted<double*, S>& p, %s k) { (void)(p + k); (void)(p - k); (void)p[k]; }\n" % (name, ty))
            if name != "bool":     # std::make_unsigned_t<bool> is ill-formed: a bool index does not compile
                f.write("void usea_%s(const rlbox::tainted<double[7], S>& a, const rlbox::tainted_volatile<double[9], S>& v, %s k) { (void)a[k]; (void)v[k]; }\n" % (name, ty))
    r = subprocess.run([compiler, "-std=c++17", "-w", "-I" + include, "-fsyntax-only", "-Xclang", "-ast-dump=json",
                        "-Xclang", "-ast-dump-filter=rlbox::tainted_base_impl", tu], stdout=subprocess.PIPE, stderr=subprocess.PIPE, text=True)
    if r.returncode != 0:
        raise Unknown("clang failed on the pointer-arithmetic TU: " + r.stderr[-1500:])
    txt, dec, docs, i = r.stdout, json.JSONDecoder(), [], 0
    while i < len(txt):
        while i < len(txt) and txt[i].isspace():
            i += 1
        if i >= len(txt):
            break
        d, i = dec.raw_decode(txt, i)
        docs.append(d)
    out = {}
    for d in docs:
        if d.get("kind") != "ClassTemplateDecl":
            continue
        for spec in d.get("inner", []):
            if spec.get("kind") != "ClassTemplateSpecializationDecl":
                continue
            args = [a.get("type", {}).get("qualType") for a in spec.get("inner", []) if a.get("kind") == "TemplateArgument"]
            which = "ptr" if "double *" in args else "arrT" if "double[7]" in args else "arrV" if "double[9]" in args else None
            if which is None:
                continue
            helpers = {}
            for m in spec.get("inner", []):
                cands = [m] if m.get("kind") == "CXXMethodDecl" else \
                        [x for x in m.get("inner", []) if x.get("kind") == "CXXMethodDecl"] if m.get("kind") == "FunctionTemplateDecl" else []
                for x in cands:
                    if any(y.get("kind") == "CompoundStmt" for y in x.get("inner", [])):
                        helpers[x.get("id")] = x
            for m in spec.get("inner", []):
                if m.get("kind") != "FunctionTemplateDecl" or m.get("name") not in OPS:
                    continue
                for x in m.get("inner", []):
                    if x.get("kind") != "CXXMethodDecl":
                        continue
                    targs = [a for a in x.get("inner", []) if a.get("kind") == "TemplateArgument"]
                    body = [y for y in x.get("inner", []) if y.get("kind") == "CompoundStmt"]
                    if not targs or not body:
                        continue
                    if m["name"] == "operator[]" and not x["type"]["qualType"].rstrip().endswith("const"):
                        continue   # the non-const overload forwards to the const one
                    try:
                        k = tkind(targs[0]["type"])
                    except Unknown:
                        continue
                    if which == "ptr":
                        out[(OPS[m["name"]], k)] = (body[0], helpers)
                    elif m["name"] == "operator[]":
                        out[(which, k)] = (body[0], helpers)
    return out


class Tr:
    def __init__(self, helpers):
        self.env = {}
        self.out = []
        self.done = False
        self.helpers = helpers
        self.depth = 0

    # ---- statements
    def stmt(self, n):
        k = n.get("kind")
        if self.done:
            raise Unknown("statement after the return")
        if k == "CompoundStmt":
            for c in n.get("inner", []):
                self.stmt(c)
        elif k == "IfStmt":
            inner = list(n.get("inner", []))
            cond = inner.pop(0)
            if cond.get("kind") != "ConstantExpr" or cond.get("value") not in ("true", "false"):
                raise Unknown("run-time if statement")
            then = inner.pop(0) if inner else None
            els = inner.pop(0) if inner else None
            pick = then if cond["value"] == "true" else els
            if pick is not None:
                self.stmt(pick)
        elif k == "DeclStmt":
            for c in n.get("inner", []):
                ck = c.get("kind")
                if ck in ("StaticAssertDecl", "TypeAliasDecl", "UsingDecl", "UsingDirectiveDecl", "TypedefDecl"):
                    continue
                if ck != "VarDecl":
                    raise Unknown("declaration " + str(ck))
                init = c.get("inner", [])
                if len(init) == 0:
                    self.env[c["name"]] = ("unset",)       # assigned later
                    continue
                if len(init) != 1:
                    raise Unknown("variable without a single initialiser: " + str(c.get("name")))
                self.env[c["name"]] = self.value(init[0], c.get("type", {}))
        elif k == "BinaryOperator" and n.get("opcode") == "=":
            lhs, rhs = n["inner"]
            lhs = self.strip(lhs)
            name = lhs.get("referencedDecl", {}).get("name") if lhs.get("kind") == "DeclRefExpr" else None
            if name not in self.env:
                raise Unknown("assignment to something that is not a local variable")
            self.env[name] = self.value(rhs, lhs.get("type", {}))
        elif k == "ReturnStmt":
            self.out.append(("ret", self.expr(n["inner"][0])))
            self.done = True
        elif k == "NullStmt":
            pass
        elif k in ("CStyleCastExpr", "CXXFunctionalCastExpr") and n.get("castKind") == "ToVoid":
            pass
        elif k == "CallExpr" or k == "CXXMemberCallExpr":
            callee = self.callee(n)
            args = self.args(n)
            if callee == "dynamic_check":
                self.out.append(("check", self.cond(args[0])))
            else:
                self.inline(n, callee, args)
        elif k in TRANSPARENT:
            self.stmt(n["inner"][0])
        else:
            raise Unknown("statement kind " + str(k))

    def inline(self, n, callee, args):
        """a call to a helper member function whose body is in the AST: its checks are taken over, parameters bound"""
        ref = self.callee_decl(n)
        h = self.helpers.get(ref.get("id")) if ref else None
        if h is None or self.depth > 3:
            raise Unknown("call to " + str(callee))
        params = [p for p in h.get("inner", []) if p.get("kind") == "ParmVarDecl"]
        if len(params) != len(args):
            raise Unknown("helper arity " + str(callee))
        sub = Tr(self.helpers)
        sub.depth = self.depth + 1
        for p, a in zip(params, args):
            sub.env[p["name"]] = self.value(a, p.get("type", {}))
        body = [y for y in h["inner"] if y.get("kind") == "CompoundStmt"][0]
        sub.stmt(body)
        ret = None
        for st in sub.out:
            if st[0] == "ret":
                ret = st[1]
            else:
                self.out.append(st)
        return ret

    def inline_value(self, n, callee, args):
        """a helper that returns a value, used inside an expression: its checks are taken over in place, its value substituted"""
        r = self.inline(n, callee, args)
        if r is None:
            raise Unknown("helper without a value used in an expression: " + str(callee))
        return r

    # ---- helpers on nodes
    def strip(self, n):
        while True:
            k = n.get("kind")
            if k in TRANSPARENT:
                n = n["inner"][0]
            elif k in ("ImplicitCastExpr", "CXXReinterpretCastExpr", "CXXStaticCastExpr", "CStyleCastExpr", "CXXConstCastExpr") and n.get("castKind") in ID_CASTS:
                n = n["inner"][0]
            else:
                return n

    def callee_decl(self, n):
        c = n["inner"][0]
        c = self.strip(c)
        if c.get("kind") == "DeclRefExpr":
            return c.get("referencedDecl", {})
        if c.get("kind") == "MemberExpr":
            return {"name": c.get("name"), "id": c.get("referencedMemberDecl")}
        return None

    def callee(self, n):
        d = self.callee_decl(n)
        return d.get("name") if d else None

    def args(self, n):
        return n["inner"][1:]

    def is_bool(self, t):
        q = (t.get("desugaredQualType") or t.get("qualType", "")).replace("const ", "").strip()
        return q == "bool"

    def value(self, n, ty):
        s = self.strip(n)
        if s.get("kind") == "DeclRefExpr" and s.get("referencedDecl", {}).get("name") in self.env:
            return self.env[s["referencedDecl"]["name"]]
        if self.is_bool(ty):
            try:
                return ("c", self.cond(n))
            except Unknown:
                pass   # a bool that is a number (the operand itself when K = bool)
        return ("e", self.expr(n))

    def this_raw(self, n):
        """impl().get_raw_value() / this->impl().get_raw_value()"""
        if n.get("kind") != "CXXMemberCallExpr":
            return False
        m = n["inner"][0]
        return m.get("kind") == "MemberExpr" and m.get("name") in ("get_raw_value", "get_raw_value_ref", "get_sandbox_value_ref")

    # ---- expressions (integers and addresses)
    def expr(self, n):
        n = self.strip(n)
        k = n.get("kind")
        if k in ("ImplicitCastExpr", "CXXStaticCastExpr", "CStyleCastExpr", "CXXFunctionalCastExpr", "CXXReinterpretCastExpr"):
            ck = n.get("castKind")
            if ck == "NullToPointer":
                return ("null",)
            if ck in ("IntegralCast", "IntegralToBoolean"):
                return ("cast", tkind(n["type"]), self.expr(n["inner"][0]))
            raise Unknown("cast kind " + str(ck))
        if k == "CXXNullPtrLiteralExpr":
            return ("null",)
        if k == "IntegerLiteral":
            return ("lit", int(n["value"]))
        if k == "DeclRefExpr":
            name = n.get("referencedDecl", {}).get("name")
            if name in self.env:
                v = self.env[name]
                if v[0] != "e":
                    raise Unknown("boolean or unset variable used as a number: " + str(name))
                return v[1]
            if name == "rhs":
                return ("rhs",)
            if name == "extent_v":
                return ("extent",)
            raise Unknown("reference to " + str(name))
        if k == "CXXMemberCallExpr" and self.this_raw(n):
            return ("ptr",)
        if k == "CXXMemberCallExpr":
            return self.inline_value(n, self.callee(n), self.args(n))
        if k == "CallExpr":
            callee = self.callee(n)
            a = self.args(n)
            if callee == "unwrap_value" and len(a) == 1:
                return self.expr(a[0])
            if callee == "internal_factory" and len(a) == 1:
                return self.expr(a[0])
            if callee in ("forward", "move", "as_const", "remove_volatile_from_ptr_cast") and len(a) == 1:
                return self.expr(a[0])
            try:
                return self.inline_value(n, callee, a)
            except Unknown as ex:
                raise Unknown("call in expression: %s (%s)" % (callee, ex))
        if k == "CXXOperatorCallExpr":
            # *wrapper : the object the tainted pointer designates — the same address
            callee = self.callee(n)
            a = self.args(n)
            if callee == "operator*" and len(a) == 1:
                return self.expr(a[0])
            if callee == "operator[]" and len(a) == 2 and self.expr(a[0]) == ("ptr",):
                return ("elem", self.expr(a[1]))      # element i of the array the wrapper holds
            raise Unknown("operator call " + str(callee))
        if k == "UnaryOperator" and n.get("opcode") in ("*", "&"):
            return self.expr(n["inner"][0])
        if k == "ArraySubscriptExpr":
            a, b = n["inner"]
            if self.expr(a) == ("ptr",):
                return ("elem", self.expr(b))
            raise Unknown("subscript of something else than the held array")
        if k == "BinaryOperator" and n.get("opcode") in BOP:
            a, b = n["inner"]
            return ("bin", BOP[n["opcode"]], tkind(n["type"]), self.expr(a), self.expr(b))
        if k == "UnaryExprOrTypeTraitExpr" and n.get("name") == "sizeof":
            t = n.get("argType") or (n["inner"][0].get("type") if n.get("inner") else {})
            q = t.get("desugaredQualType") or t.get("qualType", "")
            if "tainted_volatile<" in q:
                return ("stride",)
            if q.replace("const ", "").strip() == "double":
                return ("appsize",)
            raise Unknown("sizeof of " + q)
        raise Unknown("expression kind " + str(k))

    # ---- conditions
    def cond(self, n):
        n = self.strip(n)
        k = n.get("kind")
        if k == "BinaryOperator":
            op = n.get("opcode")
            a, b = n["inner"]
            if op in CMP:
                return ("cmp", CMP[op], self.expr(a), self.expr(b))
            if op == "&&":
                return ("and", self.cond(a), self.cond(b))
            if op == "||":
                return ("or", self.cond(a), self.cond(b))
            raise Unknown("boolean operator " + str(op))
        if k == "UnaryOperator" and n.get("opcode") == "!":
            return ("not", self.cond(n["inner"][0]))
        if k == "DeclRefExpr":
            name = n.get("referencedDecl", {}).get("name")
            v = self.env.get(name)
            if v is None or v[0] != "c":
                raise Unknown("condition variable " + str(name))
            return v[1]
        if k == "CallExpr":
            callee = self.callee(n)
            a = self.args(n)
            if callee == "is_in_same_sandbox" and len(a) == 2:
                return ("same", self.expr(a[0]), self.expr(a[1]))
            raise Unknown("call in condition: " + str(callee))
        if k == "CXXMemberCallExpr":
            raise Unknown("member call in condition: " + str(self.callee(n)))
        if k == "ImplicitCastExpr" and n.get("castKind") == "PointerToBoolean":
            return ("cmp", "KNe", self.expr(n["inner"][0]), ("null",))
        if k == "ImplicitCastExpr" and n.get("castKind") == "IntegralToBoolean":
            return ("cmp", "KNe", self.expr(n["inner"][0]), ("lit", 0))
        raise Unknown("condition kind " + str(k))


def coq_e(e):
    t = e[0]
    if t == "ptr":
        return "PPtr"
    if t == "rhs":
        return "PRhs"
    if t == "null":
        return "PNull"
    if t == "lit":
        return "(PLit (%d))" % e[1]
    if t == "stride":
        return "PStride"
    if t == "appsize":
        return "PAppSize"
    if t == "extent":
        return "PExtent"
    if t == "elem":
        return "(PElem %s)" % coq_e(e[1])
    if t == "cast":
        return "(PCast %s %s)" % (COQK[e[1]], coq_e(e[2]))
    if t == "bin":
        return "(PBin %s %s %s %s)" % (e[1], COQK[e[2]], coq_e(e[3]), coq_e(e[4]))
    raise Unknown("expr " + str(e))


def coq_c(c):
    t = c[0]
    if t == "cmp":
        return "(CCmp %s %s %s)" % (c[1], coq_e(c[2]), coq_e(c[3]))
    if t == "not":
        return "(CNot %s)" % coq_c(c[1])
    if t == "and":
        return "(CAnd %s %s)" % (coq_c(c[1]), coq_c(c[2]))
    if t == "or":
        return "(COr %s %s)" % (coq_c(c[1]), coq_c(c[2]))
    if t == "same":
        return "(CSame %s %s)" % (coq_e(c[1]), coq_e(c[2]))
    raise Unknown("cond " + str(c))


def translate(include, workdir):
    bodies = dump(include, workdir)
    progs = {}
    for key, (body, helpers) in bodies.items():
        t = Tr(helpers)
        try:
            t.stmt(body)
        except Unknown as e:
            raise Unknown("%s<%s>: %s" % (key[0], key[1], e))
        if not t.done:
            raise Unknown("no return in %s<%s>" % key)
        progs[key] = t.out
    missing = [(o, k) for o in ("add", "sub", "idx") for k in KINDS if (o, k) not in progs] + \
              [(o, k) for o in ("arrT", "arrV") for k in KINDS if k != "bool" and (o, k) not in progs]
    if missing:
        raise Unknown("instantiations missing from the AST: " + str(missing[:5]))
    return progs


def translate_range(include, workdir, compiler="clang++"):
    """detail::check_range_doesnt_cross_app_sbx_boundary<rlbox_noop_sandbox>(const void* ptr, size_t size): check-only body"""
    tu = os.path.join(workdir, "m3r_tu.cpp")
    with open(tu, "w") as f:
        f.write('#define RLBOX_USE_STATIC_CALLS() rlbox_noop_sandbox_lookup_symbol\n#define RLBOX_SINGLE_THREADED_INVOCATIONS\n'
                '#include "rlbox_noop_sandbox.hpp"\n#include "rlbox.hpp"\n'
                'template void rlbox::detail::check_range_doesnt_cross_app_sbx_boundary<rlbox::rlbox_noop_sandbox>(const void*, size_t);\n')
    r = subprocess.run([compiler, "-std=c++17", "-w", "-I" + include, "-fsyntax-only", "-Xclang", "-ast-dump=json",
                        "-Xclang", "-ast-dump-filter=rlbox::detail", tu], stdout=subprocess.PIPE, stderr=subprocess.PIPE, text=True)
    if r.returncode != 0:
        raise Unknown("clang failed on the range-check TU: " + r.stderr[-1500:])
    txt, dec, docs, i = r.stdout, json.JSONDecoder(), [], 0
    while i < len(txt):
        while i < len(txt) and txt[i].isspace():
            i += 1
        if i >= len(txt):
            break
        d, i = dec.raw_decode(txt, i)
        docs.append(d)
    flat = []

    def walk(d):
        if d.get("kind") == "NamespaceDecl":
            for c in d.get("inner", []):
                walk(c)
        else:
            flat.append(d)
    for d in docs:
        walk(d)
    funcs, target = {}, None
    for d in flat:
        cands = [c for c in d.get("inner", []) if c.get("kind") in ("FunctionDecl", "CXXMethodDecl")] if d.get("kind") == "FunctionTemplateDecl" else \
                ([d] if d.get("kind") in ("FunctionDecl", "CXXMethodDecl") else [])
        for c in cands:
            if any(y.get("kind") == "CompoundStmt" for y in c.get("inner", [])):
                funcs[c.get("id")] = c
                if d.get("name") == "check_range_doesnt_cross_app_sbx_boundary" and any(a.get("kind") == "TemplateArgument" for a in c.get("inner", [])):
                    target = c
    if target is None:
        raise Unknown("check_range_doesnt_cross_app_sbx_boundary<rlbox_noop_sandbox> not found in the AST dump")
    params = [p for p in target["inner"] if p.get("kind") == "ParmVarDecl"]
    if len(params) != 2:
        raise Unknown("range check: parameter list changed")
    t = Tr(funcs)
    t.env[params[0]["name"]] = ("e", ("ptr",))
    t.env[params[1]["name"]] = ("e", ("rhs",))
    t.stmt([y for y in target["inner"] if y.get("kind") == "CompoundStmt"][0])
    if t.done:
        raise Unknown("range check returns a value")
    return t.out


def emit_range(prog):
    stmts = ["PCheck %s" % coq_c(st[1]) for st in prog]
    return "\n".join(["(* generated by harness/m3_ptr.py from clang's AST of detail::check_range_doesnt_cross_app_sbx_boundary — do not edit *)",
                      "From RLBoxV Require Import PtrAst.", "Local Open Scope Z_scope.", "",
                      "Definition rprog_check_range : list pstmt := [%s]." % "; ".join(stmts),
                      "Lemma rprog_check_range_ok : forall l p n, in_range IULong p = true -> in_range IULong n = true ->",
                      "  pchecks l 0 0 0 p n rprog_check_range = check_range code_range_guarded l p n.",
                      "Proof. unfold rprog_check_range. range_ast_tac. Qed.", ""]) + "\n"


SPEC = {"add": "ptr_arith l false p n stride", "sub": "ptr_arith l true p n stride", "idx": "ptr_index_gen code_index_nullcheck l p n stride"}


def emit_arrays(progs):
    """the fixed-size-array branch of operator[] (C17): tainted<double[7]> and tainted_volatile<double[9]>, 14 index types"""
    lines = ["(* generated by harness/m3_ptr.py from clang's AST of the instantiated array operator[] — do not edit *)",
             "From RLBoxV Require Import PtrAst.", "Local Open Scope Z_scope.", ""]
    for (op, k) in sorted(progs):
        if op not in ("arrT", "arrV"):
            continue
        stmts = ["PCheck %s" % coq_c(st[1]) if st[0] == "check" else "PRet %s" % coq_e(st[1]) for st in progs[(op, k)]]
        name = "aprog_%s_%s" % (op, k)
        lines.append("Definition %s : list pstmt := [%s]." % (name, "; ".join(stmts)))
        lines.append("Lemma %s_ok : forall l stride len p n, in_range %s n = true -> 0 <= len < M64 ->" % (name, COQK[k]))
        lines.append("  prun l stride 0 len p n %s = arr_index %s n len p stride." % (name, COQK[k]))
        lines.append("Proof. unfold %s. arr_ast_tac. Qed." % name)
        lines.append("")
    return "\n".join(lines) + "\n"


def emit(progs):
    progs = {k: v for k, v in progs.items() if k[0] in SPEC}
    lines = ["(* generated by harness/m3_ptr.py from clang's AST of the instantiated pointer operators — do not edit *)",
             "From RLBoxV Require Import PtrAst.", "Local Open Scope Z_scope.", ""]
    for (op, k) in sorted(progs):
        stmts = []
        for st in progs[(op, k)]:
            stmts.append("PCheck %s" % coq_c(st[1]) if st[0] == "check" else "PRet %s" % coq_e(st[1]))
        name = "pprog_%s_%s" % (op, k)
        lines.append("Definition %s : list pstmt := [%s]." % (name, "; ".join(stmts)))
        lines.append("Lemma %s_ok : forall l stride appsz p n, in_range IULong p = true -> in_range %s n = true -> 0 <= stride < M64 ->" % (name, COQK[k]))
        lines.append("  prun l stride appsz 0 p n %s = %s." % (name, SPEC[op]))
        lines.append("Proof. unfold %s. ptr_ast_tac. Qed." % name)
        lines.append("")
    return "\n".join(lines) + "\n"


def run_generated(ctx, M3, fname, text):
    """write coq/<fname>, let coqc check it, record the outcome in M3 (lemmas, failed)"""
    import re
    from harness import vlib
    lock = vlib.coq_lock()
    try:
        with open(os.path.join(vlib.COQ, fname), "w") as f:
            f.write(text)
        rc, out = vlib.sh(["timeout", "600", "coqc", "-Q", ".", "RLBoxV", fname], cwd=vlib.COQ, timeout=700)
    finally:
        lock.close()
    M3["lemmas"] = text.count("Lemma ")
    M3["failed"] = []
    if rc != 0:
        m = re.search(r'line (\d+)', out)
        name = "?"
        if m:
            lines = text.splitlines()
            for k in range(min(int(m.group(1)), len(lines)) - 1, -1, -1):
                if lines[k].startswith("Lemma ") or lines[k].startswith("Definition "):
                    name = lines[k].split()[1]
                    break
        M3["failed"].append((name, out[-1500:]))


def report(ctx, M3, prop, what, fname, spec_name):
    """the extra_checks half shared by the properties that use this translator"""
    if "untranslated" in M3:
        ctx.coverage["m3_status"] = "NOT TRANSLATED this run (tie falls back to the differential correspondence): " + M3["untranslated"]
        print("NOTE %s: %s AST not translated (%s); tie = differential correspondence only" % (prop, what, M3["untranslated"][:160]))
        return
    n = M3.get("lemmas", 0)
    ctx.coverage["obligations"] = ctx.coverage.get("obligations", 0) + n
    ctx.coverage["discharged"] = ctx.coverage.get("discharged", 0) + (n if not M3["failed"] else 0)
    ctx.coverage["m3_status"] = "translated"
    ctx.coverage["m3_generated_lemmas_proved_for_all_inputs"] = n if not M3["failed"] else 0
    ctx.coverage["m3_samples"] = M3.get("sample", {})
    for name, out in M3["failed"][:3]:
        ctx.violations.append({"kind": "broken-proof", "case": "%s: %s" % (fname, name), "impl": "", "model": out, "spec": "", "class": "m3",
                               "what": "the program translated from the AST of this instantiated %s is no longer provably equal to %s for all inputs" % (what, spec_name)})


if __name__ == "__main__":
    import sys
    inc, work = sys.argv[1], sys.argv[2]
    os.makedirs(work, exist_ok=True)
    if len(sys.argv) > 3 and sys.argv[3] == "arrays":
        print(emit_arrays(translate(inc, work)))
    elif len(sys.argv) > 3 and sys.argv[3] == "range":
        print(emit_range(translate_range(inc, work)))
    else:
        print(emit(translate(inc, work)))

"""vlib.py — common machinery of bin/check.

A property module (harness/props/cXX.py) provides:
  PROP            "C06"
  COQ_FILES       proof files whose theorems are this property's obligations
  DRIVERS         list of dict(name, src, defines=[...], ops=[...], flags=[...])
  gen_cases(tier, rng) -> list[str]      case lines (first token = op)
  NONTRIVIAL(case, model, cls) -> bool   optional
and optionally  extra_checks(ctx) -> list[Violation-like dict]

For every case three outcomes are compared:
  impl   what the headers in /repo/code/include do          (C++ driver)
  model  what the faithful Gallina model computes            (extracted OCaml)
  spec   what the property demands                           (extracted OCaml)
impl != spec                      -> the property fails on this input
impl == spec, impl != model       -> correspondence broken (model no longer describes the code)
The universal statements (model = spec outside recorded findings) are the
theorems in coq/Properties_<id>.v, re-checked by coqc on every run.
"""
import concurrent.futures
import hashlib
import json
import os
import random
import re
import shutil
import subprocess
import sys
import time

VERIF = os.path.dirname(os.path.dirname(os.path.abspath(__file__)))
REPO = os.environ.get("VERIF_REPO", "/repo")
INCLUDE = os.path.join(REPO, "code", "include")
COQ = os.path.join(VERIF, "coq")
OCAML = os.path.join(VERIF, "ocaml")
GUARD = "ALLENABY_RLBOX_VERIF"
CXX = os.environ.get("VERIF_CXX", "g++")


def sh(cmd, cwd=None, timeout=1800, env=None, input=None):
    p = subprocess.run(cmd, cwd=cwd, timeout=timeout, env=env, input=input,
                       stdout=subprocess.PIPE, stderr=subprocess.STDOUT, text=True,
                       shell=isinstance(cmd, str))
    return p.returncode, p.stdout


class Ctx:
    def __init__(self, prop, tier, seed):
        self.prop = prop
        self.tier = tier
        self.seed = seed
        self.rng = random.Random(seed)
        self.t0 = time.time()
        self.build = os.path.join(VERIF, "_build", "%s_%d" % (prop, os.getpid()))
        os.makedirs(self.build, exist_ok=True)
        self.violations = []     # dicts
        self.known_lines = []
        self.notes = []
        self.coverage = {}
        self.assumptions = []

    def cleanup(self):
        shutil.rmtree(self.build, ignore_errors=True)


# ---------------------------------------------------------------- Coq side
def coq_lock():
    import fcntl
    os.makedirs(os.path.join(VERIF, "_build"), exist_ok=True)
    f = open(os.path.join(VERIF, "_build", ".coq.lock"), "w")
    fcntl.flock(f, fcntl.LOCK_EX)
    return f


def ensure_framework():
    """make sure coq/*.vo, extraction and ocaml/driver are built and current"""
    lock = coq_lock()
    try:
        if not os.path.exists(os.path.join(COQ, "Makefile")):
            rc, out = sh("coq_makefile -f _CoqProject -o Makefile", cwd=COQ)
            if rc != 0:
                return False, out
        rc, out = sh("timeout 3000 make -k -j16 2>&1 | tail -40", cwd=COQ, timeout=3100)
        rc2, _ = sh("make -q", cwd=COQ)
        ok = (rc2 == 0)
        drv = os.path.join(OCAML, "driver")
        srcs = [os.path.join(OCAML, f) for f in os.listdir(OCAML) if f.endswith(".ml") or f.endswith(".mli")]
        newmodel = os.path.exists(os.path.join(COQ, "model.ml"))
        if newmodel or not os.path.exists(drv) or any(os.path.getmtime(s) > os.path.getmtime(drv) for s in srcs):
            rc3, out3 = sh("./build.sh", cwd=OCAML)
            if rc3 != 0:
                return False, out + out3
        return ok, out
    finally:
        lock.close()


THEOREM_RE = re.compile(r"^\s*(Theorem|Lemma|Corollary|Example|Fact|Proposition)\s+([A-Za-z0-9_']+)", re.M)


def check_theorems(ctx, prop, coq_files):
    """compile Properties_<prop>.v afresh (it is tiny) and read Print Assumptions;
    count obligations in the property file and the proof files behind it."""
    pf = "Properties_%s.v" % prop
    lock = coq_lock()
    try:
        rc, out = sh(["timeout", "600", "coqc", "-Q", ".", "RLBoxV", pf], cwd=COQ, timeout=700)
    finally:
        lock.close()
    src = open(os.path.join(COQ, pf)).read()
    names = [m.group(2) for m in THEOREM_RE.finditer(src)]
    n_prop = len(names)
    n_support = 0
    forbidden = re.compile(r"\b(Admitted|admit|Axiom|Parameter|Conjecture|Abort All)\b|Unset Guard|bypass_check|type-in-type")
    bad_words = []
    for f in [pf] + list(coq_files):
        s = open(os.path.join(COQ, f)).read()
        s_nocomment = re.sub(r"\(\*.*?\*\)", "", s, flags=re.S)
        if f != pf:
            n_support += len(THEOREM_RE.findall(s_nocomment))
        for m in forbidden.finditer(s_nocomment):
            bad_words.append("%s: %s" % (f, m.group(0)))
    closed = out.count("Closed under the global context")
    axioms = []
    if "Axioms:" in out:
        for blk in out.split("Axioms:")[1:]:
            for line in blk.splitlines():
                m = re.match(r"^([A-Za-z0-9_.']+)\s*:", line)
                if m:
                    axioms.append(m.group(1))
    ok = (rc == 0) and not bad_words
    ctx.coverage.update({
        "obligations": n_prop + n_support,
        "discharged": (n_prop + n_support) if ok else 0,
        "property_theorems": names,
        "checker_cmd": "make -C coq (coq_makefile, full .vo build) ; coqc -Q . RLBoxV %s  [Coq 8.16.1 kernel, vm_compute, no native_compute]" % pf,
        "print_assumptions_closed": closed,
        "axioms_reported": sorted(set(axioms)),
    })
    if not ok:
        ctx.notes.append("coqc failed or forbidden word: rc=%s %s\n%s" % (rc, bad_words, out[-2000:]))
    return ok, out


# ---------------------------------------------------------------- C++ side
def compile_driver(ctx, d):
    exe = os.path.join(ctx.build, d["name"])
    # shared objects a driver loads at run time (rlbox_dylib_sandbox): (source, output name, defines)
    for src, outname, defs in d.get("prebuild", []):
        rc, out = sh([d.get("cxx", CXX), "-std=c++17", "-O1", "-w", "-shared", "-fPIC"] + ["-D" + x for x in defs] +
                     [os.path.join(VERIF, "harness", "drivers", src), "-o", os.path.join(ctx.build, outname)], timeout=600)
        if rc != 0:
            return d["name"], rc, out, exe
    os.environ["VERIF_LIBDIR"] = ctx.build
    cmd = [d.get("cxx", CXX), "-std=c++17", d.get("opt", "-O1"), "-w", "-D" + GUARD,
           "-I" + INCLUDE, "-I" + os.path.join(VERIF, "harness")]
    cmd += ["-D" + x for x in d.get("defines", [])]
    cmd += d.get("flags", [])
    cmd += [os.path.join(VERIF, "harness", "drivers", d["src"]), "-o", exe]
    cmd += d.get("libs", ["-ldl", "-lpthread"])
    rc, out = sh(cmd, timeout=1200)
    return d["name"], rc, out, exe


def compile_drivers(ctx, drivers):
    exes = {}
    errs = []
    with concurrent.futures.ThreadPoolExecutor(max_workers=16) as ex:
        for name, rc, out, exe in ex.map(lambda d: compile_driver(ctx, d), drivers):
            if rc != 0:
                errs.append((name, out))
            else:
                exes[name] = exe
    return exes, errs


def run_impl(exe, cases, workdir, tag, timeout=1800):
    """run a C++ driver over cases; survive crashes by resuming after the crashing case"""
    cf = os.path.join(workdir, "cases_%s.txt" % tag)
    with open(cf, "w") as f:
        for c in cases:
            f.write(c + "\n")
    results = []
    skip = 0
    crashes = 0
    while skip < len(cases):
        try:
            p = subprocess.run([exe, cf, str(skip)], stdout=subprocess.PIPE, stderr=subprocess.DEVNULL,
                               text=True, timeout=timeout, errors="replace")
            lines = p.stdout.split("\n")
            if lines and lines[-1] == "":
                lines.pop()
            rc = p.returncode
        except subprocess.TimeoutExpired as e:
            out = e.stdout or ""
            if isinstance(out, bytes):
                out = out.decode(errors="replace")
            lines = out.split("\n")
            if lines and lines[-1] == "":
                lines.pop()
            rc = -999
        need = len(cases) - skip
        if len(lines) >= need:
            results.extend(lines[:need])
            break
        if lines and ((lines[-1] == "TIMEOUT" and rc == 4) or rc == 5):
            # the driver printed the case's outcome and stopped itself (a case that did not terminate, or
            # std::terminate inside the library): resume at the next case
            results.extend(lines)
            skip = len(results)
            crashes += 40 if rc == 4 else 0
            if crashes > 200:
                results.extend(["CRASH(giving up)"] * (len(cases) - len(results)))
                break
            continue
        # crashed / timed out on case number skip+len(lines)
        results.extend(lines)
        results.append("CRASH(%s)" % ("timeout" if rc == -999 else "signal %d" % (-rc) if rc < 0 else "exit %d" % rc))
        skip = len(results)
        crashes += 1
        if crashes > 200:
            results.extend(["CRASH(giving up)"] * (len(cases) - len(results)))
            break
    # a case that ran out of time is run once more on its own with a six times longer limit before it counts: on a loaded
    # machine (several checks at once) the 20 s limit of a many-thread case says nothing; a real non-termination times out again
    late = [i for i, r in enumerate(results) if r in ("TIMEOUT", "CRASH(timeout)")][:20]
    for i in late:
        one = os.path.join(workdir, "cases_%s_retry.txt" % tag)
        with open(one, "w") as f:
            f.write(cases[i] + "\n")
        try:
            p = subprocess.run([exe, one, "0"], stdout=subprocess.PIPE, stderr=subprocess.DEVNULL, text=True, timeout=400,
                               errors="replace", env=dict(os.environ, VERIF_CASE_TIMEOUT="120"))
            lines = [l for l in p.stdout.split("\n") if l != ""]
            if lines and lines[0] != "TIMEOUT":
                results[i] = lines[0]
        except subprocess.TimeoutExpired:
            pass
    return results


def _run_model_chunk(cases, workdir, tag):
    cf = os.path.join(workdir, "mcases_%s.txt" % tag)
    with open(cf, "w") as f:
        for c in cases:
            f.write(c + "\n")
    with open(cf) as f:
        p = subprocess.run([os.path.join(OCAML, "driver")], stdin=f, stdout=subprocess.PIPE,
                           stderr=subprocess.PIPE, text=True, timeout=3600)
    lines = p.stdout.split("\n")
    if lines and lines[-1] == "":
        lines.pop()
    out = []
    for ln in lines:
        parts = ln.split("\t")
        while len(parts) < 3:
            parts.append("-")
        out.append(tuple(parts[:3]))
    while len(out) < len(cases):
        out.append(("MODEL-CRASH " + p.stderr[-200:].replace("\n", " "), "MODEL-CRASH", "-"))
    return out


def run_model(cases, workdir, tag, jobs=12):
    """run the extracted model over the cases (cases are independent: split over processes, order kept)"""
    if len(cases) < 64:
        return _run_model_chunk(cases, workdir, tag)
    # interleaved split so that expensive cases (sweeps) spread over the workers
    idx = [list(range(j, len(cases), jobs)) for j in range(jobs)]
    with concurrent.futures.ThreadPoolExecutor(max_workers=jobs) as ex:
        futs = [ex.submit(_run_model_chunk, [cases[i] for i in ix], workdir, "%s_%d" % (tag, j)) for j, ix in enumerate(idx)]
        res = [f.result() for f in futs]
    out = [None] * len(cases)
    for ix, r in zip(idx, res):
        for i, x in zip(ix, r):
            out[i] = x
    return out


# ---------------------------------------------------------------- known findings
def load_known():
    p = os.path.join(VERIF, "known_findings.json")
    if not os.path.exists(p):
        return {"known": [], "fixed": []}
    return json.load(open(p))


def finding_classes(cls):
    """class string from the model may carry 'kf=<ID>' markers"""
    return re.findall(r"kf=([A-Za-z0-9_]+)", cls)


# ---------------------------------------------------------------- compare
def compare(ctx, prop, cases, impl, model, nontrivial=None, shrink=None):
    known = [k for k in load_known()["known"] if k["property"] == prop]
    known_ids = {k["id"]: k for k in known}
    seen_known = {}
    distinct = set()
    hist = {}
    n_viol = 0
    skipped = 0
    for case, im, (mo, sp, cls) in zip(cases, impl, model):
        if im is None:          # the harness could not observe this case (e.g. uncommitted memory)
            skipped += 1
            continue
        # "A ||| B": the model / the specification allow either outcome on this case (e.g. an adversary that rewrites a cell
        # before a second read of it: the outcome for the value read first, or for the rewritten value when the code
        # consistently uses a later read; anything else mixes two reads)
        if " ||| " in mo or " ||| " in sp:
            moa, spa = mo.split(" ||| "), sp.split(" ||| ")
            mo = im if im in moa else moa[0]
            sp = im if im in spa else spa[0]
        op = case.split(" ", 1)[0]
        hist[op + "|" + cls] = hist.get(op + "|" + cls, 0) + 1
        if nontrivial is None or nontrivial(case, mo, cls):
            distinct.add(hashlib.md5(case.encode()).hexdigest())
        if im == sp and im == mo:
            continue
        kfs = finding_classes(cls)
        if im != sp:
            # the property fails on this input in the implementation
            covered = [k for k in kfs if k in known_ids] if im == mo else []
            if covered:
                seen_known.setdefault(covered[0], []).append(case)
                continue
            n_viol += 1
            if n_viol <= 20:
                ctx.violations.append({"kind": "counterexample", "case": case, "impl": im, "model": mo,
                                       "spec": sp, "class": cls})
        else:
            n_viol += 1
            if n_viol <= 20:
                ctx.violations.append({"kind": "broken-correspondence", "case": case, "impl": im, "model": mo,
                                       "spec": sp, "class": cls,
                                       "what": "model and implementation disagree although the implementation outcome satisfies the property here"})
    # every recorded witness must still fail; otherwise the model is stale
    for k in known:
        if k.get("witness_case") and k["id"] not in seen_known:
            w = k["witness_case"]
            if w in cases:
                i = cases.index(w)
                ctx.violations.append({"kind": "broken-correspondence", "case": w, "impl": impl[i],
                                       "model": model[i][0], "spec": model[i][1], "class": model[i][2],
                                       "what": "known finding %s: recorded witness no longer fails; model/known_findings.json stale" % k["id"]})
    for kid, cs in seen_known.items():
        ctx.known_lines.append("KNOWN-FINDING: property=%s %s %s (e.g. case: %s; %d cases this run)" %
                               (prop, kid, known_ids[kid]["what"], cs[0], len(cs)))
    ctx.coverage["skipped_unobservable"] = ctx.coverage.get("skipped_unobservable", 0) + skipped
    ctx.coverage["evaluations"] = ctx.coverage.get("evaluations", 0) + len(cases) - skipped
    ctx.coverage["distinct_nontrivial"] = ctx.coverage.get("distinct_nontrivial", 0) + len(distinct)
    h = ctx.coverage.setdefault("input_distribution", {})
    for k2, v in hist.items():
        h[k2] = h.get(k2, 0) + v
    ctx.coverage["traces_validated_against_impl"] = ctx.coverage.get("traces_validated_against_impl", 0) + \
        sum(1 for im, (mo, sp, cls) in zip(impl, model) if im == mo)
    smp = ctx.coverage.setdefault("samples", [])
    step = max(1, len(cases) // 6)
    for i in range(0, len(cases), step):
        if len(smp) < 12:
            smp.append({"case": cases[i], "impl": impl[i] if impl[i] is not None else "(skipped)", "model": model[i][0], "spec": model[i][1], "class": model[i][2]})
    return n_viol


# ---------------------------------------------------------------- finish
def write_replay(ctx, v, idx):
    d = os.path.join(os.environ.get("VERIF_REPLAY_DIR", os.path.join(VERIF, "replays")), ctx.prop)
    os.makedirs(d, exist_ok=True)
    path = os.path.join(d, "%d_%d.json" % (int(ctx.t0), idx))
    v = dict(v)
    v["property"] = ctx.prop
    v["seed"] = ctx.seed
    v["tier"] = ctx.tier
    v["rerun"] = "bin/check %s --replay %s" % (ctx.prop, path)
    json.dump(v, open(path, "w"), indent=1)
    return path


def finish(ctx, level="proof", trusted=None, assumptions=None, rule=""):
    wall = time.time() - ctx.t0
    cov = ctx.coverage
    cov.setdefault("evaluations", 0)
    cov.setdefault("distinct_nontrivial", 0)
    cov.setdefault("samples", [])
    cov["rule"] = rule
    cov["trusted_base"] = trusted or []
    cov.setdefault("obligations", 0)
    cov.setdefault("discharged", 0)
    cov.setdefault("checker_cmd", "coqc")
    ev = {
        "property_id": ctx.prop, "tier": ctx.tier, "seed": ctx.seed, "level": level,
        "coverage": cov, "assumptions": assumptions or [], "wall_s": round(wall, 2),
        "violations": len(ctx.violations),
        "known_findings_seen": ctx.known_lines, "notes": ctx.notes,
    }
    # (bin/seedtest redirects evidence and replays of runs against a deliberately broken copy to a scratch directory)
    evdir = os.environ.get("VERIF_EVIDENCE_DIR", os.path.join(VERIF, "evidence"))
    os.makedirs(evdir, exist_ok=True)
    json.dump(ev, open(os.path.join(evdir, ctx.prop + ".json"), "w"), indent=1)
    for l in ctx.known_lines:
        print(l)
    rc = 0
    if ctx.violations:
        rc = 1
        # one VIOLATION line per distinct kind, counterexamples first
        cex = [v for v in ctx.violations if v["kind"] == "counterexample"]
        rest = [v for v in ctx.violations if v["kind"] != "counterexample"]
        shown = 0
        for i, v in enumerate(cex[:3]):
            p = write_replay(ctx, v, i)
            print("VIOLATION property=%s replay=%s" % (ctx.prop, p))
            shown += 1
        if not cex:
            for i, v in enumerate(rest[:3]):
                p = write_replay(ctx, v, 100 + i)
                print("VIOLATION property=%s replay=%s no-failing-input-found" % (ctx.prop, p))
        else:
            for i, v in enumerate(rest[:3]):
                write_replay(ctx, v, 100 + i)
    print("%s %s tier=%s seed=%d evaluations=%d obligations=%d/%d violations=%d wall=%.1fs" % (
        "FAIL" if rc else "PASS", ctx.prop, ctx.tier, ctx.seed, cov["evaluations"],
        cov["discharged"], cov["obligations"], len(ctx.violations), wall))
    ctx.cleanup()
    return rc


def standard_run(mod, tier, seed, replay=None):
    """the pipeline shared by most properties"""
    ctx = Ctx(mod.PROP, tier, seed)
    ok, out = ensure_framework()
    if not ok:
        ctx.notes.append("framework build problem:\n" + out[-3000:])
    thm_ok, thm_out = check_theorems(ctx, mod.PROP, mod.COQ_FILES)
    if hasattr(mod, "pre_generate"):
        mod.pre_generate(ctx)
    exes, errs = compile_drivers(ctx, mod.DRIVERS)
    for name, out in errs:
        ctx.violations.append({"kind": "broken-correspondence", "case": "compile " + name,
                               "what": "driver no longer compiles against /repo/code/include",
                               "impl": out[-3000:], "model": "", "spec": "", "class": ""})
    if replay:
        r = json.load(open(replay))
        cases = [r["case"]] if isinstance(r.get("case"), str) else r.get("cases", [])
    else:
        cases = mod.gen_cases(tier, ctx.rng)
        corpus = os.path.join(VERIF, "corpus", mod.PROP + ".txt")
        if os.path.exists(corpus):
            cs = [l.strip() for l in open(corpus) if l.strip() and not l.startswith("#")]
            cases = cs + cases
        for k in load_known()["known"]:
            if k["property"] == mod.PROP and k.get("witness_case") and k["witness_case"] not in cases:
                cases.insert(0, k["witness_case"])
    # route cases to drivers by op
    by_driver = {}
    for d in mod.DRIVERS:
        for op in d["ops"]:
            by_driver[op] = d["name"]
    groups = {}
    for i, c in enumerate(cases):
        op = c.split(" ", 1)[0]
        dn = by_driver.get(op)
        groups.setdefault(dn, []).append(i)
    impl = [None] * len(cases)

    def runone(item):
        dn, idxs = item
        if dn is None or dn not in exes:
            return dn, idxs, ["NODRIVER"] * len(idxs)
        return dn, idxs, run_impl(exes[dn], [cases[i] for i in idxs], ctx.build, dn)
    with concurrent.futures.ThreadPoolExecutor(max_workers=16) as ex:
        futs = [ex.submit(runone, it) for it in groups.items()]
        mfut = ex.submit(run_model, cases, ctx.build, "all")
        for f in futs:
            dn, idxs, res = f.result()
            for i, r in zip(idxs, res):
                impl[i] = r
        model = mfut.result()
    if hasattr(mod, "canon"):
        impl = [mod.canon(c, r) for c, r in zip(cases, impl)]
    compare(ctx, mod.PROP, cases, impl, model, getattr(mod, "NONTRIVIAL", None))
    if hasattr(mod, "extra_checks"):
        mod.extra_checks(ctx, exes)
    if not thm_ok:
        ctx.violations.append({"kind": "broken-proof", "case": "Properties_%s.v" % mod.PROP,
                               "what": "coqc no longer accepts the property theorems (or a forbidden word appeared)",
                               "impl": "", "model": thm_out[-3000:], "spec": "", "class": ""})
    return finish(ctx, trusted=getattr(mod, "TRUSTED", []) + COMMON_TRUSTED,
                  assumptions=getattr(mod, "ASSUMPTIONS", []), rule=getattr(mod, "RULE", ""))


COMMON_TRUSTED = [
    "Coq 8.16.1 kernel (coqc); vm_compute used, native_compute not used",
    "axioms: see coverage.axioms_reported (Print Assumptions of every property theorem, captured on this run)",
    "extraction: ExtrOcamlBasic only (Extract Inductive bool, option, unit, list, prod, sumbool, sumor as shipped); no Extract Constant; Z/positive/nat stay inductive",
    "OCaml 4.13.1 compiler; ocaml/util.ml + ocaml/p_*.ml parsers/printers around extracted functions",
    "harness/ C++ drivers and verif back ends, g++ 12.2 -std=c++17 -O1; python runner harness/vlib.py",
]

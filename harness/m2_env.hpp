// m2_env.hpp — operands of every wrapper kind and representative type for the compile-verdict
// corpus of C01 / C02 (mechanism M2: the C++ compiler is the judge; compile checks stay ON).
// -DM2_VERIF: sandbox type with an LP32-like ABI and integer pointer representation; default: no-op sandbox.
#pragma once
#define RLBOX_SINGLE_THREADED_INVOCATIONS
#include <array>
#include <memory>
#include <string>
#ifndef M2_VERIF
#  define RLBOX_USE_STATIC_CALLS() rlbox_noop_sandbox_lookup_symbol
#endif
#include "rlbox.hpp"
#ifdef M2_VERIF
#  include "verif_sandbox.hpp"
#  ifdef M2_VERIF64
using S = rlbox::rlbox_verif64_sandbox;          // integer pointer representation as wide as a host pointer
#  else
using S = rlbox::rlbox_verif32_sandbox;
#  endif
struct S2cfg : rlbox::verif_cfg32 {};
using S2 = rlbox::rlbox_verif_sandbox<S2cfg>;          // a different sandbox TYPE
#else
#  include "rlbox_noop_sandbox.hpp"
using S = rlbox::rlbox_noop_sandbox;
struct S2 : rlbox::rlbox_noop_sandbox {};               // a different sandbox TYPE
#endif
enum En : unsigned int { EN_A, EN_B };
struct St { int a; long b; int* p; };
#define sandbox_fields_reflection_m2_class_St(f, g, ...) \
  f(int, a, FIELD_NORMAL, ##__VA_ARGS__) g() \
  f(long, b, FIELD_NORMAL, ##__VA_ARGS__) g() \
  f(int*, p, FIELD_NORMAL, ##__VA_ARGS__) g()
#define sandbox_fields_reflection_m2_allClasses(f, ...) f(St, m2, ##__VA_ARGS__)
rlbox_load_structs_from_library(m2);
struct ConvP { operator int*() const; };      // a class that converts implicitly to a raw pointer
using Fn = int (*)(int);
using Fn2 = void (*)(char*, long);
template<typename T> using T_ = rlbox::tainted<T, S>;
template<typename T> using V_ = rlbox::tainted_volatile<T, S>;
template<typename T> using O_ = rlbox::tainted_opaque<T, S>;
using SB = rlbox::rlbox_sandbox<S>;
struct Env
{
  SB& sb;
  T_<int>& t_int; T_<bool>& t_bool; T_<unsigned char>& t_uchar; T_<long>& t_long; T_<unsigned long long>& t_ullong;
  T_<En>& t_enum; T_<float>& t_float; T_<double>& t_double;
  T_<int*>& t_pint; T_<const char*>& t_pcchar; T_<int**>& t_ppint; T_<void*>& t_pvoid; T_<Fn>& t_fn; T_<Fn2>& t_fn2;
  T_<int[4]>& t_arr; T_<St>& t_st; T_<St*>& t_pst; T_<char*>& t_pchar;
  V_<int>& v_int; V_<bool>& v_bool; V_<unsigned char>& v_uchar; V_<long>& v_long; V_<unsigned long long>& v_ullong;
  V_<En>& v_enum; V_<float>& v_float; V_<double>& v_double;
  V_<int*>& v_pint; V_<const char*>& v_pcchar; V_<int**>& v_ppint; V_<void*>& v_pvoid; V_<Fn>& v_fn; V_<Fn2>& v_fn2;
  V_<int[4]>& v_arr; V_<St>& v_st; V_<St*>& v_pst; V_<int*[2]>& v_parr; V_<Fn[2]>& v_fnarr; T_<Fn2[2]>& t_fn2arr; T_<Fn[2]>& t_fnarr; T_<char*[2]>& t_pchararr; T_<int*[2]>& t_parr;
  O_<int>& o_int; O_<int*>& o_pint;
  rlbox::sandbox_callback<Fn, S>& cb; rlbox::sandbox_callback<Fn2, S>& cb2;
  rlbox::app_pointer<int*, S>& ap;
  rlbox::tainted_boolean_hint& bh; rlbox::tainted_int_hint& ih;
  // wrappers that belong to ANOTHER sandbox type
  rlbox::tainted<int, S2>& x_int; rlbox::tainted<int*, S2>& x_pint; rlbox::sandbox_callback<Fn, S2>& x_cb;
  // plain application values
  int p_int; bool p_bool; long p_long; int* p_pint; const char* p_pcchar; char* p_pchar; void* p_pvoid; Fn p_fn; int p_arr[4]; St p_st; int* p_parr[2]; St* p_pst; std::array<int*, 2> p_sarr; ConvP p_convp;
};
void take_int(int); void take_bool(bool); void take_long(long); void take_pint(int*); void take_pcchar(const char*); void take_pvoid(void*);
void take_double(double); void take_fn(Fn); void take_st(St); void take_uchar(unsigned char); void take_ullong(unsigned long long); void take_en(En);
void take_float(float); void take_ppint(int**); void take_pst(St*);
// sandbox functions (application-ABI prototypes) for invoke forms
int lib_int(int); int lib_pint(int*); int lib_fn(Fn); int lib_pcchar(const char*); int lib_st(St); int lib_fn2(Fn2);
// callback candidates for register_callback
T_<int> cbf_ok(SB&, T_<int>);
void cbf_ok_void(SB&);
O_<int> cbf_ok_opaque(SB&, O_<int*>);
T_<int*> cbf_ok_retptr(SB&, T_<int*>);
int cbf_nosbx();
T_<int> cbf_first_not_sbx(T_<int>);
T_<int> cbf_plain_param(SB&, int);
T_<int> cbf_plain_ptr_param(SB&, int*);
int cbf_plain_ret(SB&, T_<int>);
int* cbf_rawptr_ret(SB&);
void cbf_arr_param(SB&, T_<int[4]>);
T_<int> cbf_vol_param(SB&, V_<int>&);
T_<int> cbf_othersbx_param(SB&, rlbox::tainted<int, S2>);
T_<int> cbf_othersbx_opaque_param(SB&, rlbox::tainted_opaque<int, S2>);
rlbox::tainted_opaque<int, S2> cbf_othersbx_opaque_ret(SB&);
rlbox::tainted<int, S2> cbf_othersbx_ret(SB&);

#ifdef M2_CLASSIFY
// ---- phase 2: classification of the type of an accepted expression ----
#include <cstdio>
#include <map>
template<typename X> struct TN { static std::string get() { std::string s = __PRETTY_FUNCTION__; auto a = s.find("X = ") + 4; auto b = s.find_first_of(";]", a); return s.substr(a, b - a); } };
template<typename X> struct KD0 { static constexpr bool w = false; static const char* kind() { return "Plain"; } using under = X; };
template<typename T, typename Sb> struct KD0<rlbox::tainted<T, Sb>> { static constexpr bool w = true; static const char* kind() { return "T"; } using under = T; };
template<typename T, typename Sb> struct KD0<rlbox::tainted_volatile<T, Sb>> { static constexpr bool w = true; static const char* kind() { return "TV"; } using under = T; };
template<typename T, typename Sb> struct KD0<rlbox::tainted_opaque<T, Sb>> { static constexpr bool w = true; static const char* kind() { return "Opaque"; } using under = T; };
template<typename T, typename Sb> struct KD0<rlbox::sandbox_callback<T, Sb>> { static constexpr bool w = true; static const char* kind() { return "Cb"; } using under = T; };
template<typename T, typename Sb> struct KD0<rlbox::app_pointer<T, Sb>> { static constexpr bool w = true; static const char* kind() { return "AppPtr"; } using under = T; };
template<> struct KD0<rlbox::tainted_boolean_hint> { static constexpr bool w = true; static const char* kind() { return "BoolHint"; } using under = bool; };
template<> struct KD0<rlbox::tainted_int_hint> { static constexpr bool w = true; static const char* kind() { return "IntHint"; } using under = int; };
// a pointer (or unique_ptr) to a wrapper is still a wrapped value: the data can only be reached through the wrapper
template<typename X> struct KD : KD0<X> {};
template<typename P> struct KDP
{
  using W = KD<std::remove_cv_t<P>>;
  static const char* kind() { return W::kind(); }
  using under = std::conditional_t<W::w, typename W::under*, P*>;
  static constexpr bool w = W::w;
};
template<typename P> struct KD<P*> : KDP<P> {};
template<typename P, typename D> struct KD<std::unique_ptr<P, D>> : KDP<P> {};
struct Row { const char* kind; std::string type; };
inline std::map<int, Row>& rows() { static std::map<int, Row> r; return r; }
template<typename X> using rcvr = std::remove_cv_t<std::remove_reference_t<X>>;
template<int N, typename X>
struct Reg
{
  static inline int dummy = (rows()[N] = Row{ KD<rcvr<X>>::kind(), TN<std::remove_cv_t<typename KD<rcvr<X>>::under>>::get() }, 0);
};
#endif

// inv_common.hpp — fixed part of the generated invocation drivers (C11, and the by-value
// struct part of C08): guest-type map written independently of RLBox's
// convert_base_types_t, value parsers/printers, argument builders per wrapper form.
// The generated file defines INV_CFG (verif_cfg32 / verif_cfgwide), optionally
// INV_STATIC (static calls), then includes this header, then defines the programs.
#pragma once
#define RLBOX_USE_EXCEPTIONS
#define RLBOX_SINGLE_THREADED_INVOCATIONS
#ifdef INV_STATIC
#  define RLBOX_USE_STATIC_CALLS() inv_static_lookup
#  define inv_static_lookup(f) reinterpret_cast<void*>(&guest_##f)
#endif
#include "rlbox.hpp"
#include "verif_sandbox.hpp"
#include "common.hpp"
#include <memory>

using Cfg = rlbox::INV_CFG;
using Sbx = rlbox::rlbox_verif_sandbox<Cfg>;
using sandbox_t = rlbox::rlbox_sandbox<Sbx>;
using rep_t = Cfg::rep_t;
using namespace vh;

// ---- the guest ABI, as the harness (not RLBox) defines it ----
template<typename T> struct G { using type = T; };   // bool, char kinds, char16/32 below, float, double, enums
template<> struct G<short> { using type = Cfg::short_t; };
template<> struct G<unsigned short> { using type = std::make_unsigned_t<Cfg::short_t>; };
template<> struct G<char16_t> { using type = std::make_unsigned_t<Cfg::short_t>; };
template<> struct G<int> { using type = Cfg::int_t; };
template<> struct G<unsigned int> { using type = std::make_unsigned_t<Cfg::int_t>; };
template<> struct G<char32_t> { using type = std::make_unsigned_t<Cfg::int_t>; };
template<> struct G<long> { using type = Cfg::long_t; };
template<> struct G<unsigned long> { using type = std::make_unsigned_t<Cfg::long_t>; };
template<> struct G<long long> { using type = Cfg::llong_t; };
template<> struct G<unsigned long long> { using type = std::make_unsigned_t<Cfg::llong_t>; };
template<typename T> struct G<T*> { using type = rep_t; };
template<typename R, typename... A> struct G<R (*)(A...)> { using type = rep_t; };
template<typename T> using g_t = typename G<T>::type;

enum En : unsigned int { EN_A = 0, EN_B = 1, EN_BIG = 0xfffffff0u };

// a registered struct and its guest image (declared by hand against the guest ABI)
struct S1 { long a; unsigned short b; int* p; long long c; };
struct GS1 { g_t<long> a; g_t<unsigned short> b; rep_t p; g_t<long long> c; };
#define sandbox_fields_reflection_inv_class_S1(f, g, ...)                      \
  f(long, a, FIELD_NORMAL, ##__VA_ARGS__) g()                                  \
  f(unsigned short, b, FIELD_NORMAL, ##__VA_ARGS__) g()                        \
  f(int*, p, FIELD_NORMAL, ##__VA_ARGS__) g()                                  \
  f(long long, c, FIELD_NORMAL, ##__VA_ARGS__) g()
// a struct whose size and alignment are the same under the host ABI and under the guest ABIs of the harness while the layout
// is not (the pointer and the long are narrower in the guest and padded)
struct S2 { int* p; long long c; long a; };
struct GS2 { rep_t p; g_t<long long> c; g_t<long> a; };
#define sandbox_fields_reflection_inv_class_S2(f, g, ...)                      \
  f(int*, p, FIELD_NORMAL, ##__VA_ARGS__) g()                                  \
  f(long long, c, FIELD_NORMAL, ##__VA_ARGS__) g()                             \
  f(long, a, FIELD_NORMAL, ##__VA_ARGS__) g()
#define sandbox_fields_reflection_inv_allClasses(f, ...) f(S1, inv, ##__VA_ARGS__) f(S2, inv, ##__VA_ARGS__)
rlbox_load_structs_from_library(inv);

// ---- state shared with guest functions ----
static int g_calls = 0;
static std::string g_glog;
static toks_t g_ret;            // tokens of the guest return value
static uintptr_t g_base = 0;

template<typename T>
static std::string show_val(T v)
{
  if constexpr (std::is_same_v<T, float>) { uint32_t b; std::memcpy(&b, &v, 4); return std::to_string(b); }
  else if constexpr (std::is_same_v<T, double>) { uint64_t b; std::memcpy(&b, &v, 8); return std::to_string(b); }
  else if constexpr (std::is_enum_v<T>) return std::to_string(static_cast<unsigned long long>(v));
  else if constexpr (std::is_same_v<T, GS1>)
    return "{" + show_val(v.a) + ";" + show_val(v.b) + ";" + show_val(v.p) + ";" + show_val(v.c) + "}";
  else if constexpr (std::is_same_v<T, GS2>)
    return "{" + show_val(v.p) + ";" + show_val(v.c) + ";" + show_val(v.a) + "}";
  else return show_int(v);
}
template<typename T>
static T parse_val(const std::string& s)
{
  if constexpr (std::is_same_v<T, float>) { uint32_t b = uint32_t(parse_u64(s)); float f; std::memcpy(&f, &b, 4); return f; }
  else if constexpr (std::is_same_v<T, double>) { uint64_t b = parse_u64(s); double f; std::memcpy(&f, &b, 8); return f; }
  else if constexpr (std::is_enum_v<T>) return static_cast<T>(parse_u64(s));
  else if constexpr (std::is_same_v<T, GS1>) {
    toks_t f = split(s, ';');
    GS1 r;
    r.a = parse_val<decltype(r.a)>(f.at(0)); r.b = parse_val<decltype(r.b)>(f.at(1));
    r.p = parse_val<rep_t>(f.at(2)); r.c = parse_val<decltype(r.c)>(f.at(3));
    return r;
  }
  else return parse_int<T>(s);
}
template<typename T>
static void glog(T v)
{
  if (!g_glog.empty()) g_glog += ",";
  g_glog += show_val(v);
}

// what guest code learns from a function-pointer representation it was passed: an entry point of the callback part of
// the table (reported as it is), or an entry of the function table (reported as 20000 + k when it designates the k-th
// address target fa_t<k>, as 30000 + the raw value when it designates nothing known)
static std::vector<const void*> g_fa_targets;
static void glog_fn(rep_t a)
{
  auto sb = reinterpret_cast<Sbx*>(rlbox::verif_tls.sandbox);
  if (a >= Sbx::CB_BASE || sb == nullptr) { glog(a); return; }
  long id = 30000 + long(a);
  if (a < sb->function_table.size()) {
    for (size_t k = 0; k < g_fa_targets.size(); k++) if (sb->function_table[a] == g_fa_targets[k]) id = 20000 + long(k);
  }
  glog(id);
}

// ---- argument builders ----
template<typename T>
static T* mkraw(const std::string& s)
{
  uint64_t off = parse_u64(s);
  return off == 0 ? nullptr : reinterpret_cast<T*>(g_base + off);
}
template<typename TP>
static rlbox::tainted<TP, Sbx> mk_tptr(sandbox_t& sb, const std::string& s)
{
  using T = std::remove_pointer_t<TP>;
  uint64_t off = parse_u64(s);
  rlbox::tainted<TP, Sbx> r = nullptr;
  if (off != 0) r = sb.UNSAFE_accept_pointer(reinterpret_cast<TP>(g_base + off));
  return r;
}
static rlbox::tainted<S1, Sbx> mk_s1(sandbox_t& sb, const std::string& s)
{
  toks_t f = split(s, ';');
  rlbox::tainted<S1, Sbx> r;
  r.a = parse_val<long>(f.at(0));
  r.b = parse_val<unsigned short>(f.at(1));
  r.p = mk_tptr<int*>(sb, f.at(2));
  r.c = parse_val<long long>(f.at(3));
  return r;
}
static rlbox::tainted<S2, Sbx> mk_s2(sandbox_t& sb, const std::string& s)
{
  toks_t f = split(s, ';');
  rlbox::tainted<S2, Sbx> r;
  r.p = mk_tptr<int*>(sb, f.at(0));
  r.c = parse_val<long long>(f.at(1));
  r.a = parse_val<long>(f.at(2));
  return r;
}
template<int N>
static void cbfn(sandbox_t&, rlbox::tainted<long, Sbx>) {}

// ---- result printers (application side) ----
template<typename W>
static std::string show_result(W& r)
{
  using T = rlbox::detail::rlbox_remove_wrapper_t<W>;
  if constexpr (std::is_same_v<T, S1>) {
    auto pa = reinterpret_cast<uintptr_t>(r.p.UNSAFE_unverified());
    return "{" + show_val(r.a.UNSAFE_unverified()) + ";" + show_val(r.b.UNSAFE_unverified()) + ";" +
           std::to_string(pa) + ";" + show_val(r.c.UNSAFE_unverified()) + "}";
  } else if constexpr (std::is_pointer_v<T>) {
    return std::to_string(reinterpret_cast<uintptr_t>(r.UNSAFE_unverified()));
  } else {
    return show_val(r.UNSAFE_unverified());
  }
}

using prog_fn = std::string (*)(sandbox_t&, const toks_t&);

// ops_common.hpp — fixed part of the generated operator drivers (C16)
#pragma once
#define RLBOX_USE_EXCEPTIONS
#define RLBOX_SINGLE_THREADED_INVOCATIONS
#include "rlbox.hpp"
#include "verif_sandbox.hpp"
#include "common.hpp"
#include <limits>
#include <memory>

using namespace vh;
using Sbx = rlbox::rlbox_verif32_sandbox;
using sandbox_t = rlbox::rlbox_sandbox<Sbx>;
static std::unique_ptr<sandbox_t> g_sb;

// two fixed cells in sandbox memory for tainted_volatile operands
template<typename T>
static rlbox::tainted<T*, Sbx> cell(int slot)
{
  auto base = g_sb->get_sandbox_impl()->region_base();
  return g_sb->UNSAFE_accept_pointer(reinterpret_cast<T*>(base + 256 + uintptr_t(slot) * 64));
}

template<typename T> struct kname { static const char* get() { return "?"; } };
#define KN(T, n) template<> struct kname<T> { static const char* get() { return n; } }
KN(bool, "bool"); KN(char, "char"); KN(signed char, "schar"); KN(unsigned char, "uchar");
KN(short, "short"); KN(unsigned short, "ushort"); KN(int, "int"); KN(unsigned int, "uint");
KN(long, "long"); KN(unsigned long, "ulong"); KN(long long, "llong"); KN(unsigned long long, "ullong");
#undef KN

// plain values pass through; wrappers (tainted, tainted_volatile, hints) are unwrapped
template<typename W>
static auto unwrap_res(const W& w)
{
  if constexpr (std::is_arithmetic_v<W>) return w;
  else return w.UNSAFE_unverified();
}
// "<type>:<value>"
template<typename T>
static std::string res2(T v)
{
  return std::string(kname<std::remove_cv_t<T>>::get()) + ":" + show_int(v);
}
// floating-point family: operands arrive as IEEE bit patterns (float: 32, double: 64) or as integers
#include <cmath>
template<typename T>
static T parse_num(const std::string& s)
{
  if constexpr (std::is_same_v<T, float>) { uint32_t b = static_cast<uint32_t>(std::stoull(s)); float f; std::memcpy(&f, &b, 4); return f; }
  else if constexpr (std::is_same_v<T, double>) { uint64_t b = std::stoull(s); double d; std::memcpy(&d, &b, 8); return d; }
  else return parse_int<T>(s);
}
// "<type>:<value>": floating values as their bit pattern, every NaN as "nan"
template<typename T>
static std::string fres(T v)
{
  if constexpr (std::is_same_v<T, float>) { if (std::isnan(v)) return "float:nan"; uint32_t b; std::memcpy(&b, &v, 4); return "float:" + std::to_string(b); }
  else if constexpr (std::is_same_v<T, double>) { if (std::isnan(v)) return "double:nan"; uint64_t b; std::memcpy(&b, &v, 8); return "double:" + std::to_string(b); }
  else return res2(v);
}
static uint64_t fold(const std::string& s)
{
  // the value part after the first ':' (and a second value for inc/dec), folded into 64 bits
  uint64_t h = 0;
  if (s == "ABORT") return 0xAB0Fu;
  size_t p = s.find(':');
  while (p != std::string::npos) {
    size_t q = s.find(':', p + 1);
    std::string num = s.substr(p + 1, q == std::string::npos ? std::string::npos : q - p - 1);
    h = h * 31u + static_cast<uint64_t>(std::strtoll(num.c_str(), nullptr, 10));
    p = q;
  }
  return h;
}

using prog_fn = std::string (*)(const toks_t&);
static prog_fn* g_table;
static int g_nprogs;
static std::string run_case(const toks_t& t)
{
  // t[0]=op.shard t[1]=local index t[2..7]=form op wa ka wb kb  t[8..]=values | "sweep"
  int i = std::stoi(t.at(1));
  if (i < 0 || i >= g_nprogs) throw std::runtime_error("HARNESS bad program index");
  toks_t vals(t.begin() + 8, t.end());
  return g_table[i](vals);
}
static int ops_main(int argc, char** argv, prog_fn* table, int n)
{
  g_table = table; g_nprogs = n;
  g_sb = std::make_unique<sandbox_t>();
  g_sb->create_sandbox(nullptr, false);
  return case_loop(argc, argv, run_case);
}

// ptr.cpp — address-level driver on an isolating foreign-ABI back end with two
// live sandboxes at fixed bases (so the Coq model can compute with absolute
// addresses): pointer arithmetic forms (C05), fixed-array indexing (C17), bulk
// routines (C10), chains of pointer producers (C03), representation
// conversion (C04), checked raw-pointer entry points (C02).
// Compile with -DVERIF_CFG=verif_cfg32|verif_cfg16 and one of -DPART_ARITH
// -DPART_AIDX -DPART_BULK -DPART_CHAIN.
#define RLBOX_USE_EXCEPTIONS
#define RLBOX_SINGLE_THREADED_INVOCATIONS
#define RLBOX_USE_STATIC_CALLS() verif_static_lookup
#include "rlbox.hpp"
#include "verif_sandbox.hpp"
#include "common.hpp"

using namespace vh;
using Cfg = rlbox::VERIF_CFG;
using Sbx = rlbox::rlbox_verif_sandbox<Cfg>;
using sandbox_t = rlbox::rlbox_sandbox<Sbx>;
template<typename T> using tainted_v = rlbox::tainted<T, Sbx>;
template<typename T> using tvol_v = rlbox::tainted_volatile<T, Sbx>;
#define verif_static_lookup(f) reinterpret_cast<void*>(&guest_##f)

// registered struct used as pointee / for field addresses
struct PS
{
  int a;
  long b;
  char c;
  long long d;
  int* e;
};
#define sandbox_fields_reflection_vp_class_PS(f, g, ...)                       \
  f(int, a, FIELD_NORMAL, ##__VA_ARGS__) g()                                   \
  f(long, b, FIELD_NORMAL, ##__VA_ARGS__) g()                                  \
  f(char, c, FIELD_NORMAL, ##__VA_ARGS__) g()                                  \
  f(long long, d, FIELD_NORMAL, ##__VA_ARGS__) g()                             \
  f(int*, e, FIELD_NORMAL, ##__VA_ARGS__) g()
#define sandbox_fields_reflection_vp_allClasses(f, ...) f(PS, vp, ##__VA_ARGS__)
rlbox_load_structs_from_library(vp);

static constexpr uintptr_t SLOT_BASE32 = uintptr_t(1) << 44;  // sandbox i: (i+1) << 44
static constexpr uintptr_t SLOT_BASE16 = uintptr_t(6) << 44;  // sandbox i: (6+i) << 44
static constexpr uintptr_t APP_BASE = uintptr_t(5) << 44;     // application buffer (1 MiB)
static constexpr size_t APP_SIZE = size_t(1) << 17;

static uintptr_t slot_base(int i)
{
  return (sizeof(typename Cfg::rep_t) == 2 ? SLOT_BASE16 : SLOT_BASE32) + (uintptr_t(i) << 44);
}

static sandbox_t sbA, sbB;
static sandbox_t& sb(uintptr_t addr) { return (addr >= slot_base(1) && addr < slot_base(2)) ? sbB : sbA; }

static void setup()
{
  Sbx::fixed_base_hint = slot_base(0);
  sbA.create_sandbox();
  Sbx::fixed_base_hint = slot_base(1);
  sbB.create_sandbox();
  void* m = mmap(reinterpret_cast<void*>(APP_BASE), APP_SIZE, PROT_READ | PROT_WRITE,
                 MAP_PRIVATE | MAP_ANONYMOUS | MAP_FIXED_NOREPLACE, -1, 0);
  if (m == MAP_FAILED) std::abort();
}

template<typename F>
static bool with_ptee(const std::string& n, F&& f)
{
  if (n == "char") { f(tag<char>{}); return true; }
  if (n == "short") { f(tag<short>{}); return true; }
  if (n == "int") { f(tag<int>{}); return true; }
  if (n == "long") { f(tag<long>{}); return true; }
  if (n == "ulong") { f(tag<unsigned long>{}); return true; }
  if (n == "llong") { f(tag<long long>{}); return true; }
  if (n == "double") { f(tag<double>{}); return true; }
  if (n == "ptr") { f(tag<int*>{}); return true; }
  if (n == "arr4") { f(tag<int[4]>{}); return true; }
  if (n == "larr3") { f(tag<long[3]>{}); return true; }
  if (n == "ps") { f(tag<PS>{}); return true; }
  return false;
}

template<typename F>
static bool with_idx_kind(const std::string& n, F&& f)
{
  if (n == "char") { f(tag<char>{}); return true; }
  if (n == "schar") { f(tag<signed char>{}); return true; }
  if (n == "uchar") { f(tag<unsigned char>{}); return true; }
  if (n == "short") { f(tag<short>{}); return true; }
  if (n == "ushort") { f(tag<unsigned short>{}); return true; }
  if (n == "int") { f(tag<int>{}); return true; }
  if (n == "uint") { f(tag<unsigned int>{}); return true; }
  if (n == "long") { f(tag<long>{}); return true; }
  if (n == "ulong") { f(tag<unsigned long>{}); return true; }
  if (n == "llong") { f(tag<long long>{}); return true; }
  if (n == "ullong") { f(tag<unsigned long long>{}); return true; }
  return false;
}

template<typename T>
static tainted_v<T*> mkptr(uintptr_t addr)
{
  tainted_v<T*> p = nullptr;
  if (addr != 0) p.assign_raw_pointer(sb(addr), reinterpret_cast<T*>(addr));
  return p;
}

static std::string addr_s(const void* p) { return std::to_string(reinterpret_cast<uintptr_t>(p)); }
static std::string addr_s(const volatile void* p) { return std::to_string(reinterpret_cast<uintptr_t>(p)); }

// --------------------------------------------------------------------- C05
#ifdef PART_ARITH
template<typename T, typename N>
static std::string arith_forms(const std::string& form, uintptr_t addr, N n)
{
  auto p = mkptr<T>(addr);
  const void* ret = nullptr;
  if (form == "add") ret = (p + n).UNSAFE_unverified();
  else if (form == "sub") ret = (p - n).UNSAFE_unverified();
  else if (form == "addeq") ret = (p += n).UNSAFE_unverified();
  else if (form == "subeq") ret = (p -= n).UNSAFE_unverified();
  else if (form == "index") {
    // & of a tainted_volatile<struct> does not compile in RLBox (const qualification): use a field
    if constexpr (std::is_class_v<T>) ret = (&(p[n].a)).UNSAFE_unverified();
    else ret = (&p[n]).UNSAFE_unverified();
  }
  else return "HARNESS-ERROR form";
  return "OK ret=" + addr_s(ret) + " obj=" + addr_s((const void*)p.UNSAFE_unverified());
}

template<typename T>
static std::string incdec_forms(const std::string& form, uintptr_t addr)
{
  auto p = mkptr<T>(addr);
  const void* ret = nullptr;
  if (form == "preinc") ret = (++p).UNSAFE_unverified();
  else if (form == "postinc") ret = (p++).UNSAFE_unverified();
  else if (form == "predec") ret = (--p).UNSAFE_unverified();
  else if (form == "postdec") ret = (p--).UNSAFE_unverified();
  else return "HARNESS-ERROR form";
  return "OK ret=" + addr_s(ret) + " obj=" + addr_s((const void*)p.UNSAFE_unverified());
}

// arith <ptee> <form> <p> <nk> <n> [plain|tainted|tvol]
static std::string op_arith(const toks_t& t)
{
  std::string out = "HARNESS-ERROR arith";
  uintptr_t addr = parse_u64(t[3]);
  std::string wrapk = t.size() > 6 ? t[6] : "plain";
  with_ptee(t[1], [&](auto pt) {
    using T = typename decltype(pt)::type;
    if (t[2] == "preinc" || t[2] == "postinc" || t[2] == "predec" || t[2] == "postdec") {
      out = incdec_forms<T>(t[2], addr);
      return;
    }
    with_idx_kind(t[4], [&](auto nk) {
      using N = typename decltype(nk)::type;
      N n = parse_int<N>(t[5]);
      if (wrapk == "plain") {
        out = arith_forms<T, N>(t[2], addr, n);
      } else if constexpr (std::is_same_v<N, int> || std::is_same_v<N, unsigned long> ||
                           std::is_same_v<N, long> || std::is_same_v<N, unsigned int>) {
        if (wrapk == "tainted") {
          tainted_v<N> tn = n;
          out = arith_forms<T, tainted_v<N>>(t[2], addr, tn);
        } else {
          auto cell = sbA.malloc_in_sandbox<N>();
          *cell = n;  // may abort when n does not fit the guest type
          auto p = mkptr<T>(addr);
          const void* ret = nullptr;
          if (t[2] == "add") ret = (p + *cell).UNSAFE_unverified();
          else if (t[2] == "sub") ret = (p - *cell).UNSAFE_unverified();
          else if constexpr (std::is_class_v<T>) ret = (&(p[*cell].a)).UNSAFE_unverified();
          else ret = (&p[*cell]).UNSAFE_unverified();
          out = "OK ret=" + addr_s(ret) + " obj=" + addr_s((const void*)p.UNSAFE_unverified());
        }
      }
    });
  });
  return out;
}

// stride <ptee>  -> sizeof(tainted_volatile<T>) and distance between &p[0] and &p[1]
static std::string op_stride(const toks_t& t)
{
  std::string out = "HARNESS-ERROR stride";
  with_ptee(t[1], [&](auto pt) {
    using T = typename decltype(pt)::type;
    auto p = mkptr<T>(slot_base(0) + 4096);
    uintptr_t d;
    if constexpr (std::is_class_v<T>) d = reinterpret_cast<uintptr_t>((&(p[1].a)).UNSAFE_unverified()) - (slot_base(0) + 4096);
    else d = reinterpret_cast<uintptr_t>((&p[1]).UNSAFE_unverified()) - (slot_base(0) + 4096);
    out = "STRIDE " + std::to_string(sizeof(tvol_v<T>)) + " " + std::to_string(d);
  });
  return out;
}
#endif

// --------------------------------------------------------------------- C17
#ifdef PART_AIDX
template<typename El, size_t N, typename I>
static std::string aidx_one(const std::string& where, I n, const std::string& wrapk)
{
  if (where == "app") {
    tainted_v<El[N]> arr;
    auto start = reinterpret_cast<uintptr_t>(&arr);
    uintptr_t el;
    if (wrapk == "plain") el = reinterpret_cast<uintptr_t>(&arr[n]);
    else { tainted_v<I> tn = n; el = reinterpret_cast<uintptr_t>(&arr[tn]); }
    return "OK off=" + std::to_string(el - start) + " elsz=" + std::to_string(sizeof(arr[0]));
  } else {
    auto parr = sbA.malloc_in_sandbox<El[N]>();
    auto start = reinterpret_cast<uintptr_t>(parr.UNSAFE_unverified());
    auto& varr = *parr;
    uintptr_t el;
    if (wrapk == "plain") el = reinterpret_cast<uintptr_t>((&varr[n]).UNSAFE_unverified());
    else { tainted_v<I> tn = n; el = reinterpret_cast<uintptr_t>((&varr[tn]).UNSAFE_unverified()); }
    return "OK off=" + std::to_string(el - start) + " elsz=" + std::to_string(sizeof(varr[0]));
  }
}

template<typename El, typename I>
static std::string aidx_len(const std::string& where, size_t len, I n, const std::string& wrapk)
{
  switch (len) {
    case 1: return aidx_one<El, 1, I>(where, n, wrapk);
    case 2: return aidx_one<El, 2, I>(where, n, wrapk);
    case 3: return aidx_one<El, 3, I>(where, n, wrapk);
    case 4: return aidx_one<El, 4, I>(where, n, wrapk);
    case 7: return aidx_one<El, 7, I>(where, n, wrapk);
    case 16: return aidx_one<El, 16, I>(where, n, wrapk);
    default: return "HARNESS-ERROR len";
  }
}

// aidx <app|sbx> <elk> <len> <ik> <n> [plain|tainted]
static std::string op_aidx(const toks_t& t)
{
  std::string out = "HARNESS-ERROR aidx";
  std::string wrapk = t.size() > 6 ? t[6] : "plain";
  auto go = [&](auto el) {
    using El = typename decltype(el)::type;
    with_idx_kind(t[4], [&](auto ik) {
      using I = typename decltype(ik)::type;
      out = aidx_len<El, I>(t[1], parse_u64(t[3]), parse_int<I>(t[5]), wrapk);
    });
  };
  if (t[2] == "char") go(tag<char>{});
  else if (t[2] == "short") go(tag<short>{});
  else if (t[2] == "int") go(tag<int>{});
  else if (t[2] == "long") go(tag<long>{});
  else if (t[2] == "ullong") go(tag<unsigned long long>{});
  else if (t[2] == "ptr") go(tag<int*>{});
  return out;
}

// aidx2 <app|sbx> <shape> <ik> <i> <j>   shapes: l23 = long[2][3], i32 = int[3][2], p24 = int*[2][4]
template<typename El, size_t A, size_t B, typename I>
static std::string aidx2_one(const std::string& where, I i, I j)
{
  if (where == "app") {
    tainted_v<El[A][B]> arr;
    auto start = reinterpret_cast<uintptr_t>(&arr);
    auto el = reinterpret_cast<uintptr_t>(&arr[i][j]);
    return "OK off=" + std::to_string(el - start);
  } else {
    auto parr = sbA.malloc_in_sandbox<El[A][B]>();
    auto start = reinterpret_cast<uintptr_t>(parr.UNSAFE_unverified());
    auto& varr = *parr;
    auto el = reinterpret_cast<uintptr_t>((&varr[i][j]).UNSAFE_unverified());
    return "OK off=" + std::to_string(el - start);
  }
}
static std::string op_aidx2(const toks_t& t)
{
  std::string out = "HARNESS-ERROR aidx2";
  with_idx_kind(t[3], [&](auto ik) {
    using I = typename decltype(ik)::type;
    if constexpr (sizeof(I) >= 4 || std::is_same_v<I, signed char> || std::is_same_v<I, unsigned char>) {
      I i = parse_int<I>(t[4]), j = parse_int<I>(t[5]);
      if (t[2] == "l23") out = aidx2_one<long, 2, 3, I>(t[1], i, j);
      else if (t[2] == "i32") out = aidx2_one<int, 3, 2, I>(t[1], i, j);
      else if (t[2] == "p24") out = aidx2_one<int*, 2, 4, I>(t[1], i, j);
    }
  });
  return out;
}
#endif

// --------------------------------------------------------------------- C10
#ifdef PART_BULK
// observation windows: first 128 KiB of sandbox A and B (64 KiB for verif16), last page of each, app buffer
struct window { uintptr_t start; size_t len; };
static std::vector<window> windows()
{
  std::vector<window> w;
  size_t head = Cfg::region_size < (size_t(1) << 17) ? Cfg::region_size : (size_t(1) << 17);
  for (int i = 0; i < 2; i++) {
    w.push_back({ slot_base(i), head });
    if (Cfg::region_size > head) w.push_back({ slot_base(i) + Cfg::region_size - 4096, 4096 });
  }
  w.push_back({ APP_BASE, APP_SIZE });
  return w;
}
static void fill_windows(unsigned char v)
{
  for (auto& w : windows()) std::memset(reinterpret_cast<void*>(w.start), v, w.len);
}
static std::string changed(unsigned char v, unsigned char vapp = 0x11)
{
  uintptr_t mn = 0, mx = 0; size_t cnt = 0;
  for (auto& w : windows()) {
    auto p = reinterpret_cast<unsigned char*>(w.start);
    unsigned char expect = (w.start == APP_BASE) ? vapp : v;
    for (size_t i = 0; i < w.len; i++) {
      if (p[i] != expect) { if (!cnt) mn = w.start + i; mx = w.start + i; cnt++; }
    }
  }
  if (!cnt) return "changed=none";
  return "changed=[" + std::to_string(mn) + "," + std::to_string(mx) + "]#" + std::to_string(cnt);
}

template<typename N>
static std::string bulk_ops(const toks_t& t, N n, const std::string& wrapk)
{
  uintptr_t dest = parse_u64(t[1]);
  auto pd = mkptr<char>(dest);
  fill_windows(0x11);
  if (t[0].rfind("memset", 0) == 0) {
    if (wrapk == "plain") rlbox::memset(sb(dest), pd, 0xEE, n);
    else { tainted_v<N> tn = n; rlbox::memset(sb(dest), pd, 0xEE, tn); }
    return "OK " + changed(0x11);
  }
  uintptr_t src = parse_u64(t[2]);
  bool src_in = rlbox::verif_region_of(reinterpret_cast<void*>(src)) >= 0;
  if (t[0].rfind("memcpy", 0) == 0) {
    // source bytes differ from the fill so that the copy is visible
    if (src_in) {
      auto ps = mkptr<char>(src);
      if (wrapk == "plain") rlbox::memcpy(sb(dest), pd, ps, n);
      else { tainted_v<N> tn = n; rlbox::memcpy(sb(dest), pd, ps, tn); }
      return "OK";
    } else {
      std::memset(reinterpret_cast<void*>(APP_BASE), 0x22, APP_SIZE);
      const char* ps = reinterpret_cast<const char*>(src);
      if (wrapk == "plain") rlbox::memcpy(sb(dest), pd, ps, n);
      else { tainted_v<N> tn = n; rlbox::memcpy(sb(dest), pd, ps, tn); }
      return "OK " + changed(0x11, 0x22);
    }
  }
  if (t[0].rfind("memcmp", 0) == 0) {
    if (src_in) {
      auto ps = mkptr<char>(src);
      rlbox::memcmp(sb(dest), pd, ps, n);
    } else {
      const char* ps = reinterpret_cast<const char*>(src);
      rlbox::memcmp(sb(dest), pd, ps, n);
    }
    return "OK";
  }
  return "HARNESS-ERROR bulk";
}

template<typename El>
static std::string counted_ops(const toks_t& t)
{
  // <op> <start> <elk> <count>
  uintptr_t start = parse_u64(t[1]);
  size_t count = parse_u64(t[3]);
  auto p = mkptr<El>(start);
  if (t[0].rfind("vrange", 0) == 0) {
    uintptr_t r = p.copy_and_verify_buffer_address([](uintptr_t v) { return v; }, count);
    return "OK " + std::to_string(r);
  }
  if (t[0].rfind("usp", 0) == 0) {
    auto r = p.unverified_safe_pointer_because(count, "test");
    return "OK " + addr_s((const void*)r);
  }
  if (t[0].rfind("cvrange", 0) == 0) {
    bool isnull = false;
    p.copy_and_verify_range([&](std::unique_ptr<El[]> v) { isnull = (v == nullptr); return 0; }, count);
    return std::string("OK ") + (isnull ? "null" : "copied");
  }
  return "HARNESS-ERROR counted";
}

static std::string op_bulk(const toks_t& t)
{
  std::string out = "HARNESS-ERROR bulk";
  const std::string& op = t[0];
  if (op.rfind("memset", 0) == 0) {
    // memset <dest> <nk> <n> [wrap]
    with_idx_kind(t[2], [&](auto nk) {
      using N = typename decltype(nk)::type;
      out = bulk_ops<N>(t, parse_int<N>(t[3]), t.size() > 4 ? t[4] : "plain");
    });
  } else if (op.rfind("memcpy", 0) == 0 || op.rfind("memcmp", 0) == 0) {
    // memcpy <dest> <src> <nk> <n> [wrap]
    with_idx_kind(t[3], [&](auto nk) {
      using N = typename decltype(nk)::type;
      out = bulk_ops<N>(t, parse_int<N>(t[4]), t.size() > 5 ? t[5] : "plain");
    });
  } else if (op.rfind("vrange", 0) == 0 || op.rfind("usp", 0) == 0 || op.rfind("cvrange", 0) == 0) {
    if (t[2] == "char") out = counted_ops<char>(t);
    else if (t[2] == "short") out = counted_ops<short>(t);
    else if (t[2] == "int") out = counted_ops<int>(t);
    else if (t[2] == "long") out = counted_ops<long>(t);
    else if (t[2] == "llong") out = counted_ops<long long>(t);
  } else if (op.rfind("deny", 0) == 0) {
    // deny <src> <num>
    uintptr_t src = parse_u64(t[1]);
    size_t num = parse_u64(t[2]);
    auto ps = mkptr<char>(src);
    bool copied = false;
    char* r = rlbox::copy_memory_or_deny_access(sb(src ? src : slot_base(0)), ps, num, false, copied);
    std::string o = std::string("OK ") + (r ? "copy" : "null") + (copied ? " copied" : "");
    free(r);
    out = o;
  } else if (op.rfind("grant", 0) == 0) {
    // grant <src> <num> <malloc-ret-rep>
    uintptr_t src = parse_u64(t[1]);
    size_t num = parse_u64(t[2]);
    bool copied = false;
    sbA.get_sandbox_impl()->malloc_override = true;
    sbA.get_sandbox_impl()->malloc_override_val = static_cast<typename Cfg::rep_t>(parse_u64(t[3]));
    fill_windows(0x11);
    std::memset(reinterpret_cast<void*>(APP_BASE), 0x77, 4096);
    auto r = rlbox::copy_memory_or_grant_access(sbA, reinterpret_cast<char*>(src), num, false, copied);
    sbA.get_sandbox_impl()->malloc_override = false;
    out = "OK " + addr_s((const void*)r.UNSAFE_unverified()) + (copied ? " copied" : "");
  }
  return out;
}
#endif

static std::string run_case(const toks_t& t)
{
  if (t.empty()) return "HARNESS-ERROR empty";
  sbA.get_sandbox_impl()->bump = 16;
  sbB.get_sandbox_impl()->bump = 16;
  const std::string& op = t[0];
#ifdef PART_ARITH
  if (op.rfind("arith", 0) == 0) return op_arith(t);
  if (op.rfind("stride", 0) == 0) return op_stride(t);
#endif
#ifdef PART_AIDX
  if (op.rfind("aidx2", 0) == 0) return op_aidx2(t);
  if (op.rfind("aidx", 0) == 0) return op_aidx(t);
#endif
#ifdef PART_BULK
  return op_bulk(t);
#endif
  return "HARNESS-ERROR op";
}

int main(int argc, char** argv)
{
  setup();
  return case_loop(argc, argv, run_case);
}

// ptr.cpp — address-level driver on an isolating foreign-ABI back end with two
// live sandboxes at fixed bases (so the Coq model can compute with absolute
// addresses): pointer arithmetic forms (C05), fixed-array indexing (C17), bulk
// routines (C10), chains of pointer producers (C03), representation
// conversion (C04), checked raw-pointer entry points (C02).
// Compile with -DVERIF_CFG=verif_cfg32|verif_cfg16 and one of -DPART_ARITH
// -DPART_AIDX -DPART_BULK -DPART_CHAIN.
#define RLBOX_USE_EXCEPTIONS
#define RLBOX_SINGLE_THREADED_INVOCATIONS
#define RLBOX_USE_STATIC_CALLS() verif_static_lookup
#include "rlbox.hpp"
#include "verif_sandbox.hpp"
#include "common.hpp"

using namespace vh;
using Cfg = rlbox::VERIF_CFG;
using Sbx = rlbox::rlbox_verif_sandbox<Cfg>;
using sandbox_t = rlbox::rlbox_sandbox<Sbx>;
template<typename T> using tainted_v = rlbox::tainted<T, Sbx>;
template<typename T> using tvol_v = rlbox::tainted_volatile<T, Sbx>;
#define verif_static_lookup(f) reinterpret_cast<void*>(&guest_##f)

// registered struct used as pointee / for field addresses
struct PS
{
  int a;
  long b;
  char c;
  long long d;
  int* e;
};
#define sandbox_fields_reflection_vp_class_PS(f, g, ...)                       \
  f(int, a, FIELD_NORMAL, ##__VA_ARGS__) g()                                   \
  f(long, b, FIELD_NORMAL, ##__VA_ARGS__) g()                                  \
  f(char, c, FIELD_NORMAL, ##__VA_ARGS__) g()                                  \
  f(long long, d, FIELD_NORMAL, ##__VA_ARGS__) g()                             \
  f(int*, e, FIELD_NORMAL, ##__VA_ARGS__) g()
#define sandbox_fields_reflection_vp_allClasses(f, ...) f(PS, vp, ##__VA_ARGS__)
rlbox_load_structs_from_library(vp);

static constexpr uintptr_t SLOT_BASE32 = uintptr_t(1) << 44;  // sandbox i: (i+1) << 44
static constexpr uintptr_t SLOT_BASE16 = uintptr_t(6) << 44;  // sandbox i: (6+i) << 44
static constexpr uintptr_t APP_BASE = uintptr_t(5) << 44;     // application buffer (1 MiB)
static constexpr size_t APP_SIZE = size_t(1) << 17;

static uintptr_t slot_base(int i)
{
  return (sizeof(typename Cfg::rep_t) == 2 ? SLOT_BASE16 : SLOT_BASE32) + (uintptr_t(i) << 44);
}

static sandbox_t sbA, sbB;
#ifdef PTR_SINGLE
static sandbox_t& sb(uintptr_t) { return sbA; }
#else
static sandbox_t& sb(uintptr_t addr) { return (addr >= slot_base(1) && addr < slot_base(2)) ? sbB : sbA; }
#endif

static void setup()
{
  Sbx::fixed_base_hint = slot_base(0);
  sbA.create_sandbox();
#ifndef PTR_SINGLE      // PTR_SINGLE: exactly one sandbox of this type is alive (slot 1 stays unmapped, unowned memory)
  Sbx::fixed_base_hint = slot_base(1);
  sbB.create_sandbox();
#endif
  void* m = mmap(reinterpret_cast<void*>(APP_BASE), APP_SIZE, PROT_READ | PROT_WRITE,
                 MAP_PRIVATE | MAP_ANONYMOUS | MAP_FIXED_NOREPLACE, -1, 0);
  if (m == MAP_FAILED) std::abort();
}

template<typename F>
static bool with_ptee(const std::string& n, F&& f)
{
  if (n == "char") { f(tag<char>{}); return true; }
  if (n == "short") { f(tag<short>{}); return true; }
  if (n == "int") { f(tag<int>{}); return true; }
  if (n == "long") { f(tag<long>{}); return true; }
  if (n == "ulong") { f(tag<unsigned long>{}); return true; }
  if (n == "llong") { f(tag<long long>{}); return true; }
  if (n == "cllong") { f(tag<const long long>{}); return true; }      // const-qualified pointees: the same layout as the unqualified ones
  if (n == "clong") { f(tag<const long>{}); return true; }
  if (n == "double") { f(tag<double>{}); return true; }
  if (n == "ptr") { f(tag<int*>{}); return true; }
  if (n == "arr4") { f(tag<int[4]>{}); return true; }
  if (n == "larr3") { f(tag<long[3]>{}); return true; }
  if (n == "llarr3") { f(tag<long long[3]>{}); return true; }
  if (n == "ullarr2x2") { f(tag<unsigned long long[2][2]>{}); return true; }
  if (n == "sarr5") { f(tag<short[5]>{}); return true; }
  if (n == "ps") { f(tag<PS>{}); return true; }
  return false;
}

template<typename F>
static bool with_idx_kind(const std::string& n, F&& f)
{
  if (n == "char") { f(tag<char>{}); return true; }
  if (n == "schar") { f(tag<signed char>{}); return true; }
  if (n == "uchar") { f(tag<unsigned char>{}); return true; }
  if (n == "short") { f(tag<short>{}); return true; }
  if (n == "ushort") { f(tag<unsigned short>{}); return true; }
  if (n == "int") { f(tag<int>{}); return true; }
  if (n == "uint") { f(tag<unsigned int>{}); return true; }
  if (n == "long") { f(tag<long>{}); return true; }
  if (n == "ulong") { f(tag<unsigned long>{}); return true; }
  if (n == "llong") { f(tag<long long>{}); return true; }
  if (n == "ullong") { f(tag<unsigned long long>{}); return true; }
  return false;
}

template<typename T>
static tainted_v<T*> mkptr(uintptr_t addr)
{
  tainted_v<T*> p = nullptr;
  if (addr != 0) p.assign_raw_pointer(sb(addr), reinterpret_cast<T*>(addr));
  return p;
}

static std::string addr_s(const void* p) { return std::to_string(reinterpret_cast<uintptr_t>(p)); }
static std::string addr_s(const volatile void* p) { return std::to_string(reinterpret_cast<uintptr_t>(p)); }

// an adversary that rewrites a pointer cell of sandbox memory right after its representation was fetched
static uint8_t* g_adv_cell = nullptr;
static uint8_t g_adv_bytes[8];
static size_t g_adv_len = 0;
static bool g_adv_fired = false;
static void adv_hook(const char* site)
{
  if (std::strcmp(site, "be.xlate") != 0 || g_adv_fired) return;
  g_adv_fired = true;
  std::memcpy(g_adv_cell, g_adv_bytes, g_adv_len);
}

// an adversary that watches one scalar cell of sandbox memory (read notification hook of tainted_volatile):
// the first read sees the honest value, the cell is rewritten before every later read
static const volatile void* g_watch_cell = nullptr;
static uint8_t g_watch_bytes[8];
static size_t g_watch_len = 0;
static unsigned g_watch_reads = 0;
static void watch_hook(const volatile void* addr)
{
  if (addr != g_watch_cell) return;
  if (g_watch_reads >= 1)
    std::memcpy(const_cast<void*>(g_watch_cell), g_watch_bytes, g_watch_len);
  g_watch_reads++;
}
template<typename N>
static void watch_begin(const volatile void* cell, N evil)
{
  g_watch_cell = cell;
  // the bytes the guest writes: the value in the guest's type of N (the generators keep it representable there)
  using G = rlbox::detail::convert_to_sandbox_equivalent_t<N, Sbx>;
  G g = static_cast<G>(evil);
  std::memcpy(g_watch_bytes, &g, sizeof(g));
  g_watch_len = sizeof(g);
  g_watch_reads = 0;
  rlbox::detail::verif_read_hook = watch_hook;
}
static void watch_end() { rlbox::detail::verif_read_hook = nullptr; g_watch_cell = nullptr; }


// --------------------------------------------------------------------- C05
#ifdef PART_ARITH
template<typename T, typename N>
static std::string arith_forms(const std::string& form, uintptr_t addr, N n)
{
  auto p = mkptr<T>(addr);
  const void* ret = nullptr;
  if (form == "add") ret = (p + n).UNSAFE_unverified();
  else if (form == "sub") ret = (p - n).UNSAFE_unverified();
  else if (form == "radd") ret = (n + p).UNSAFE_unverified();      // number first
  else if (form == "addeq") ret = (p += n).UNSAFE_unverified();
  else if (form == "subeq") ret = (p -= n).UNSAFE_unverified();
  else if (form == "index") {
    // & of a tainted_volatile<struct> does not compile in RLBox (const qualification): use a field
    if constexpr (std::is_class_v<T>) ret = (&(p[n].a)).UNSAFE_unverified();
    else ret = (&p[n]).UNSAFE_unverified();
  }
  else return "HARNESS-ERROR form";
  return "OK ret=" + addr_s(ret) + " obj=" + addr_s((const void*)p.UNSAFE_unverified());
}

template<typename T>
static std::string incdec_forms(const std::string& form, uintptr_t addr)
{
  auto p = mkptr<T>(addr);
  const void* ret = nullptr;
  if (form == "preinc") ret = (++p).UNSAFE_unverified();
  else if (form == "postinc") ret = (p++).UNSAFE_unverified();
  else if (form == "predec") ret = (--p).UNSAFE_unverified();
  else if (form == "postdec") ret = (p--).UNSAFE_unverified();
  else return "HARNESS-ERROR form";
  return "OK ret=" + addr_s(ret) + " obj=" + addr_s((const void*)p.UNSAFE_unverified());
}

// arith <ptee> <form> <p> <nk> <n> [plain|tainted|tvol|pcell0|pcellm]
static std::string op_arith(const toks_t& t)
{
  std::string out = "HARNESS-ERROR arith";
  uintptr_t addr = parse_u64(t[3]);
  std::string wrapk = t.size() > 6 ? t[6] : "plain";
  with_ptee(t[1], [&](auto pt) {
    using T = typename decltype(pt)::type;
    if (t[2] == "preinc" || t[2] == "postinc" || t[2] == "predec" || t[2] == "postdec") {
      out = incdec_forms<T>(t[2], addr);
      return;
    }
    with_idx_kind(t[4], [&](auto nk) {
      using N = typename decltype(nk)::type;
      N n = parse_int<N>(t[5]);
      if (wrapk == "pcell0" || wrapk == "pcellm") {
        // the POINTER operand lives in a cell of sandbox memory (a tainted_volatile<T*>); right after its representation
        // has been fetched for the first time the adversary nulls the cell (pcell0) or points it at the start of the
        // sandbox (pcellm): the operation must be the one of the value fetched - one fetch
        auto pp = sbA.malloc_in_sandbox<T*>();
        *pp = mkptr<T>(addr);
        g_adv_cell = reinterpret_cast<uint8_t*>(pp.UNSAFE_unverified());
        g_adv_fired = false;
        typename Cfg::rep_t newrep = wrapk == "pcell0" ? 0 : 64;
        std::memcpy(g_adv_bytes, &newrep, sizeof(newrep));
        g_adv_len = sizeof(newrep);
        rlbox::verif_backend_hook = adv_hook;
        const void* ret = nullptr;
        try {
          if (t[2] == "add") ret = (*pp + n).UNSAFE_unverified();
          else if (t[2] == "sub") ret = (*pp - n).UNSAFE_unverified();
          else if constexpr (std::is_class_v<T>) ret = (&((*pp)[n].a)).UNSAFE_unverified();
          else ret = (&(*pp)[n]).UNSAFE_unverified();
        } catch (...) { rlbox::verif_backend_hook = nullptr; throw; }
        rlbox::verif_backend_hook = nullptr;
        out = "OK ret=" + addr_s(ret) + " obj=" + std::to_string(addr);
      } else if (wrapk == "plain") {
        out = arith_forms<T, N>(t[2], addr, n);
      } else if constexpr (std::is_same_v<N, int> || std::is_same_v<N, unsigned long> ||
                           std::is_same_v<N, long> || std::is_same_v<N, unsigned int>) {
        if (wrapk == "tainted") {
          tainted_v<N> tn = n;
          out = arith_forms<T, tainted_v<N>>(t[2], addr, tn);
        } else {
          auto cell = sbA.malloc_in_sandbox<N>();
          *cell = n;  // may abort when n does not fit the guest type
          auto p = mkptr<T>(addr);
          const void* ret = nullptr;
          // wcell: the operand cell is rewritten (to n + 3) before any second read of it
          if (wrapk == "wcell") watch_begin<N>(cell.UNSAFE_unverified(), static_cast<N>(n + 3));
          try {
            if (t[2] == "add") ret = (p + *cell).UNSAFE_unverified();
            else if (t[2] == "radd") ret = (*cell + p).UNSAFE_unverified();
            else if (t[2] == "sub") ret = (p - *cell).UNSAFE_unverified();
            else if constexpr (std::is_class_v<T>) ret = (&(p[*cell].a)).UNSAFE_unverified();
            else ret = (&p[*cell]).UNSAFE_unverified();
          } catch (...) { watch_end(); throw; }
          watch_end();
          out = "OK ret=" + addr_s(ret) + " obj=" + addr_s((const void*)p.UNSAFE_unverified());
        }
      }
    });
  });
  return out;
}

// stride <ptee>  -> sizeof(tainted_volatile<T>) and distance between &p[0] and &p[1]
static std::string op_stride(const toks_t& t)
{
  std::string out = "HARNESS-ERROR stride";
  with_ptee(t[1], [&](auto pt) {
    using T = typename decltype(pt)::type;
    auto p = mkptr<T>(slot_base(0) + 4096);
    uintptr_t d;
    if constexpr (std::is_class_v<T>) d = reinterpret_cast<uintptr_t>((&(p[1].a)).UNSAFE_unverified()) - (slot_base(0) + 4096);
    else d = reinterpret_cast<uintptr_t>((&p[1]).UNSAFE_unverified()) - (slot_base(0) + 4096);
    out = "STRIDE " + std::to_string(sizeof(tvol_v<T>)) + " " + std::to_string(d);
  });
  return out;
}
#endif

// --------------------------------------------------------------------- C17
#ifdef PART_AIDX
template<typename El, size_t N, typename I>
static std::string aidx_one(const std::string& where, I n, const std::string& wrapk)
{
  if (where == "app") {
    tainted_v<El[N]> arr;
    auto start = reinterpret_cast<uintptr_t>(&arr);
    uintptr_t el;
    if (wrapk == "plain") el = reinterpret_cast<uintptr_t>(&arr[n]);
    else if (wrapk == "tainted") { tainted_v<I> tn = n; el = reinterpret_cast<uintptr_t>(&arr[tn]); }
    else {
      auto cell = sbA.malloc_in_sandbox<I>();
      *cell = n;
      if (wrapk.rfind("watch:", 0) == 0) watch_begin<I>(cell.UNSAFE_unverified(), parse_int<I>(wrapk.substr(6)));
      try { el = reinterpret_cast<uintptr_t>(&arr[*cell]); } catch (...) { watch_end(); throw; }
      watch_end();
    }
    return "OK off=" + std::to_string(el - start) + " elsz=" + std::to_string(sizeof(arr[0]));
  } else {
    auto parr = sbA.malloc_in_sandbox<El[N]>();
    auto start = reinterpret_cast<uintptr_t>(parr.UNSAFE_unverified());
    auto& varr = *parr;
    uintptr_t el;
    if (wrapk == "plain") el = reinterpret_cast<uintptr_t>((&varr[n]).UNSAFE_unverified());
    else if (wrapk == "tainted") { tainted_v<I> tn = n; el = reinterpret_cast<uintptr_t>((&varr[tn]).UNSAFE_unverified()); }
    else {
      // cell / watch:<evil>: the index is an integer in sandbox memory (table[hdr->idx]); with watch the sandbox rewrites it
      // to <evil> before any second read
      auto cell = sbA.malloc_in_sandbox<I>();
      *cell = n;
      if (wrapk.rfind("watch:", 0) == 0) watch_begin<I>(cell.UNSAFE_unverified(), parse_int<I>(wrapk.substr(6)));
      try { el = reinterpret_cast<uintptr_t>((&varr[*cell]).UNSAFE_unverified()); } catch (...) { watch_end(); throw; }
      watch_end();
    }
    return "OK off=" + std::to_string(el - start) + " elsz=" + std::to_string(sizeof(varr[0]));
  }
}

template<typename El, typename I>
static std::string aidx_len(const std::string& where, size_t len, I n, const std::string& wrapk)
{
  switch (len) {
    case 1: return aidx_one<El, 1, I>(where, n, wrapk);
    case 2: return aidx_one<El, 2, I>(where, n, wrapk);
    case 3: return aidx_one<El, 3, I>(where, n, wrapk);
    case 4: return aidx_one<El, 4, I>(where, n, wrapk);
    case 7: return aidx_one<El, 7, I>(where, n, wrapk);
    case 16: return aidx_one<El, 16, I>(where, n, wrapk);
    default: return "HARNESS-ERROR len";
  }
}

// aidx <app|sbx> <elk> <len> <ik> <n> [plain|tainted]
static std::string op_aidx(const toks_t& t)
{
  std::string out = "HARNESS-ERROR aidx";
  std::string wrapk = t.size() > 6 ? t[6] : "plain";
  auto go = [&](auto el) {
    using El = typename decltype(el)::type;
    with_idx_kind(t[4], [&](auto ik) {
      using I = typename decltype(ik)::type;
      out = aidx_len<El, I>(t[1], parse_u64(t[3]), parse_int<I>(t[5]), wrapk);
    });
  };
  if (t[2] == "char") go(tag<char>{});
  else if (t[2] == "short") go(tag<short>{});
  else if (t[2] == "int") go(tag<int>{});
  else if (t[2] == "long") go(tag<long>{});
  else if (t[2] == "ullong") go(tag<unsigned long long>{});
  else if (t[2] == "ptr") go(tag<int*>{});
  return out;
}

// aidx2 <app|sbx> <shape> <ik> <i> <j>   shapes: l23 = long[2][3], i32 = int[3][2], p24 = int*[2][4]
template<typename El, size_t A, size_t B, typename I>
static std::string aidx2_one(const std::string& where, I i, I j)
{
  if (where == "app") {
    tainted_v<El[A][B]> arr;
    auto start = reinterpret_cast<uintptr_t>(&arr);
    auto el = reinterpret_cast<uintptr_t>(&arr[i][j]);
    return "OK off=" + std::to_string(el - start);
  } else {
    auto parr = sbA.malloc_in_sandbox<El[A][B]>();
    auto start = reinterpret_cast<uintptr_t>(parr.UNSAFE_unverified());
    auto& varr = *parr;
    auto el = reinterpret_cast<uintptr_t>((&varr[i][j]).UNSAFE_unverified());
    return "OK off=" + std::to_string(el - start);
  }
}
static std::string op_aidx2(const toks_t& t)
{
  std::string out = "HARNESS-ERROR aidx2";
  with_idx_kind(t[3], [&](auto ik) {
    using I = typename decltype(ik)::type;
    if constexpr (sizeof(I) >= 4 || std::is_same_v<I, signed char> || std::is_same_v<I, unsigned char>) {
      I i = parse_int<I>(t[4]), j = parse_int<I>(t[5]);
      if (t[2] == "l23") out = aidx2_one<long, 2, 3, I>(t[1], i, j);
      else if (t[2] == "i32") out = aidx2_one<int, 3, 2, I>(t[1], i, j);
      else if (t[2] == "p24") out = aidx2_one<int*, 2, 4, I>(t[1], i, j);
    }
  });
  return out;
}
#endif

// --------------------------------------------------------------------- C10
#ifdef PART_BULK
// observation windows: first 128 KiB of sandbox A and B (64 KiB for verif16), last page of each, app buffer
struct window { uintptr_t start; size_t len; };
static std::vector<window> windows()
{
  std::vector<window> w;
  size_t head = Cfg::region_size < (size_t(1) << 17) ? Cfg::region_size : (size_t(1) << 17);
  for (int i = 0; i < 2; i++) {
    w.push_back({ slot_base(i), head });
    if (Cfg::region_size > head) w.push_back({ slot_base(i) + Cfg::region_size - 4096, 4096 });
  }
  w.push_back({ APP_BASE, APP_SIZE });
  return w;
}
static void fill_windows(unsigned char v)
{
  for (auto& w : windows()) std::memset(reinterpret_cast<void*>(w.start), v, w.len);
}
static std::string changed(unsigned char v, unsigned char vapp = 0x11)
{
  uintptr_t mn = 0, mx = 0; size_t cnt = 0;
  for (auto& w : windows()) {
    auto p = reinterpret_cast<unsigned char*>(w.start);
    unsigned char expect = (w.start == APP_BASE) ? vapp : v;
    for (size_t i = 0; i < w.len; i++) {
      if (p[i] != expect) { if (!cnt) mn = w.start + i; mx = w.start + i; cnt++; }
    }
  }
  if (!cnt) return "changed=none";
  return "changed=[" + std::to_string(mn) + "," + std::to_string(mx) + "]#" + std::to_string(cnt);
}

template<typename N>
static std::string bulk_ops(const toks_t& t, N n, const std::string& wrapk)
{
  uintptr_t dest = parse_u64(t[1]);
  auto pd = mkptr<char>(dest);
  fill_windows(0x11);
  if (t[0].rfind("memset", 0) == 0) {
    if (wrapk == "plain") rlbox::memset(sb(dest), pd, 0xEE, n);
    else { tainted_v<N> tn = n; rlbox::memset(sb(dest), pd, 0xEE, tn); }
    return "OK " + changed(0x11);
  }
  uintptr_t src = parse_u64(t[2]);
  bool src_in = rlbox::verif_region_of(reinterpret_cast<void*>(src)) != 0;
  if (t[0].rfind("memcpy", 0) == 0) {
    // source bytes differ from the fill so that the copy is visible
    if (src_in) {
      auto ps = mkptr<char>(src);
      if (wrapk == "plain") rlbox::memcpy(sb(dest), pd, ps, n);
      else { tainted_v<N> tn = n; rlbox::memcpy(sb(dest), pd, ps, tn); }
      return "OK";
    } else {
      std::memset(reinterpret_cast<void*>(APP_BASE), 0x22, APP_SIZE);
      const char* ps = reinterpret_cast<const char*>(src);
      if (wrapk == "plain") rlbox::memcpy(sb(dest), pd, ps, n);
      else { tainted_v<N> tn = n; rlbox::memcpy(sb(dest), pd, ps, tn); }
      return "OK " + changed(0x11, 0x22);
    }
  }
  if (t[0].rfind("memcmp", 0) == 0) {
    if (src_in) {
      auto ps = mkptr<char>(src);
      rlbox::memcmp(sb(dest), pd, ps, n);
    } else {
      const char* ps = reinterpret_cast<const char*>(src);
      rlbox::memcmp(sb(dest), pd, ps, n);
    }
    return "OK";
  }
  return "HARNESS-ERROR bulk";
}

template<typename El>
static std::string counted_ops(const toks_t& t)
{
  // <op> <start> <elk> <count>
  uintptr_t start = parse_u64(t[1]);
  size_t count = parse_u64(t[3]);
  auto p = mkptr<El>(start);
  if (t[0].rfind("vrange", 0) == 0) {
    uintptr_t r = p.copy_and_verify_buffer_address([](uintptr_t v) { return v; }, count);
    return "OK " + std::to_string(r);
  }
  if (t[0].rfind("usp", 0) == 0) {
    auto r = p.unverified_safe_pointer_because(count, "test");
    return "OK " + addr_s((const void*)r);
  }
  if (t[0].rfind("cvrange", 0) == 0) {
    bool isnull = false;
    p.copy_and_verify_range([&](std::unique_ptr<El[]> v) { isnull = (v == nullptr); return 0; }, count);
    return std::string("OK ") + (isnull ? "null" : "copied");
  }
  return "HARNESS-ERROR counted";
}

static std::string op_bulk(const toks_t& t)
{
  std::string out = "HARNESS-ERROR bulk";
  const std::string& op = t[0];
  if (op.rfind("memset", 0) == 0) {
    // memset <dest> <nk> <n> [wrap]
    with_idx_kind(t[2], [&](auto nk) {
      using N = typename decltype(nk)::type;
      out = bulk_ops<N>(t, parse_int<N>(t[3]), t.size() > 4 ? t[4] : "plain");
    });
  } else if (op.rfind("memcpy", 0) == 0 || op.rfind("memcmp", 0) == 0) {
    // memcpy <dest> <src> <nk> <n> [wrap]
    with_idx_kind(t[3], [&](auto nk) {
      using N = typename decltype(nk)::type;
      out = bulk_ops<N>(t, parse_int<N>(t[4]), t.size() > 5 ? t[5] : "plain");
    });
  } else if (op.rfind("vrange", 0) == 0 || op.rfind("usp", 0) == 0 || op.rfind("cvrange", 0) == 0) {
    if (t[2] == "char") out = counted_ops<char>(t);
    else if (t[2] == "short") out = counted_ops<short>(t);
    else if (t[2] == "int") out = counted_ops<int>(t);
    else if (t[2] == "long") out = counted_ops<long>(t);
    else if (t[2] == "llong") out = counted_ops<long long>(t);
#ifdef PTR_GRANT
  } else if (op.rfind("ggrant", 0) == 0) {
    // ggrant <src> <num> <back end succeeds 0/1> <address it answers with> <malloc-ret-rep>   (back end with grant/deny)
    uintptr_t src = parse_u64(t[1]);
    size_t num = parse_u64(t[2]);
    auto impl = sbA.get_sandbox_impl();
    impl->grant_succeeds = t[3] == "1"; impl->grant_answer = parse_u64(t[4]); impl->grant_calls = 0;
    impl->malloc_override = true;
    impl->malloc_override_val = static_cast<typename Cfg::rep_t>(parse_u64(t[5]));
    fill_windows(0x11);
    std::memset(reinterpret_cast<void*>(APP_BASE), 0x77, 4096);
    bool copied = false;
    std::string res;
    try {
      auto r = rlbox::copy_memory_or_grant_access(sbA, reinterpret_cast<char*>(src), num, false, copied);
      res = "OK " + addr_s((const void*)r.UNSAFE_unverified()) + (copied ? " copied" : "");
    } catch (const std::runtime_error& e) {
      if (std::strncmp(e.what(), "HARNESS", 7) == 0) throw;
      res = "ABORT";
    }
    impl->malloc_override = false;
    out = res + " asked=" + std::to_string(impl->grant_calls) + (impl->grant_calls ? ":" + std::to_string(impl->last_transfer_start) + ":" + std::to_string(impl->last_transfer_num) : "");
  } else if (op.rfind("gdeny", 0) == 0) {
    // gdeny <src> <num> <back end succeeds 0/1> <address it answers with>     (char buffers)
    uintptr_t src = parse_u64(t[1]);
    size_t num = parse_u64(t[2]);
    auto& sbx = sb(src ? src : slot_base(0));
    auto impl = sbx.get_sandbox_impl();
    impl->grant_succeeds = t[3] == "1"; impl->grant_answer = parse_u64(t[4]); impl->deny_calls = 0;
    bool copied = false;
    std::string res;
    try {
      auto ps = mkptr<char>(src);
      char* r = rlbox::copy_memory_or_deny_access(sbx, ps, num, false, copied);
      res = copied ? std::string("OK copy copied") : "OK " + std::to_string(reinterpret_cast<uintptr_t>(r));
      if (copied) free(r);
    } catch (const std::runtime_error& e) {
      if (std::strncmp(e.what(), "HARNESS", 7) == 0) throw;
      res = "ABORT";
    }
    out = res + " asked=" + std::to_string(impl->deny_calls) + (impl->deny_calls ? ":" + std::to_string(impl->last_transfer_start) + ":" + std::to_string(impl->last_transfer_num) : "");
#endif
  } else if (op.rfind("deny", 0) == 0) {
    // deny <src> <elk> <num>   (element kinds allowed by can_type_be_memcopied)
    uintptr_t src = parse_u64(t[1]);
    size_t num = parse_u64(t[3]);
    auto go = [&](auto tg) {
      using E = typename decltype(tg)::type;
      auto ps = mkptr<E>(src);
      bool copied = false;
      E* r = rlbox::copy_memory_or_deny_access(sb(src ? src : slot_base(0)), ps, num, false, copied);
      std::string o = std::string("OK ") + (r ? "copy" : "null") + (copied ? " copied" : "");
      free(r);
      return o;
    };
    if (t[2] == "char") out = go(tag<char>{});
    else if (t[2] == "short") out = go(tag<short>{});
    else if (t[2] == "float") out = go(tag<float>{});
    else if (t[2] == "double") out = go(tag<double>{});
    else out = "HARNESS-ERROR element kind";
  } else if (op.rfind("grant", 0) == 0) {
    // grant <src> <num> <malloc-ret-rep>
    uintptr_t src = parse_u64(t[1]);
    size_t num = parse_u64(t[2]);
    bool copied = false;
    sbA.get_sandbox_impl()->malloc_override = true;
    sbA.get_sandbox_impl()->malloc_override_val = static_cast<typename Cfg::rep_t>(parse_u64(t[3]));
    fill_windows(0x11);
    std::memset(reinterpret_cast<void*>(APP_BASE), 0x77, 4096);
    auto r = rlbox::copy_memory_or_grant_access(sbA, reinterpret_cast<char*>(src), num, false, copied);
    sbA.get_sandbox_impl()->malloc_override = false;
    out = "OK " + addr_s((const void*)r.UNSAFE_unverified()) + (copied ? " copied" : "");
  }
  return out;
}
#endif

// --------------------------------------------------------------------- C03 / C04
#ifdef PART_CHAIN
using rep_t = typename Cfg::rep_t;
static rep_t g_ret_rep = 0;        // what the guest returns / passes
static uintptr_t g_cb_seen = 0;    // address the callback received
static rep_t g_guest_seen = 0;     // representation the guest observed

// application prototypes (never defined) and their guest implementations
char* retp();
static rep_t guest_retp() { return g_ret_rep; }
void takep(char*);
static void guest_takep(rep_t r) { g_guest_seen = r; }
void callp(void (*)(char*));
static void guest_callp(rep_t cb) { Sbx::template guest_call_callback<void, rep_t>(cb, g_ret_rep); }
char* cbretp(char* (*)());
static rep_t guest_cbretp(rep_t cb) { g_guest_seen = Sbx::template guest_call_callback<rep_t>(cb); return 0; }

static void app_cb_takes_ptr(sandbox_t&, tainted_v<char*> p)
{
  g_cb_seen = reinterpret_cast<uintptr_t>(p.UNSAFE_unverified());
}
static uintptr_t g_cb_ret_addr = 0;
static tainted_v<char*> app_cb_returns_ptr(sandbox_t& s)
{
  tainted_v<char*> r = nullptr;
  if (g_cb_ret_addr) r.assign_raw_pointer(s, reinterpret_cast<char*>(g_cb_ret_addr));
  return r;
}

static bool committed(uintptr_t a, size_t n)
{
  for (int i = 0; i < 2; i++) {
    uintptr_t b = slot_base(i);
    if (a + n < a) continue;   // the range wraps the address space
    if (a >= b && a + n <= b + Cfg::committed - 2 * 4096) return true;
    if (a >= b + Cfg::region_size - 4096 && a + n <= b + Cfg::region_size) return true;
  }
  return false;
}

struct uncommitted {};

// chain <start> <op>...
static std::string op_chain(const toks_t& t)
{
  uintptr_t start = parse_u64(t[1]);
  tainted_v<char*> p = mkptr<char>(start);
  for (size_t k = 2; k < t.size(); k++) {
    toks_t o = split(t[k], ':');
    const std::string& c = o[0];
    if (c == "a" || c == "i") {
      bool sub = (c == "a" && o[1] == "1");
      long long n = parse_i64(c == "a" ? o[2] : o[1]);
      const std::string& pt = (c == "a" ? o[3] : o[2]);
      bool isidx = (c == "i");
      with_ptee(pt, [&](auto tg) {
        using T = typename decltype(tg)::type;
        if constexpr (std::is_const_v<T>) {
          throw std::runtime_error("HARNESS const pointee in a chain");    // (const pointees are driven by the arithmetic part only)
        } else {
          auto q = rlbox::sandbox_reinterpret_cast<T*>(p);
          if (isidx) {
            if constexpr (std::is_class_v<T>) q = rlbox::sandbox_reinterpret_cast<T*>(&(q[n].a));
            else q = rlbox::sandbox_reinterpret_cast<T*>(&q[n]);
          } else if (sub) q = q - n;
          else if (o[1] == "2") q = n + q;      // number first
          else q = q + n;
          p = rlbox::sandbox_reinterpret_cast<char*>(q);
        }
      });
    } else if (c == "pp" || c == "mm") {
      // ++q / --q on a tainted pointer to <pt>
      with_ptee(o[1], [&](auto tg) {
        using T = typename decltype(tg)::type;
        if constexpr (std::is_const_v<T>) {
          throw std::runtime_error("HARNESS const pointee in a chain");
        } else {
          auto q = rlbox::sandbox_reinterpret_cast<T*>(p);
          if (c == "pp") ++q; else --q;
          p = rlbox::sandbox_reinterpret_cast<char*>(q);
        }
      });
    } else if (c == "f") {
      auto q = rlbox::sandbox_reinterpret_cast<PS*>(p);
      if (o[1] == "a") p = rlbox::sandbox_reinterpret_cast<char*>(&(q->a));
      else if (o[1] == "b") p = rlbox::sandbox_reinterpret_cast<char*>(&(q->b));
      else if (o[1] == "c") p = rlbox::sandbox_reinterpret_cast<char*>(&(q->c));
      else if (o[1] == "d") p = rlbox::sandbox_reinterpret_cast<char*>(&(q->d));
      else p = rlbox::sandbox_reinterpret_cast<char*>(&(q->e));
    } else if (c == "e") {
      auto q = rlbox::sandbox_reinterpret_cast<int(*)[4]>(p);
      p = rlbox::sandbox_reinterpret_cast<char*>(&((*q)[parse_u64(o[1])]));
    } else if (c == "c") {
      auto op = p.to_opaque();
      auto q = rlbox::sandbox_reinterpret_cast<long*>(rlbox::from_opaque(op));
      auto q2 = rlbox::sandbox_const_cast<const long*>(q);
      tvol_v<const long>& ref = *q2;
      p = rlbox::sandbox_const_cast<char*>(rlbox::sandbox_reinterpret_cast<const char*>(&ref));
    } else if (c == "l") {
      // the adversarial guest stores the bits <rep> in the pointer cell p designates
      rep_t rep = static_cast<rep_t>(parse_u64(o[1]));
      auto a = reinterpret_cast<uintptr_t>(p.UNSAFE_unverified());
      if (a != 0) {
        if (!committed(a, sizeof(rep_t))) throw uncommitted{};
        std::memcpy(reinterpret_cast<void*>(a), &rep, sizeof(rep));
      }
      auto pp = rlbox::sandbox_reinterpret_cast<char**>(p);
      tainted_v<char*> q = *pp;
      p = q;
    } else if (c == "lc") {
      // as "l", but the cell is consumed by a sandbox cast applied DIRECTLY to the tainted_volatile cell (no tainted copy first)
      rep_t rep = static_cast<rep_t>(parse_u64(o[1]));
      auto a = reinterpret_cast<uintptr_t>(p.UNSAFE_unverified());
      if (a != 0) {
        if (!committed(a, sizeof(rep_t))) throw uncommitted{};
        std::memcpy(reinterpret_cast<void*>(a), &rep, sizeof(rep));
      }
      auto pp = rlbox::sandbox_reinterpret_cast<char**>(p);
      if (o[2] == "r") p = rlbox::sandbox_reinterpret_cast<char*>(rlbox::sandbox_reinterpret_cast<long*>(*pp));
      else if (o[2] == "c") p = rlbox::sandbox_const_cast<char*>(rlbox::sandbox_const_cast<const char*>(*pp));
      else p = rlbox::sandbox_reinterpret_cast<char*>(rlbox::sandbox_static_cast<void*>(*pp));
    } else if (c == "g") {
      g_ret_rep = static_cast<rep_t>(parse_u64(o[1]));
      p = sbA.invoke_sandbox_function(retp);
    } else if (c == "cb") {
      g_ret_rep = static_cast<rep_t>(parse_u64(o[1]));
      auto cb = sbA.register_callback(app_cb_takes_ptr);
      sbA.invoke_sandbox_function(callp, cb);
      p = mkptr<char>(0);
      // the callback's tainted argument, re-wrapped (its address was recorded)
      if (g_cb_seen) {
        // bypass the membership check on purpose: we report what the callback saw
        return "OK " + std::to_string(g_cb_seen);
      }
    } else if (c == "m") {
      auto impl = sbA.get_sandbox_impl();
      impl->malloc_override = true;
      impl->malloc_override_val = static_cast<rep_t>(parse_u64(o[3]));
      uint32_t count = static_cast<uint32_t>(parse_u64(o[1]));
      if (o[2] == "char") p = sbA.malloc_in_sandbox<char>(count);
      else if (o[2] == "int") p = rlbox::sandbox_reinterpret_cast<char*>(sbA.malloc_in_sandbox<int>(count));
      else p = rlbox::sandbox_reinterpret_cast<char*>(sbA.malloc_in_sandbox<PS>(count));
      impl->malloc_override = false;
    } else if (c == "r") {
      p.assign_raw_pointer(sbA, reinterpret_cast<char*>(parse_u64(o[1])));
    } else if (c == "u") {
      p = sbA.UNSAFE_accept_pointer(reinterpret_cast<char*>(parse_u64(o[1])));
    } else if (c == "n") {
      p = nullptr;
    } else {
      return "HARNESS-ERROR chain op " + c;
    }
  }
  return "OK " + addr_s((const void*)p.UNSAFE_unverified());
}

// xlate <path> <dir> <value> [<cell/example address>]
static std::string op_xlate(const toks_t& t)
{
  const std::string& path = t[1];
  bool toapp = (t[2] == "toapp");
  uint64_t v = parse_u64(t[3]);
  uintptr_t ex = t.size() > 4 ? parse_u64(t[4]) : 0;
  sandbox_t& s = ex ? sb(ex) : sbA;
  if (path == "ctx") {
    if (toapp) return "OK " + addr_s((const void*)s.template get_unsandboxed_pointer<char*>(static_cast<rep_t>(v)));
    return "OK " + std::to_string(s.template get_sandboxed_pointer<char*>(reinterpret_cast<const void*>(v)));
  }
  if (path == "noctx") {
    if (toapp) return "OK " + addr_s((const void*)sandbox_t::template get_unsandboxed_pointer_no_ctx<char*>(static_cast<rep_t>(v), reinterpret_cast<const void*>(ex)));
    return "OK " + std::to_string(sandbox_t::template get_sandboxed_pointer_no_ctx<char*>(reinterpret_cast<const void*>(v), reinterpret_cast<const void*>(ex)));
  }
  if (path == "cell" || path == "arr" || path == "field") {
    // the cell lives at address ex (in sandbox A or B)
    if (!committed(ex, 64)) throw uncommitted{};
    uintptr_t celladdr = ex;
    if (path == "cell") {
      auto pp = mkptr<char*>(ex);
      if (toapp) {
        rep_t rep = static_cast<rep_t>(v);
        std::memcpy(reinterpret_cast<void*>(celladdr), &rep, sizeof(rep));
        tainted_v<char*> q = *pp;
        return "OK " + addr_s((const void*)q.UNSAFE_unverified());
      }
      tainted_v<char*> q = nullptr;
      if (v) q = mkptr<char>(v);
      std::memset(reinterpret_cast<void*>(celladdr), 0xAB, 16);
      *pp = q;
      rep_t rep; std::memcpy(&rep, reinterpret_cast<void*>(celladdr), sizeof(rep));
      return "OK " + std::to_string(rep);
    }
    if (path == "arr") {
      auto pa = mkptr<char*[3]>(ex);
      celladdr = ex + 2 * sizeof(rep_t);   // element 2
      if (toapp) {
        rep_t rep = static_cast<rep_t>(v);
        std::memset(reinterpret_cast<void*>(ex), 0, 3 * sizeof(rep_t));
        std::memcpy(reinterpret_cast<void*>(celladdr), &rep, sizeof(rep));
        tainted_v<char*[3]> arr = *pa;
        return "OK " + addr_s((const void*)arr[2].UNSAFE_unverified()) + " e0=" + addr_s((const void*)arr[0].UNSAFE_unverified());
      }
      tainted_v<char*[3]> arr;
      arr[0] = nullptr; arr[1] = nullptr; arr[2] = nullptr;
      if (v) arr[2] = mkptr<char>(v);
      std::memset(reinterpret_cast<void*>(ex), 0xAB, 32);
      *pa = arr;
      rep_t reps[3]; std::memcpy(reps, reinterpret_cast<void*>(ex), sizeof(reps));
      return "OK " + std::to_string(reps[2]) + " e0=" + std::to_string(reps[0]);
    }
    // struct field PS::e
    auto ps = mkptr<PS>(ex);
    celladdr = ex + 24;
    if (toapp) {
      rep_t rep = static_cast<rep_t>(v);
      std::memset(reinterpret_cast<void*>(ex), 0, 32);
      std::memcpy(reinterpret_cast<void*>(celladdr), &rep, sizeof(rep));
      tainted_v<PS> whole = *ps;
      tainted_v<int*> viafield = ps->e;
      return "OK " + addr_s((const void*)whole.e.UNSAFE_unverified()) + " field=" + addr_s((const void*)viafield.UNSAFE_unverified());
    }
    tainted_v<PS> whole;
    whole.a = 1; whole.b = 2; whole.c = 3; whole.d = 4; whole.e = nullptr;
    if (v) whole.e = mkptr<int>(v);
    std::memset(reinterpret_cast<void*>(ex), 0xAB, 32);
    *ps = whole;
    rep_t rep; std::memcpy(&rep, reinterpret_cast<void*>(celladdr), sizeof(rep));
    return "OK " + std::to_string(rep);
  }
  if (path == "malloc") {
    // the allocator's answer (a representation the back end returns) converted by malloc_in_sandbox: 0 is a failed allocation
    auto impl = sbA.get_sandbox_impl();
    impl->malloc_override = true;
    impl->malloc_override_val = static_cast<rep_t>(v);
    const void* r = nullptr;
    try { r = sbA.malloc_in_sandbox<char>(1).UNSAFE_unverified(); } catch (...) { impl->malloc_override = false; throw; }
    impl->malloc_override = false;
    return "OK " + addr_s(r);
  }
  if (path == "ret") { g_ret_rep = static_cast<rep_t>(v); auto r = sbA.invoke_sandbox_function(retp); return "OK " + addr_s((const void*)r.UNSAFE_unverified()); }
  if (path == "arg") { auto q = mkptr<char>(v); g_guest_seen = 0xDEAD; sbA.invoke_sandbox_function(takep, q); return "OK " + std::to_string(g_guest_seen); }
  if (path == "argnull") { g_guest_seen = 0xDEAD; sbA.invoke_sandbox_function(takep, nullptr); return "OK " + std::to_string(g_guest_seen); }
  if (path == "cbarg") {
    g_ret_rep = static_cast<rep_t>(v); g_cb_seen = 0xDEAD;
    auto cb = sbA.register_callback(app_cb_takes_ptr);
    sbA.invoke_sandbox_function(callp, cb);
    return "OK " + std::to_string(g_cb_seen);
  }
  if (path == "cbret") {
    g_cb_ret_addr = v; g_guest_seen = 0xDEAD;
    auto cb = sbA.register_callback(app_cb_returns_ptr);
    sbA.invoke_sandbox_function(cbretp, cb);
    return "OK " + std::to_string(g_guest_seen);
  }
  if (path == "free") {
    auto q = mkptr<char>(v);
    auto impl = sbA.get_sandbox_impl();
    impl->freed.clear();
    sbA.free_in_sandbox(q);
    return "OK " + (impl->freed.empty() ? std::string("nofree") : std::to_string(impl->freed[0]));
  }
  return "HARNESS-ERROR xlate";
}

// rawptr <tainted|tvol|accept> <addr>   (C02 run-time half)
// a refused request is reported together with what the target holds afterwards (the refusal surfaces as an
// exception in this configuration: a raw address must not have been stored by then)
static void rawptr_app_function() {}
static bool is_harness_error(const std::runtime_error& e) { return std::strncmp(e.what(), "HARNESS", 7) == 0; }
static std::string op_rawptr(const toks_t& t)
{
  uintptr_t a = parse_u64(t[2]);
  if (t[1] == "tainted") {
    tainted_v<char*> p = nullptr;
    try {
      p.assign_raw_pointer(sbA, reinterpret_cast<char*>(a));
    } catch (const std::runtime_error& e) {
      if (is_harness_error(e)) throw;
      return "ABORT held=" + addr_s((const void*)p.UNSAFE_unverified());
    }
    return "OK " + addr_s((const void*)p.UNSAFE_unverified());
  }
  if (t[1] == "accept") {
    auto p = sbA.UNSAFE_accept_pointer(reinterpret_cast<char*>(a));
    return "OK " + addr_s((const void*)p.UNSAFE_unverified());
  }
  if (t[1] == "acceptfn" || t[1] == "taintedfn") {
    // the same two entry points with a FUNCTION pointer type; address 1 stands for the address of an application function
    using fn_t = void (*)();
    fn_t f = a == 1 ? &rawptr_app_function : reinterpret_cast<fn_t>(a);
    tainted_v<fn_t> p = nullptr;
    try {
      if (t[1] == "acceptfn") p = sbA.UNSAFE_accept_pointer(f); else p.assign_raw_pointer(sbA, f);
    } catch (const std::runtime_error& e) {
      if (is_harness_error(e)) throw;
      return std::string("ABORT held=") + (p.UNSAFE_unverified() == nullptr ? "0" : "nonnull");
    }
    return "OK " + (a == 1 ? std::string("appfn") : addr_s(reinterpret_cast<const void*>(p.UNSAFE_unverified())));
  }
  auto pp = sbA.malloc_in_sandbox<char*>();
  auto cell = reinterpret_cast<uintptr_t>(pp.UNSAFE_unverified());
  std::memset(reinterpret_cast<void*>(cell), 0xAB, 16);
  rep_t before; std::memcpy(&before, reinterpret_cast<void*>(cell), sizeof(before));
  try {
    (*pp).assign_raw_pointer(sbA, reinterpret_cast<char*>(a));
  } catch (const std::runtime_error& e) {
    if (is_harness_error(e)) throw;
    rep_t after; std::memcpy(&after, reinterpret_cast<void*>(cell), sizeof(after));
    return std::string("ABORT held=") + (after == before ? "unchanged" : std::to_string(after));
  }
  rep_t rep; std::memcpy(&rep, reinterpret_cast<void*>(cell), sizeof(rep));
  return "OK " + std::to_string(rep);
}
#endif

static std::string run_case(const toks_t& t)
{
  if (t.empty()) return "HARNESS-ERROR empty";
  sbA.get_sandbox_impl()->bump = 16;
  sbB.get_sandbox_impl()->bump = 16;
  const std::string& op = t[0];
#ifdef PART_ARITH
  if (op.rfind("arith", 0) == 0) return op_arith(t);
  if (op.rfind("stride", 0) == 0) return op_stride(t);
#endif
#ifdef PART_AIDX
  if (op.rfind("aidx2", 0) == 0) return op_aidx2(t);
  if (op.rfind("aidx", 0) == 0) return op_aidx(t);
#endif
#ifdef PART_BULK
  return op_bulk(t);
#endif
#ifdef PART_CHAIN
  try {
    if (op.rfind("chain", 0) == 0) return op_chain(t);
    if (op.rfind("xlate", 0) == 0) return op_xlate(t);
    if (op.rfind("rawptr", 0) == 0) return op_rawptr(t);
  } catch (const uncommitted&) {
    return "UNCOMMITTED";
  }
#endif
  return "HARNESS-ERROR op";
}

int main(int argc, char** argv)
{
  setup();
  return case_loop(argc, argv, run_case);
}

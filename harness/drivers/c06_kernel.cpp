// C06 kernel driver: rlbox::detail::convert_type_fundamental(_or_array) on every
// ordered pair of integer types.
#define RLBOX_USE_EXCEPTIONS
#define RLBOX_SINGLE_THREADED_INVOCATIONS
#include "rlbox.hpp"
#include "rlbox_noop_sandbox.hpp"
#include "common.hpp"

using namespace vh;

template<typename To, typename From>
static std::string do_conv(const std::string& v)
{
  From from = parse_int<From>(v);
  To to{};
  rlbox::detail::convert_type_fundamental(to, from);
  return "OK " + show_int(to);
}

template<typename To, typename From, size_t N>
static std::string do_conva_n(const std::vector<From>& vs)
{
  From from[N];
  To to[N];
  for (size_t i = 0; i < N; i++) { from[i] = vs[i]; to[i] = To{}; }
  rlbox::detail::convert_type_fundamental_or_array(to, from);
  std::string out = "OK ";
  for (size_t i = 0; i < N; i++) { if (i) out += ","; out += show_int(to[i]); }
  return out;
}

template<typename To, typename From>
static std::string do_conva(const std::string& s)
{
  auto vs = parse_list<From>(s);
  switch (vs.size()) {
    case 1: return do_conva_n<To, From, 1>(vs);
    case 2: return do_conva_n<To, From, 2>(vs);
    case 3: return do_conva_n<To, From, 3>(vs);
    case 4: return do_conva_n<To, From, 4>(vs);
    default: throw std::runtime_error("HARNESS bad array length");
  }
}

// exhaustive sweep of a source range, summarised as maximal runs of
// "OK and value preserved"; anything else is listed explicitly (first 5).
static bool g_abort_flag = false;
template<typename To, typename From>
static std::string do_sweep(const std::string& los, const std::string& his)
{
  long long lo = parse_i64(los), hi = parse_i64(his);
  std::string runs, bad;
  long long run_start = 0; bool in_run = false; long nbad = 0, naborts = 0;
  for (long long x = lo; ; x++) {
    From from = static_cast<From>(x);
    To to{};
    bool ok = true;
    try { rlbox::detail::convert_type_fundamental(to, from); } catch (const std::runtime_error&) { ok = false; }
    bool same = ok && (static_cast<__int128>(to) == static_cast<__int128>(from)) &&
                ((to < To{}) == (from < From{}));
    if (ok && !same) { if (nbad++ < 5) bad += " BAD(" + show_int(from) + "->" + show_int(to) + ")"; }
    if (!ok) naborts++;
    if (same && !in_run) { run_start = x; in_run = true; }
    if (!same && in_run) { runs += " [" + std::to_string(run_start) + "," + std::to_string(x - 1) + "]"; in_run = false; }
    if (x == hi) break;
  }
  if (in_run) runs += " [" + std::to_string(run_start) + "," + std::to_string(hi) + "]";
  return "SWEEP ok=" + (runs.empty() ? std::string(" none") : runs) + " aborts=" + std::to_string(naborts) + " changed=" + std::to_string(nbad) + bad;
}

static std::string run_case(const toks_t& t)
{
  std::string out = "HARNESS-ERROR unknown op";
  if (t.size() == 4 && (t[0] == "conv" || t[0] == "conva")) {
    bool ok = with_kind(t[1], [&](auto to_tag) {
      using To = typename decltype(to_tag)::type;
      with_kind(t[2], [&](auto from_tag) {
        using From = typename decltype(from_tag)::type;
#ifdef OP_CONV
        if (t[0] == "conv") out = do_conv<To, From>(t[3]);
#endif
#ifdef OP_CONVA
        if (t[0] == "conva") out = do_conva<To, From>(t[3]);
#endif
      });
    });
    if (!ok) out = "HARNESS-ERROR bad kind";
  } else if (t.size() == 5 && t[0] == "convsweep") {
    with_kind(t[1], [&](auto to_tag) {
      using To = typename decltype(to_tag)::type;
      with_kind(t[2], [&](auto from_tag) {
        using From = typename decltype(from_tag)::type;
#ifdef OP_SWEEP
        out = do_sweep<To, From>(t[3], t[4]);
#endif
      });
    });
  }
  return out;
}

int main(int argc, char** argv) { return case_loop(argc, argv, run_case); }

// sx.cpp — rlbox::detail::scope_exit under histories of move construction, release and destruction (C19).
//   sx <op>...   ops: m:j (new object move-constructed from object j), r:j (release), d:j (destroy)
// Objects are numbered in creation order; object 0 is make_scope_exit(f).  Operations on destroyed or
// non-existent objects are skipped.  Reports how often the exit function ran after the history and after
// destroying every remaining object.
#define RLBOX_USE_EXCEPTIONS
#define RLBOX_SINGLE_THREADED_INVOCATIONS
#include "rlbox.hpp"
#include "common.hpp"
#include <memory>
using namespace vh;
struct Inc { int* c; void operator()() { ++*c; } };
using guard_t = rlbox::detail::scope_exit<Inc>;

static std::string run_case(const toks_t& t)
{
  int fired = 0;
  std::vector<guard_t*> objs;
  objs.push_back(new guard_t(rlbox::detail::make_scope_exit(Inc{ &fired })));
  for (size_t i = 1; i < t.size(); i++) {
    toks_t o = split(t[i], ':');
    size_t j = std::stoul(o.at(1));
    if (j >= objs.size() || objs[j] == nullptr) continue;
    if (o[0] == "m") objs.push_back(new guard_t(std::move(*objs[j])));
    else if (o[0] == "r") objs[j]->release();
    else if (o[0] == "d") { delete objs[j]; objs[j] = nullptr; }
    else throw std::runtime_error("HARNESS bad op");
  }
  std::string out = "fired=" + std::to_string(fired);
  for (auto& p : objs) { delete p; p = nullptr; }
  return out + " final=" + std::to_string(fired);
}
int main(int argc, char** argv) { return case_loop(argc, argv, run_case); }
